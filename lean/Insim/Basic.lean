def hello := "world"
