import Insim.Props.C01
/-
C03 — every successfully encoded frame is a single well-formed frame.
-/
namespace Insim.Props.C03
open Insim Insim.Layout Insim.Frame

/-- **the size byte is sound**: whenever `encode_length` answers, the length is within the mode's
bounds, the size byte announces exactly that length (no wrap: it fits a byte), and in compressed mode
the length is a multiple of 4 -/
theorem size_byte_sound (m : Mode) (len n : Nat) (h : encodeLength m len = .ok n) :
    4 ≤ len ∧ len ≤ m.maxLen ∧ m.announced n = len ∧ n < 256 ∧ (m.compressed = true → len % 4 = 0) := by
  obtain ⟨h4, hmax, ha⟩ := C01.encodeLength_ok m len n h
  refine ⟨h4, hmax, ha, ?_, ?_⟩
  · cases m with
    | mk c => cases c <;> simp only [Mode.maxLen, Mode.announced] at hmax ha <;> simp at hmax ha <;> omega
  · intro hc
    cases m with
    | mk c =>
      cases c
      · cases hc
      · simp only [Mode.announced] at ha; simp at ha; omega

/-- **refused loudly**: a length that is too small, too large, or (compressed) not a multiple of 4
is never given a size byte — the encoder aborts instead of emitting a wrong or wrapped one -/
theorem refusal (m : Mode) (len : Nat) (h : len < 4 ∨ m.maxLen < len ∨ (m.compressed = true ∧ len % 4 ≠ 0)) :
    encodeLength m len = .panic := by
  cases hr : encodeLength m len with
  | panic => rfl
  | err e =>
    unfold encodeLength at hr
    repeat' split at hr
    all_goals cases hr
  | ok n =>
    obtain ⟨h4, hmax, _, _, hc⟩ := size_byte_sound m len n hr
    rcases h with h | h | ⟨h1, h2⟩
    · omega
    · omega
    · exact absurd (hc h1) h2

/-! ### every kind's frame length is a multiple of 4, whatever the values -/

/-- bytes a hand-written field codec writes: always its wire size (for the regenerated tables) -/
theorem customEnc_length (c : CustomId) (vs : List Val) (bs : Bytes) (h : customEnc genEnv c vs = .ok bs) :
    bs.length = wireSize (.custom c) := by
  cases c with
  | vehicle =>
    simp only [customEnc] at h
    cases hv : vehOfVals vs with
    | none => simp [hv] at h
    | some v =>
      simp only [hv] at h
      cases v with
      | builtin nm =>
        simp only [Vehicle.encode] at h
        have hrows : genEnv.vehWrite.all (fun r => r.2.length == 4) = true := by decide +kernel
        cases hl : List.lookup nm genEnv.vehWrite with
        | none => simp [hl] at h
        | some b =>
          simp only [hl] at h; injection h with h; subst h
          have := List.all_eq_true.mp hrows _ (lookup_some_mem hl)
          simpa [wireSize] using this
      | mod id => simp only [Vehicle.encode] at h; injection h with h; subst h; simp [wireSize]
      | unknown => simp only [Vehicle.encode] at h; injection h with h; subst h; rfl
  | track =>
    match vs, h with
    | [.n t], h =>
      simp only [customEnc, Track.encode] at h
      have hrows : genEnv.trkWrite.all (fun r => r.2.length == 6) = true := by decide +kernel
      cases hl : lookupN t genEnv.trkWrite with
      | none => simp [hl] at h
      | some b =>
        simp only [hl] at h; injection h with h; subst h
        have := List.all_eq_true.mp hrows _ (lookupN_some_mem hl)
        simpa [wireSize] using this
  | raceLaps => match vs, h with
    | [.n k, .n x], h => simp only [customEnc] at h; injection h with h; subst h; rfl
  | fuel => match vs, h with
    | [.n k, .n x], h => simp only [customEnc] at h; injection h with h; subst h; rfl
  | fuel200 => match vs, h with
    | [.n k, .n x], h => simp only [customEnc] at h; injection h with h; subst h; rfl
  | cimMode => match vs, h with
    | [.n a, .n b, .n c], h => simp only [customEnc] at h; injection h with h; subst h; rfl
  | conInfo => match vs, h with
    | [.n _, .n _, .n _, .n _, .n _, .n _, .n _, .n _, .n _, .n _, .n _, .n _, .n _, .n _, .n _], h =>
      simp only [customEnc] at h
      split at h
      · cases h
      · injection h with h; subst h; simp [wireSize]
  | smallType => match vs, h with
    | [.n d, .n v], h =>
      simp only [customEnc] at h
      split at h
      · simp only [Dur.smallWriteVal] at h; split at h <;> (first | (injection h with h; subst h; simp [wireSize]) | cases h)
      · split at h
        · simp only [Dur.smallWriteVal] at h; split at h <;> (first | (injection h with h; subst h; simp [wireSize]) | cases h)
        · injection h with h; subst h; simp [wireSize]
  | gameVersion => match vs, h with
    | [.b maj, .n minor, .n patch], h =>
      simp only [customEnc] at h; injection h with h; subst h
      simp [wireSize]; omega

/-- writer-side width of a field type -/
def wTy : Ty → Nat
  | .dur _ _ ww _ => ww
  | .str _ wn _ _ _ => wn
  | ty => wireSize ty

/-- writer-side size of one field (pads included) -/
def wSize (f : Field) : Nat := f.wb + wTy f.ty + f.wa

def fieldsWSize : List Field → Nat
  | [] => 0
  | f :: fs => wSize f + fieldsWSize fs

/-- fixed texts must not be 4-aligned variable texts for the size to be constant -/
def fixedStr : Ty → Bool
  | .str _ _ _ _ align => decide (align ≤ 1)
  | _ => true

theorem encTy_length (ty : Ty) (cnt : Nat) (vs : List Val) (bs : Bytes) (hf : fixedStr ty = true)
    (h : encTy genEnv ty cnt vs = .ok bs) :
    bs.length = wTy ty := by
  cases ty with
  | custom c => simp only [encTy] at h; exact customEnc_length c vs bs h
  | count w s => simp only [encTy] at h; injection h with h; subst h; simp [wTy, wireSize]
  | dur rw rs ww ws =>
    match vs, h with
    | [.n ms], h =>
      simp only [encTy] at h
      cases hw : Dur.writeDur ww ws ms <;> simp [hw] at h
      subst h; simp [wTy]
  | str rn wn rraw wraw align =>
    match vs, h with
    | [.b e], h =>
      simp only [fixedStr, decide_eq_true_eq] at hf
      have ha : ¬ (align > 1) := by omega
      simp only [encTy, writeStr, ha, if_false] at h
      injection h with h; subst h
      simp [wTy]; omega
  | uint w => match vs, h with
    | [.n v], h => simp only [encTy] at h; injection h with h; subst h; simp [wTy, wireSize]
  | sint w => match vs, h with
    | [.n v], h => simp only [encTy] at h; injection h with h; subst h; simp [wTy, wireSize]
  | f32 => match vs, h with
    | [.n v], h => simp only [encTy] at h; injection h with h; subst h; simp [wTy, wireSize]
  | bool8 => match vs, h with
    | [.n v], h => simp only [encTy] at h; injection h with h; subst h; simp [wTy, wireSize]
  | char8 => match vs, h with
    | [.n v], h => simp only [encTy] at h; injection h with h; subst h; simp [wTy, wireSize]
  | spclose => match vs, h with
    | [.n v], h => simp only [encTy] at h; injection h with h; subst h; simp [wTy, wireSize]
  | enumU8 vals => match vs, h with
    | [.n v], h => simp only [encTy] at h; injection h with h; subst h; simp [wTy, wireSize]
  | flags w mk => match vs, h with
    | [.n v], h => simp only [encTy] at h; injection h with h; subst h; simp [wTy, wireSize]

theorem encFields_length (cnt : Nat) (fields : List Field) (hfx : ∀ f ∈ fields, fixedStr f.ty = true) :
    ∀ (vs : List Val) (bs : Bytes), encFields genEnv cnt fields vs = .ok bs → bs.length = fieldsWSize fields := by
  induction fields with
  | nil =>
    intro vs bs h
    cases vs with
    | nil => simp only [encFields] at h; injection h with h; subst h; rfl
    | cons _ _ => simp [encFields] at h
  | cons f fs ih =>
    intro vs bs h
    simp only [encFields] at h
    split at h
    · cases h1 : encTy genEnv f.ty cnt (vs.take (arity f.ty)) with
      | err e => simp [h1] at h
      | panic => simp [h1] at h
      | ok b1 =>
        simp only [h1] at h
        cases h2 : encFields genEnv cnt fs (vs.drop (arity f.ty)) with
        | err e => simp [h2] at h
        | panic => simp [h2] at h
        | ok b2 =>
          simp only [h2] at h
          injection h with h; subst h
          have l1 := encTy_length f.ty cnt _ b1 (hfx f (by simp)) h1
          have l2 := ih (fun g hg => hfx g (by simp [hg])) _ b2 h2
          simp only [List.length_append, List.length_replicate, l1, l2, fieldsWSize, wSize]
    · cases h

/-- the static size table of the regenerated layouts: fixed part ≡ 2 (mod 4) so that size byte + type
byte + body is a multiple of 4; vector elements are a multiple of 4 long, or 2 (mod 4) with a
2-byte spare after an odd count; fixed-width texts are not alignment-padded -/
def sizeOk (L : Layout) : Bool :=
  L.customBody ||
  (L.fields.all (fun f => fixedStr f.ty) && (2 + fieldsWSize L.fields) % 4 == 0 &&
   (match L.tail with
    | .none => true
    | .vec elt _ oddW => elt.all (fun f => fixedStr f.ty) &&
        ((fieldsWSize elt % 4 == 0 && oddW == 0) || (fieldsWSize elt % 4 == 2 && oddW == 2))
    | .set _ => true
    | .strEof wn _ _ align => align == 4 && wn % 4 == 0))

theorem all_sizes_ok : Gen.Packets.all.all sizeOk = true := by decide +kernel

theorem encElems_length (elt : List Field) (hfx : ∀ f ∈ elt, fixedStr f.ty = true) (es : List (List Val)) (bs : Bytes)
    (h : encElems genEnv elt es = .ok bs) : bs.length = es.length * fieldsWSize elt := by
  induction es generalizing bs with
  | nil => simp only [encElems] at h; injection h with h; subst h; simp
  | cons e es ih =>
    simp only [encElems] at h
    cases h1 : encFields genEnv 0 elt e with
    | err x => simp [h1] at h
    | panic => simp [h1] at h
    | ok b1 =>
      simp only [h1] at h
      cases h2 : encElems genEnv elt es with
      | err x => simp [h2] at h
      | panic => simp [h2] at h
      | ok b2 =>
        simp only [h2] at h
        injection h with h; subst h
        have l1 := encFields_length 0 elt hfx e b1 h1
        have l2 := ih b2 h2
        simp only [List.length_append, List.length_cons, l1, l2]
        rw [Nat.add_mul]; omega

theorem flatMap_le4_length (xs : List Nat) : (xs.flatMap (leBytes 4)).length = 4 * xs.length := by
  induction xs with
  | nil => rfl
  | cons x xs ih => rw [List.flatMap_cons, List.length_append, leBytes_length, ih, List.length_cons]; omega

theorem writeStr_aligned_len (wn : Nat) (e : Bytes) (hw : wn % 4 = 0) : (writeStr wn 4 e).length % 4 = 0 := by
  simp only [writeStr, show (4 : Nat) > 1 by decide, if_true, List.length_take, List.length_append, List.length_replicate]
  have h1 : e.length ≤ (e.length + 3) / 4 * 4 := by omega
  have h2 : e.length + ((e.length + 3) / 4 * 4 - e.length) = (e.length + 3) / 4 * 4 := by omega
  rw [h2]
  rcases Nat.le_total wn ((e.length + 3) / 4 * 4) with h | h
  · rw [Nat.min_eq_left h]; exact hw
  · rw [Nat.min_eq_right h]; exact Nat.mul_mod_left _ _

/-- **every frame is a multiple of 4 long** — for every one of the 73 kinds and *every* value the
writer accepts (in-domain or not), the body it writes makes size byte + type byte + body a multiple
of 4; so in uncompressed mode, where the encoder has no divisibility guard, alignment still holds -/
theorem frame_length_mult4 (L : Layout) (hL : L ∈ Gen.Packets.all) (v : PVal) (body : Bytes)
    (h : writePacket genEnv L v = .ok body) : (body.length + 1) % 4 = 0 := by
  have hs := List.all_eq_true.mp all_sizes_ok L hL
  unfold writePacket at h
  cases hb : encBody genEnv L v with
  | err e => simp [hb] at h
  | panic => simp [hb] at h
  | ok b =>
    simp only [hb] at h; injection h with h; subst h
    simp only [List.length_cons]
    by_cases hc : L.customBody = true
    · -- MSO
      simp only [encBody, hc, if_true, encMso] at hb
      split at hb
      · injection hb with hb; subst hb
        rename_i reqi ucid plid ut name msg _
        have := writeStr_aligned_len 128 (name ++ msg) (by decide)
        simp only [List.length_append, List.length_cons, List.length_nil] at this ⊢
        omega
      · cases hb
    · have hc' : L.customBody = false := by simpa using hc
      simp only [sizeOk, hc', Bool.false_or, Bool.and_eq_true, List.all_eq_true, beq_iff_eq] at hs
      obtain ⟨⟨hfx, hsz⟩, htl⟩ := hs
      have hgo : encBody.go genEnv L v = .ok b := by
        simp only [encBody, hc', Bool.false_eq_true, if_false] at hb
        cases hme : L.maxElems with
        | none => simpa [hme] using hb
        | some mx => rw [hme] at hb; simp only at hb; split at hb <;> first | cases hb | exact hb
      simp only [encBody.go] at hgo
      cases h1 : encFields genEnv (tailCount v.tail) L.fields v.vals with
      | err e => simp [h1] at hgo
      | panic => simp [h1] at hgo
      | ok b1 =>
        simp only [h1] at hgo
        cases h2 : encTail genEnv L.tail v.tail with
        | err e => simp [h2] at hgo
        | panic => simp [h2] at hgo
        | ok b2 =>
          simp only [h2] at hgo
          injection hgo with hgo; subst hgo
          have l1 := encFields_length (tailCount v.tail) L.fields hfx v.vals b1 h1
          simp only [List.length_append, l1]
          -- the tail's length is a multiple of 4
          have lt : b2.length % 4 = 0 := by
            cases hT : L.tail with
            | none =>
              rw [hT] at h2
              cases hv : v.tail <;> simp [hv, encTail] at h2
              subst h2; rfl
            | vec elt oddR oddW =>
              rw [hT] at h2 htl
              cases hv : v.tail with
              | elems es =>
                simp only [hv, encTail] at h2
                simp only [Bool.and_eq_true, List.all_eq_true, Bool.or_eq_true, beq_iff_eq] at htl
                obtain ⟨hefx, hmod⟩ := htl
                cases h3 : encElems genEnv elt es with
                | err e => simp [h3] at h2
                | panic => simp [h3] at h2
                | ok b3 =>
                  simp only [h3] at h2; injection h2 with h2; subst h2
                  have l3 := encElems_length elt hefx es b3 h3
                  simp only [List.length_append, List.length_replicate, l3]
                  rcases hmod with ⟨hm, ho⟩ | ⟨hm, ho⟩
                  · subst ho
                    have : es.length * fieldsWSize elt % 4 = 0 := by
                      rw [Nat.mul_mod, hm]; simp
                    split <;> omega
                  · subst ho
                    by_cases hodd : es.length % 2 = 1
                    · simp only [hodd, if_true]
                      have : es.length * fieldsWSize elt % 4 = 2 := by
                        rw [Nat.mul_mod, hm]
                        have : es.length % 4 = 1 ∨ es.length % 4 = 3 := by omega
                        rcases this with h | h <;> simp [h]
                      omega
                    · simp only [hodd, if_false]
                      have : es.length * fieldsWSize elt % 4 = 0 := by
                        rw [Nat.mul_mod, hm]
                        have : es.length % 4 = 0 ∨ es.length % 4 = 2 := by omega
                        rcases this with h | h <;> simp [h]
                      omega
              | none => simp [hv, encTail] at h2
              | set xs => simp [hv, encTail] at h2
              | text t => simp [hv, encTail] at h2
            | set s =>
              rw [hT] at h2
              cases hv : v.tail with
              | set xs =>
                simp only [hv, encTail] at h2; injection h2 with h2; subst h2
                have := flatMap_le4_length xs
                omega
              | none => simp [hv, encTail] at h2
              | elems es => simp [hv, encTail] at h2
              | text t => simp [hv, encTail] at h2
            | strEof wn rraw wraw align =>
              rw [hT] at h2 htl
              simp only [Bool.and_eq_true, beq_iff_eq] at htl
              obtain ⟨ha, hw⟩ := htl
              subst ha
              cases hv : v.tail with
              | text t =>
                simp only [hv, encTail] at h2; injection h2 with h2; subst h2
                exact writeStr_aligned_len wn t hw
              | none => simp [hv, encTail] at h2
              | elems es => simp [hv, encTail] at h2
              | set xs => simp [hv, encTail] at h2
          omega

/-- **well-formed**: whenever encoding succeeds the result is exactly one valid frame — length a
multiple of 4 between 4 and the mode's limit, size byte = length (uncompressed) or length / 4
(compressed) -/
theorem wellformed (m : Mode) (L : Layout) (hL : L ∈ Gen.Packets.all) (v : PVal) (f : Bytes)
    (h : Frame.encode m (writePacket genEnv L v) = .ok f) :
    f.length % 4 = 0 ∧ 4 ≤ f.length ∧ f.length ≤ m.maxLen ∧ ValidFrame m f := by
  cases hw : writePacket genEnv L v with
  | err e => simp [hw, Frame.encode] at h
  | panic => simp [hw, Frame.encode] at h
  | ok body =>
    rw [hw] at h
    obtain ⟨hv, ht⟩ := C01.encode_valid m body f h
    have h4 := frame_length_mult4 L hL v body hw
    obtain ⟨b, t, rfl, ha, hlo, hhi⟩ := hv
    simp only [List.tail_cons] at ht; subst ht
    exact ⟨by simpa using h4, hlo, hhi, ⟨b, t, rfl, ha, hlo, hhi⟩⟩

/-- **element counts cannot wrap inside an accepted frame**: the count byte is `len() as u8`; for
every counted kind an element is at least 4 bytes, so a frame within the 1020-byte limit holds at
most 254 of them -/
theorem count_no_wrap :
    Gen.Packets.all.all (fun L => match L.tail with
      | .vec elt _ _ => decide (4 ≤ fieldsWSize elt)
      | _ => true) = true := by decide +kernel

theorem count_fits (n eltSize hdr : Nat) (he : 4 ≤ eltSize) (h : hdr + n * eltSize ≤ 1020) : n < 256 := by
  have : n * 4 ≤ n * eltSize := Nat.mul_le_mul_left n he
  omega

/-! non-vacuity -/
example : encodeLength ⟨true⟩ 1024 = .panic := by decide
example : encodeLength ⟨true⟩ 1020 = .ok 255 := by decide
example : encodeLength ⟨false⟩ 256 = .panic := by decide
example : encodeLength ⟨true⟩ 10 = .panic := by decide

end Insim.Props.C03
