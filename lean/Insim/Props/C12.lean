import Insim.Model.Escape
import Insim.Props.C10
/-
C12 — escaping makes arbitrary text wire-safe; colour stripping is exact.
All statements are over every string (lists of code points of any length).
-/
namespace Insim.Props.C12
open Insim Insim.Esc

theorem unesc_esc (c e : Nat) (h : esc? c = some e) : unesc? e = some c := by
  unfold esc? at h
  repeat (split at h; · (injection h with h; subst h; subst_vars; decide))
  contradiction

theorem colour_not_unesc (d : Nat) (h : isColour d = true) : unesc? d = none ∧ d ≠ 94 := by
  simp only [isColour, Bool.and_eq_true, decide_eq_true_eq] at h
  refine ⟨?_, by omega⟩
  unfold unesc?
  repeat (split; · omega)
  rfl

theorem esc_none_ne_caret (c : Nat) (h : esc? c = none) : c ≠ 94 := by
  intro hc; subst hc; simp [esc?] at h

theorem unescape_plain (c : Nat) (xs : Str) (hc : c ≠ 94) : unescapeSlow (c :: xs) = c :: unescapeSlow xs := by
  cases xs with
  | nil => simp [unescapeSlow]
  | cons j r => simp [unescapeSlow, hc]

theorem unescape_pair (e k : Nat) (xs : Str) (h : unesc? e = some k) :
    unescapeSlow (94 :: e :: xs) = k :: unescapeSlow xs := by
  simp [unescapeSlow, h]

theorem unescapeSlow_escapeSlow (s : Str) : unescapeSlow (escapeSlow s) = s := by
  fun_induction escapeSlow s with
  | case1 => rfl
  | case2 c e h => simp [unescapeSlow, unesc_esc c e h]
  | case3 c h => simp [unescapeSlow]
  | case4 c d rest' h ih =>
    obtain ⟨rfl, hd⟩ := h
    have ⟨hn, hne⟩ := colour_not_unesc d hd
    cases hr : escapeSlow rest' with
    | nil => simp [unescapeSlow, hn, hr] at ih ⊢; exact ih
    | cons x xs =>
      rw [hr] at ih
      simp [unescapeSlow, hn, hne, ih]
  | case5 c d rest' h e he ih =>
    rw [unescape_pair e c _ (unesc_esc c e he), ih]
  | case6 c d rest' h he ih =>
    rw [unescape_plain c _ (esc_none_ne_caret c he), ih]

/-- no caret ⇒ the slow path of `unescape` is the identity (so the fast path agrees with it) -/
theorem unescapeSlow_no_caret (s : Str) (h : s.any (· == 94) = false) : unescapeSlow s = s := by
  induction s with
  | nil => rfl
  | cons c cs ih =>
    simp only [List.any_cons, Bool.or_eq_false_iff, beq_eq_false_iff_ne, ne_eq] at h
    rw [unescape_plain c cs h.1, ih h.2]

/-- nothing to escape ⇒ the slow path of `escape` is the identity -/
theorem escapeSlow_nothing (s : Str) (h : s.any (fun c => (esc? c).isSome) = false) : escapeSlow s = s := by
  fun_induction escapeSlow s with
  | case1 => rfl
  | case2 c e he => simp [he] at h
  | case3 c he => rfl
  | case4 c d rest' hc ih =>
    obtain ⟨rfl, _⟩ := hc
    simp [esc?] at h
  | case5 c d rest' hc e he ih => simp [he] at h
  | case6 c d rest' hc he ih =>
    rw [ih]
    simpa [he] using h

/-- **unescape ∘ escape = id**, for every string, fast paths included -/
theorem unescape_escape (s : Str) : unescape (escape s) = s := by
  unfold escape
  split
  · -- slow path of escape; whichever path unescape takes, the result is the slow path's
    unfold unescape
    split
    · exact unescapeSlow_escapeSlow s
    · rename_i h2
      have := unescapeSlow_escapeSlow s
      rw [unescapeSlow_no_caret _ (Bool.eq_false_iff.mpr h2)] at this
      exact this
  · rename_i h1
    have h1' : s.any (fun c => (esc? c).isSome) = false := Bool.eq_false_iff.mpr h1
    -- nothing to escape: in particular no caret, so unescape takes its fast path or is the identity
    unfold unescape
    split
    · have := unescapeSlow_escapeSlow s
      rw [escapeSlow_nothing s h1'] at this
      exact this
    · rfl

theorem esc_image_not_reserved (c e : Nat) (h : esc? c = some e) : e ∉ reserved := by
  unfold esc? at h
  repeat (split at h; · (injection h with h; subst h; decide))
  contradiction

theorem esc_none_not_reserved (c : Nat) (h : esc? c = none) : c ∉ reserved := by
  unfold esc? at h
  intro hm
  simp only [reserved, List.mem_cons, List.mem_nil_iff, or_false] at hm
  repeat (split at h; · cases h)
  omega

theorem escapeSlow_no_reserved (s : Str) : ∀ x ∈ escapeSlow s, x ∉ reserved := by
  fun_induction escapeSlow s with
  | case1 => intro x hx; cases hx
  | case2 c e he =>
    intro x hx
    simp at hx
    rcases hx with rfl | rfl
    · decide
    · exact esc_image_not_reserved c _ he
  | case3 c he => intro x hx; simp at hx; subst hx; exact esc_none_not_reserved x he
  | case4 c d rest' hc ih =>
    obtain ⟨rfl, hd⟩ := hc
    intro x hx
    simp at hx
    rcases hx with rfl | rfl | hx
    · decide
    · simp only [isColour, Bool.and_eq_true, decide_eq_true_eq] at hd
      simp only [reserved, List.mem_cons, List.mem_nil_iff, or_false]; omega
    · exact ih x hx
  | case5 c d rest' hc e he ih =>
    intro x hx
    simp at hx
    rcases hx with rfl | rfl | hx
    · decide
    · exact esc_image_not_reserved c _ he
    · exact ih x hx
  | case6 c d rest' hc he ih =>
    intro x hx
    simp at hx
    rcases hx with rfl | hx
    · exact esc_none_not_reserved x he
    · exact ih x hx

/-- **escaped output contains none of LFS's reserved characters in raw form** -/
theorem no_reserved (s : Str) : ∀ x ∈ escape s, x ∉ reserved := by
  unfold escape
  split
  · exact escapeSlow_no_reserved s
  · rename_i h
    intro x hx hr
    have : (esc? x).isSome = true := by
      simp only [reserved, List.mem_cons, List.mem_nil_iff, or_false] at hr
      rcases hr with rfl | rfl | rfl | rfl | rfl | rfl | rfl | rfl | rfl | rfl <;> decide
    exact h (List.any_eq_true.mpr ⟨x, hx, this⟩)

/-- **strip removes exactly the colour codes**: it equals "tokenise into `^^`, `^digit`, plain
characters; drop the `^digit` tokens; concatenate" -/
theorem stripSlow_spec (s : Str) : stripSlow s = ((tokens s).filter (fun t => !t.isColourTok)).flatMap Tok.text := by
  fun_induction stripSlow s with
  | case1 => rfl
  | case2 i => simp [tokens, Tok.isColourTok, Tok.text]
  | case3 i j rest h ih =>
    obtain ⟨rfl, rfl⟩ := h
    simp [tokens, Tok.isColourTok, Tok.text, ih]
  | case4 i j rest h1 h2 ih =>
    obtain ⟨rfl, hj⟩ := h2
    have hj94 : j ≠ 94 := by
      intro hj'; subst hj'; simp [isColour] at hj
    simp [tokens, hj94, hj, Tok.isColourTok, ih]
  | case5 i j rest h1 h2 ih =>
    simp [tokens, h1, h2, Tok.isColourTok, Tok.text, ih]

theorem tokens_no_caret (s : Str) (h : s.any (· == 94) = false) : tokens s = s.map Tok.plain := by
  fun_induction tokens s with
  | case1 => rfl
  | case2 c => rfl
  | case3 c d rest hc ih => obtain ⟨rfl, _⟩ := hc; simp at h
  | case4 c d rest h1 hc ih => obtain ⟨rfl, _⟩ := hc; simp at h
  | case5 c d rest h1 h2 ih =>
    simp only [List.any_cons, Bool.or_eq_false_iff] at h
    rw [ih (by simp only [List.any_cons, Bool.or_eq_false_iff]; exact h.2)]
    simp

theorem plain_tokens_text (s : Str) :
    ((s.map Tok.plain).filter (fun t => !t.isColourTok)).flatMap Tok.text = s := by
  induction s with
  | nil => rfl
  | cons c cs ih => simp [Tok.isColourTok, Tok.text] at ih ⊢; exact ih

theorem strip_spec (s : Str) : strip s = ((tokens s).filter (fun t => !t.isColourTok)).flatMap Tok.text := by
  unfold strip
  split
  · exact stripSlow_spec s
  · rename_i h
    rw [tokens_no_caret s (Bool.eq_false_iff.mpr h), plain_tokens_text]

/-- the output of `stripSlow` is a fixed point of `stripSlow` -/
theorem stripSlow_idem (s : Str) : stripSlow (stripSlow s) = stripSlow s := by
  fun_induction stripSlow s with
  | case1 => rfl
  | case2 i => rfl
  | case3 i j rest h ih =>
    obtain ⟨rfl, rfl⟩ := h
    simp [stripSlow, ih]
  | case4 i j rest h1 h2 ih => exact ih
  | case5 i j rest h1 h2 ih =>
    -- i is kept; what follows is stripSlow (j :: rest), whose head (if any) is j unless j starts a removed code
    cases hr : stripSlow (j :: rest) with
    | nil => simp [stripSlow]
    | cons x xs =>
      rw [hr] at ih
      by_cases hi : i = 94
      · subst hi
        -- j is neither a caret nor a colour, so j is kept as the head
        have hj1 : j ≠ 94 := fun e => h1 ⟨rfl, e⟩
        have hj2 : isColour j = false := by
          cases hc : isColour j
          · rfl
          · exact absurd ⟨rfl, hc⟩ h2
        have hx : x = j := by
          cases rest with
          | nil => simp [stripSlow] at hr; exact hr.1.symm
          | cons k rest' =>
            simp only [stripSlow, hj1, false_and, if_false] at hr
            injection hr with hr1 _; exact hr1.symm
        subst hx
        simp [stripSlow, hj1, hj2, ih]
      · simp [stripSlow, hi, ih]

theorem stripSlow_no_caret (s : Str) (h : s.any (· == 94) = false) : stripSlow s = s := by
  fun_induction stripSlow s with
  | case1 => rfl
  | case2 i => rfl
  | case3 i j rest hc ih => obtain ⟨rfl, _⟩ := hc; simp at h
  | case4 i j rest h1 hc ih => obtain ⟨rfl, _⟩ := hc; simp at h
  | case5 i j rest h1 h2 ih =>
    simp only [List.any_cons, Bool.or_eq_false_iff] at h
    rw [ih (by simp only [List.any_cons, Bool.or_eq_false_iff]; exact h.2)]

/-- **strip is idempotent** -/
theorem strip_idem (s : Str) : strip (strip s) = strip s := by
  unfold strip
  split
  · split
    · exact stripSlow_idem s
    · rfl
  · rfl

/-- **escaped carets are left untouched**: `^^` is kept wherever it stands as a token -/
theorem strip_keeps_escaped_caret (rest : Str) : strip (94 :: 94 :: rest) = 94 :: 94 :: stripSlow rest := by
  simp [strip, stripSlow]

/-! non-vacuity / concrete instances -/
example : escape [94, 124, 49, 94, 57] = [94, 94, 94, 118, 49, 94, 57] := by decide
example : unescape (escape [94, 76, 35]) = [94, 76, 35] := by decide
example : strip [94, 94, 49, 50, 94, 53, 54] = [94, 94, 49, 50, 54] := by decide
example : strip [94, 49, 94, 94, 94, 50] = [94, 94] := by decide

/-! ### the wire clause: escaping composed with the codepage conversion (C10's model) -/

section wire
open Insim.Cp Insim.Props.C10

theorem esc_image_not_marker (c e : Nat) (h : esc? c = some e) : mk? e = none := by
  unfold esc? at h
  repeat (split at h; · (injection h with h; subst h; decide))
  contradiction

theorem esc_image_ascii (c e : Nat) (h : esc? c = some e) : isAscii e = true := by
  unfold esc? at h
  repeat (split at h; · (injection h with h; subst h; decide))
  contradiction

/-- escaping only adds ASCII characters -/
theorem escapeSlow_chars (s : Esc.Str) : ∀ x ∈ escapeSlow s, x ∈ s ∨ isAscii x = true := by
  fun_induction escapeSlow s with
  | case1 => intro x hx; cases hx
  | case2 c e he =>
    intro x hx
    simp at hx
    rcases hx with rfl | rfl
    · exact Or.inr (by decide)
    · exact Or.inr (esc_image_ascii c _ he)
  | case3 c hn => intro x hx; simp at hx; subst hx; exact Or.inl (by simp)
  | case4 c d rest hcd ih =>
    intro x hx
    simp at hx
    rcases hx with rfl | rfl | hx
    · exact Or.inl (by simp)
    · exact Or.inl (by simp)
    · rcases ih x hx with h | h
      · exact Or.inl (by simp [h])
      · exact Or.inr h
  | case5 c d rest hcd e he ih =>
    intro x hx
    simp at hx
    rcases hx with rfl | rfl | hx
    · exact Or.inr (by decide)
    · exact Or.inr (esc_image_ascii c _ he)
    · rcases ih x hx with h | h
      · exact Or.inl (List.mem_cons_of_mem _ h)
      · exact Or.inr h
  | case6 c d rest hcd hn ih =>
    intro x hx
    simp at hx
    rcases hx with rfl | hx
    · exact Or.inl (by simp)
    · rcases ih x hx with h | h
      · exact Or.inl (List.mem_cons_of_mem _ h)
      · exact Or.inr h
theorem esc_caret_image (c : Nat) (h : esc? c = some 94) : c = 94 := by
  unfold esc? at h
  split at h
  · assumption
  · repeat (split at h; · (injection h with h; omega))
    contradiction

theorem caretOk_cons (a : Nat) (l : Cp.Str) (h1 : ∀ x xs, l = x :: xs → a = 94 → mk? x = none) (h2 : CaretOk l) :
    CaretOk (a :: l) := by
  cases l with
  | nil => trivial
  | cons x xs => exact ⟨h1 x xs rfl, h2⟩

theorem escapeSlow_head (d : Nat) (rest : Esc.Str) : ∀ x xs, escapeSlow (d :: rest) = x :: xs → x = 94 ∨ (x = d ∧ esc? d = none) := by
  intro x xs h
  cases rest with
  | nil =>
    simp only [escapeSlow] at h
    split at h
    · injection h with h1 _; exact Or.inl h1.symm
    · rename_i hn; injection h with h1 _; exact Or.inr ⟨h1.symm, hn⟩
  | cons e rest' =>
    simp only [escapeSlow] at h
    split at h
    · rename_i hc; injection h with h1 _; exact Or.inl (by rw [← h1]; exact hc.1)
    · split at h
      · injection h with h1 _; exact Or.inl h1.symm
      · rename_i hn; injection h with h1 _; exact Or.inr ⟨h1.symm, hn⟩

theorem isColour_ne_caret (d : Nat) (h : isColour d = true) : d ≠ 94 := by
  simp [isColour] at h; omega

/-- escaping keeps every caret away from the codepage letters, provided the text did -/
theorem caretOk_escapeSlow (s : Esc.Str) (h : CaretOk s) : CaretOk (escapeSlow s) := by
  fun_induction escapeSlow s with
  | case1 => trivial
  | case2 c e he => exact ⟨fun _ => esc_image_not_marker c e he, trivial⟩
  | case3 c hn => trivial
  | case4 c d rest hcd ih =>
    have hrest : CaretOk rest := caretOk_tail d rest (caretOk_tail c (d :: rest) h)
    refine ⟨fun hc => h.1 hc, ?_⟩
    exact caretOk_cons d _ (fun _ _ _ hd => absurd hd (isColour_ne_caret d hcd.2)) (ih hrest)
  | case5 c d rest hcd e he ih =>
    have htail : CaretOk (d :: rest) := caretOk_tail c (d :: rest) h
    refine ⟨fun _ => esc_image_not_marker c e he, ?_⟩
    refine caretOk_cons e _ ?_ (ih htail)
    intro x xs hx he94
    subst he94
    have hc94 := esc_caret_image c he
    rcases escapeSlow_head d rest x xs hx with rfl | ⟨rfl, _⟩
    · decide
    · exact h.1 hc94
  | case6 c d rest hcd hn ih =>
    have htail : CaretOk (d :: rest) := caretOk_tail c (d :: rest) h
    exact caretOk_cons c _ (fun _ _ _ hc => absurd hc (esc_none_ne_caret c hn)) (ih htail)
theorem caretOk_no_caret (s : Cp.Str) (h : s.any (· == 94) = false) : CaretOk s := by
  induction s with
  | nil => trivial
  | cons c cs ih =>
    simp only [List.any_cons, Bool.or_eq_false_iff, beq_eq_false_iff_ne] at h
    cases cs with
    | nil => trivial
    | cons d rest => exact ⟨fun hc => absurd hc h.1, ih h.2⟩

theorem esc_caret : esc? 94 = some 94 := by decide

theorem no_caret_of_nothing_to_escape (s : Esc.Str) (h : s.any (fun c => (esc? c).isSome) = false) : s.any (· == 94) = false := by
  induction s with
  | nil => rfl
  | cons c cs ih =>
    simp only [List.any_cons, Bool.or_eq_false_iff] at h ⊢
    refine ⟨?_, ih h.2⟩
    by_cases hc : c = 94
    · subst hc; simp [esc_caret] at h
    · simpa using hc

/-- **the wire clause**: a text whose characters each exist in some LFS codepage, in which no caret stands in
front of a codepage letter or '8', survives escape → encode → decode → unescape unchanged — for every length,
every mix of codepages and reserved characters, over any codec family satisfying the five laws -/
theorem wire_roundtrip (cp : Mk → CP) (order : List Mk) (ho : ∀ x : Mk, x ∈ order) (L : Laws cp) (LL : LeadLaw cp)
    (s : Esc.Str) (hs : ∀ c ∈ s, isAscii c = true ∨ Encodable cp c) (hc : CaretOk s) :
    unescape (Cp.toString cp (toBytes cp order (escape s))) = s := by
  have hchars : ∀ c ∈ escape s, isAscii c = true ∨ Encodable cp c := by
    intro c hcm
    unfold escape at hcm
    split at hcm
    · rcases escapeSlow_chars s c hcm with h | h
      · exact hs c h
      · exact Or.inl h
    · exact hs c hcm
  have hcar : CaretOk (escape s) := by
    unfold escape
    split
    · exact caretOk_escapeSlow s hc
    · exact hc
  rw [faithful_carets cp order ho L LL (escape s) hchars hcar]
  exact unescape_escape s

/-- a concrete run through the toy codec family of C10: Greek alpha, a reserved bar, a literal caret, 'x', e-acute -/
example : unescape (Cp.toString toy (toBytes toy Mk.all (escape [945, 124, 94, 120, 233]))) = [945, 124, 94, 120, 233] := by decide

/-- … and the recorded counter-example: a literal caret in front of a codepage letter does not survive -/
example : unescape (Cp.toString toy (toBytes toy Mk.all (escape [94, 71, 225]))) ≠ [94, 71, 225] := by decide

end wire

end Insim.Props.C12
