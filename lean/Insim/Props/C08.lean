import Insim.Model.Udp
import Insim.Props.C05
/-
C08 — UDP datagrams are delivered intact for arbitrarily long sessions.
-/
namespace Insim.Props.C08
open Insim Insim.Conn Insim.Frame
open Insim.Udp (maxDatagram readUnbuffered)

/-- **nothing is dropped, duplicated or reordered**: whatever slice sizes the connection offers
(any sequence of sizes, however small), the chunks served so far, followed by what the adaptor still
buffers and the datagrams still to arrive, are exactly the buffered bytes and the datagrams in order -/
theorem stream_conserved (buf : Bytes) (offers : List Nat) (ds : List Bytes) (hd : ∀ d ∈ ds, d.length ≤ maxDatagram) :
    (Udp.run buf offers ds).1.flatten ++ (Udp.run buf offers ds).2.1 ++ (Udp.run buf offers ds).2.2.flatten = buf ++ ds.flatten := by
  induction offers generalizing buf ds with
  | nil => simp [Udp.run]
  | cons o os ih =>
    simp only [Udp.run]
    cases hb : buf with
    | cons b bs =>
      simp only [Udp.read]
      have := ih ((b :: bs).drop o) ds hd
      simp only [List.flatten_cons, List.append_assoc] at this ⊢
      rw [this, ← List.append_assoc, List.take_append_drop]
    | nil =>
      cases ds with
      | nil => simp [Udp.read]
      | cons d ds' =>
        simp only [Udp.read]
        have hdl : d.take maxDatagram = d := List.take_of_length_le (hd d (by simp))
        have := ih (d.drop o) ds' (fun x hx => hd x (by simp [hx]))
        simp only [hdl, List.flatten_cons, List.append_assoc, List.nil_append] at this ⊢
        rw [this, ← List.append_assoc, List.take_append_drop]

/-- every read makes progress: with a positive offer, a read that returns serves at least one byte
whenever a non-empty datagram or buffered data is available -/
theorem read_progress (buf : Bytes) (o : Nat) (ds : List Bytes) (ho : 1 ≤ o) (hne : ∀ d ∈ ds, d ≠ [])
    (chunk buf' : Bytes) (ds' : List Bytes) (h : Udp.read buf o ds = some (chunk, buf', ds')) : chunk ≠ [] := by
  unfold Udp.read at h
  split at h
  · rename_i b bs
    injection h with h; injection h with h1 _
    subst h1
    cases o with
    | zero => omega
    | succ n => simp
  · split at h
    · cases h
    · rename_i d ds0
      injection h with h; injection h with h1 _
      subst h1
      have : d ≠ [] := hne d (by simp)
      cases d with
      | nil => exact absurd rfl this
      | cons x xs =>
        cases o with
        | zero => omega
        | succ n => simp [maxDatagram]

/-- the chunks the adaptor serves, as the read events of the connection -/
def events (chunks : List Bytes) : List Ev := chunks.map Ev.data ++ [.eof]

theorem dataOf_events (chunks : List Bytes) : dataOf (events chunks) = chunks.flatten := by
  induction chunks with
  | nil => simp [events, dataOf]
  | cons c cs ih => simp only [events, List.map_cons, List.cons_append, dataOf, List.flatten_cons] at ih ⊢; rw [ih]

theorem endsEof_events (chunks : List Bytes) : EndsEof (events chunks) := by
  induction chunks with
  | nil => simp [events, EndsEof]
  | cons c cs ih => simpa [events, EndsEof] using ih

/-- **packets**: every packet of every datagram is delivered intact and in order — any number of
packets per datagram, any datagram sizes up to the maximum, any cumulative traffic, any offered
slice sizes: once all datagrams have been served, the connection's results are exactly one per frame -/
theorem packets (cfg : Cfg) (frames : List Bytes) (ds : List Bytes) (offers : List Nat)
    (hv : ∀ f ∈ frames, ValidFrame cfg.mode f) (hp : ∀ f ∈ frames, cfg.parse f.tail ≠ .panic)
    (hd : ∀ d ∈ ds, d.length ≤ maxDatagram) (hsplit : ds.flatten = frames.flatten)
    (hall : (Udp.run [] offers ds).2.1 = [] ∧ (Udp.run [] offers ds).2.2 = []) :
    (Conn.run cfg [] (events (Udp.run [] offers ds).1)).filter (fun i => !i.isFault) =
      frames.flatMap (frameItems cfg) ++ [.err .disconnected] := by
  apply C05.reassembly_fresh cfg frames hv hp
  · rw [dataOf_events]
    have := stream_conserved [] offers ds hd
    rw [hall.1, hall.2] at this
    simpa [hsplit] using this
  · exact endsEof_events _

/-- **one datagram per write, holding exactly its frame** -/
theorem write_one_datagram (frames : List Bytes) (sent : List Bytes) :
    frames.foldl (fun s f => Udp.write f s) sent = sent ++ frames := by
  induction frames generalizing sent with
  | nil => simp
  | cons f fs ih => rw [List.foldl_cons, ih]; simp [Udp.write]

theorem read_conserved (buf : Bytes) (o : Nat) (ds : List Bytes) (hd : ∀ d ∈ ds, d.length ≤ maxDatagram)
    (chunk buf' : Bytes) (ds' : List Bytes) (h : Udp.read buf o ds = some (chunk, buf', ds')) :
    chunk ++ buf' ++ ds'.flatten = buf ++ ds.flatten ∧ (∀ d ∈ ds', d.length ≤ maxDatagram) := by
  unfold Udp.read at h
  split at h
  · rename_i b bs
    injection h with h; injection h with h1 h2; injection h2 with h2 h3
    subst h1; subst h2; subst h3
    exact ⟨by rw [List.take_append_drop], hd⟩
  · split at h
    · cases h
    · rename_i d ds0
      injection h with h; injection h with h1 h2; injection h2 with h2 h3
      subst h1; subst h2; subst h3
      have hdl : d.take maxDatagram = d := List.take_of_length_le (hd d (by simp))
      refine ⟨?_, fun x hx => hd x (by simp [hx])⟩
      rw [hdl, List.take_append_drop]; simp

theorem readExact_conserved : ∀ (fuel : Nat) (buf : Bytes) (n : Nat) (ds : List Bytes) (acc : Bytes),
    (∀ d ∈ ds, d.length ≤ maxDatagram) →
    ∀ (out buf' : Bytes) (ds' : List Bytes), Udp.readExact fuel buf n ds acc = some (out, buf', ds') →
      out ++ buf' ++ ds'.flatten = acc ++ buf ++ ds.flatten ∧ (∀ d ∈ ds', d.length ≤ maxDatagram)
  | fuel, buf, 0, ds, acc, hd, out, buf', ds', h => by
    cases fuel <;> (simp only [Udp.readExact] at h; injection h with h; injection h with h1 h2; injection h2 with h2 h3; subst h1; subst h2; subst h3; exact ⟨rfl, hd⟩)
  | 0, buf, n + 1, ds, acc, hd, out, buf', ds', h => by simp [Udp.readExact] at h
  | fuel + 1, buf, n + 1, ds, acc, hd, out, buf', ds', h => by
    simp only [Udp.readExact] at h
    split at h
    · cases h
    · rename_i chunk b1 d1 hr
      split at h
      · cases h
      · obtain ⟨hc, hd1⟩ := read_conserved buf (n + 1) ds hd chunk b1 d1 hr
        obtain ⟨h2, hd2⟩ := readExact_conserved fuel b1 (n + 1 - chunk.length) d1 (acc ++ chunk) hd1 out buf' ds' h
        refine ⟨?_, hd2⟩
        rw [h2, List.append_assoc, List.append_assoc, ← List.append_assoc chunk, hc]
        simp [List.append_assoc]

/-- **writes, flushes and failed receive attempts never disturb the receive side**: for any interleaving of reads
(any offered sizes), flushes, writes and reads that find nothing to receive, the chunks served, followed by what the adaptor still holds and the datagrams still to
arrive, are exactly the buffered bytes and the datagrams in order — and the datagrams sent are exactly the
written frames, one each, in order -/
theorem ops_conserved (s : Udp.ASt) (ops : List Udp.AOp) (hd : ∀ d ∈ s.ds, d.length ≤ maxDatagram) :
    (Udp.runOps s ops).1.flatten ++ (Udp.runOps s ops).2.buf ++ (Udp.runOps s ops).2.ds.flatten = s.buf ++ s.ds.flatten := by
  induction ops generalizing s with
  | nil => simp [Udp.runOps]
  | cons op ops ih =>
    cases op with
    | fl => simpa [Udp.runOps] using ih s hd
    | idle => simpa [Udp.runOps] using ih s hd
    | rx n =>
      obtain ⟨buf, ds, sent⟩ := s
      simp only [Udp.runOps]
      cases hr : Udp.readExact (n + 1) buf n ds [] with
      | none => simp
      | some r =>
        obtain ⟨chunk, b', d'⟩ := r
        obtain ⟨hc, hd'⟩ := readExact_conserved (n + 1) buf n ds [] hd chunk b' d' hr
        have := ih { buf := b', ds := d', sent := sent } hd'
        simp only [List.flatten_cons, List.append_assoc, List.nil_append] at this hc ⊢
        rw [this, hc]
    | wr f => simpa [Udp.runOps] using ih { s with sent := Udp.write f s.sent } hd
    | rd o =>
      obtain ⟨buf, ds, sent⟩ := s
      simp only [Udp.runOps]
      cases buf with
      | cons b bs =>
        simp only [Udp.read]
        have := ih { buf := (b :: bs).drop o, ds := ds, sent := sent } hd
        simp only [List.flatten_cons, List.append_assoc] at this ⊢
        rw [this, ← List.append_assoc, List.take_append_drop]
      | nil =>
        cases ds with
        | nil => simp [Udp.read]
        | cons d ds' =>
          simp only [Udp.read]
          have hdl : d.take maxDatagram = d := List.take_of_length_le (hd d (by simp))
          have := ih { buf := d.drop o, ds := ds', sent := sent } (fun x hx => hd x (by simp [hx]))
          simp only [hdl, List.flatten_cons, List.append_assoc, List.nil_append] at this ⊢
          rw [this, ← List.append_assoc, List.take_append_drop]

/-- the frames written in an op sequence, in order -/
def written : List Udp.AOp → List Bytes
  | [] => []
  | .wr f :: ops => f :: written ops
  | _ :: ops => written ops

/-- the sent datagrams are a prefix-extension of the written frames: reads and flushes add nothing, every write adds
exactly its frame (when no read blocks, exactly `written ops`) -/
theorem ops_sent_prefix (s : Udp.ASt) (ops : List Udp.AOp) :
    ∃ k, (Udp.runOps s ops).2.sent = s.sent ++ (written ops).take k := by
  induction ops generalizing s with
  | nil => exact ⟨0, by simp [Udp.runOps, written]⟩
  | cons op ops ih =>
    cases op with
    | fl => simpa [Udp.runOps, written] using ih s
    | idle => simpa [Udp.runOps, written] using ih s
    | rx n =>
      simp only [Udp.runOps, written]
      cases hr : Udp.readExact (n + 1) s.buf n s.ds [] with
      | none => exact ⟨0, by simp⟩
      | some r =>
        obtain ⟨c, b', d'⟩ := r
        simpa using ih { s with buf := b', ds := d' }
    | wr f =>
      obtain ⟨k, hk⟩ := ih { s with sent := Udp.write f s.sent }
      refine ⟨k + 1, ?_⟩
      simp only [Udp.runOps, written, List.take_succ_cons]
      rw [hk]; simp [Udp.write]
    | rd o =>
      simp only [Udp.runOps, written]
      cases hr : Udp.read s.buf o s.ds with
      | none => exact ⟨0, by simp⟩
      | some r =>
        obtain ⟨c, b', d'⟩ := r
        simpa using ih { s with buf := b', ds := d' }

/-- with reads only, the op-level run is the plain run -/
theorem runOps_reads (buf : Bytes) (ds sent : List Bytes) (offers : List Nat) :
    (Udp.runOps { buf := buf, ds := ds, sent := sent } (offers.map .rd)).1 = (Udp.run buf offers ds).1 := by
  induction offers generalizing buf ds with
  | nil => simp [Udp.runOps, Udp.run]
  | cons o os ih =>
    simp only [List.map_cons, Udp.runOps, Udp.run]
    cases hr : Udp.read buf o ds with
    | none => rfl
    | some r => obtain ⟨c, b', d'⟩ := r; simp only [ih]

/-- negation witness for the pinned tree (tokio adaptor before the repair): a datagram larger than
the offered slice loses its tail -/
example : readUnbuffered 4 [[1, 2, 3, 4, 5, 6, 7, 8]] = some ([1, 2, 3, 4], []) := by decide
/-- … whereas the buffered adaptor serves the rest on the next read -/
example : (Udp.run [] [4, 4] [[1, 2, 3, 4, 5, 6, 7, 8]]).1 = [[1, 2, 3, 4], [5, 6, 7, 8]] := by decide
/-- … also when a flush and a write fall between the two reads -/
example : (Udp.runOps ⟨[], [[1, 2, 3, 4, 5, 6, 7, 8]], []⟩ [.rd 4, .fl, .wr [9], .rd 4]).1 = [[1, 2, 3, 4], [5, 6, 7, 8]] := by decide

end Insim.Props.C08
