import Insim.Lemmas.Customs
import Insim.Lemmas.Frame
import Insim.Lemmas.Text
/-
C01 — lossless packet round trip.
The layouts are regenerated from the packet declarations on every run; `all_wf` re-checks, by
`decide`, that every one of them is well formed (reader and writer attributes agree field by field,
vector kinds carry exactly one `calc`ed count, variable texts are 4-aligned); the round-trip theorems
are proved once for every well-formed layout and every in-domain value.

Proved scope (stated honestly): every kind whose body is declared (`RepBody`): fixed-size kinds, kinds
with a counted vector of flat elements, the two set-valued kinds (MAL, IPB: in-domain sets are
duplicate-free, as the crate's `IndexSet` keeps them) and the until-end-of-frame texts (III MTC BTN
ACR: NUL-free text within the maximum), through the real framing in both size modes. The hand-written
MSO body is covered by its own lemma (`decMso_encMso`). The 8-byte `GameVersion` text in VER is covered at
the level of its text (`GvRep`: canonical major text, upper-case minor letter, printed text within 8
bytes — `gv_roundtrip` in Lemmas/Customs.lean); that the standard library's `f32` parsing and shortest
printing agree with that text-level view is an assumption recorded in C16 (`Laws`) and exercised by the
correspondence run, not proved.
-/
namespace Insim.Props.C01
open Insim Insim.Layout Insim.Frame

/-- every regenerated layout is well formed -/
theorem all_wf : Gen.Packets.all.all Layout.wf = true := by decide +kernel

/-- 73 kinds, pairwise distinct type numbers -/
theorem kinds_complete :
    (Nat.beq Gen.Packets.all.length 73 &&
     Gen.Packets.all.all (fun L => Nat.beq ((Gen.Packets.all.filter (fun M => M.typeNo == L.typeNo)).length) 1)) = true := by
  decide +kernel

/-- the type byte selects the layout it was written from -/
theorem find_self : Gen.Packets.all.all (fun L => (Gen.Packets.all.find? (fun M => M.typeNo == L.typeNo)) == some L) = true := by
  decide +kernel

/-- **packet round trip** (`Packet::write` then `Packet::read`): any in-domain packet of a covered
kind decodes back to itself -/
theorem packet_roundtrip_any (L : Layout) (hL : L ∈ Gen.Packets.all) (v : PVal) (bs : Bytes)
    (hr : RepAnyBody CRep L v) (he : writePacket genEnv L v = .ok bs) :
    parsePacket genEnv Gen.Packets.all bs = .ok (L, v) := by
  unfold writePacket at he
  cases hbody : encBody genEnv L v with
  | err e => simp [hbody] at he
  | panic => simp [hbody] at he
  | ok body =>
    simp only [hbody] at he
    injection he with he; subst he
    have hwf := List.all_eq_true.mp all_wf L hL
    have hfind := List.all_eq_true.mp find_self L hL
    simp only [beq_iff_eq] at hfind
    have hd := decBody_encBody_any genEnv CRep customs_lawful L hwf v body hr hbody
    simp only [parsePacket, hfind, hd]

theorem encodeLength_ok (m : Mode) (len n : Nat) (h : encodeLength m len = .ok n) :
    4 ≤ len ∧ len ≤ m.maxLen ∧ m.announced n = len := by
  cases m with
  | mk c =>
    cases c
    · simp only [encodeLength, minLen, Mode.maxLen, Mode.announced, Bool.false_eq_true, if_false] at h ⊢
      by_cases h1 : len < 4
      · simp [h1] at h
      · by_cases h2 : len > 255
        · simp [h1, h2] at h
        · simp only [h1, h2, if_false] at h
          injection h with h; subst h; omega
    · simp only [encodeLength, minLen, Mode.maxLen, Mode.announced, if_true] at h ⊢
      by_cases h1 : len < 4
      · simp [h1] at h
      · by_cases h0 : len % 4 = 0
        · by_cases h2 : len > 1020
          · simp [h1, h0, h2] at h
          · simp only [h1, h0, h2, if_false, if_true] at h
            injection h with h; subst h; omega
        · simp [h1, h0] at h

/-- the frame the codec builds around a body announces exactly its own length -/
theorem encode_valid (m : Mode) (body f : Bytes) (h : Frame.encode m (.ok body) = .ok f) :
    ValidFrame m f ∧ f.tail = body := by
  unfold Frame.encode at h
  simp only at h
  cases hl : encodeLength m (body.length + 1) with
  | err e => simp [hl] at h
  | panic => simp [hl] at h
  | ok n =>
    simp only [hl] at h
    injection h with h; subst h
    obtain ⟨h4, hmax, ha⟩ := encodeLength_ok m _ n hl
    exact ⟨⟨n, body, rfl, by simpa using ha, by simpa using h4, by simpa using hmax⟩, rfl⟩

/-- **lossless round trip through the real framing, both size modes**: encoding an in-domain
packet and decoding the result yields the same packet and consumes the frame completely -/
theorem frame_roundtrip_any (m : Mode) (L : Layout) (hL : L ∈ Gen.Packets.all) (v : PVal) (f : Bytes)
    (hr : RepAnyBody CRep L v) (he : Frame.encode m (writePacket genEnv L v) = .ok f) :
    Frame.decode m (parsePacket genEnv Gen.Packets.all) f = (.ok (some (L, v)), []) := by
  cases hw : writePacket genEnv L v with
  | err e => simp [hw, Frame.encode] at he
  | panic => simp [hw, Frame.encode] at he
  | ok body =>
    rw [hw] at he
    obtain ⟨hv, ht⟩ := encode_valid m body f he
    have hs := split_complete m f [] hv
    simp only [List.append_nil] at hs
    simp only [Frame.decode, hs, ht, packet_roundtrip_any L hL v body hr hw]

/-- **re-encode**: decoding a frame the encoder produced from an in-domain packet and encoding it again
gives the identical bytes -/
theorem reencode_any (m : Mode) (L : Layout) (hL : L ∈ Gen.Packets.all) (v : PVal) (f : Bytes)
    (hr : RepAnyBody CRep L v) (he : Frame.encode m (writePacket genEnv L v) = .ok f)
    (L' : Layout) (v' : PVal) (rest : Bytes)
    (hd : Frame.decode m (parsePacket genEnv Gen.Packets.all) f = (.ok (some (L', v')), rest)) :
    Frame.encode m (writePacket genEnv L' v') = .ok f := by
  rw [frame_roundtrip_any m L hL v f hr he] at hd
  simp only [Prod.mk.injEq, Out.ok.injEq, Option.some.injEq] at hd
  obtain ⟨⟨rfl, rfl⟩, _⟩ := hd
  exact he

/-- the three theorems for kinds with a declared body (everything but IS_MSO) -/
theorem packet_roundtrip (L : Layout) (hL : L ∈ Gen.Packets.all) (hb : L.customBody = false) (v : PVal) (bs : Bytes)
    (hr : RepBody CRep L v) (he : writePacket genEnv L v = .ok bs) :
    parsePacket genEnv Gen.Packets.all bs = .ok (L, v) := packet_roundtrip_any L hL v bs (.inl ⟨hb, hr⟩) he

theorem frame_roundtrip (m : Mode) (L : Layout) (hL : L ∈ Gen.Packets.all) (hb : L.customBody = false) (v : PVal) (f : Bytes)
    (hr : RepBody CRep L v) (he : Frame.encode m (writePacket genEnv L v) = .ok f) :
    Frame.decode m (parsePacket genEnv Gen.Packets.all) f = (.ok (some (L, v)), []) :=
  frame_roundtrip_any m L hL v f (.inl ⟨hb, hr⟩) he

theorem reencode (m : Mode) (L : Layout) (hL : L ∈ Gen.Packets.all) (hb : L.customBody = false) (v : PVal) (f : Bytes)
    (hr : RepBody CRep L v) (he : Frame.encode m (writePacket genEnv L v) = .ok f)
    (L' : Layout) (v' : PVal) (rest : Bytes)
    (hd : Frame.decode m (parsePacket genEnv Gen.Packets.all) f = (.ok (some (L', v')), rest)) :
    Frame.encode m (writePacket genEnv L' v') = .ok f := reencode_any m L hL v f (.inl ⟨hb, hr⟩) he L' v' rest hd

/-- … and for the hand-written IS_MSO body (name and message NUL-free, together at most 128 bytes) -/
theorem mso_frame_roundtrip (m : Mode) (v : PVal) (f : Bytes) (hr : RepMso v)
    (he : Frame.encode m (writePacket genEnv Gen.Packets.lMso v) = .ok f) :
    Frame.decode m (parsePacket genEnv Gen.Packets.all) f = (.ok (some (Gen.Packets.lMso, v)), []) :=
  frame_roundtrip_any m _ (by decide +kernel) v f (.inr ⟨by decide +kernel, hr⟩) he

/-! ### text fields as typed values

The theorems above treat a text field as its bytes. What the user holds is a `String`; between the two stands the codepage
layer, whose round trip is C10's subject (`C10.faithful_carets`, under the recorded laws of the ten codecs). Composed
with the field layer: a text of encodable characters, with no caret that would start a marker and no NUL, that fits its
field comes back as the same string — for fixed-width fields, for 4-aligned variable fields, and for IS_MSO, whose typed
`textstart` (a UTF-8 offset into `msg`) is translated to the wire's byte offset and back. -/

open Insim.Cp Insim.Text in
/-- **typed fixed-width text field** -/
theorem text_fixed_roundtrip (cp : Mk → CP) (order : List Mk) (ho : ∀ x : Mk, x ∈ order) (L : Props.C10.Laws cp)
    (LL : Props.C10.LeadLaw cp) (N : NulLaw cp) (n : Nat) (s : Str) (hs : TextOk cp s) (hfit : (toBytes cp order s).length ≤ n) :
    Cp.toString cp (stripNul (writeStr n 0 (toBytes cp order s))) = s :=
  fixed_field_roundtrip cp order ho L LL N n s hs hfit

open Insim.Cp Insim.Text in
/-- **typed variable-width text field** (III MTC BTN ACR, and the text of MSO) -/
theorem text_aligned_roundtrip (cp : Mk → CP) (order : List Mk) (ho : ∀ x : Mk, x ∈ order) (L : Props.C10.Laws cp)
    (LL : Props.C10.LeadLaw cp) (N : NulLaw cp) (n : Nat) (s : Str) (hs : TextOk cp s) (hfit : (toBytes cp order s).length ≤ n) :
    Cp.toString cp (stripNul (writeStr n 4 (toBytes cp order s))) = s :=
  aligned_field_roundtrip cp order ho L LL N n s hs hfit

open Insim.Cp Insim.Text in
/-- **IS_MSO as typed values**: message and text start survive `Mso::write` then `Mso::read` -/
theorem mso_typed (cp : Mk → CP) (order : List Mk) (ho : ∀ x : Mk, x ∈ order) (L : Props.C10.Laws cp)
    (LL : Props.C10.LeadLaw cp) (N : NulLaw cp) (name text : Str) (hn : TextOk cp name) (hs : TextOk cp (name ++ text))
    (hts : strLen name < 256) (hfit : (toBytes cp order (name ++ text)).length ≤ 128)
    (ts : Nat) (body : Bytes) (hw : msoWrite cp order (strLen name) (name ++ text) = some (ts, body)) :
    msoRead cp ts body = some (strLen name, name ++ text) :=
  mso_typed_roundtrip cp order ho L LL N name text hn hs hts hfit ts body hw

open Insim.Cp Insim.Text in
/-- the name's bytes are a prefix of the message's bytes: the wire's TextStart points at a character boundary of the
encoded text, whatever codepage the name ends in -/
theorem mso_name_is_prefix (cp : Mk → CP) (order : List Mk) (name text : Str) :
    (toBytes cp order (name ++ text)).take (toBytes cp order name).length = toBytes cp order name := by
  rw [toBytes_prefix]; exact List.take_left' rfl

/-! non-vacuity of the typed theorems: `Text.one` satisfies all six laws (`one_laws one_lead one_nul`) and the examples in
Lemmas/Text.lean run `msoWrite`/`msoRead` on a name with a non-ASCII character -/

/-! non-vacuity: a concrete TINY and a concrete MCI with one car are in the domain -/
example : Gen.Packets.lTiny ∈ Gen.Packets.all := by decide +kernel
example : RepBody CRep Gen.Packets.lTiny { vals := [.n 2, .n 3], tail := .none } := by
  refine ⟨?_, trivial, trivial⟩
  simp [Gen.Packets.lTiny, RepFields, RepAny, RepTy, arity, maxvOk, memN]
example : writePacket genEnv Gen.Packets.lTiny { vals := [.n 2, .n 3], tail := .none } = .ok [3, 2, 3] := by decide +kernel

/-- a MAL with two mods and an MTC with a five-character text are in the domain too -/
example : RepBody CRep Gen.Packets.lMal { vals := [.n 1, .n 2, .n 0], tail := .set [0x123456, 0xABCDEF] } := by
  refine ⟨?_, by simp [Gen.Packets.lMal, tailCount], ?_⟩
  · simp [Gen.Packets.lMal, RepFields, RepAny, RepTy, arity, maxvOk, tailCount]
  · refine ⟨by intro x hx; simp at hx; rcases hx with rfl | rfl <;> decide, by decide⟩
example : RepBody CRep Gen.Packets.lMtc { vals := [.n 1, .n 0, .n 2, .n 3], tail := .text [104, 101, 108, 108, 111] } := by
  refine ⟨?_, trivial, ?_⟩
  · simp [Gen.Packets.lMtc, RepFields, RepAny, RepTy, arity, maxvOk, memN, tailCount]
  · exact ⟨by decide, by decide⟩

/-- … and a VER announcing version 0.7D3, product "S3", InSim 9 -/
example : RepBody CRep Gen.Packets.lVer { vals := [.n 1, .b [48, 46, 55], .n 68, .n 4, .b [83, 51], .n 9], tail := .none } := by
  refine ⟨?_, trivial, trivial⟩
  simp only [Gen.Packets.lVer, RepFields, RepAny, arity, List.take, List.drop, maxvOk, CRep]
  refine ⟨by simp [RepTy], trivial, ⟨_, _, _, rfl, ?_⟩, trivial, by simp [RepTy], trivial, by simp [RepTy], trivial, trivial⟩
  exact ⟨⟨by decide, by decide, by decide +kernel⟩, by omega, by omega, by decide +kernel⟩

end Insim.Props.C01
