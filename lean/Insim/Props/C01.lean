import Insim.Lemmas.Customs
import Insim.Lemmas.Frame
/-
C01 — lossless packet round trip.
The layouts are regenerated from the packet declarations on every run; `all_wf` re-checks, by
`decide`, that every one of them is well formed (reader and writer attributes agree field by field,
vector kinds carry exactly one `calc`ed count, variable texts are 4-aligned); the round-trip theorems
are proved once for every well-formed layout and every in-domain value.

Proved scope (stated honestly): every kind whose body is declared (`RepBody`): fixed-size kinds, kinds
with a counted vector of flat elements, the two set-valued kinds (MAL, IPB: in-domain sets are
duplicate-free, as the crate's `IndexSet` keeps them) and the until-end-of-frame texts (III MTC BTN
ACR: NUL-free text within the maximum), through the real framing in both size modes. The hand-written
MSO body is covered by its own lemma (`decMso_encMso`). The 8-byte `GameVersion` text in VER is covered at
the level of its text (`GvRep`: canonical major text, upper-case minor letter, printed text within 8
bytes — `gv_roundtrip` in Lemmas/Customs.lean); that the standard library's `f32` parsing and shortest
printing agree with that text-level view is an assumption recorded in C16 (`Laws`) and exercised by the
correspondence run, not proved.
-/
namespace Insim.Props.C01
open Insim Insim.Layout Insim.Frame

/-- every regenerated layout is well formed -/
theorem all_wf : Gen.Packets.all.all Layout.wf = true := by decide +kernel

/-- 73 kinds, pairwise distinct type numbers -/
theorem kinds_complete :
    (Nat.beq Gen.Packets.all.length 73 &&
     Gen.Packets.all.all (fun L => Nat.beq ((Gen.Packets.all.filter (fun M => M.typeNo == L.typeNo)).length) 1)) = true := by
  decide +kernel

/-- the type byte selects the layout it was written from -/
theorem find_self : Gen.Packets.all.all (fun L => (Gen.Packets.all.find? (fun M => M.typeNo == L.typeNo)) == some L) = true := by
  decide +kernel

/-- **packet round trip** (`Packet::write` then `Packet::read`): any in-domain packet of a covered
kind decodes back to itself -/
theorem packet_roundtrip_any (L : Layout) (hL : L ∈ Gen.Packets.all) (v : PVal) (bs : Bytes)
    (hr : RepAnyBody CRep L v) (he : writePacket genEnv L v = .ok bs) :
    parsePacket genEnv Gen.Packets.all bs = .ok (L, v) := by
  unfold writePacket at he
  cases hbody : encBody genEnv L v with
  | err e => simp [hbody] at he
  | panic => simp [hbody] at he
  | ok body =>
    simp only [hbody] at he
    injection he with he; subst he
    have hwf := List.all_eq_true.mp all_wf L hL
    have hfind := List.all_eq_true.mp find_self L hL
    simp only [beq_iff_eq] at hfind
    have hd := decBody_encBody_any genEnv CRep customs_lawful L hwf v body hr hbody
    simp only [parsePacket, hfind, hd]

theorem encodeLength_ok (m : Mode) (len n : Nat) (h : encodeLength m len = .ok n) :
    4 ≤ len ∧ len ≤ m.maxLen ∧ m.announced n = len := by
  cases m with
  | mk c =>
    cases c
    · simp only [encodeLength, minLen, Mode.maxLen, Mode.announced, Bool.false_eq_true, if_false] at h ⊢
      by_cases h1 : len < 4
      · simp [h1] at h
      · by_cases h2 : len > 255
        · simp [h1, h2] at h
        · simp only [h1, h2, if_false] at h
          injection h with h; subst h; omega
    · simp only [encodeLength, minLen, Mode.maxLen, Mode.announced, if_true] at h ⊢
      by_cases h1 : len < 4
      · simp [h1] at h
      · by_cases h0 : len % 4 = 0
        · by_cases h2 : len > 1020
          · simp [h1, h0, h2] at h
          · simp only [h1, h0, h2, if_false, if_true] at h
            injection h with h; subst h; omega
        · simp [h1, h0] at h

/-- the frame the codec builds around a body announces exactly its own length -/
theorem encode_valid (m : Mode) (body f : Bytes) (h : Frame.encode m (.ok body) = .ok f) :
    ValidFrame m f ∧ f.tail = body := by
  unfold Frame.encode at h
  simp only at h
  cases hl : encodeLength m (body.length + 1) with
  | err e => simp [hl] at h
  | panic => simp [hl] at h
  | ok n =>
    simp only [hl] at h
    injection h with h; subst h
    obtain ⟨h4, hmax, ha⟩ := encodeLength_ok m _ n hl
    exact ⟨⟨n, body, rfl, by simpa using ha, by simpa using h4, by simpa using hmax⟩, rfl⟩

/-- **lossless round trip through the real framing, both size modes**: encoding an in-domain
packet and decoding the result yields the same packet and consumes the frame completely -/
theorem frame_roundtrip_any (m : Mode) (L : Layout) (hL : L ∈ Gen.Packets.all) (v : PVal) (f : Bytes)
    (hr : RepAnyBody CRep L v) (he : Frame.encode m (writePacket genEnv L v) = .ok f) :
    Frame.decode m (parsePacket genEnv Gen.Packets.all) f = (.ok (some (L, v)), []) := by
  cases hw : writePacket genEnv L v with
  | err e => simp [hw, Frame.encode] at he
  | panic => simp [hw, Frame.encode] at he
  | ok body =>
    rw [hw] at he
    obtain ⟨hv, ht⟩ := encode_valid m body f he
    have hs := split_complete m f [] hv
    simp only [List.append_nil] at hs
    simp only [Frame.decode, hs, ht, packet_roundtrip_any L hL v body hr hw]

/-- **re-encode**: decoding a frame the encoder produced from an in-domain packet and encoding it again
gives the identical bytes -/
theorem reencode_any (m : Mode) (L : Layout) (hL : L ∈ Gen.Packets.all) (v : PVal) (f : Bytes)
    (hr : RepAnyBody CRep L v) (he : Frame.encode m (writePacket genEnv L v) = .ok f)
    (L' : Layout) (v' : PVal) (rest : Bytes)
    (hd : Frame.decode m (parsePacket genEnv Gen.Packets.all) f = (.ok (some (L', v')), rest)) :
    Frame.encode m (writePacket genEnv L' v') = .ok f := by
  rw [frame_roundtrip_any m L hL v f hr he] at hd
  simp only [Prod.mk.injEq, Out.ok.injEq, Option.some.injEq] at hd
  obtain ⟨⟨rfl, rfl⟩, _⟩ := hd
  exact he

/-- the three theorems for kinds with a declared body (everything but IS_MSO) -/
theorem packet_roundtrip (L : Layout) (hL : L ∈ Gen.Packets.all) (hb : L.customBody = false) (v : PVal) (bs : Bytes)
    (hr : RepBody CRep L v) (he : writePacket genEnv L v = .ok bs) :
    parsePacket genEnv Gen.Packets.all bs = .ok (L, v) := packet_roundtrip_any L hL v bs (.inl ⟨hb, hr⟩) he

theorem frame_roundtrip (m : Mode) (L : Layout) (hL : L ∈ Gen.Packets.all) (hb : L.customBody = false) (v : PVal) (f : Bytes)
    (hr : RepBody CRep L v) (he : Frame.encode m (writePacket genEnv L v) = .ok f) :
    Frame.decode m (parsePacket genEnv Gen.Packets.all) f = (.ok (some (L, v)), []) :=
  frame_roundtrip_any m L hL v f (.inl ⟨hb, hr⟩) he

theorem reencode (m : Mode) (L : Layout) (hL : L ∈ Gen.Packets.all) (hb : L.customBody = false) (v : PVal) (f : Bytes)
    (hr : RepBody CRep L v) (he : Frame.encode m (writePacket genEnv L v) = .ok f)
    (L' : Layout) (v' : PVal) (rest : Bytes)
    (hd : Frame.decode m (parsePacket genEnv Gen.Packets.all) f = (.ok (some (L', v')), rest)) :
    Frame.encode m (writePacket genEnv L' v') = .ok f := reencode_any m L hL v f (.inl ⟨hb, hr⟩) he L' v' rest hd

/-- … and for the hand-written IS_MSO body (name and message NUL-free, together at most 128 bytes) -/
theorem mso_frame_roundtrip (m : Mode) (v : PVal) (f : Bytes) (hr : RepMso v)
    (he : Frame.encode m (writePacket genEnv Gen.Packets.lMso v) = .ok f) :
    Frame.decode m (parsePacket genEnv Gen.Packets.all) f = (.ok (some (Gen.Packets.lMso, v)), []) :=
  frame_roundtrip_any m _ (by decide +kernel) v f (.inr ⟨by decide +kernel, hr⟩) he

/-! non-vacuity: a concrete TINY and a concrete MCI with one car are in the domain -/
example : Gen.Packets.lTiny ∈ Gen.Packets.all := by decide +kernel
example : RepBody CRep Gen.Packets.lTiny { vals := [.n 2, .n 3], tail := .none } := by
  refine ⟨?_, trivial, trivial⟩
  simp [Gen.Packets.lTiny, RepFields, RepAny, RepTy, arity, maxvOk, memN]
example : writePacket genEnv Gen.Packets.lTiny { vals := [.n 2, .n 3], tail := .none } = .ok [3, 2, 3] := by decide +kernel

/-- a MAL with two mods and an MTC with a five-character text are in the domain too -/
example : RepBody CRep Gen.Packets.lMal { vals := [.n 1, .n 2, .n 0], tail := .set [0x123456, 0xABCDEF] } := by
  refine ⟨?_, by simp [Gen.Packets.lMal, tailCount], ?_⟩
  · simp [Gen.Packets.lMal, RepFields, RepAny, RepTy, arity, maxvOk, tailCount]
  · refine ⟨by intro x hx; simp at hx; rcases hx with rfl | rfl <;> decide, by decide⟩
example : RepBody CRep Gen.Packets.lMtc { vals := [.n 1, .n 0, .n 2, .n 3], tail := .text [104, 101, 108, 108, 111] } := by
  refine ⟨?_, trivial, ?_⟩
  · simp [Gen.Packets.lMtc, RepFields, RepAny, RepTy, arity, maxvOk, memN, tailCount]
  · exact ⟨by decide, by decide⟩

/-- … and a VER announcing version 0.7D3, product "S3", InSim 9 -/
example : RepBody CRep Gen.Packets.lVer { vals := [.n 1, .b [48, 46, 55], .n 68, .n 4, .b [83, 51], .n 9], tail := .none } := by
  refine ⟨?_, trivial, trivial⟩
  simp only [Gen.Packets.lVer, RepFields, RepAny, arity, List.take, List.drop, maxvOk, CRep]
  refine ⟨by simp [RepTy], trivial, ⟨_, _, _, rfl, ?_⟩, trivial, by simp [RepTy], trivial, by simp [RepTy], trivial, trivial⟩
  exact ⟨⟨by decide, by decide, by decide +kernel⟩, by omega, by omega, by decide +kernel⟩

end Insim.Props.C01
