import Insim.Model.Conn
/-
C06 — writes reach the transport complete, contiguous and in order.
`writeAll` is the model of `write_all` (blocking, after the `fix:` commit) and `write_all_buf` (tokio):
keep handing the remaining bytes to the transport until none are left.
-/
namespace Insim.Props.C06
open Insim Insim.Conn

/-- a transport that never fails and never accepts zero bytes -/
def Healthy (ws : List WEv) : Prop := ∀ e ∈ ws, e ≠ .ioErr ∧ e ≠ .accept 0

/-- number of `accept` events in a script -/
def accepts : List WEv → Nat
  | [] => 0
  | .accept _ :: ws => accepts ws + 1
  | _ :: ws => accepts ws

/-- a successful `write` put exactly the frame on the wire — whatever the acceptance pattern -/
theorem write_all_ok (f : Bytes) (ws : List WEv) (out : Bytes) (ws' : List WEv)
    (h : writeAll f ws = (out, true, ws')) : out = f := by
  fun_induction writeAll f ws generalizing out ws' with
  | case1 ws => injection h with h1 _; exact h1.symm
  | case2 b bs => simp at h
  | case3 b bs ws ih => exact ih out ws' h
  | case4 b bs ws => simp at h
  | case5 b bs ws => simp at h
  | case6 b bs k ws hk r ih =>
    simp only [Prod.mk.injEq] at h
    obtain ⟨h1, h2, h3⟩ := h
    have := ih r.1 r.2.2 (by rw [← h2])
    rw [← h1, this, List.take_append_drop]

/-- a failed `write` left a prefix of the frame on the wire, never bytes out of order or duplicated -/
theorem write_all_prefix (f : Bytes) (ws : List WEv) : (writeAll f ws).1 <+: f := by
  fun_induction writeAll f ws with
  | case1 ws => exact List.prefix_refl _
  | case2 b bs => exact List.nil_prefix
  | case3 b bs ws ih => exact ih
  | case4 b bs ws => exact List.nil_prefix
  | case5 b bs ws => exact List.nil_prefix
  | case6 b bs k ws hk r ih =>
    obtain ⟨t, ht⟩ := ih
    refine ⟨t, ?_⟩
    show (b :: bs).take k ++ r.1 ++ t = b :: bs
    rw [List.append_assoc, ht, List.take_append_drop]

/-- on a healthy transport with at least one accept event per byte still to go, every write
completes — however few bytes each call takes (k ≥ 1) and however often the transport reports
not-ready -/
theorem write_all_completes (f : Bytes) (ws : List WEv) (hh : Healthy ws) (hn : f.length ≤ accepts ws) :
    (writeAll f ws).2.1 = true ∧ Healthy (writeAll f ws).2.2 ∧
      accepts ws ≤ accepts (writeAll f ws).2.2 + f.length := by
  fun_induction writeAll f ws with
  | case1 ws => exact ⟨rfl, hh, by simp⟩
  | case2 b bs => simp [accepts] at hn
  | case3 b bs ws ih =>
    exact ih (fun e he => hh e (List.mem_cons_of_mem _ he)) (by simpa [accepts] using hn)
  | case4 b bs ws => exact absurd rfl (hh .ioErr (by simp)).1
  | case5 b bs ws => exact absurd rfl (hh (.accept 0) (by simp)).2
  | case6 b bs k ws hk r ih =>
    have hl : ((b :: bs).drop k).length ≤ accepts ws := by
      simp only [accepts, List.length_cons, List.length_drop] at hn ⊢; omega
    obtain ⟨i1, i2, i3⟩ := ih (fun e he => hh e (List.mem_cons_of_mem _ he)) hl
    refine ⟨i1, i2, ?_⟩
    show accepts (WEv.accept k :: ws) ≤ accepts r.2.2 + (b :: bs).length
    have i3' : accepts ws ≤ accepts r.2.2 + ((b :: bs).drop k).length := i3
    simp only [accepts, List.length_cons, List.length_drop] at i3' ⊢; omega

/-- **write_all**: a sequence of writes that all succeed delivers exactly the concatenation of the
frames, contiguous and in call order -/
theorem write_many_ok (fs : List Bytes) (ws : List WEv) (out : Bytes) (h : writeMany fs ws = (out, true)) :
    out = fs.flatten := by
  induction fs generalizing ws out with
  | nil => simp [writeMany] at h; simp [h]
  | cons f fs ih =>
    simp only [writeMany] at h
    split at h
    · rename_i o ws' hw
      simp only [Prod.mk.injEq] at h
      obtain ⟨h1, h2⟩ := h
      have e1 := write_all_ok f ws o ws' hw
      have e2 := ih ws' (writeMany fs ws').1 (by rw [← h2])
      rw [← h1, e1, e2, List.flatten_cons]
    · simp at h

/-- … and whatever happens the wire holds a prefix of that concatenation -/
theorem write_many_prefix (fs : List Bytes) (ws : List WEv) : (writeMany fs ws).1 <+: fs.flatten := by
  induction fs generalizing ws with
  | nil => simp [writeMany]
  | cons f fs ih =>
    simp only [writeMany]
    split
    · rename_i o ws' hw
      have e1 := write_all_ok f ws o ws' hw
      subst e1
      simp only [List.flatten_cons]
      exact (List.prefix_append_right_inj _).mpr (ih ws')
    · rename_i o ws' hw
      have := write_all_prefix f ws
      rw [hw] at this
      simp only [List.flatten_cons]
      exact List.IsPrefix.trans this (List.prefix_append _ _)

/-- on a healthy transport with enough accept events the whole sequence is delivered -/
theorem write_many_completes (fs : List Bytes) (ws : List WEv) (hh : Healthy ws)
    (hn : fs.flatten.length ≤ accepts ws) : writeMany fs ws = (fs.flatten, true) := by
  induction fs generalizing ws with
  | nil => simp [writeMany]
  | cons f fs ih =>
    obtain ⟨c1, c2, c3⟩ := write_all_completes f ws hh (by simp at hn; omega)
    simp only [writeMany]
    split
    · rename_i o ws' hw
      rw [hw] at c1 c2 c3
      have e1 := write_all_ok f ws o ws' hw
      subst e1
      rw [ih ws' c2 (by simp at hn c3 ⊢; omega)]
      simp
    · rename_i o ws' hw
      rw [hw] at c1; cases c1

/-! non-vacuity: five bytes accepted per call, with not-ready reports in between -/
def demoWs : List WEv := [.accept 5, .pending, .pending, .accept 5, .accept 1, .pending, .accept 1, .accept 100,
  .accept 1, .accept 1, .accept 1, .accept 1, .accept 1, .accept 1, .accept 1]
example : writeMany [[1, 2, 3, 4, 5, 6, 7, 8], [9, 10, 11, 12]] demoWs = ([1, 2, 3, 4, 5, 6, 7, 8, 9, 10, 11, 12], true) := by
  apply write_many_completes
  · intro e he; revert e; decide
  · decide

end Insim.Props.C06
