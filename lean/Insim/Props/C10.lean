import Insim.Model.Codepage
import Insim.Gen.Codepages
import Insim.Base.Table
/-
C10 — codepage text conversion is faithful, total and uses LFS's tables.
`toBytes`/`toString` are total functions (structural recursion; no panic value exists in the model).
The codec family is abstract; `Laws` records exactly what the proofs need from `encoding_rs`.
-/
namespace Insim.Props.C10
open Insim Insim.Cp

structure Laws (cp : Mk → CP) : Prop where
  /-- empty input decodes to nothing -/
  decNil : ∀ x, (cp x).dec [] = []
  /-- at a character boundary an ASCII byte decodes to itself -/
  ascii : ∀ x (c : Nat) r, isAscii c = true → (cp x).dec (c :: r) = c :: (cp x).dec r
  /-- the decoder inverts the encoder at a character boundary -/
  decEnc : ∀ x c bs r, (cp x).enc c = some bs → (cp x).dec (bs ++ r) = c :: (cp x).dec r
  /-- marker safety: no encoded byte is a caret -/
  noCaret : ∀ x c bs, (cp x).enc c = some bs → (94 : Nat) ∉ bs

/-- the character exists in at least one of the ten codepages -/
def Encodable (cp : Mk → CP) (c : Nat) : Prop := ∃ x bs, (cp x).enc c = some bs

theorem mk_byte (x : Mk) : mk? x.byte = some (x, false) := by cases x <;> decide

theorem decGo_skip (cp : Mk → CP) (cur : Mk) (acc bs rest : Bytes) (h : (94 : Nat) ∉ bs) :
    decGo cp cur acc (bs ++ rest) = decGo cp cur (acc ++ bs) rest := by
  induction bs generalizing acc with
  | nil => simp
  | cons b bs ih =>
    have hb : b ≠ 94 := fun e => h (by simp [e])
    have hbs : (94 : Nat) ∉ bs := fun e => h (by simp [e])
    cases hr : bs ++ rest with
    | nil =>
      have h1 : bs = [] := (List.append_eq_nil_iff.mp hr).1
      have h2 : rest = [] := (List.append_eq_nil_iff.mp hr).2
      subst h1; subst h2
      simp [decGo]
    | cons x xs =>
      have := ih (acc ++ [b]) hbs
      simp only [List.cons_append, hr] at this ⊢
      simp only [decGo, hb, if_false]
      rw [this]; simp

theorem findCp_sound (cp : Mk → CP) (cur : Mk) (c : Nat) (l : List Mk) (x : Mk) (bs : Bytes)
    (h : findCp cp cur c l = some (x, bs)) : (cp x).enc c = some bs := by
  induction l with
  | nil => simp [findCp] at h
  | cons y ys ih =>
    simp only [findCp] at h
    split at h
    · exact ih h
    · split at h
      · injection h with h; injection h with h1 h2; subst h1; subst h2; assumption
      · exact ih h

theorem findCp_complete (cp : Mk → CP) (cur : Mk) (c : Nat) (l : List Mk)
    (hcur : (cp cur).enc c = none) (x : Mk) (hx : x ∈ l) (bs : Bytes) (he : (cp x).enc c = some bs) :
    ∃ r, findCp cp cur c l = some r := by
  induction l with
  | nil => simp at hx
  | cons y ys ih =>
    simp only [findCp]
    split
    · rename_i hy
      rcases List.mem_cons.mp hx with rfl | hm
      · subst hy; rw [hcur] at he; contradiction
      · exact ih hm
    · split
      · exact ⟨_, rfl⟩
      · rename_i hn
        rcases List.mem_cons.mp hx with rfl | hm
        · rw [hn] at he; contradiction
        · exact ih hm

/-- main invariant: `acc` already decodes (in `cur`) to `pre`, independently of what follows -/
theorem faithful_go (cp : Mk → CP) (order : List Mk) (ho : ∀ x : Mk, x ∈ order) (L : Laws cp) (s : Str)
    (hs : ∀ c ∈ s, c ≠ 94 ∧ (isAscii c = true ∨ Encodable cp c)) :
    ∀ (cur : Mk) (acc : Bytes) (pre : Str),
      (∀ r, (cp cur).dec (acc ++ r) = pre ++ (cp cur).dec r) →
      decGo cp cur acc (encGo cp order cur s) = pre ++ s := by
  induction s with
  | nil =>
    intro cur acc pre hp
    have := hp []
    simp [L.decNil] at this
    simp [encGo, decGo, this]
  | cons c cs ih =>
    intro cur acc pre hp
    have hc := hs c (by simp)
    have hcs : ∀ d ∈ cs, d ≠ 94 ∧ (isAscii d = true ∨ Encodable cp d) := fun d hd => hs d (by simp [hd])
    simp only [encGo]
    split
    · rename_i ha
      have hb : (94 : Nat) ∉ [c] := by simp; exact fun e => hc.1 e.symm
      have := decGo_skip cp cur acc [c] (encGo cp order cur cs) hb
      simp only [List.singleton_append] at this
      rw [this, ih hcs cur (acc ++ [c]) (pre ++ [c])]
      · simp
      · intro r
        rw [List.append_assoc, hp, List.singleton_append, L.ascii cur c r ha]; simp
    · rename_i ha
      split
      · rename_i bs he
        rw [decGo_skip cp cur acc bs _ (L.noCaret cur c bs he), ih hcs cur (acc ++ bs) (pre ++ [c])]
        · simp
        · intro r
          rw [List.append_assoc, hp, L.decEnc cur c bs r he]; simp
      · rename_i hn
        split
        · rename_i x bs hf
          have he := findCp_sound cp cur c order x bs hf
          have hpre : (cp cur).dec acc = pre := by have := hp []; simpa [L.decNil] using this
          simp only [decGo, mk_byte, if_true, if_false, hpre]
          rw [decGo_skip cp x [] bs _ (L.noCaret x c bs he), ih hcs x ([] ++ bs) [c]]
          · simp
          · intro r
            simp [L.decEnc x c bs r he]
        · rename_i hf
          exfalso
          rcases hc.2 with h | ⟨x, bs, he⟩
          · exact ha h
          · obtain ⟨r, hr⟩ := findCp_complete cp cur c order hn x (ho x) bs he
            rw [hr] at hf; cases hf

/-- all-ASCII text: the slow path produces the text itself, so the fast path is no special case -/
theorem encGo_ascii (cp : Mk → CP) (order : List Mk) (cur : Mk) (s : Str) (h : s.all isAscii = true) :
    encGo cp order cur s = s := by
  induction s with
  | nil => rfl
  | cons c cs ih =>
    simp only [List.all_cons, Bool.and_eq_true] at h
    simp [encGo, h.1, ih h.2]

theorem toBytes_eq_encGo (cp : Mk → CP) (order : List Mk) (s : Str) : toBytes cp order s = encGo cp order .L s := by
  unfold toBytes
  split
  · rename_i h; exact (encGo_ascii cp order .L s h).symm
  · rfl

/-- **faithful**: text without carets whose characters each exist in at least one codepage survives
encode-then-decode unchanged — any length, any order of codepage switches, characters shared
between codepages included; for every search order that lists all ten codepages -/
theorem faithful (cp : Mk → CP) (order : List Mk) (ho : ∀ x : Mk, x ∈ order) (L : Laws cp) (s : Str)
    (hs : ∀ c ∈ s, c ≠ 94 ∧ (isAscii c = true ∨ Encodable cp c)) :
    toString cp (toBytes cp order s) = s := by
  rw [toBytes_eq_encGo]
  have := faithful_go cp order ho L s hs .L [] [] (by intro r; simp)
  unfold Cp.toString; exact this

/-- **ASCII passes through byte for byte** -/
theorem ascii_passthrough (cp : Mk → CP) (order : List Mk) (s : Str) (h : s.all isAscii = true) :
    toBytes cp order s = s := by
  simp [toBytes, h]

/-- a character no codepage can encode -/
def Unencodable (cp : Mk → CP) (c : Nat) : Prop := isAscii c = false ∧ ∀ x, (cp x).enc c = none

theorem findCp_none (cp : Mk → CP) (cur : Mk) (c : Nat) (l : List Mk) (h : ∀ x, (cp x).enc c = none) :
    findCp cp cur c l = none := by
  induction l with
  | nil => rfl
  | cons y ys ih => simp [findCp, h y, ih]

/-- **lossy but local**: a character that exists in no codepage becomes `?` and leaves the encoder's
state — hence every neighbour's bytes — exactly as if a literal `?` had been written -/
theorem lossy_local (cp : Mk → CP) (order : List Mk) (cur : Mk) (pre : Str) (c : Nat) (post : Str)
    (hu : Unencodable cp c) :
    encGo cp order cur (pre ++ c :: post) = encGo cp order cur (pre ++ 63 :: post) := by
  induction pre generalizing cur with
  | nil =>
    simp only [List.nil_append, encGo, hu.1, hu.2 cur, findCp_none cp cur c order hu.2]
    simp [isAscii]
  | cons p ps ih =>
    simp only [List.cons_append, encGo]
    split
    · rw [ih]
    · split
      · rw [ih]
      · split
        · rw [ih]
        · rw [ih]

theorem lossy_local_toBytes (cp : Mk → CP) (order : List Mk) (pre : Str) (c : Nat) (post : Str) (hu : Unencodable cp c) :
    toBytes cp order (pre ++ c :: post) = toBytes cp order (pre ++ 63 :: post) := by
  rw [toBytes_eq_encGo, toBytes_eq_encGo, lossy_local cp order .L pre c post hu]

/-- **marker semantics**: bytes following `^X` are interpreted in the codepage of `X` until the next
marker; `^8` selects Latin-1 *and* is kept in the text -/
theorem marker_semantics (cp : Mk → CP) (cur : Mk) (acc : Bytes) (x : Nat) (m : Mk) (keep : Bool) (seg rest : Bytes)
    (hm : mk? x = some (m, keep)) (hseg : (94 : Nat) ∉ seg) (y : Nat) (n : Mk) (k2 : Bool) (hn : mk? y = some (n, k2)) :
    decGo cp cur acc (94 :: x :: (seg ++ 94 :: y :: rest)) =
      (cp cur).dec acc ++ (if keep then [94, 56] else []) ++ (cp m).dec seg ++ (if k2 then [94, 56] else []) ++ decGo cp n [] rest := by
  simp only [decGo, if_true, hm]
  rw [decGo_skip cp m [] seg _ hseg]
  simp only [List.nil_append, decGo, if_true, hn, List.append_assoc]

theorem marker_to_end (cp : Mk → CP) (cur : Mk) (acc : Bytes) (x : Nat) (m : Mk) (keep : Bool) (seg : Bytes)
    (hm : mk? x = some (m, keep)) (hseg : (94 : Nat) ∉ seg) :
    decGo cp cur acc (94 :: x :: seg) = (cp cur).dec acc ++ (if keep then [94, 56] else []) ++ (cp m).dec seg := by
  simp only [decGo, if_true, hm]
  have := decGo_skip cp m [] seg [] hseg
  simp only [List.append_nil, List.nil_append] at this
  rw [this]
  cases seg with
  | nil => simp [decGo]
  | cons a as => cases as <;> simp [decGo]

/-- `^8` returns to Latin-1 and is kept -/
theorem caret8 : mk? 56 = some (.L, true) := by decide

/-- the printed plan is what the decoder does -/
theorem plan_sound (cp : Mk → CP) (cur : Mk) (acc bs : Bytes) :
    (planGo cur acc bs).flatMap (Seg.run cp) = decGo cp cur acc bs := by
  fun_induction planGo cur acc bs with
  | case1 cur acc => simp [decGo, Seg.run]
  | case2 cur acc b => simp [decGo, Seg.run]
  | case3 cur acc x rest m keep hm ih =>
    simp only [decGo, if_true, hm, List.flatMap_cons, List.flatMap_append, ih, Seg.run]
    cases keep <;> simp [Seg.run]
  | case4 cur acc x rest hm ih => simp only [decGo, if_true, hm, ih]
  | case5 cur acc b x rest hb ih => simp only [decGo, hb, if_false, ih]

/-! ### LFS's table, against the table regenerated from the source -/

def name (s : String) : List Nat := s.toList.map Char.toNat

/-- LFS: L=1252 G=1253 C=1251 E=1250 T=1254 B=1257 J=932 S=936 K=949 H=950 (as encoding_rs statics) -/
def specTable : List (Nat × List Nat) := [
  (76, [87, 73, 78, 68, 79, 87, 83, 95, 49, 50, 53, 50]),   -- L WINDOWS_1252
  (71, [87, 73, 78, 68, 79, 87, 83, 95, 49, 50, 53, 51]),   -- G WINDOWS_1253
  (67, [87, 73, 78, 68, 79, 87, 83, 95, 49, 50, 53, 49]),   -- C WINDOWS_1251
  (69, [87, 73, 78, 68, 79, 87, 83, 95, 49, 50, 53, 48]),   -- E WINDOWS_1250
  (84, [87, 73, 78, 68, 79, 87, 83, 95, 49, 50, 53, 52]),   -- T WINDOWS_1254
  (66, [87, 73, 78, 68, 79, 87, 83, 95, 49, 50, 53, 55]),   -- B WINDOWS_1257
  (74, [83, 72, 73, 70, 84, 95, 74, 73, 83]),               -- J SHIFT_JIS  (932)
  (83, [71, 66, 75]),                                       -- S GBK        (936)
  (75, [69, 85, 67, 95, 75, 82]),                           -- K EUC_KR     (949)
  (72, [66, 73, 71, 53]),                                   -- H BIG5       (950)
  (56, [87, 73, 78, 68, 79, 87, 83, 95, 49, 50, 53, 50])    -- 8 WINDOWS_1252
  ]

/-- **table**: the code's marker → encoding table is LFS's -/
theorem table_is_spec :
    (specTable.all (fun r => optBeqB (lookupN r.1 Gen.Codepages.table) r.2)
      && Gen.Codepages.table.all (fun r => optBeqB (lookupN r.1 specTable) r.2)) = true := by decide +kernel

/-- the marker set, the propagated marker, the default and the search order are the ones the model
assumes: eleven markers, `^8` kept, Latin-1 default, all ten letters searched -/
theorem markers_are_model :
    ((List.range 256).all (fun b => (mk? b).isSome == memN b Gen.Codepages.markerSet)
      && (List.range 256).all (fun b => (match mk? b with | some (_, k) => k | none => false) == memN b Gen.Codepages.propagate)
      && Nat.beq Gen.Codepages.defaultCodepage 76
      && Mk.all.all (fun m => memN m.byte Gen.Codepages.order)
      && Gen.Codepages.order.all (fun b => Mk.all.any (fun m => Nat.beq m.byte b))) = true := by decide +kernel

/-! non-vacuity: a two-codec toy family satisfying the laws' shape on a sample -/
def toy : Mk → CP := fun m => match m with
  | .G => { enc := fun c => if c = 945 then some [225] else none, dec := fun bs => bs.map (fun b => if b = 225 then 945 else b) }
  | _ => { enc := fun c => if c = 233 then some [233] else none, dec := fun bs => bs }
example : toBytes toy Mk.all [97, 233, 945, 98] = [97, 233, 94, 71, 225, 98] := by decide
example : toString toy [97, 233, 94, 71, 225, 98] = [97, 233, 945, 98] := by decide
example : toBytes toy Mk.all [97, 128512, 98] = [97, 63, 98] := by decide

/-! ### carets in the text (used by C12's wire clause) -/

/-- a fifth law, needed only when carets occur in the text: the first byte of an encoded non-ASCII
character is never a codepage letter or '8' (true of every real table: lead bytes are ≥ 0x80) -/
def LeadLaw (cp : Mk → CP) : Prop :=
  ∀ x c b bs, isAscii c = false → (cp x).enc c = some (b :: bs) → mk? b = none

/-- every caret of the text is followed by something that is not a codepage letter or '8' (or by nothing) -/
def CaretOk : Str → Prop
  | [] => True
  | [_] => True
  | c :: d :: rest => (c = 94 → mk? d = none) ∧ CaretOk (d :: rest)

theorem caretOk_tail (c : Nat) (cs : Str) (h : CaretOk (c :: cs)) : CaretOk cs := by
  cases cs with
  | nil => trivial
  | cons d rest => exact h.2

/-- a caret that is not the start of a marker is just another byte of the current segment -/
theorem decGo_caret (cp : Mk → CP) (cur : Mk) (acc rest : Bytes)
    (h : ∀ x xs, rest = x :: xs → mk? x = none) :
    decGo cp cur acc (94 :: rest) = decGo cp cur (acc ++ [94]) rest := by
  cases rest with
  | nil => simp [decGo]
  | cons x xs => simp [decGo, h x xs rfl]

theorem enc_nonempty (cp : Mk → CP) (L : Laws cp) (x : Mk) (c : Nat) (h : (cp x).enc c = some []) : False := by
  have := L.decEnc x c [] [] h
  simp [L.decNil] at this

/-- the first byte the encoder emits for a text whose first character follows a caret safely -/
theorem encGo_head (cp : Mk → CP) (order : List Mk) (L : Laws cp) (LL : LeadLaw cp) (cur : Mk) (d : Nat) (ds : Str)
    (hd : mk? d = none) : ∀ x xs, encGo cp order cur (d :: ds) = x :: xs → mk? x = none := by
  intro x xs he
  simp only [encGo] at he
  split at he
  · injection he with h1 _; subst h1; exact hd
  · rename_i ha
    have ha' : isAscii d = false := by simpa using ha
    split at he
    · rename_i bs hb
      cases bs with
      | nil => exact absurd hb (fun h => enc_nonempty cp L cur d h)
      | cons b bs' =>
        simp only [List.cons_append] at he
        injection he with h1 _; subst h1
        exact LL cur d b bs' ha' hb
    · split at he
      · injection he with h1 _; subst h1; decide
      · injection he with h1 _; subst h1; decide

/-- main invariant, with carets allowed -/
theorem faithful_go_carets (cp : Mk → CP) (order : List Mk) (ho : ∀ x : Mk, x ∈ order) (L : Laws cp) (LL : LeadLaw cp) (s : Str)
    (hs : ∀ c ∈ s, isAscii c = true ∨ Encodable cp c) (hc : CaretOk s) :
    ∀ (cur : Mk) (acc : Bytes) (pre : Str),
      (∀ r, (cp cur).dec (acc ++ r) = pre ++ (cp cur).dec r) →
      decGo cp cur acc (encGo cp order cur s) = pre ++ s := by
  induction s with
  | nil =>
    intro cur acc pre hp
    have := hp []
    simp [L.decNil] at this
    simp [encGo, decGo, this]
  | cons c cs ih =>
    intro cur acc pre hp
    have hcc := hs c (by simp)
    have hcs : ∀ d ∈ cs, isAscii d = true ∨ Encodable cp d := fun d hd => hs d (by simp [hd])
    have hct := caretOk_tail c cs hc
    by_cases h94 : c = 94
    · -- a literal caret: ASCII, copied; what follows does not start with a marker byte
      subst h94
      have ha : isAscii 94 = true := by decide
      simp only [encGo, ha, if_true]
      have hnext : ∀ x xs, encGo cp order cur cs = x :: xs → mk? x = none := by
        cases cs with
        | nil => intro x xs he; simp [encGo] at he
        | cons d ds => exact encGo_head cp order L LL cur d ds (hc.1 rfl)
      rw [decGo_caret cp cur acc _ hnext, ih hcs hct cur (acc ++ [94]) (pre ++ [94])]
      · simp
      · intro r
        rw [List.append_assoc, hp, List.singleton_append, L.ascii cur 94 r ha]; simp
    · simp only [encGo]
      split
      · rename_i ha
        have hb : (94 : Nat) ∉ [c] := by simp; exact fun e => h94 e.symm
        have := decGo_skip cp cur acc [c] (encGo cp order cur cs) hb
        simp only [List.singleton_append] at this
        rw [this, ih hcs hct cur (acc ++ [c]) (pre ++ [c])]
        · simp
        · intro r
          rw [List.append_assoc, hp, List.singleton_append, L.ascii cur c r ha]; simp
      · rename_i ha
        split
        · rename_i bs he
          rw [decGo_skip cp cur acc bs _ (L.noCaret cur c bs he), ih hcs hct cur (acc ++ bs) (pre ++ [c])]
          · simp
          · intro r
            rw [List.append_assoc, hp, L.decEnc cur c bs r he]; simp
        · rename_i hn
          split
          · rename_i x bs hf
            have he := findCp_sound cp cur c order x bs hf
            have hpre : (cp cur).dec acc = pre := by have := hp []; simpa [L.decNil] using this
            simp only [decGo, mk_byte, if_true, hpre]
            rw [decGo_skip cp x [] bs _ (L.noCaret x c bs he), ih hcs hct x ([] ++ bs) [c]]
            · simp
            · intro r
              simp [L.decEnc x c bs r he]
          · rename_i hf
            exfalso
            rcases hcc with h | ⟨x, bs, he⟩
            · exact ha h
            · obtain ⟨r, hr⟩ := findCp_complete cp cur c order hn x (ho x) bs he
              rw [hr] at hf; cases hf

/-- **faithful, carets included**: text whose characters each exist in some codepage, in which no caret is
followed by a codepage letter or '8', survives encode-then-decode unchanged -/
theorem faithful_carets (cp : Mk → CP) (order : List Mk) (ho : ∀ x : Mk, x ∈ order) (L : Laws cp) (LL : LeadLaw cp) (s : Str)
    (hs : ∀ c ∈ s, isAscii c = true ∨ Encodable cp c) (hc : CaretOk s) :
    Cp.toString cp (toBytes cp order s) = s := by
  rw [toBytes_eq_encGo]
  have := faithful_go_carets cp order ho L LL s hs hc .L [] [] (by intro r; simp)
  unfold Cp.toString; exact this

end Insim.Props.C10
