import Insim.Props.C05
/-
C07 — keep-alive requests are answered exactly once, and only they are.
-/
namespace Insim.Props.C07
open Insim Insim.Frame Insim.Conn

/-- only TINY / NONE / request id 0 is a keep-alive — for every sub-type and every request id -/
theorem only (c : Cls) : isKeepAlive c = true ↔ c = .tiny 0 0 := by
  cases c with
  | tiny r s =>
    cases r with
    | zero => cases s with
      | zero => simp [isKeepAlive]
      | succ s => simp [isKeepAlive]
    | succ r => simp [isKeepAlive]
  | ver n => simp [isKeepAlive]
  | other => simp [isKeepAlive]

/-- the reply is the encoder's image of TINY_NONE with request id 0, in the connection's own mode -/
theorem pong_is_encoded_tiny_none (m : Mode) : Frame.encode m (.ok [3, 0, 0]) = .ok (pong m) := by
  cases m with | mk c => cases c <;> decide

def wroteOf : Item → Option Bytes
  | .wrote bs => some bs
  | _ => none

/-- does this frame decode to a keep-alive? -/
def isKAFrame (cfg : Cfg) (f : Bytes) : Bool :=
  match cfg.parse (f.tail) with
  | .ok c => isKeepAlive c
  | _ => false

/-- one frame: a keep-alive produces exactly `[reply, delivery]` — the reply first; anything else
produces no write at all -/
theorem frame_reply (cfg : Cfg) (f : Bytes) :
    (isKAFrame cfg f = true → frameItems cfg f = [.wrote (pong cfg.mode), .pkt f (.tiny 0 0)]) ∧
    (isKAFrame cfg f = false → (frameItems cfg f).filterMap wroteOf = []) := by
  cases hpz : cfg.parse (f.tail) with
  | ok c =>
    simp only [isKAFrame, frameItems, hpz]
    constructor
    · intro h
      have := (only c).mp h; subst this
      cases cfg.verify <;> simp [versionReject, isKeepAlive]
    · intro h
      cases hv : (if cfg.verify = true then versionReject c else none) with
      | some n => simp [wroteOf]
      | none => simp [h, wroteOf]
  | err e => simp [isKAFrame, frameItems, hpz, wroteOf]
  | panic => simp [isKAFrame, frameItems, hpz, wroteOf]

theorem frame_writes (cfg : Cfg) (f : Bytes) :
    (frameItems cfg f).filterMap wroteOf = if isKAFrame cfg f then [pong cfg.mode] else [] := by
  by_cases h : isKAFrame cfg f = true
  · rw [(frame_reply cfg f).1 h]; simp [h, wroteOf]
  · have h' : isKAFrame cfg f = false := by simpa using h
    rw [(frame_reply cfg f).2 h']; simp [h']

theorem flatMap_writes (cfg : Cfg) (frames : List Bytes) :
    (frames.flatMap (frameItems cfg)).filterMap wroteOf =
      (frames.filter (isKAFrame cfg)).map (fun _ => pong cfg.mode) := by
  induction frames with
  | nil => rfl
  | cons f fs ih =>
    rw [List.flatMap_cons, List.filterMap_append, ih, frame_writes, List.filter_cons]
    split <;> simp

theorem filterMap_wroteOf_filter (l : List Item) :
    (l.filter (fun i => !i.isFault)).filterMap wroteOf = l.filterMap wroteOf := by
  induction l with
  | nil => rfl
  | cons i is ih =>
    by_cases hf : i.isFault = true
    · have hw : wroteOf i = none := by
        cases i <;> simp [Item.isFault] at hf <;> rfl
      rw [List.filter_cons_of_neg (by simp [hf]), List.filterMap_cons, hw, ih]
    · rw [List.filter_cons_of_pos (by simp [hf]), List.filterMap_cons, List.filterMap_cons, ih]

/-- **pongs**: over any history, any segmentation, any transient faults: the bytes written by the
connection are exactly one reply per received keep-alive, in order, and nothing else -/
theorem pongs (cfg : Cfg) (frames : List Bytes)
    (hv : ∀ f ∈ frames, ValidFrame cfg.mode f) (hp : ∀ f ∈ frames, cfg.parse (f.tail) ≠ .panic)
    (buf : Bytes) (evs : List Ev) (hinv : buf ++ dataOf evs = frames.flatten) (heof : EndsEof evs) :
    (run cfg buf evs).filterMap wroteOf = (frames.filter (isKAFrame cfg)).map (fun _ => pong cfg.mode) := by
  rw [← filterMap_wroteOf_filter, (C05.reassembly cfg frames hv hp buf evs hinv heof).1,
    List.filterMap_append, flatMap_writes]
  simp [wroteOf]

/-- **written before delivery**: in the trace, every keep-alive's delivery is immediately preceded by
its reply (the trace without transient faults is the concatenation of the per-frame results) -/
theorem reply_precedes_delivery (cfg : Cfg) (frames : List Bytes)
    (hv : ∀ f ∈ frames, ValidFrame cfg.mode f) (hp : ∀ f ∈ frames, cfg.parse (f.tail) ≠ .panic)
    (evs : List Ev) (hd : dataOf evs = frames.flatten) (heof : EndsEof evs) :
    (run cfg [] evs).filter (fun i => !i.isFault) =
      frames.flatMap (fun f => if isKAFrame cfg f then [.wrote (pong cfg.mode), .pkt f (.tiny 0 0)]
                               else frameItems cfg f) ++ [.err .disconnected] := by
  rw [C05.reassembly_fresh cfg frames hv hp evs hd heof]
  congr 1
  clear hv hp hd
  induction frames with
  | nil => rfl
  | cons f fs ih =>
    rw [List.flatMap_cons, List.flatMap_cons, ih]
    congr 1
    split
    · rename_i h; exact (frame_reply cfg f).1 h
    · rfl

/-! non-vacuity -/
example : isKAFrame C05.demoCfg [1, 3, 0, 0] = true ∧ isKAFrame C05.demoCfg [1, 3, 1, 0] = false ∧
    isKAFrame C05.demoCfg [1, 3, 0, 3] = false := by decide

end Insim.Props.C07
