import Insim.Model.Vehicle
import Insim.Gen.Vehicle
import Insim.Lemmas.Reader
/-
C13 — vehicle identifiers map one-to-one onto their 4 wire bytes.
Theorems about the hand model of `Vehicle`'s reader/writer instantiated with the tables
regenerated from insim_core/src/vehicle.rs. All quantify over *every* 4-byte value.
-/
namespace Insim.Props.C13
open Insim Insim.Vehicle Insim.Gen.Vehicle

/-- the code's read table and the independent InSim v9 table are the same finite map -/
theorem read_table_is_spec : tablesAgree readRows specRows = true := by decide

/-- **rule**: for every byte string the reader follows the InSim v9 classification -/
theorem rule (b : Bytes) : decode readRows b = classify b := by
  unfold decode classify
  split
  · rename_i b0 b1 b2 b3
    rw [lookup_eq_of_agree read_table_is_spec]
  · rfl

/-- every literal read arm is mirrored by the write arm of the same variant -/
theorem write_mirrors_read : readRows.all (fun r => writeRows.lookup r.2 == some r.1) = true := by decide

/-- **reencode**: whatever 4 bytes decode to re-encodes to the identical 4 bytes (all 2^32 words) -/
theorem reencode (b : Bytes) (hb : IsBytes b) (v : Veh) (h : decode readRows b = .ok v) :
    encode writeRows v = .ok b := by
  unfold decode at h
  split at h
  · rename_i b0 b1 b2 b3
    split at h
    · rename_i hz
      obtain ⟨rfl, rfl, rfl, rfl⟩ := hz
      injection h with h; subst h; rfl
    · split at h
      · split at h
        · rename_i n hl
          injection h with h; subst h
          have hm := lookup_some_mem hl
          have := List.all_eq_true.mp write_mirrors_read _ hm
          simp only [beq_iff_eq] at this
          simp [encode, this]
        · cases h
      · injection h with h; subst h
        simp only [encode]
        have := leBytes_ofLe [b0, b1, b2, b3] hb
        simpa using congrArg Out.ok this
  · cases h

/-- decoding is injective on successful results: no two wire values name the same vehicle -/
theorem decode_injective (b b' : Bytes) (hb : IsBytes b) (hb' : IsBytes b') (v : Veh)
    (h : decode readRows b = .ok v) (h' : decode readRows b' = .ok v) : b = b' := by
  have e := reencode b hb v h
  have e' := reencode b' hb' v h'
  rw [e] at e'; injection e'

/-- **no confusion**: a mod id is produced only for bytes that are neither all zero nor of the
built-in shape, and a built-in only for bytes of the built-in shape -/
theorem no_confusion (b0 b1 b2 b3 : Nat) :
    (∀ id, decode readRows [b0, b1, b2, b3] = .ok (.mod id) →
        isBuiltinShape b0 b1 b2 b3 = false ∧ ¬ (b0 = 0 ∧ b1 = 0 ∧ b2 = 0 ∧ b3 = 0) ∧ id = ofLe [b0, b1, b2, b3]) ∧
    (∀ n, decode readRows [b0, b1, b2, b3] = .ok (.builtin n) → isBuiltinShape b0 b1 b2 b3 = true) := by
  constructor
  · intro id h
    simp only [decode] at h
    split at h
    · cases h
    · rename_i hz
      split at h
      · split at h <;> cases h
      · rename_i hs
        injection h with h; injection h with h
        exact ⟨by simpa using hs, hz, h.symm⟩
  · intro n h
    simp only [decode] at h
    split at h
    · cases h
    · split at h
      · assumption
      · cases h

/-- **unrecognised built-in-style name is an error**, never some other car -/
theorem unknown_name_is_error (b0 b1 b2 b3 : Nat) (hs : isBuiltinShape b0 b1 b2 b3 = true)
    (hn : specRows.lookup [b0, b1, b2, b3] = none) : decode readRows [b0, b1, b2, b3] = .err .decode := by
  rw [rule]
  simp only [classify]
  have hz : ¬ (b0 = 0 ∧ b1 = 0 ∧ b2 = 0 ∧ b3 = 0) := by
    intro ⟨h0, _, _, _⟩; subst h0; simp [isBuiltinShape, isAlnum] at hs
  simp [hz, hs, hn]

/-- **display is wire**: every built-in's printed name is its wire name (wire = name ++ NUL) -/
theorem display_is_wire :
    builtins.all (fun n => match displayRows.lookup n, writeRows.lookup n with
      | some d, some w => w == d ++ [0]
      | _, _ => false) = true := by decide

/-- the write table covers every built-in variant (the model's `err encode` branch is dead) -/
theorem write_total : builtins.all (fun n => (writeRows.lookup n).isSome) = true := by decide

/-- every read arm names a declared variant -/
theorem read_names_declared : readRows.all (fun r => builtins.contains r.2) = true := by decide

/-! non-vacuity: concrete values meeting the hypotheses -/
example : decode readRows [88, 82, 84, 0] = .ok (.builtin [88, 114, 116]) := by decide
example : decode readRows [0x3D, 0x5A, 0x4F, 0x00] = .ok (.mod 0x4F5A3D) := by decide
example : decode readRows [65, 65, 65, 0] = .err .decode := by decide
example : IsBytes [88, 82, 84, 0] := by decide

/-! ### the four bytes reach the decoder through `read_exact` -/

/-- **the decoder does not see how the source cuts its data**: read through `read_exact`, the identifier decodes to what its
first four bytes decode to and the source is left right behind them; with fewer than four bytes left the read fails -/
theorem segmented_read (pieces : List Bytes) :
    (pieces.flatten.length < 4 ∧ Reader.decodeFrom 4 (decode readRows) pieces = (.err .decode, none)) ∨
    (4 ≤ pieces.flatten.length ∧ ∃ rest, Reader.decodeFrom 4 (decode readRows) pieces = (decode readRows (pieces.flatten.take 4), some rest) ∧
       rest.flatten = pieces.flatten.drop 4) :=
  Reader.decodeFrom_spec 4 (decode readRows) pieces

end Insim.Props.C13
