import Insim.Model.Dur
import Insim.Gen.Durations
/-
C15 — time and race-length conversions are exact, or refused — never wrong.
-/
namespace Insim.Props.C15
open Insim Insim.Dur

/-- every wire value of a scaled time field re-encodes to itself (any width, any scale > 0) -/
theorem dur_dec_enc (w scale x : Nat) (hs : 0 < scale) (hx : x < 256 ^ w) :
    writeDur w scale (readDur scale x) = .ok x := by
  simp [writeDur, readDur, Nat.mul_div_cancel _ hs, hx]

/-- encoding rounds down to the field's resolution -/
theorem dur_floor (w scale ms x : Nat) (h : writeDur w scale ms = .ok x) :
    x = ms / scale ∧ x < 256 ^ w := by
  unfold writeDur at h; split at h
  · injection h with h; subst h; exact ⟨rfl, by assumption⟩
  · cases h

/-- … and the decoded value of what was written is the duration rounded down, never anything else -/
theorem dur_floor_ms (w scale ms x : Nat) (hs : 0 < scale) (h : writeDur w scale ms = .ok x) :
    readDur scale x ≤ ms ∧ ms < readDur scale x + scale := by
  obtain ⟨rfl, _⟩ := dur_floor w scale ms x h
  unfold readDur
  constructor
  · exact Nat.div_mul_le_self ms scale
  · have := Nat.lt_div_mul_add hs (a := ms); omega

/-- a duration beyond the field's range is refused, never wrapped -/
theorem dur_refuse (w scale ms : Nat) (h : 256 ^ w ≤ ms / scale) : writeDur w scale ms = .err .encode := by
  simp [writeDur, Nat.not_lt.mpr h]

/-- every duration field of every packet reads and writes with the same width and scale, and the
scale is 1 or 10 ms (regenerated from the field attributes on every run) -/
theorem fields_mirror :
    Gen.Durations.fields.all (fun f => f.rw == f.ww && f.rs == f.ws && (f.rs == 1 || f.rs == 10) &&
      (f.rw == 1 || f.rw == 2 || f.rw == 4)) = true := by decide

/-- so every regenerated duration field round-trips every wire value -/
theorem fields_dec_enc (f : Gen.Durations.Fld) (hf : f ∈ Gen.Durations.fields) (x : Nat) (hx : x < 256 ^ f.rw) :
    writeDur f.ww f.ws (readDur f.rs x) = .ok x := by
  have h := List.all_eq_true.mp fields_mirror f hf
  simp only [Bool.and_eq_true, Bool.or_eq_true, beq_iff_eq] at h
  obtain ⟨⟨⟨h1, h2⟩, h3⟩, _⟩ := h
  rw [← h1, ← h2]
  apply dur_dec_enc
  · rcases h3 with h | h <;> omega
  · exact hx

/-- bytes 239..255 are outside the specification's table: documented fallback (practice) -/
theorem laps_unspecified (b : Nat) (hb : 239 ≤ b) : byteToLaps b = .practice := by
  unfold byteToLaps
  repeat (split; · first | rfl | omega)
  rfl

theorem byteToLaps_low (b : Nat) (h1 : 1 ≤ b) (h2 : b ≤ 99) : byteToLaps b = .laps b := by
  unfold byteToLaps
  repeat' split
  all_goals first | rfl | omega

theorem byteToLaps_mid (b : Nat) (h1 : 100 ≤ b) (h2 : b ≤ 190) : byteToLaps b = .laps ((b - 100) * 10 + 100) := by
  unfold byteToLaps
  repeat' split
  all_goals first | rfl | omega

theorem byteToLaps_hours (b : Nat) (h1 : 191 ≤ b) (h2 : b ≤ 238) : byteToLaps b = .hours (b - 190) := by
  unfold byteToLaps
  repeat' split
  all_goals first | rfl | omega

/-- race length: every specified wire byte (0..238) re-encodes to itself -/
theorem laps_dec_enc (b : Nat) (hb : b ≤ 238) : lapsToByte (byteToLaps b) = b := by
  by_cases h0 : b = 0
  · subst h0; rfl
  by_cases h1 : b ≤ 99
  · rw [byteToLaps_low b (by omega) h1]; simp only [lapsToByte]; split <;> omega
  by_cases h2 : b ≤ 190
  · rw [byteToLaps_mid b (by omega) h2]; simp only [lapsToByte]
    split; · omega
    split <;> omega
  · rw [byteToLaps_hours b (by omega) hb]; simp only [lapsToByte]; split <;> omega

/-- encode is sound: an in-range race length decodes back to itself rounded down to the field's resolution -/
theorem laps_enc_sound (r : RaceLaps) (h : InRange r) : byteToLaps (lapsToByte r) = roundDown r := by
  cases r with
  | practice => rfl
  | laps n =>
    simp only [InRange] at h
    by_cases hn : n ≤ 99
    · have e : lapsToByte (.laps n) = n := by simp only [lapsToByte]; split <;> omega
      have e2 : roundDown (.laps n) = .laps n := by simp only [roundDown]; split <;> first | omega | rfl
      rw [e, e2, byteToLaps_low n h.1 hn]
    · have e : lapsToByte (.laps n) = (n - 100) / 10 + 100 := by
        simp only [lapsToByte]; split; · omega
        split <;> omega
      have e2 : roundDown (.laps n) = .laps (n / 10 * 10) := by simp only [roundDown]; split <;> first | rfl | omega
      rw [e, e2, byteToLaps_mid _ (by omega) (by omega)]
      congr 1; omega
  | hours n =>
    simp only [InRange] at h
    have e : lapsToByte (.hours n) = n + 190 := by simp only [lapsToByte]; split <;> omega
    rw [e, byteToLaps_hours _ (by omega) (by omega), Nat.add_sub_cancel]
    rfl

/-- an out-of-range race length is mapped to the documented fallback, never to another valid value -/
theorem laps_out_of_range (r : RaceLaps) (h : ¬ InRange r) : lapsToByte r = 0 := by
  cases r with
  | practice => rfl
  | laps n => simp only [InRange] at h; simp only [lapsToByte]; split; · omega
              split <;> omega
  | hours n => simp only [InRange] at h; simp only [lapsToByte]; split <;> omega

/-- Small's time sub-types: every u32 wire value re-encodes to itself -/
theorem small_dec_enc (d scale u : Nat) (hd : smallScale d = some scale) (hu : u < 2 ^ 32) :
    smallWriteVal scale (smallReadMs scale u) = .ok u := by
  have hs : 0 < scale := by
    unfold smallScale at hd
    split at hd
    · injection hd with hd; omega
    · split at hd
      · injection hd with hd; omega
      · cases hd
  simp [smallWriteVal, smallReadMs, Nat.mul_div_cancel _ hs, hu]

/-- … and a time beyond the field is refused instead of being narrowed to some other value -/
theorem small_refuse (scale ms : Nat) (h : 2 ^ 32 ≤ ms / scale) : smallWriteVal scale ms = .err .encode := by
  simp [smallWriteVal, Nat.not_lt.mpr h]

theorem small_floor (scale ms x : Nat) (h : smallWriteVal scale ms = .ok x) : x = ms / scale := by
  unfold smallWriteVal at h; split at h
  · injection h with h; exact h.symm
  · cases h

/-- Fuel: every byte re-encodes to itself -/
theorem fuel_dec_enc (b : Nat) (hb : b < 256) : fuelWrite (fuelRead b) = b := by
  unfold fuelRead; split
  · simp [fuelWrite, *]
  · simp only [fuelWrite]; omega

instance : DecidablePred InRange := fun r => by cases r <;> simp only [InRange] <;> infer_instance

/-! non-vacuity -/
example : writeDur 2 10 (readDur 10 65535) = .ok 65535 := by decide
example : writeDur 2 10 655360 = .err .encode := by decide
example : byteToLaps 191 = .hours 1 ∧ lapsToByte (.hours 1) = 191 := by decide
example : InRange (.laps 255) ∧ byteToLaps (lapsToByte (.laps 255)) = .laps 250 := by decide
example : ¬ InRange (.hours 67) ∧ lapsToByte (.hours 67) = 0 := by decide
example : smallScale 6 = some 10 := by decide

end Insim.Props.C15
