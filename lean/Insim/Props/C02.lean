import Insim.Lemmas.Spec
import Insim.Gen.Spec
import Insim.Gen.Packets
import Insim.Gen.PacketNames
/-
C02 — the wire layout conforms to the InSim v9 / relay specification.

Two independent tables meet here. `Gen.Spec.all` is generated from DESIGN-appendix-spec.md (a
transcription of the published specification written down at design time; nothing under /repo is read
to produce it). `Gen.Packets.all` / `Gen.PacketNames.rows` are regenerated from the packet structs,
enums and bitflags of the source on every run. `conforms` normalises both into a byte map of the frame
— for every offset: spare / start of a field (normalised name, class, unit, width) / continuation /
opaque (hand-written codec) — and compares them on the reader's and on the writer's side, together
with the tail (element layout, odd-count padding, text alignment and maximum) and every enumerant
and flag constant (name and value) the specification lists.

`conforms_all` is the finite comparison (kernel evaluation over all 73 kinds). The generic theorems
then carry it to *every field assignment*: whatever the values, the writer puts each field's encoding
at the field's offset (`field_written_at`), writes zero at every spare byte (`spare_written_zero`),
and the reader takes each field from the same offset (`field_read_at`); the second byte of every frame
is the type number and the third the request id (`header`).

Not covered by these theorems (decided by the correspondence run and the oracle on the real code):
the inner layout of the hand-written codecs (marked opaque in the byte map: IS_SMALL's value — its named
values are compared in `small_values_conform` —, CIM modes, the version text of IS_VER) and IS_MSO's
hand-written body. CarContact's inner layout is compared in `coninfo_cells_conform`.
-/
namespace Insim.Props.C02
open Insim Insim.Layout Insim.Spec Insim.Props.C03 Insim.Frame

/-! ### the finite comparison -/

/-- the two tables list the same type numbers -/
theorem kinds_covered :
    Gen.Packets.all.all (fun L => (specFor Gen.Spec.all L.typeNo).isSome) = true ∧
    Gen.Spec.all.all (fun S => Gen.Packets.all.any (fun L => L.typeNo == S.typeNo)) = true := by
  constructor <;> decide +kernel

/-- **every regenerated layout conforms to its specification entry** (both sides, tails, enumerant and flag rows) -/
theorem conforms_all : Gen.Packets.all.all (conforms Gen.PacketNames.rows Gen.Spec.all) = true := by decide +kernel

theorem conforms_of_mem (L : Layout) (hL : L ∈ Gen.Packets.all) :
    conforms Gen.PacketNames.rows Gen.Spec.all L = true :=
  List.all_eq_true.mp conforms_all L hL

/-- IS_SMALL is a hand-written codec (opaque in the byte map): every named value the specification lists for a
sub-type (light switches, siren, horn, cars, vote actions) is a named value of the crate's type for that sub-type -/
def smallRowsOk : Bool :=
  Gen.Spec.smallRows.all (fun e =>
    match lookupRows Gen.PacketNames.rows 4 ([115, 117, 98, 116, 46] ++ e.1) with
    | some code => rowsIn e.2 code
    | none => false)

theorem small_values_conform : smallRowsOk = true := by decide +kernel

/-- every body starts with the one-byte request id -/
def startsWithReqi (L : Layout) : Bool :=
  L.customBody ||
  (match L.fields with
   | f :: _ => f.rb == 0 && f.wb == 0 && beqB (normName f.path) [114, 101, 113, 105] && wireSize f.ty == 1
   | [] => false)

theorem reqi_first : Gen.Packets.all.all startsWithReqi = true := by decide +kernel

/-- fixed-width texts only (so that every field has a constant width) -/
theorem fixed_widths : Gen.Packets.all.all (fun L => L.fields.all (fun f => fixedStr f.ty)) = true := by decide +kernel

theorem fixed_of_mem (L : Layout) (hL : L ∈ Gen.Packets.all) : ∀ f ∈ L.fields, fixedStr f.ty = true :=
  fun f hf => List.all_eq_true.mp (List.all_eq_true.mp fixed_widths L hL) f hf

/-! ### from the table to every field assignment -/

/-- **spare bytes**: for every kind and every value, the fixed part the writer produces carries a zero at
every offset its byte map (hence, by `conforms_all`, the specification) marks as spare -/
theorem spare_written_zero (L : Layout) (hL : L ∈ Gen.Packets.all) (cnt : Nat) (vs : List Val) (bs : Bytes)
    (h : encFields genEnv cnt L.fields vs = .ok bs) (i : Nat) (hs : (codeMarks .wr [] L.fields)[i]? = some .spare) :
    bs[i]? = some 0 :=
  spareZero_get _ _ (enc_spare_zero cnt [] L.fields (fixed_of_mem L hL) vs bs h) i hs

/-- **field placement (writer)**: the bytes of field `f` — the encoding of `f`'s own values, whatever the other
fields hold — start at the offset of `f`'s start mark in the byte map -/
theorem field_written_at (L : Layout) (hL : L ∈ Gen.Packets.all) (pre : List Field) (f : Field) (post : List Field)
    (hf : L.fields = pre ++ f :: post) (cnt : Nat) (vs : List Val) (bs : Bytes)
    (h : encFields genEnv cnt L.fields vs = .ok bs) :
    ∃ b, encTy genEnv f.ty cnt ((vs.drop (arities pre)).take (arity f.ty)) = .ok b ∧ b.length = wTy f.ty ∧
      (bs.drop ((codeMarks .wr [] pre).length + f.wb)).take (wTy f.ty) = b := by
  have hfx := fixed_of_mem L hL
  rw [hf] at h hfx
  obtain ⟨a, b, c, e1, e2, e3, e4⟩ := enc_field_at cnt pre f post hfx vs bs h
  refine ⟨b, e3, e4, ?_⟩
  rw [codeMarks_length_wr, e1]
  have : (a ++ (List.replicate f.wb 0 ++ b ++ List.replicate f.wa 0) ++ c).drop (fieldsWSize pre + f.wb)
      = b ++ (List.replicate f.wa 0 ++ c) := by
    have h1 : a ++ (List.replicate f.wb 0 ++ b ++ List.replicate f.wa 0) ++ c
        = (a ++ List.replicate f.wb 0) ++ (b ++ (List.replicate f.wa 0 ++ c)) := by simp [List.append_assoc]
    rw [h1]; exact List.drop_left' (by simp [e2])
  rw [this, ← e4]; exact List.take_left' rfl

/-- **field placement (reader)**: when the fixed part decodes, field `f`'s values are what `f`'s own decoder
returns on the input from the offset of `f`'s start mark on -/
theorem field_read_at (L : Layout) (pre : List Field) (f : Field) (post : List Field)
    (hf : L.fields = pre ++ f :: post) (x : Bytes) (vs : List Val) (r : Bytes)
    (h : decFields genEnv L.fields x = .ok (vs, r)) :
    ∃ v r1, decTy genEnv f.ty (x.drop ((codeMarks .rd [] pre).length + f.rb)) = .ok (v, r1) := by
  rw [hf] at h
  rw [codeMarks_length_rd]
  exact dec_field_at genEnv pre f post x vs r h

/-- the start mark of `f` sits at that offset, and (by `conforms_all`) equals the specification's mark there -/
theorem start_mark_at (s : Side) (L : Layout) (pre : List Field) (f : Field) (post : List Field)
    (hf : L.fields = pre ++ f :: post) (c u w : Nat) (hc : clsOf f.ty = some (c, u)) (hw : widthOn s f.ty = w + 1) :
    (codeMarks s [] L.fields)[(codeMarks s [] pre).length + padB s f]? = some (.start (normName f.path) c u (w + 1)) := by
  rw [hf]; simpa using codeMarks_start s [] pre f post c u w hc hw

/-- **bytes 0, 1, 2**: the size byte is first, the packet type number second; the body (whose first byte is
the request id, `reqi_first`) follows -/
theorem header (m : Mode) (L : Layout) (v : PVal) (f : Bytes)
    (h : Frame.encode m (writePacket genEnv L v) = .ok f) :
    ∃ n body, f = n :: L.typeNo :: body ∧ encBody genEnv L v = .ok body := by
  unfold writePacket at h
  cases hb : encBody genEnv L v with
  | err e => simp [hb, Frame.encode] at h
  | panic => simp [hb, Frame.encode] at h
  | ok body =>
    simp only [hb, Frame.encode] at h
    split at h
    · injection h with h; exact ⟨_, body, h.symm, rfl⟩
    · cases h
    · cases h

/-! ### inside the hand-written CarContact codec -/

/-- byte layout of the hand-written CarContact codec (`customEnc .conInfo` / `customDec .conInfo`):
normalised name, offset inside the 16 bytes, width. Byte 2 is spare. -/
def conInfoCells : List (Bytes × Nat × Nat) :=
  [([112, 108, 105, 100], 0, 1), ([105, 110, 102, 111], 1, 1), ([115, 116, 101, 101, 114], 3, 1),
   ([116, 104, 114, 98, 114, 107], 4, 1), ([99, 108, 117, 104, 97, 110], 5, 1), ([103, 101, 97, 114, 115, 112], 6, 1),
   ([115, 112, 101, 101, 100], 7, 1), ([100, 105, 114, 101, 99, 116, 105, 111, 110], 8, 1),
   ([104, 101, 97, 100, 105, 110, 103], 9, 1), ([97, 99, 99, 101, 108, 102], 10, 1), ([97, 99, 99, 101, 108, 114], 11, 1),
   ([120], 12, 2), ([121], 14, 2)]

/-- the specification's cells of IS_CON under a prefix (`a.` / `b.`), relative to a base offset -/
def specSub (S : SKind) (pre : Bytes) (base : Nat) : List (Bytes × Nat × Nat) :=
  (S.cells.filter (fun c => beqB (c.code.take pre.length) pre)).map (fun c => (c.code.drop pre.length, c.off - base, c.width))

def eqCells : List (Bytes × Nat × Nat) → List (Bytes × Nat × Nat) → Bool
  | [], [] => true
  | a :: as, b :: bs => beqB a.1 b.1 && a.2.1 == b.2.1 && a.2.2 == b.2.2 && eqCells as bs
  | _, _ => false

/-- the hand-written CarContact layout is the specification's, for both cars of IS_CON -/
theorem coninfo_cells_conform :
    (match specFor Gen.Spec.all 50 with
     | some S => eqCells (specSub S [97, 46] 8) conInfoCells && eqCells (specSub S [98, 46] 24) conInfoCells
     | none => false) = true := by decide +kernel

/-- what the hand-written writer puts at those offsets, for every in-range value (nibbles ≤ 15) -/
theorem coninfo_written (plid info steer thr brk clu han gearsp speed direction heading accelf accelr x y : Nat) (bs : Bytes)
    (h : customEnc genEnv .conInfo [.n plid, .n info, .n steer, .n thr, .n brk, .n clu, .n han, .n gearsp, .n speed,
      .n direction, .n heading, .n accelf, .n accelr, .n x, .n y] = .ok bs) :
    bs = [plid % 256, info % 256, 0, steer % 256, thr * 16 + brk, clu * 16 + han, gearsp * 16, speed % 256,
          direction % 256, heading % 256, accelf % 256, accelr % 256] ++ leBytes 2 x ++ leBytes 2 y := by
  simp only [customEnc] at h
  split at h
  · cases h
  · injection h with h; exact h.symm

/-! ### non-vacuity -/

/-- IS_PLC: the connection id is written at frame offset 4 (body offset 2) and the three bytes after it are zero -/
example : (codeMarks .wr [] Gen.Packets.lPlc.fields).take 6 =
    [.start [114, 101, 113, 105] 0 0 1, .spare, .start [117, 99, 105, 100] 0 0 1, .spare, .spare, .spare] := by decide +kernel

end Insim.Props.C02
