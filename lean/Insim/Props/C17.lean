import Insim.Lemmas.Files
import Insim.Model.FilesEnv
import Insim.Props.C06
/-
C17 — PTH and SMX files round-trip and their parsers withstand any input.

The container model (`Insim.Model.Files`: magic, header with `calc`ed i32 counts, counted vectors, a
negative count is an error) is instantiated with the leaf layouts regenerated on every run from
insim_pth/src/lib.rs and insim_smx/src/lib.rs (`genLeafs`). Every theorem quantifies over *all* byte
strings / all in-domain files — any number of nodes, objects, points, triangles and checkpoints.
The generic proofs are in `Insim.Lemmas.Files`; here they are instantiated after checking, by kernel
evaluation, that the regenerated layouts satisfy the side conditions (`PthOk`, `SmxOk`, …).

Not carried by the model: the allocator. "Never allocates beyond what the input can justify" is
stated here as: the number of decoded elements never exceeds the number of input bytes
(`*_size_justified`); how binrw reserves memory while reading is measured by the harness
(counting allocator) and is outside the theorems.
-/
namespace Insim.Props.C17
open Insim Insim.Layout Insim.Files

/-! ### the regenerated layouts satisfy the side conditions -/

theorem pth_ok : PthOk genLeafs = true := by decide +kernel
theorem smx_ok : SmxOk genLeafs = true := by decide +kernel
/-- PTH has no padding and no text: every byte string that parses is canonical -/
theorem pth_canon_free : PthCanonFree genLeafs = true := by decide +kernel

/-! ### parsing any byte string returns a value or an error (the model has an explicit panic outcome) -/

theorem pth_total (bs : Bytes) : decPth genLeafs bs ≠ .panic := decPth_no_panic _ bs
theorem smx_total (bs : Bytes) : decSmx genLeafs bs ≠ .panic := decSmx_no_panic _ bs

/-! ### a file cut short anywhere inside its declared content is rejected -/

/-- for every file `c` (possibly followed by trailing bytes `t`) that parses consuming exactly `c`,
every strict prefix of `c` is rejected -/
theorem pth_prefix_rejected (c t : Bytes) (p : Pth) (hd : decPth genLeafs (c ++ t) = .ok (p, t)) (k : Nat)
    (hk : k < c.length) : ∃ e, decPth genLeafs (c.take k) = .err e :=
  Files.pth_prefix_rejected _ pth_ok c t p hd k hk

theorem smx_prefix_rejected (c t : Bytes) (s : Smx) (hd : decSmx genLeafs (c ++ t) = .ok (s, t)) (k : Nat)
    (hk : k < c.length) : ∃ e, decSmx genLeafs (c.take k) = .err e :=
  Files.smx_prefix_rejected _ smx_ok c t s hd k hk

/-- parsing is insensitive to what follows the declared content -/
theorem pth_extension (x y : Bytes) (p : Pth) (r : Bytes) (h : decPth genLeafs x = .ok (p, r)) :
    decPth genLeafs (x ++ y) = .ok (p, r ++ y) := pth_ext _ pth_ok x y p r h
theorem smx_extension (x y : Bytes) (s : Smx) (r : Bytes) (h : decSmx genLeafs x = .ok (s, r)) :
    decSmx genLeafs (x ++ y) = .ok (s, r ++ y) := smx_ext _ smx_ok x y s r h

/-! ### hostile counts -/

/-- a negative node count (top bit set) is an error whatever follows -/
theorem pth_negative_count (x b1 b2 : Bytes) (hv : List Val) (n : Nat)
    (h1 : dropMagic genLeafs.pthMagic x = some b1) (h2 : decFields noEnv genLeafs.pthHeader b1 = .ok (hv, b2))
    (h3 : countsOf genLeafs.pthHeader hv = [n]) (h4 : 2 ^ 31 ≤ n) : decPth genLeafs x = .err .decode :=
  Files.pth_negative_count _ x b1 b2 hv n h1 h2 h3 h4

theorem smx_negative_object_count (x b1 b2 : Bytes) (hv : List Val) (n : Nat)
    (h1 : dropMagic genLeafs.smxMagic x = some b1) (h2 : decFields noEnv genLeafs.smxHeader b1 = .ok (hv, b2))
    (h3 : countsOf genLeafs.smxHeader hv = [n]) (h4 : 2 ^ 31 ≤ n) : decSmx genLeafs x = .err .decode :=
  Files.smx_negative_object_count _ x b1 b2 hv n h1 h2 h3 h4

theorem smx_negative_point_or_triangle_count (x b1 : Bytes) (hv : List Val) (np nt : Nat)
    (h2 : decFields noEnv genLeafs.objHeader x = .ok (hv, b1)) (h3 : countsOf genLeafs.objHeader hv = [np, nt])
    (h4 : 2 ^ 31 ≤ np ∨ 2 ^ 31 ≤ nt) : decObj genLeafs x = .err .decode :=
  Files.obj_negative_count _ x b1 hv np nt h2 h3 h4

/-- a huge count is only accepted when the input really has that many elements: the decoded
collections never have more elements than the input has bytes -/
theorem pth_size_justified (x : Bytes) (p : Pth) (r : Bytes) (h : decPth genLeafs x = .ok (p, r)) :
    p.nodes.length + r.length ≤ x.length := Files.pth_size_justified _ pth_ok x p r h

theorem smx_size_justified (x : Bytes) (s : Smx) (r : Bytes) (h : decSmx genLeafs x = .ok (s, r)) :
    objsWeight s.objects + 4 * s.checkpoints.length + r.length ≤ x.length :=
  Files.smx_size_justified _ smx_ok x s r h

/-! ### round trips -/

/-- write → parse: every in-domain PTH value (any number of nodes below 2^31) -/
theorem pth_write_parse (p : Pth) (hr : RepPth genLeafs p) (b r : Bytes) (he : encPth genLeafs p = .ok b) :
    decPth genLeafs (b ++ r) = .ok (p, r) := Files.pth_write_parse _ pth_ok p hr b r he

theorem smx_write_parse (s : Smx) (hr : RepSmx genLeafs s) (b r : Bytes) (he : encSmx genLeafs s = .ok b) :
    decSmx genLeafs (b ++ r) = .ok (s, r) := Files.smx_write_parse _ smx_ok s hr b r he

/-- parse → write → parse: whatever a byte string parses to can be written, and parsing what was
written gives the equal structure and consumes everything -/
theorem pth_parse_write_parse (x : Bytes) (hx : IsBytes x) (p : Pth) (r : Bytes) (h : decPth genLeafs x = .ok (p, r)) :
    ∃ b, encPth genLeafs p = .ok b ∧ decPth genLeafs b = .ok (p, []) :=
  Files.pth_parse_write_parse _ pth_ok x hx p r h

theorem smx_parse_write_parse (x : Bytes) (hx : IsBytes x) (s : Smx) (r : Bytes) (h : decSmx genLeafs x = .ok (s, r)) :
    ∃ b, encSmx genLeafs s = .ok b ∧ decSmx genLeafs b = .ok (s, []) :=
  Files.smx_parse_write_parse _ smx_ok x hx s r h

/-! ### canonical files are reproduced byte for byte -/

/-- every PTH file is canonical: the written bytes are the bytes read (up to unread trailing bytes) -/
theorem pth_canonical (x : Bytes) (hx : IsBytes x) (p : Pth) (r : Bytes) (h : decPth genLeafs x = .ok (p, r)) :
    ∃ b, encPth genLeafs p = .ok b ∧ x = b ++ r := Files.pth_canonical _ pth_ok pth_canon_free x hx p r h

/-- an SMX file all of whose skipped pad bytes (file header, after each triangle) are zero and whose
track name is cleanly NUL-padded is reproduced byte for byte -/
theorem smx_canonical (x : Bytes) (hx : IsBytes x) (hcan : SmxCanonical genLeafs x) (s : Smx) (r : Bytes)
    (h : decSmx genLeafs x = .ok (s, r)) : ∃ b, encSmx genLeafs s = .ok b ∧ x = b ++ r :=
  Files.smx_canonical _ smx_ok x hx hcan s r h

/-! ### non-vacuity: concrete files meet the hypotheses -/

/-- the empty PTH file (no nodes) -/
def pth0 : Pth := { header := [.n 0, .n 0, .n 0, .n 0], nodes := [] }
example : ∃ b, encPth genLeafs pth0 = .ok b ∧ decPth genLeafs b = .ok (pth0, []) ∧ b.length = 16 := by
  refine ⟨[76, 70, 83, 80, 84, 72, 0, 0, 0, 0, 0, 0, 0, 0, 0, 0], ?_, ?_, rfl⟩ <;> decide +kernel

/-- a one-node PTH file with a NaN bit pattern in a float field round-trips, and cutting its last byte is rejected -/
def pth1 : Pth := { header := [.n 0, .n 0, .n 1, .n 0], nodes := [[.n 1, .n 2, .n 3, .n 0x7fc00001, .n 0, .n 0, .n 0, .n 0, .n 0, .n 0]] }
example : (match encPth genLeafs pth1 with
    | .ok b => decPth genLeafs b == .ok (pth1, []) && (match decPth genLeafs (b.take (b.length - 1)) with | .err _ => true | _ => false)
    | _ => false) = true := by decide +kernel

/-- a negative count in an otherwise well-formed PTH header -/
example : decPth genLeafs [76, 70, 83, 80, 84, 72, 0, 0, 255, 255, 255, 255, 0, 0, 0, 0] = .err .decode := by decide +kernel

/-- an SMX file with one object (one point, one triangle) and two checkpoints: it round-trips, and *every*
strict prefix of the written bytes is rejected (here checked by evaluation; `smx_prefix_rejected` is the general fact) -/
def smx1 : Smx :=
  { header := [.n 0, .n 6, .n 0, .n 3, .n 1, .n 1, .b [66, 76], .n 1, .n 2, .n 3, .n 1],
    objects := [{ header := [.n 1, .n 2, .n 3, .n 4, .n 1, .n 1],
                  points := [[.n 1, .n 2, .n 0xFFFFFFFF, .n 255, .n 1, .n 2, .n 3]],
                  triangles := [[.n 0, .n 0, .n 0]] }],
    checkpoints := [0, 0xFFFFFFFF] }
example : (match encSmx genLeafs smx1 with
    | .ok b => decSmx genLeafs b == .ok (smx1, []) &&
        (List.range b.length).all (fun k => match decSmx genLeafs (b.take k) with | .err _ => true | _ => false)
    | _ => false) = true := by decide +kernel

/-- **the sink does not matter**: a file is serialised field by field, each field handed to the sink with `write_all`
(`Conn.writeAll`: keep offering the rest until it is gone). On any sink — however few bytes it takes per call, however often it is
not ready — when every write succeeds the sink holds exactly the in-memory image; the harness's `smx.wdrib / pth.wdrib` cases run
the real writers against such sinks -/
theorem sink_independent (fields : List Bytes) (img : Bytes) (hf : fields.flatten = img) (ws : List Conn.WEv) (out : Bytes)
    (h : Conn.writeMany fields ws = (out, true)) : out = img :=
  hf ▸ Props.C06.write_many_ok fields ws out h

/-- … and whatever happens it holds a prefix of the image, never bytes out of place -/
theorem sink_prefix (fields : List Bytes) (img : Bytes) (hf : fields.flatten = img) (ws : List Conn.WEv) :
    (Conn.writeMany fields ws).1 <+: img :=
  hf ▸ Props.C06.write_many_prefix fields ws

end Insim.Props.C17
