import Insim.Model.Builder
import Insim.Gen.Builder
import Insim.Base.Table
/-
C18 — the handshake carries exactly the configured connection options.
Refinement of the builder to "the last writer wins, documented defaults otherwise", for every
sequence of setter calls.
-/
namespace Insim.Props.C18
open Insim Insim.Bld

/-- generic "last writer wins": if every op either overwrites a field with `g op` or leaves it alone,
the field after any sequence of ops is the last opinion, or the initial value -/
theorem last_writer {α} (field : Cfg → α) (g : Op → Option α)
    (h : ∀ c op, field (apply c op) = (g op).getD (field c)) (ops : List Op) (c : Cfg) :
    field (ops.foldl apply c) = (lastSome g ops).getD (field c) := by
  induction ops generalizing c with
  | nil => rfl
  | cons op rest ih =>
    simp only [List.foldl_cons, lastSome]
    rw [ih]
    cases lastSome g rest with
    | some v => rfl
    | none => simp [h]

/-! the opinion of each op about each handshake field -/
def gPfx : Op → Option (Option Nat) | .pfx p => some p | _ => none
def gInterval : Op → Option (Option Nat) | .interval i => some i | _ => none
def gIname : Op → Option (Option (List Nat)) | .iname s => some s | _ => none
def gAdmin : Op → Option (Option (List Nat)) | .admin s => some s | _ => none
def gReqi : Op → Option Nat | .reqi r => some r | _ => none
def gMode : Op → Option Bool | .mode m => some m | _ => none
def gProto : Op → Option Proto | .tcp => some .tcp | .udp _ => some .udp | .relay => some .relay | _ => none
def gLocal : Op → Option (Option Nat) | .udp l => some l | _ => none
/-- bit `i` of the flags: wholesale replacement decides every bit; a flag helper decides the bits of its mask -/
def gBit (i : Nat) : Op → Option Bool
  | .flags v => some (v.getLsbD i)
  | .flag m on => if m.getLsbD i then some on else none
  | _ => none

theorem pfx_last (ops : List Op) : (run ops).pfx = (lastSome gPfx ops).getD none :=
  last_writer (·.pfx) gPfx (by intro c op; cases op <;> rfl) ops {}
theorem interval_last (ops : List Op) : (run ops).interval = (lastSome gInterval ops).getD none :=
  last_writer (·.interval) gInterval (by intro c op; cases op <;> rfl) ops {}
theorem iname_last (ops : List Op) : (run ops).iname = (lastSome gIname ops).getD none :=
  last_writer (·.iname) gIname (by intro c op; cases op <;> rfl) ops {}
theorem admin_last (ops : List Op) : (run ops).admin = (lastSome gAdmin ops).getD none :=
  last_writer (·.admin) gAdmin (by intro c op; cases op <;> rfl) ops {}
theorem reqi_last (ops : List Op) : (run ops).reqi = (lastSome gReqi ops).getD 0 :=
  last_writer (·.reqi) gReqi (by intro c op; cases op <;> rfl) ops {}
theorem mode_last (ops : List Op) : (run ops).compressed = (lastSome gMode ops).getD true :=
  last_writer (·.compressed) gMode (by intro c op; cases op <;> rfl) ops {}
theorem proto_last (ops : List Op) : (run ops).proto = (lastSome gProto ops).getD .tcp :=
  last_writer (·.proto) gProto (by intro c op; cases op <;> rfl) ops {}
theorem local_last (ops : List Op) : (run ops).udpLocalPort = (lastSome gLocal ops).getD none :=
  last_writer (·.udpLocalPort) gLocal (by intro c op; cases op <;> rfl) ops {}

/-- every flag bit: the last `isi_flags` replacement or `isi_flag_*` call touching that bit wins;
untouched bits are clear -/
theorem flag_bit_last (i : Nat) (hi : i < 16) (ops : List Op) :
    (run ops).flags.getLsbD i = (lastSome (gBit i) ops).getD false := by
  have := last_writer (fun c => c.flags.getLsbD i) (gBit i) (by
    intro c op
    cases op <;> simp only [apply, gBit, Option.getD]
    rename_i m on
    cases on <;> cases hm : m.getLsbD i <;>
      simp only [setMask, Bool.false_eq_true, if_false, if_true, BitVec.getLsbD_or, BitVec.getLsbD_and,
        BitVec.getLsbD_not, hm, hi, decide_true, Bool.not_false, Bool.not_true, Bool.and_true, Bool.and_false,
        Bool.or_false, Bool.or_true, Bool.true_and]) ops {}
  simpa [run] using this

/-- **the ISI carries exactly the configured options, with the documented defaults** -/
theorem isi_last_writer (dn : List Nat) (ver : Nat) (ops : List Op) :
    let p := isi dn ver (run ops)
    p.reqi = (lastSome gReqi ops).getD 0 ∧
    p.pfx = ((lastSome gPfx ops).getD none).getD 0 ∧
    p.interval = ((lastSome gInterval ops).getD none).getD 0 ∧
    p.admin = ((lastSome gAdmin ops).getD none).getD [] ∧
    p.iname = ((lastSome gIname ops).getD none).getD dn ∧
    p.version = ver ∧
    p.udpport = (match (lastSome gProto ops).getD .tcp with
      | .udp => ((lastSome gLocal ops).getD none).getD 0
      | _ => 0) ∧
    (∀ i, i < 16 → p.flags.getLsbD i = (lastSome (gBit i) ops).getD false) := by
  refine ⟨reqi_last ops, ?_, ?_, ?_, ?_, rfl, ?_, fun i hi => flag_bit_last i hi ops⟩
  · show (run ops).pfx.getD 0 = _; rw [pfx_last]
  · show (run ops).interval.getD 0 = _; rw [interval_last]
  · show (run ops).admin.getD [] = _; rw [admin_last]
  · show (run ops).iname.getD dn = _; rw [iname_last]
  · show (match (run ops).proto with | .udp => (run ops).udpLocalPort.getD 0 | _ => 0) = _
    rw [proto_last, local_last]

/-- the flag helpers set the bits the specification assigns (ISF_LOCAL 4 … ISF_REQ_JOIN 2048) -/
def specSetters : List (List Nat × Nat) := [
  ([108, 111, 99, 97, 108], 4), ([109, 115, 111, 95, 99, 111, 108, 115], 8), ([110, 108, 112], 16), ([109, 99, 105], 32),
  ([99, 111, 110], 64), ([111, 98, 104], 128), ([104, 108, 118], 256), ([97, 120, 109, 95, 108, 111, 97, 100], 512),
  ([97, 120, 109, 95, 101, 100, 105, 116], 1024), ([114, 101, 113, 95, 106, 111, 105, 110], 2048) ]
-- local mso_cols nlp mci con obh hlv axm_load axm_edit req_join

theorem setters_are_spec :
    (specSetters.all (fun r => optBeqN (lookupB r.1 Gen.Builder.flagSetters) r.2)
      && Gen.Builder.flagSetters.all (fun r => optBeqN (lookupB r.1 specSetters) r.2)
      && Nat.beq Gen.Builder.insimVersion 9) = true := by decide +kernel

/-! non-vacuity -/
example : (isi [105] 9 (run [.flag 32#16 true, .flags 4#16, .flag 128#16 true, .udp (some 3000), .pfx (some 33), .flag 4#16 false, .pfx none])).flags = 128#16 := by decide
example : (isi [105] 9 (run [.udp none])).udpport = 0 := by decide
example : lastSome (gBit 7) [.flag 128#16 true, .flags 0#16, .flag 128#16 true, .other] = some true := by decide

end Insim.Props.C18
