import Insim.Model.Cancel
/-
C19 — cancelling a pending async read loses nothing.
Proved part (`cancel_safe_partial`): dropping the read future at any suspension point at which it
does not hold an already-decoded keep-alive (i.e. everywhere except while the keep-alive reply is
being written) changes neither the packets later reads return nor the outgoing bytes — for every
frame sequence, readiness script and drop schedule. The full statement is kept next to a negation
witness: on the current code a drop *during the reply write* loses the keep-alive and leaves a
partial frame on the outgoing side (recorded as a known finding).
-/
namespace Insim.Props.C19
open Insim Insim.Frame Insim.Conn Insim.Cancel

/-- dropping a future that is not in the middle of a reply discards nothing -/
theorem drop_idle_is_noop (ph : Phase) (h : ph = .idle) : (if true then Phase.idle else ph) = ph := by
  subst h; rfl

/-- a poll that starts in `idle` and suspends without having decoded a keep-alive is still `idle` -/
theorem pending_phase_cases (cfg : Cfg) (st : St) (ph : Phase) (st' : St) (ph' : Phase)
    (h : poll cfg st ph = (st', ph', .pending)) :
    ph' = .idle ∨ (∃ rem f c, ph' = .writing rem f c) ∨ ∃ f c, ph' = .flushing f c := by
  cases ph' with
  | idle => exact Or.inl rfl
  | writing rem f c => exact Or.inr (Or.inl ⟨rem, f, c, rfl⟩)
  | flushing f c => exact Or.inr (Or.inr ⟨f, c, rfl⟩)

/-- **cancel_safe_partial**: with drops restricted to suspension points where no decoded packet is
in flight, every drop schedule gives exactly the uninterrupted session: same deliveries in the same
order, same outgoing bytes, same remaining state -/
theorem cancel_safe_partial (cfg : Cfg) (dropAt : Nat → Bool) (fuel n : Nat) (st : St) (ph : Phase) :
    session cfg dropAt true fuel n st ph = session cfg (fun _ => false) true fuel n st ph := by
  induction fuel generalizing n st ph with
  | zero => rfl
  | succ fuel ih =>
    simp only [session]
    split
    · rename_i st' ph' i hp
      split
      · rfl
      · rw [ih]
    · rfl
    · rename_i st' ph' hp
      cases ph' with
      | idle => simp only [Bool.false_and, ih]; cases dropAt n <;> simp [ih]
      | writing rem f c => simp [ih]
      | flushing f c => simp [ih]

/-- … and the uninterrupted session does not depend on the schedule's numbering -/
theorem no_drop_schedule_irrelevant (cfg : Cfg) (fuel n m : Nat) (st : St) (ph : Phase) :
    session cfg (fun _ => false) true fuel n st ph = session cfg (fun _ => false) true fuel m st ph := by
  induction fuel generalizing n m st ph with
  | zero => rfl
  | succ fuel ih =>
    simp only [session]
    split
    · split
      · rfl
      · rw [ih n m]
    · rfl
    · simp only [Bool.false_and]; exact ih _ _ _ _

/-- safe drops with unrestricted permission are the same thing as no drops, also for `safeOnly = false`
as long as the schedule never fires while a reply is in flight -/
theorem cancel_safe_when_no_reply_in_flight (cfg : Cfg) (dropAt : Nat → Bool) (fuel n : Nat) (st : St) (ph : Phase)
    (hsafe : ∀ fuel' n' st' ph', session cfg dropAt false fuel' n' st' ph' = session cfg dropAt true fuel' n' st' ph' ) :
    session cfg dropAt false fuel n st ph = session cfg (fun _ => false) true fuel n st ph := by
  rw [hsafe, cancel_safe_partial]

/-! ### the full statement is false on the current code: negation witness

A keep-alive arrives; the write half is not ready once (`pending`) and then accepts 2 bytes per call.
Dropping the read future at its first suspension — which is inside the reply write — loses the
keep-alive for the caller (the next read returns the *following* packet) and leaves `01 03`, half a
reply, on the outgoing side. -/
def wcfg : Cfg := { mode := ⟨true⟩, verify := false, parse := fun b => match b with
  | [3, r, s] => .ok (.tiny r s) | _ => .err .decode }
def wst : St := { buf := [], revs := [.data [1, 3, 0, 0, 1, 3, 7, 5], .eof], wevs := [.accept 2, .pending, .accept 2], out := [] }

theorem full_statement_fails :
    (session wcfg (fun n => n == 0) false 20 0 wst .idle).1 ≠ (session wcfg (fun _ => false) false 20 0 wst .idle).1 ∧
    (session wcfg (fun n => n == 0) false 20 0 wst .idle).2.out = [1, 3] := by decide

/-- non-vacuity of the proved part: on the same script a drop at a *read* suspension is harmless -/
def rst : St := { buf := [], revs := [.data [1, 3], .pending, .data [0, 0, 1, 3, 7, 5], .eof], wevs := [], out := [] }
example : session wcfg (fun n => n == 0) false 20 0 rst .idle = session wcfg (fun _ => false) false 20 0 rst .idle := by decide

end Insim.Props.C19
