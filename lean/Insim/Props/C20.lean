import Insim.Model.Ws
import Insim.Props.C05
/-
C20 — the WebSocket relay transport carries the same byte stream as TCP.
-/
namespace Insim.Props.C20
open Insim Insim.Conn Insim.Frame
open Insim.Ws (Msg RRes payload)

/-- one read conserves the stream: what it serves, what it leaves buffered and the payloads of the
messages still queued are the buffered bytes followed by all binary payloads, in order -/
theorem read_conserved (closed : Bool) (buf : Bytes) (offer : Nat) (msgs : List Msg) :
    (match (Ws.read closed buf offer msgs).1 with | .chunk c => c | .pending => []) ++
      (Ws.read closed buf offer msgs).2.1 ++ ((Ws.read closed buf offer msgs).2.2.map payload).flatten =
    buf ++ (msgs.map payload).flatten := by
  fun_induction Ws.read closed buf offer msgs with
  | case1 buf offer h => simp [List.take_append_drop]
  | case2 buf offer h hc => simp
  | case3 buf offer h hc => simp
  | case4 buf offer m rest h => simp [List.take_append_drop, payload]
  | case5 buf offer m rest h ih => rw [ih]; simp [payload]
  | case6 buf offer rest h => simp [List.take_append_drop, payload]
  | case7 buf offer rest h ih => rw [ih]; simp [payload]

/-- **same byte stream as TCP**: for every message sequence — frames one per message, several per
message or split across messages; messages larger than the adaptor's initial buffer; text / ping /
pong messages interleaved — and every sequence of caller read-buffer sizes, the chunks served, the
buffered remainder and the payloads still queued are exactly all binary payloads in order -/
theorem stream_conserved (closed : Bool) (buf : Bytes) (offers : List Nat) (msgs : List Msg) :
    (Ws.run closed buf offers msgs).1.flatten ++ (Ws.run closed buf offers msgs).2.1 ++
      ((Ws.run closed buf offers msgs).2.2.map payload).flatten = buf ++ (msgs.map payload).flatten := by
  induction offers generalizing buf msgs with
  | nil => simp [Ws.run]
  | cons o os ih =>
    have hc := read_conserved closed buf o msgs
    simp only [Ws.run]
    split
    · rename_i b' m' he
      rw [he] at hc; simpa using hc
    · rename_i b' m' he
      rw [he] at hc; simpa using hc
    · rename_i c cs b' m' he
      rw [he] at hc
      have := ih b' m'
      simp only [List.flatten_cons, List.append_assoc] at this hc ⊢
      rw [this]; exact hc

/-- non-binary messages are ignored: a text / ping / pong message in front changes nothing about
what the read serves -/
theorem other_skipped (closed : Bool) (buf : Bytes) (offer : Nat) (rest : List Msg) :
    (Ws.read closed buf offer (.other :: rest)).1 = (Ws.read closed buf offer rest).1 ∧
    (Ws.read closed buf offer (.other :: rest)).2.1 = (Ws.read closed buf offer rest).2.1 := by
  by_cases h : buf ≠ [] ∧ offer > 0
  · cases rest with
    | nil => simp [Ws.read, h]
    | cons r rs => cases r <;> simp [Ws.read, h]
  · simp [Ws.read, h]

/-- closure surfaces as a zero-byte read (which the connection reports as `disconnected`) exactly
when nothing is buffered and no message is left -/
theorem closed_is_eof (offer : Nat) : Ws.read true [] offer [] = (.chunk [], [], []) := by
  simp [Ws.read]

theorem open_is_pending (offer : Nat) : Ws.read false [] offer [] = (.pending, [], []) := by
  simp [Ws.read]

/-- a served chunk is never empty unless the stream is over -/
theorem chunk_progress (closed : Bool) (buf : Bytes) (offer : Nat) (msgs : List Msg) (ho : 0 < offer)
    (h : (Ws.read closed buf offer msgs).1 = .chunk []) :
    closed = true ∧ buf = [] ∧ (msgs.map payload).flatten = [] := by
  have served_ne : ∀ (b : Bytes) (o : Nat), b ≠ [] → 0 < o → RRes.chunk (b.take o) ≠ RRes.chunk [] := by
    intro b o hb ho' he
    injection he with he
    cases b with
    | nil => exact hb rfl
    | cons x xs => cases o with
      | zero => omega
      | succ n => simp at he
  have empty_of : ∀ b : Bytes, ¬ (b ≠ [] ∧ offer > 0) → b = [] := by
    intro b hb
    by_cases hbe : b = []
    · exact hbe
    · exact absurd ⟨hbe, ho⟩ hb
  fun_induction Ws.read closed buf offer msgs with
  | case1 buf offer hb => exact absurd h (served_ne buf offer hb.1 hb.2)
  | case2 buf offer hb hc => exact ⟨hc, empty_of buf hb, rfl⟩
  | case3 buf offer hb hc => simp at h
  | case4 buf offer m rest hb => exact absurd h (served_ne buf offer hb.1 hb.2)
  | case5 buf offer m rest hb ih =>
    obtain ⟨h1, h2, h3⟩ := ih ho h empty_of
    have hbuf := empty_of buf hb
    subst hbuf
    simp only [List.nil_append] at h2
    subst h2
    exact ⟨h1, rfl, by simpa [payload] using h3⟩
  | case6 buf offer rest hb => exact absurd h (served_ne buf offer hb.1 hb.2)
  | case7 buf offer rest hb ih =>
    obtain ⟨h1, h2, h3⟩ := ih ho h empty_of
    exact ⟨h1, h2, by simpa [payload] using h3⟩

/-- the chunks the adaptor serves, as read events of the connection (a zero-byte chunk is the end) -/
def events : List Bytes → List Ev
  | [] => []
  | [] :: _ => [.eof]
  | c :: cs => .data c :: events cs

/-- when the served chunks end with the zero-byte read and no earlier chunk is empty, the events carry exactly the chunks' bytes and end the stream -/
theorem events_of_closed (chunks : List Bytes) (hne : ∀ c ∈ chunks, c ≠ []) :
    dataOf (events (chunks ++ [[]])) = chunks.flatten ∧ EndsEof (events (chunks ++ [[]])) := by
  induction chunks with
  | nil => simp [events, dataOf, EndsEof]
  | cons c cs ih =>
    have hc := hne c (by simp)
    obtain ⟨i1, i2⟩ := ih (fun x hx => hne x (by simp [hx]))
    cases c with
    | nil => exact absurd rfl hc
    | cons x xs => simp only [List.cons_append, events, dataOf, EndsEof, List.flatten_cons, i1, i2, and_self]

/-- **packets over the WebSocket transport = packets over TCP**: however the frames are distributed over binary
messages (and whatever other messages are interleaved), once the adaptor has served everything and reported
the closure, the connection's results are exactly one per frame, then `disconnected` -/
theorem packets (cfg : Cfg) (frames : List Bytes) (msgs : List Msg) (offers : List Nat) (chunks : List Bytes)
    (hv : ∀ f ∈ frames, ValidFrame cfg.mode f) (hp : ∀ f ∈ frames, cfg.parse f.tail ≠ .panic)
    (hsplit : (msgs.map payload).flatten = frames.flatten)
    (hrun : (Ws.run true [] offers msgs).1 = chunks ++ [[]]) (hne : ∀ c ∈ chunks, c ≠ [])
    (hall : (Ws.run true [] offers msgs).2.1 = [] ∧ ((Ws.run true [] offers msgs).2.2.map payload).flatten = []) :
    (Conn.run cfg [] (events (Ws.run true [] offers msgs).1)).filter (fun i => !i.isFault) =
      frames.flatMap (frameItems cfg) ++ [.err .disconnected] := by
  obtain ⟨e1, e2⟩ := events_of_closed chunks hne
  rw [hrun]
  apply C05.reassembly_fresh cfg frames hv hp
  · rw [e1]
    have := stream_conserved true [] offers msgs
    rw [hall.1, hall.2, hrun] at this
    simpa [hsplit] using this
  · exact e2

/-- **every written packet leaves as exactly one binary message containing exactly its frame** -/
theorem write_one_message (frames : List Bytes) (sent : List Msg) :
    frames.foldl (fun s f => Ws.write f s) sent = sent ++ frames.map Msg.binary := by
  induction frames generalizing sent with
  | nil => simp
  | cons f fs ih => rw [List.foldl_cons, ih]; simp [Ws.write]

/-! non-vacuity: a frame split across two messages with a ping in between, caller buffer of 3 bytes -/
example : (Ws.run true [] [3, 3, 3, 3] [.binary [1, 3], .other, .binary [0, 0, 1, 3, 7, 5]]).1 = [[1, 3], [0, 0, 1], [3, 7, 5], []] := by
  decide

/-- non-vacuity of `packets`: two frames spread over two binary messages with a text message in between, served
in slices of three bytes, then the closure -/
example : (Ws.run true [] [3, 3, 3, 3, 3, 3] [.binary [4, 3, 0, 0, 4], .other, .binary [3, 7, 3]]) =
    ([[4, 3, 0], [0, 4], [3, 7, 3]] ++ [[]], [], []) := by decide

end Insim.Props.C20
