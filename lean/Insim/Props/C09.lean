import Insim.Props.C05
/-
C09 — the InSim version gate accepts version 9 only, and only when enabled.
-/
namespace Insim.Props.C09
open Insim Insim.Frame Insim.Conn

/-- gate enabled: a version packet is delivered iff it reports 9; otherwise the
incompatible-version error carries the reported value — for every value -/
theorem gate_on (cfg : Cfg) (hv : cfg.verify = true) (f : Bytes) (n : Nat) (h : cfg.parse (f.tail) = .ok (.ver n)) :
    frameItems cfg f = if n = 9 then [.pkt f (.ver n)] else [.err (.version n)] := by
  simp only [frameItems, h, hv, if_true, versionReject, insimVersion]
  by_cases hn : n = 9
  · subst hn; simp [isKeepAlive]
  · simp [hn]

/-- gate disabled: every version packet is delivered -/
theorem gate_off (cfg : Cfg) (hv : cfg.verify = false) (f : Bytes) (n : Nat) (h : cfg.parse (f.tail) = .ok (.ver n)) :
    frameItems cfg f = [.pkt f (.ver n)] := by
  simp only [frameItems, h, hv]
  simp [isKeepAlive]

/-- no other packet kind is ever rejected by the gate, in either setting -/
theorem others (c : Cls) (h : ∀ n, c ≠ .ver n) : versionReject c = none := by
  cases c with
  | ver n => exact absurd rfl (h n)
  | tiny r s => rfl
  | other => rfl

theorem others_delivered (cfg : Cfg) (f : Bytes) (c : Cls) (h : cfg.parse (f.tail) = .ok c) (hc : ∀ n, c ≠ .ver n) :
    .pkt f c ∈ frameItems cfg f ∧ ∀ n, Item.err (.version n) ∉ frameItems cfg f := by
  simp only [frameItems, h, others c hc]
  cases cfg.verify <;> simp <;> split <;> simp

/-- **any position in any history**: the gate's decision for a frame does not depend on where the
frame sits, how the stream is segmented, or what surrounds it; the rejected frame is removed and its
successors are undisturbed (the trace is the concatenation of per-frame results) -/
theorem gate_in_history (cfg : Cfg) (pre post : List Bytes) (f : Bytes) (n : Nat)
    (hver : cfg.verify = true) (hn : n ≠ 9) (hf : cfg.parse (f.tail) = .ok (.ver n))
    (hv : ∀ g ∈ pre ++ f :: post, ValidFrame cfg.mode g) (hp : ∀ g ∈ pre ++ f :: post, cfg.parse (g.tail) ≠ .panic)
    (evs : List Ev) (hd : dataOf evs = (pre ++ f :: post).flatten) (heof : EndsEof evs) :
    (run cfg [] evs).filter (fun i => !i.isFault) =
      pre.flatMap (frameItems cfg) ++ [.err (.version n)] ++ post.flatMap (frameItems cfg) ++ [.err .disconnected] := by
  rw [C05.reassembly_fresh cfg _ hv hp evs hd heof, List.flatMap_append, List.flatMap_cons, gate_on cfg hver f n hf]
  simp [hn]

/-! non-vacuity -/
def vcfg (on : Bool) : Cfg := { mode := ⟨false⟩, verify := on, parse := fun b => match b with
  | [2, _, n] => .ok (.ver n) | _ => .ok .other }
example : frameItems (vcfg true) [4, 2, 0, 8] = [.err (.version 8)] := by decide
example : frameItems (vcfg true) [4, 2, 0, 9] = [.pkt [4, 2, 0, 9] (.ver 9)] := by decide
example : frameItems (vcfg false) [4, 2, 0, 8] = [.pkt [4, 2, 0, 8] (.ver 8)] := by decide

end Insim.Props.C09
