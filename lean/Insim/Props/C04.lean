import Insim.Lemmas.Customs
import Insim.Lemmas.Frame
/-
C04 — decoding untrusted bytes is total, bounded and always progresses.
-/
namespace Insim.Props.C04
open Insim Insim.Layout Insim.Frame

/-! ### the packet parser never panics, whatever the bytes -/

theorem veh_no_panic (rows : List (Bytes × Vehicle.Name)) (b : Bytes) : Vehicle.decode rows b ≠ .panic := by
  unfold Vehicle.decode
  repeat' split
  all_goals simp

theorem trk_no_panic (rows : List (Bytes × Nat)) (b : Bytes) : Track.decode rows b ≠ .panic := by
  unfold Track.decode
  repeat' split
  all_goals simp

theorem customDec_no_panic (env : Env) (c : CustomId) (bs : Bytes) : customDec env c bs ≠ .panic := by
  intro h
  unfold customDec at h
  repeat' (split at h)
  all_goals first
    | (rename_i hq; exact absurd hq (veh_no_panic _ _))
    | (rename_i hq; exact absurd hq (trk_no_panic _ _))
    | cases h

theorem decTy_no_panic (env : Env) (ty : Ty) (bs : Bytes) : decTy env ty bs ≠ .panic := by
  cases ty with
  | custom c =>
    simp only [decTy]
    have := customDec_no_panic env c (bs.take (wireSize (.custom c)))
    split
    · simp
    · cases h : customDec env c (bs.take (wireSize (.custom c))) <;> simp_all
  | enumU8 vals => simp only [decTy]; repeat' split
                   all_goals simp
  | _ => simp only [decTy]; split <;> simp

theorem decFields_no_panic (env : Env) (fields : List Field) (bs : Bytes) : decFields env fields bs ≠ .panic := by
  induction fields generalizing bs with
  | nil => simp [decFields]
  | cons f fs ih =>
    simp only [decFields]
    have h1 := decTy_no_panic env f.ty (bs.drop f.rb)
    split
    · rename_i vs rest _
      have h2 := ih (rest.drop f.ra)
      split <;> simp_all
    · simp
    · simp_all

theorem decElems_no_panic (env : Env) (elt : List Field) (k : Nat) (bs : Bytes) : decElems env elt k bs ≠ .panic := by
  induction k generalizing bs with
  | zero => simp [decElems]
  | succ k ih =>
    simp only [decElems]
    have h1 := decFields_no_panic env elt bs
    split
    · rename_i vs rest _
      have h2 := ih rest
      split <;> simp_all
    · simp
    · simp_all

theorem decU32s_no_panic (k : Nat) (bs : Bytes) : decU32s k bs ≠ .panic := by
  induction k generalizing bs with
  | zero => simp [decU32s]
  | succ k ih =>
    simp only [decU32s]
    split
    · simp
    · have := ih (bs.drop 4)
      split <;> simp_all

theorem decTail_no_panic (env : Env) (t : Tail) (cnt : Option Nat) (bs : Bytes) : decTail env t cnt bs ≠ .panic := by
  unfold decTail
  split
  · simp
  · rename_i elt _ _
    have := decElems_no_panic env elt (cnt.getD 0) bs
    split <;> simp_all
  · have := decU32s_no_panic (cnt.getD 0) bs
    split <;> simp_all
  · simp

theorem decMso_no_panic (bs : Bytes) : decMso bs ≠ .panic := by
  unfold decMso
  repeat' split
  all_goals simp

theorem decBody_no_panic (env : Env) (L : Layout) (bs : Bytes) : decBody env L bs ≠ .panic := by
  unfold decBody
  split
  · exact decMso_no_panic bs
  · have h1 := decFields_no_panic env L.fields bs
    split
    · rename_i vs rest _
      have h2 := decTail_no_panic env L.tail (countOf L.fields vs) rest
      split <;> simp_all
    · simp
    · simp_all

theorem parsePacket_no_panic (env : Env) (all : List Layout) (bs : Bytes) : parsePacket env all bs ≠ .panic := by
  unfold parsePacket
  split
  · simp
  · split
    · rename_i t body _ L _
      have := decBody_no_panic env L body
      cases h : decBody env L body <;> simp_all
    · simp

/-- **total**: for every byte buffer, in both size modes, the decoder returns without panicking -/
theorem total (m : Mode) (buf : Bytes) :
    (Frame.decode m (parsePacket genEnv Gen.Packets.all) buf).1 ≠ .panic := by
  unfold Frame.decode
  split
  · simp
  · simp
  · rename_i f rest _
    have := parsePacket_no_panic genEnv Gen.Packets.all f.tail
    split <;> simp_all

/-- **bounded, progressing**: the three outcomes — (1) need more data, buffer untouched; (2) a packet
or a decode error after removing exactly the announced frame (at least 4 bytes, never more than the
buffer holds, never more than announced); (3) a framing error for an impossible announced length,
buffer untouched -/
theorem cases {P} (m : Mode) (parse : Bytes → Out P) (hp : ∀ b, parse b ≠ .panic) (buf : Bytes) :
    let r := Frame.decode m parse buf
    (r.1 = .ok none ∧ r.2 = buf) ∨
    (∃ b, buf.head? = some b ∧ 4 ≤ m.announced b ∧ m.announced b ≤ m.maxLen ∧ m.announced b ≤ buf.length ∧
        r.2 = buf.drop (m.announced b) ∧ ((∃ p, r.1 = .ok (some p)) ∨ r.1 = .err .decode)) ∨
    (r.1 = .err .framing ∧ r.2 = buf ∧ ∃ b, buf.head? = some b ∧ (m.announced b < 4 ∨ m.maxLen < m.announced b)) := by
  simp only [Frame.decode]
  cases hs : split m buf with
  | needMore => left; exact ⟨rfl, rfl⟩
  | framing =>
    right; right
    refine ⟨rfl, rfl, ?_⟩
    unfold split at hs
    cases hd : decodeLength m buf with
    | needMore => simp [hd] at hs
    | len n => simp [hd] at hs
    | framing =>
      cases buf with
      | nil => simp [decodeLength, minLen] at hd
      | cons b tl =>
        refine ⟨b, rfl, ?_⟩
        simp only [decodeLength, minLen] at hd
        by_cases h1 : (b :: tl).length < 4
        · simp only [List.length_cons] at h1; simp [h1] at hd
        · by_cases h2 : m.announced b < 4
          · left; exact h2
          · by_cases h3 : m.announced b > m.maxLen
            · right; exact h3
            · simp only [h1, h2, h3, if_false] at hd
              split at hd <;> cases hd
  | frame f rest =>
    right; left
    obtain ⟨b, hb, hf, hr, h4, hm, hl⟩ := split_frame_spec m buf f rest hs
    refine ⟨b, hb, h4, hm, hl, ?_, ?_⟩
    · cases hpz : parse f.tail <;> simp [hpz, hr]
    · cases hpz : parse f.tail with
      | ok p => left; exact ⟨p, by simp [hpz]⟩
      | err e => right; simp [hpz]
      | panic => exact absurd hpz (hp _)

/-- **frame-local**: the parser never sees a byte beyond the announced frame — whatever follows a
complete frame in the buffer has no influence on the result, and is left in the buffer untouched -/
theorem frame_local {P} (m : Mode) (parse : Bytes → Out P) (f g g' : Bytes) (hf : ValidFrame m f) :
    (Frame.decode m parse (f ++ g)).1 = (Frame.decode m parse (f ++ g')).1 ∧
    (Frame.decode m parse (f ++ g)).2 = g := by
  simp only [Frame.decode, split_complete m f g hf, split_complete m f g' hf]
  cases parse f.tail <;> simp

/-- a malformed packet cannot corrupt its successors: after a decode error the buffer holds exactly
the following frames -/
theorem error_keeps_successors {P} (m : Mode) (parse : Bytes → Out P) (f g : Bytes) (hf : ValidFrame m f)
    (e : ErrClass) (hbad : parse f.tail = .err e) :
    Frame.decode m parse (f ++ g) = (.err .decode, g) := by
  simp only [Frame.decode, split_complete m f g hf, hbad]

/-! non-vacuity -/
example : (Frame.decode ⟨true⟩ (parsePacket genEnv Gen.Packets.all) [0, 3, 0, 0]).1 = .err .framing := by decide +kernel
example : (Frame.decode ⟨true⟩ (parsePacket genEnv Gen.Packets.all) [2, 64, 0, 0, 0, 9, 0, 0]) = (.err .decode, []) := by decide +kernel
example : (Frame.decode ⟨false⟩ (parsePacket genEnv Gen.Packets.all) [4, 3, 1]) = (.ok none, [4, 3, 1]) := by decide +kernel

end Insim.Props.C04
