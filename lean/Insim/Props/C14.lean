import Insim.Model.Track
import Insim.Gen.Track
import Insim.Lemmas.Reader
/-
C14 — the track table is coherent: code, wire bytes, flags and licence agree.
Every theorem is about the seven tables regenerated from insim_core/src/track.rs; the row-wise facts
are `decide +kernel` over all rows, the statements over *all* byte strings follow by table lemmas.
-/
namespace Insim.Props.C14
open Insim Insim.Track Insim.Gen.Track

/-- every configuration's wire form is its short code NUL-padded to six bytes -/
theorem wire_is_padded_code :
    variants.all (fun t => match lookupN t writeRows, lookupN t codeRows with
      | some w, some c => beqB w (pad6 c) && Nat.ble c.length 6 && !memN 0 c
      | _, _ => false) = true := by decide +kernel

/-- decoding a configuration's wire form returns the same configuration -/
theorem decode_wire :
    variants.all (fun t => match lookupN t writeRows with
      | some w => optBeqN (lookupB w readRows) t && Nat.beq w.length 6
      | none => false) = true := by decide +kernel

/-- every read arm is mirrored by the write arm of the configuration it names -/
theorem read_mirrors_write : readRows.all (fun r => optBeqB (lookupN r.2 writeRows) r.1) = true := by decide +kernel

/-- **round trip, configuration side** -/
theorem decode_encode (t : Nat) (ht : t ∈ variants) : ∃ w, encode writeRows t = .ok w ∧ decode readRows w = .ok t := by
  have h := List.all_eq_true.mp decode_wire t ht
  cases hw : lookupN t writeRows with
  | none => simp [hw] at h
  | some w =>
    simp only [hw, Bool.and_eq_true, optBeqN_iff] at h
    refine ⟨w, by simp [encode, hw], ?_⟩
    have hl : w.length = 6 := Nat.eq_of_beq_eq_true h.2
    simp [decode, h.1, hl]

/-- **no other 6-byte value decodes to it**: for *every* byte string, a successful decode
re-encodes to exactly that string -/
theorem encode_decode (b : Bytes) (t : Nat) (h : decode readRows b = .ok t) : encode writeRows t = .ok b := by
  unfold decode at h
  split at h
  · split at h
    · rename_i t' hl
      injection h with h; subst h
      have := List.all_eq_true.mp read_mirrors_write _ (lookupB_some_mem hl)
      simp only [optBeqB_iff] at this
      simp [encode, this]
    · cases h
  · cases h

theorem decode_injective (b b' : Bytes) (t : Nat) (h : decode readRows b = .ok t) (h' : decode readRows b' = .ok t) :
    b = b' := by
  have e := encode_decode b t h
  have e' := encode_decode b' t h'
  rw [e] at e'; injection e'

/-- reversed exactly when the code ends in R or Y; open exactly when it ends in X or Y -/
theorem flags_follow_code :
    variants.all (fun t => match lookupN t codeRows with
      | some c => (memN t reverseList == lastIs c 82 89) && (memN t openList == lastIs c 88 89)
      | none => false) = true := by decide +kernel

/-- open configurations have no lap distance -/
theorem open_has_no_distance :
    variants.all (fun t => !memN t openList || (match lookupN t distanceRows with | some d => !d | none => false)) = true := by
  decide +kernel

/-- area ↦ licence, read off the tables (first occurrence of each area) -/
def areaTable : List (Bytes × Nat) :=
  variants.filterMap (fun t => match lookupN t codeRows, lookupN t licenceRows with
    | some c, some l => some (area c, l)
    | _, _ => none)

/-- every configuration's licence is the one its area maps to -/
theorem licence_by_area :
    variants.all (fun t => match lookupN t codeRows, lookupN t licenceRows with
      | some c, some l => optBeqN (lookupB (area c) areaTable) l
      | _, _ => false) = true := by decide +kernel

/-- every configuration of one track area requires the same licence -/
theorem area_licence (t u : Nat) (ht : t ∈ variants) (hu : u ∈ variants) (c d : Bytes)
    (hc : lookupN t codeRows = some c) (hd : lookupN u codeRows = some d) (ha : area c = area d) :
    lookupN t licenceRows = lookupN u licenceRows := by
  have h1 := List.all_eq_true.mp licence_by_area t ht
  have h2 := List.all_eq_true.mp licence_by_area u hu
  rw [hc] at h1; rw [hd] at h2
  cases hl : lookupN t licenceRows with
  | none => simp [hl] at h1
  | some l =>
    cases hm : lookupN u licenceRows with
    | none => simp [hm] at h2
    | some m =>
      simp only [hl, hm, optBeqN_iff] at h1 h2
      rw [ha, h2] at h1
      injection h1 with h1; rw [h1]

/-- the tables are total over the declared variants and name nothing else; configurations are distinct -/
theorem tables_total :
    (variants.all (fun t => (lookupN t licenceRows).isSome && (lookupN t distanceRows).isSome)
      && readRows.all (fun r => Nat.blt r.2 154)
      && reverseList.all (fun t => Nat.blt t 154) && openList.all (fun t => Nat.blt t 154)
      && decide (variants.length = 154) && decide (variantNames.length = 154)) = true := by decide +kernel

theorem variants_nodup : variants.Nodup := List.nodup_range

/-- pairwise-distinct names (Boolean check with native comparisons) -/
def distinctB : List Bytes → Bool
  | [] => true
  | a :: r => !(r.any (beqB a)) && distinctB r

theorem names_distinct : (distinctB variantNames && Nat.beq variantNames.length 154) = true := by decide +kernel

/-! non-vacuity -/
example : decode readRows [66, 76, 49, 82, 0, 0] = .ok 1 := by decide +kernel
example : decode readRows [66, 76, 49, 82, 0, 1] = .err .decode := by decide +kernel
example : (1 : Nat) ∈ variants ∧ variantNames[1]? = some [66, 108, 49, 114] := by decide +kernel

/-! ### the six bytes reach the decoder through `read_exact`

`Track::read_options` takes its bytes from whatever `Read + Seek` it is given; the source may hand them over in pieces. -/

/-- **the decoder does not see how the source cuts its data**: read through `read_exact`, the field decodes to what its first
six bytes decode to and the source is left right behind them; with fewer than six bytes left the read fails -/
theorem segmented_read (pieces : List Bytes) :
    (pieces.flatten.length < 6 ∧ Reader.decodeFrom 6 (decode readRows) pieces = (.err .decode, none)) ∨
    (6 ≤ pieces.flatten.length ∧ ∃ rest, Reader.decodeFrom 6 (decode readRows) pieces = (decode readRows (pieces.flatten.take 6), some rest) ∧
       rest.flatten = pieces.flatten.drop 6) :=
  Reader.decodeFrom_spec 6 (decode readRows) pieces

/-- a single `read` call is not enough: a source may deliver `BL1` and `R\0\0` separately, and the first three bytes NUL-padded
are another configuration's wire form -/
example : (Reader.read 6 [[66, 76, 49], [82, 0, 0]]).1 = [66, 76, 49] := by decide

end Insim.Props.C14
