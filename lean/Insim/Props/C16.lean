import Insim.Model.GameVersion
/-
C16 — game versions parse totally, print re-parseably and order consistently.
`parse` is a closed, non-recursive composition of structurally recursive list functions: Lean accepts
it without fuel or `partial`, which is the termination proof ("never loops"); it has no `panic` value.
-/
namespace Insim.Props.C16
open Insim Insim.GV

/-- laws assumed of the three standard-library functions the model abstracts -/
structure Laws (env : Env) (Finite : Nat → Prop) : Prop where
  /-- ASCII digits are numeric -/
  numDigit : ∀ c, isAsciiDigit c = true → env.isNum c = true
  /-- ASCII letters are not -/
  numAlpha : ∀ c, isAsciiAlpha c = true → env.isNum c = false
  /-- a finite float prints as a non-empty string of ASCII digits and dots … -/
  printChars : ∀ x, Finite x → ∀ c ∈ env.printF x, isAsciiDigit c = true ∨ c = 46
  /-- … that parses back to the same float (shortest round-trip printing) -/
  parsePrint : ∀ x, Finite x → env.parseF (env.printF x) = some x

theorem spanP_all (p : Nat → Bool) (pre : Str) (c : Nat) (rest : Str) (hp : ∀ x ∈ pre, p x = true) (hc : p c = false) :
    spanP p (pre ++ c :: rest) = (pre, c :: rest) := by
  induction pre with
  | nil => simp [spanP, hc]
  | cons x xs ih =>
    have hx : p x = true := hp x (by simp)
    simp only [List.cons_append, spanP, hx, if_true, ih (fun y hy => hp y (by simp [hy]))]

theorem spanP_all_nil (p : Nat → Bool) (pre : Str) (hp : ∀ x ∈ pre, p x = true) : spanP p pre = (pre, []) := by
  induction pre with
  | nil => rfl
  | cons x xs ih =>
    have hx : p x = true := hp x (by simp)
    simp only [spanP, hx, if_true, ih (fun y hy => hp y (by simp [hy]))]

theorem natDigits_digits (n : Nat) : ∀ c ∈ natDigits n, isAsciiDigit c = true := by
  induction n using Nat.strongRecOn with
  | _ n ih =>
    intro c hc
    rw [natDigits] at hc
    split at hc
    · simp at hc; subst hc; simp [isAsciiDigit]; omega
    · rw [List.mem_append] at hc
      rcases hc with hc | hc
      · exact ih (n / 10) (by omega) c hc
      · simp at hc; subst hc; simp [isAsciiDigit]; omega

theorem digitsVal_append (a b : Str) (acc : Nat) : digitsVal (a ++ b) acc = digitsVal b (digitsVal a acc) := by
  induction a generalizing acc with
  | nil => rfl
  | cons x xs ih => simp [digitsVal, ih]

theorem digitsVal_natDigits (n : Nat) : digitsVal (natDigits n) 0 = n := by
  induction n using Nat.strongRecOn with
  | _ n ih =>
    rw [natDigits]
    split
    · simp [digitsVal]
    · rw [digitsVal_append, ih (n / 10) (by omega)]
      simp [digitsVal]; omega

theorem natDigits_ne_nil (n : Nat) : natDigits n ≠ [] := by
  rw [natDigits]; split <;> simp

theorem parseUsize_natDigits (n : Nat) (h : n < 2 ^ 64) : parseUsize (natDigits n) = some n := by
  have h1 : (natDigits n).isEmpty = false := by
    cases hd : natDigits n with
    | nil => exact absurd hd (natDigits_ne_nil n)
    | cons _ _ => rfl
  have h2 : (natDigits n).all isAsciiDigit = true := List.all_eq_true.mpr (natDigits_digits n)
  simp [parseUsize, h1, h2, digitsVal_natDigits, h]

/-- a well-formed version value: an upper-case ASCII letter and a revision that fits `usize` -/
def WF (g : GV) : Prop := 65 ≤ g.minor ∧ g.minor ≤ 90 ∧ ∀ p, g.patch = some p → p < 2 ^ 64

theorem toUpper_range (c : Nat) (hc : isAsciiAlpha c = true) : 65 ≤ toAsciiUpper c ∧ toAsciiUpper c ≤ 90 := by
  simp only [isAsciiAlpha, Bool.or_eq_true, Bool.and_eq_true, decide_eq_true_eq] at hc
  unfold toAsciiUpper; split <;> omega

theorem patchPhase_keeps (env : Env) (g g' : GV) (rest : Str) (h : patchPhase env g rest = .ok g') :
    g'.major = g.major ∧ g'.minor = g.minor := by
  unfold patchPhase at h
  split at h
  · injection h with h; subst h; exact ⟨rfl, rfl⟩
  · split at h
    · cases h
    · split at h
      · injection h with h; subst h; exact ⟨rfl, rfl⟩
      · cases h

/-- whatever `parse` accepts has an upper-case ASCII letter (the letter is case-normalised) -/
theorem parse_minor_upper (env : Env) (text : Str) (g : GV) (h : parse env text = .ok g) : 65 ≤ g.minor ∧ g.minor ≤ 90 := by
  unfold parse at h
  split at h
  · injection h with h; subst h; simp
  · split at h
    · cases h
    · split at h
      · injection h with h; subst h; simp
      · rename_i c rest' _
        split at h
        · rename_i hc
          rw [(patchPhase_keeps env _ g rest' h).2]
          exact toUpper_range c hc
        · cases h

/-- **case-insensitive in the letter**: lower and upper case letters parse to the same version -/
theorem case_insensitive (env : Env) (Finite : Nat → Prop) (L : Laws env Finite) (maj : Str) (c : Nat) (rest : Str)
    (hm : ∀ x ∈ maj, isMajorChar env x = true) (hc : isAsciiAlpha c = true) :
    parse env (maj ++ c :: rest) = parse env (maj ++ toAsciiUpper c :: rest) := by
  have hcu : isAsciiAlpha (toAsciiUpper c) = true := by
    have := toUpper_range c hc; simp [isAsciiAlpha]; omega
  have n1 : isMajorChar env c = false := by
    simp only [isMajorChar, L.numAlpha c hc, Bool.false_or, beq_eq_false_iff_ne, ne_eq]
    simp only [isAsciiAlpha, Bool.or_eq_true, Bool.and_eq_true, decide_eq_true_eq] at hc; omega
  have n2 : isMajorChar env (toAsciiUpper c) = false := by
    have := toUpper_range c hc
    simp only [isMajorChar, L.numAlpha _ hcu, Bool.false_or, beq_eq_false_iff_ne, ne_eq]; omega
  have hupup : toAsciiUpper (toAsciiUpper c) = toAsciiUpper c := by
    have := toUpper_range c hc
    generalize toAsciiUpper c = u at *
    unfold toAsciiUpper; split <;> omega
  have e1 : ∃ a l, maj ++ c :: rest = a :: l := by cases maj <;> simp
  have e2 : ∃ a l, maj ++ toAsciiUpper c :: rest = a :: l := by cases maj <;> simp
  obtain ⟨a1, l1, h1⟩ := e1
  obtain ⟨a2, l2, h2⟩ := e2
  have s1 := spanP_all (isMajorChar env) maj c rest hm n1
  have s2 := spanP_all (isMajorChar env) maj (toAsciiUpper c) rest hm n2
  rw [h1] at s1; rw [h2] at s2
  rw [h1, h2]
  simp only [parse, s1, s2, hc, hcu, if_true, hupup]

/-- **print_parse**: the printed form of a well-formed version with a finite number parses back to
an equal version -/
theorem print_parse (env : Env) (Finite : Nat → Prop) (L : Laws env Finite) (g : GV) (hg : WF g) (hf : Finite g.major) :
    ∃ g', parse env (print env g) = .ok g' ∧ eqv g' g = true := by
  obtain ⟨m1, m2, hp⟩ := hg
  have halpha : isAsciiAlpha g.minor = true := by simp [isAsciiAlpha]; omega
  have hup : toAsciiUpper g.minor = g.minor := by unfold toAsciiUpper; split <;> omega
  have hpre : ∀ x ∈ env.printF g.major, isMajorChar env x = true := by
    intro x hx
    rcases L.printChars g.major hf x hx with h | h
    · simp [isMajorChar, L.numDigit x h]
    · simp [isMajorChar, h]
  have hc : isMajorChar env g.minor = false := by
    simp only [isMajorChar, L.numAlpha g.minor halpha, Bool.false_or, beq_eq_false_iff_ne, ne_eq]; omega
  cases hpat : g.patch with
  | none =>
    have hs := spanP_all (isMajorChar env) (env.printF g.major) g.minor [] hpre hc
    have e : ∃ a l, env.printF g.major ++ [g.minor] = a :: l := by cases env.printF g.major <;> simp
    obtain ⟨a, l, hal⟩ := e
    refine ⟨{ major := g.major, minor := g.minor, patch := none }, ?_, ?_⟩
    · simp only [print, hpat]
      rw [hal] at hs ⊢
      simp only [parse, hs, L.parsePrint g.major hf, halpha, if_true, hup, patchPhase]
    · simp [eqv, hpat]
  | some p =>
    have hp' := hp p hpat
    have hs := spanP_all (isMajorChar env) (env.printF g.major) g.minor (natDigits p) hpre hc
    have e : ∃ a l, env.printF g.major ++ [g.minor] ++ natDigits p = a :: l := by cases env.printF g.major <;> simp
    obtain ⟨a, l, hal⟩ := e
    have hd : ∀ x ∈ natDigits p, env.isNum x = true := fun x hx => L.numDigit x (natDigits_digits p x hx)
    have hsp := spanP_all_nil env.isNum (natDigits p) hd
    obtain ⟨d, ds, hds⟩ : ∃ d ds, natDigits p = d :: ds := by
      cases h : natDigits p with
      | nil => exact absurd h (natDigits_ne_nil p)
      | cons d ds => exact ⟨d, ds, rfl⟩
    refine ⟨{ major := g.major, minor := g.minor, patch := some p }, ?_, ?_⟩
    · simp only [print, hpat]
      rw [List.append_assoc, List.singleton_append] at hal
      rw [List.append_assoc, List.singleton_append, hal]
      rw [hal] at hs
      simp only [parse, hs, L.parsePrint g.major hf, halpha, if_true, hup]
      have hpu := parseUsize_natDigits p hp'
      rw [hds] at hsp hpu ⊢
      simp only [patchPhase, hsp, hpu]
    · simp [eqv, hpat]

/-! ### order -/

/-- the comparison key: number, then letter, then revision with a missing revision counting as 0 -/
def key (g : GV) : Nat × Nat × Nat := (g.major, g.minor, g.patch.getD 0)

/-- lexicographic comparison of two keys, spelled out -/
def lex6 (x1 y1 x2 y2 x3 y3 : Nat) : Ordering :=
  if x1 < y1 then .lt else if y1 < x1 then .gt
  else if x2 < y2 then .lt else if y2 < x2 then .gt
  else if x3 < y3 then .lt else if y3 < x3 then .gt else .eq

def lexCmp (a b : Nat × Nat × Nat) : Ordering := lex6 a.1 b.1 a.2.1 b.2.1 a.2.2 b.2.2

theorem cmp3 (x1 y1 x2 y2 x3 y3 : Nat) :
    (match compare x1 y1, compare x2 y2, compare x3 y3 with
      | .eq, .eq, p => p
      | .eq, .gt, _ => .gt
      | .eq, .lt, _ => .lt
      | m, _, _ => m) = lex6 x1 y1 x2 y2 x3 y3 := by
  unfold lex6
  rcases Nat.lt_trichotomy x1 y1 with h1 | h1 | h1 <;>
  rcases Nat.lt_trichotomy x2 y2 with h2 | h2 | h2 <;>
  rcases Nat.lt_trichotomy x3 y3 with h3 | h3 | h3 <;>
  (first | subst h1 | skip) <;> (first | subst h2 | skip) <;> (first | subst h3 | skip) <;>
  simp_all [Nat.compare_eq_lt.mpr, Nat.compare_eq_gt.mpr, Nat.lt_irrefl, Nat.lt_asymm]

/-- **order = number, then letter, then revision** -/
theorem cmp_is_lex (a b : GV) : cmp a b = lexCmp (key a) (key b) := by
  unfold cmp lexCmp key
  exact cmp3 _ _ _ _ _ _

theorem lex6_eq_iff (x1 y1 x2 y2 x3 y3 : Nat) : lex6 x1 y1 x2 y2 x3 y3 = .eq ↔ (x1 = y1 ∧ x2 = y2) ∧ x3 = y3 := by
  unfold lex6
  repeat' split
  all_goals (constructor <;> intro h <;> first | rfl | omega | (exact ⟨⟨by omega, by omega⟩, by omega⟩) | cases h)

theorem cmp_eq_iff (a b : GV) : cmp a b = .eq ↔ eqv a b = true := by
  rw [cmp_is_lex]
  simp only [lexCmp, key, eqv, Bool.and_eq_true, beq_iff_eq]
  exact lex6_eq_iff _ _ _ _ _ _

theorem cmp_refl (a : GV) : cmp a a = .eq := (cmp_eq_iff a a).mpr (by simp [eqv])

theorem lex6_antisymm (x1 y1 x2 y2 x3 y3 : Nat) : lex6 x1 y1 x2 y2 x3 y3 = .lt ↔ lex6 y1 x1 y2 x2 y3 x3 = .gt := by
  unfold lex6
  repeat' split
  all_goals first | omega | simp

theorem cmp_antisymm (a b : GV) : cmp a b = .lt ↔ cmp b a = .gt := by
  rw [cmp_is_lex, cmp_is_lex]; exact lex6_antisymm _ _ _ _ _ _

theorem lex6_lt_iff (x1 y1 x2 y2 x3 y3 : Nat) :
    lex6 x1 y1 x2 y2 x3 y3 = .lt ↔ x1 < y1 ∨ (x1 = y1 ∧ (x2 < y2 ∨ (x2 = y2 ∧ x3 < y3))) := by
  unfold lex6
  repeat' split
  all_goals (constructor <;> intro h <;> first | rfl | omega | cases h)

theorem cmp_trans (a b c : GV) (h1 : cmp a b = .lt) (h2 : cmp b c = .lt) : cmp a c = .lt := by
  rw [cmp_is_lex] at *
  simp only [lexCmp, lex6_lt_iff] at *
  omega

/-- total: exactly one of <, =, > holds for any two versions -/
theorem cmp_total (a b : GV) : cmp a b = .lt ∨ cmp a b = .eq ∨ cmp a b = .gt := by
  cases cmp a b <;> simp

/-- equal versions compare alike against anything (consistency of the order with equality) -/
theorem cmp_congr (a a' b : GV) (h : eqv a a' = true) : cmp a b = cmp a' b := by
  rw [cmp_is_lex, cmp_is_lex]
  simp only [eqv, Bool.and_eq_true, beq_iff_eq] at h
  simp only [lexCmp, key]
  rw [h.1.1, h.1.2, h.2]

/-! non-vacuity: a concrete environment satisfying the shape of the laws on a sample -/
def env0 : Env := { isNum := isAsciiDigit, parseF := parseF32, printF := fun _ => [48, 46, 55] }
example : parse env0 [48, 46, 55, 100, 49, 50] = .ok { major := 0x3f333333, minor := 68, patch := some 12 } := by rfl
example : parse env0 [48, 46, 55, 100, 120] = .error .patch := by rfl
example : parse env0 [48, 46, 55, 45] = .error .minor := by rfl
example : parse env0 [46] = .error .major := by rfl
example : WF { major := 0x3f333333, minor := 68, patch := some 12 } := ⟨by decide, by decide, by intro p h; injection h with h; subst h; decide⟩
example : cmp { major := 5, minor := 66, patch := none } { major := 5, minor := 66, patch := some 0 } = .eq := by decide

end Insim.Props.C16
