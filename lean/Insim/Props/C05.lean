import Insim.Lemmas.Conn
/-
C05 — stream reassembly is independent of segmentation and session length.
-/
namespace Insim.Props.C05
open Insim Insim.Frame Insim.Conn

/-- **reassembly** (refinement to "one result per frame"): for every list of valid frames, every
script whose data events concatenate to the frames' bytes — *any* partition into reads, any number
of `pending`, transient I/O errors and timeouts anywhere — ending in end-of-stream, and every buffer
content carried over from earlier reads:
* leaving the transient faults aside, the successive `read` results are exactly each frame's own
  result, in order, followed by `disconnected`;
* every transient fault surfaces as exactly one error result (and, by the first clause, loses nothing). -/
theorem reassembly (cfg : Cfg) (frames : List Bytes)
    (hv : ∀ f ∈ frames, ValidFrame cfg.mode f) (hp : ∀ f ∈ frames, cfg.parse (f.tail) ≠ .panic)
    (buf : Bytes) (evs : List Ev)
    (hinv : buf ++ dataOf evs = frames.flatten) (heof : EndsEof evs) :
    (run cfg buf evs).filter (fun i => !i.isFault) = frames.flatMap (frameItems cfg) ++ [.err .disconnected]
    ∧ ((run cfg buf evs).filter Item.isFault).length = faultsOf evs := by
  fun_induction run cfg buf evs generalizing frames with
  | case1 buf evs f rest hs hpanic =>
    cases frames with
    | nil => simp at hinv; obtain ⟨rfl, _⟩ := hinv; simp [split, decodeLength, minLen] at hs
    | cons f' fs =>
      rcases front_split cfg.mode f' fs buf evs (hv f' (by simp)) hinv with ⟨b', rfl, hs', _⟩ | ⟨hs', _⟩
      · rw [hs'] at hs; injection hs with h1 h2; subst h1
        exact absurd hpanic (hp f' (by simp))
      · rw [hs'] at hs; cases hs
  | case2 buf evs f rest hs hpanic ih =>
    cases frames with
    | nil => simp at hinv; obtain ⟨rfl, _⟩ := hinv; simp [split, decodeLength, minLen] at hs
    | cons f' fs =>
      rcases front_split cfg.mode f' fs buf evs (hv f' (by simp)) hinv with ⟨b', rfl, hs', hx⟩ | ⟨hs', _⟩
      · rw [hs'] at hs; injection hs with h1 h2; subst h1; subst h2
        obtain ⟨ih1, ih2⟩ := ih fs (fun g hg => hv g (by simp [hg])) (fun g hg => hp g (by simp [hg])) hx heof
        obtain ⟨n1, n2⟩ := filter_noFault _ (frameItems_noFault cfg f')
        refine ⟨?_, ?_⟩
        · rw [List.filter_append, n1, ih1, List.flatMap_cons, List.append_assoc]
        · rw [List.filter_append, n2, List.nil_append, ih2]
      · rw [hs'] at hs; cases hs
  | case3 buf evs hs =>
    cases frames with
    | nil => simp at hinv; obtain ⟨rfl, _⟩ := hinv; simp [split, decodeLength, minLen] at hs
    | cons f' fs =>
      rcases front_split cfg.mode f' fs buf evs (hv f' (by simp)) hinv with ⟨b', rfl, hs', _⟩ | ⟨hs', _⟩
      · rw [hs'] at hs; cases hs
      · rw [hs'] at hs; cases hs
  | case4 buf hs => simp [EndsEof] at heof
  | case5 buf bs evs' hs ih =>
    apply ih frames hv hp
    · simpa [dataOf, List.append_assoc] using hinv
    · simpa [EndsEof] using heof
  | case6 buf evs' hs ih =>
    apply ih frames hv hp
    · simpa [dataOf] using hinv
    · simpa [EndsEof] using heof
  | case7 buf evs' hs ih =>
    obtain ⟨ih1, ih2⟩ := ih frames hv hp (by simpa [dataOf] using hinv) (by simpa [EndsEof] using heof)
    refine ⟨?_, ?_⟩
    · rw [List.filter_cons_of_neg (by simp [Item.isFault])]; exact ih1
    · rw [List.filter_cons_of_pos (by simp [Item.isFault])]; simp [ih2, faultsOf]
  | case8 buf evs' hs ih =>
    obtain ⟨ih1, ih2⟩ := ih frames hv hp (by simpa [dataOf] using hinv) (by simpa [EndsEof] using heof)
    refine ⟨?_, ?_⟩
    · rw [List.filter_cons_of_neg (by simp [Item.isFault])]; exact ih1
    · rw [List.filter_cons_of_pos (by simp [Item.isFault])]; simp [ih2, faultsOf]
  | case9 buf hs evs' =>
    simp only [dataOf, List.append_nil] at hinv
    cases frames with
    | nil => simp [Item.isFault, faultsOf]
    | cons f' fs =>
      rw [hinv, List.flatten_cons, split_complete cfg.mode f' _ (hv f' (by simp))] at hs; cases hs

/-- **fresh session**: the statement for a new connection (empty buffer) -/
theorem reassembly_fresh (cfg : Cfg) (frames : List Bytes)
    (hv : ∀ f ∈ frames, ValidFrame cfg.mode f) (hp : ∀ f ∈ frames, cfg.parse (f.tail) ≠ .panic)
    (evs : List Ev) (hd : dataOf evs = frames.flatten) (heof : EndsEof evs) :
    (run cfg [] evs).filter (fun i => !i.isFault) = frames.flatMap (frameItems cfg) ++ [.err .disconnected] :=
  (reassembly cfg frames hv hp [] evs (by simpa using hd) heof).1

/-- **segmentation independence**: two scripts delivering the same bytes give the same results,
whatever their partitions and whatever transient faults they contain -/
theorem segmentation_independent (cfg : Cfg) (frames : List Bytes)
    (hv : ∀ f ∈ frames, ValidFrame cfg.mode f) (hp : ∀ f ∈ frames, cfg.parse (f.tail) ≠ .panic)
    (evs evs' : List Ev) (hd : dataOf evs = frames.flatten) (hd' : dataOf evs' = frames.flatten)
    (he : EndsEof evs) (he' : EndsEof evs') :
    (run cfg [] evs).filter (fun i => !i.isFault) = (run cfg [] evs').filter (fun i => !i.isFault) := by
  rw [reassembly_fresh cfg frames hv hp evs hd he, reassembly_fresh cfg frames hv hp evs' hd' he']

/-- an undecodable frame is reported once and its successors are undisturbed (instance of `reassembly`) -/
theorem bad_frame_local (cfg : Cfg) (f g : Bytes) (hf : ValidFrame cfg.mode f) (hg : ValidFrame cfg.mode g)
    (e : ErrClass) (hbad : cfg.parse (f.tail) = .err e) (c : Cls) (hok : cfg.parse (g.tail) = .ok c)
    (hk : isKeepAlive c = false) (hver : cfg.verify = false)
    (evs : List Ev) (hd : dataOf evs = f ++ g) (he : EndsEof evs) :
    (run cfg [] evs).filter (fun i => !i.isFault) = [.err .decode, .pkt g c, .err .disconnected] := by
  have hv : ∀ x ∈ [f, g], ValidFrame cfg.mode x := by
    intro x hx
    rcases List.mem_cons.mp hx with rfl | hx
    · exact hf
    · rcases List.mem_cons.mp hx with rfl | hx
      · exact hg
      · cases hx
  have hp : ∀ x ∈ [f, g], cfg.parse (x.tail) ≠ .panic := by
    intro x hx
    rcases List.mem_cons.mp hx with rfl | hx
    · rw [hbad]; intro h; cases h
    · rcases List.mem_cons.mp hx with rfl | hx
      · rw [hok]; intro h; cases h
      · cases hx
  rw [reassembly_fresh cfg [f, g] hv hp evs (by rw [hd]; simp) he]
  simp only [List.flatMap_cons, List.flatMap_nil, frameItems, hbad, hok, hk, hver]
  rfl

/-! non-vacuity: a concrete script (two frames, split mid-frame, a fault and a pending in between) -/
def demoCfg : Cfg := { mode := ⟨true⟩, verify := false, parse := fun b => match b with
  | [3, r, s] => .ok (.tiny r s) | _ => .err .decode }
example : ValidFrame ⟨true⟩ [1, 3, 0, 0] := ⟨1, [3, 0, 0], rfl, rfl, by decide, by decide⟩
def demoScript : List Ev := [.data [1, 3], .ioErr, .data [0, 0, 1], .pending, .data [3, 7, 5], .eof]
theorem demoValid : ∀ f ∈ [[1, 3, 0, 0], [1, 3, 7, 5]], ValidFrame demoCfg.mode f := by
  intro f hf
  rcases List.mem_cons.mp hf with rfl | hf
  · exact ⟨1, [3, 0, 0], rfl, rfl, by decide, by decide⟩
  · rcases List.mem_cons.mp hf with rfl | hf
    · exact ⟨1, [3, 7, 5], rfl, rfl, by decide, by decide⟩
    · cases hf
/-- the hypotheses of `reassembly_fresh` are met by a concrete script, and its conclusion is the expected trace -/
example : (run demoCfg [] demoScript).filter (fun i => !i.isFault) =
    [.wrote [1, 3, 0, 0], .pkt [1, 3, 0, 0] (.tiny 0 0), .pkt [1, 3, 7, 5] (.tiny 7 5), .err .disconnected] := by
  rw [reassembly_fresh demoCfg [[1, 3, 0, 0], [1, 3, 7, 5]] demoValid
    (by intro f hf; rcases List.mem_cons.mp hf with rfl | hf
        · decide
        · rcases List.mem_cons.mp hf with rfl | hf
          · decide
          · cases hf)
    demoScript (by decide) (by simp [demoScript, EndsEof])]
  decide

end Insim.Props.C05
