import Insim.Props.C03
import Insim.Props.C06
/-
C11 — text fields always occupy their exact wire width and terminate correctly.
`writeStr` is `binrw_write_codepage_string::<N>` on the already-encoded bytes; `stripNul` is what every
text reader applies (`strip_trailing_nul`, which — despite its name — cuts at the *first* NUL).
-/
namespace Insim.Props.C11
open Insim Insim.Layout

/-- **fixed width**: a fixed-width text field is exactly N bytes: the encoded text truncated to N … -/
theorem fixed_length (n : Nat) (e : Bytes) : (writeStr n 0 e).length = n := by
  simp [writeStr]; omega

/-- … followed by NUL bytes only -/
theorem fixed_content (n : Nat) (e : Bytes) :
    writeStr n 0 e = e.take n ++ List.replicate (n - (e.take n).length) 0 := by
  simp [writeStr]

theorem fixed_prefix (n : Nat) (e : Bytes) : (writeStr n 0 e).take (min n e.length) = e.take n := by
  rw [fixed_content]
  have : (e.take n).length = min n e.length := by simp
  rw [← this, List.take_left']
  rfl

/-- **variable width**: a variable-width message field is NUL-padded to a multiple of 4 and never
exceeds its maximum -/
theorem aligned (n : Nat) (e : Bytes) (hn : n % 4 = 0) :
    (writeStr n 4 e).length % 4 = 0 ∧ (writeStr n 4 e).length ≤ n := by
  refine ⟨C03.writeStr_aligned_len n e hn, ?_⟩
  simp only [writeStr, show (4 : Nat) > 1 by decide, if_true, List.length_take]
  exact Nat.min_le_left _ _

/-- the padding of a variable-width field consists of NUL bytes and the text comes first -/
theorem aligned_content (n : Nat) (e : Bytes) :
    writeStr n 4 e = (e ++ List.replicate ((e.length + 3) / 4 * 4 - e.length) 0).take n := by
  simp [writeStr]

/-- every variable text of the regenerated layouts has a maximum that is a multiple of 4, and every
fixed text is written without alignment -/
theorem layouts_text_ok :
    Gen.Packets.all.all (fun L =>
      L.fields.all (fun f => match f.ty with | .str rn wn _ _ a => rn == wn && decide (a ≤ 1) | _ => true) &&
      (match L.tail with | .strEof wn _ _ a => a == 4 && wn % 4 == 0 | _ => true)) = true := by decide +kernel

/-- **decoding stops at the first NUL**: whatever follows it is ignored -/
theorem read_stops_at_nul (a b : Bytes) (ha : (0 : Nat) ∉ a) : stripNul (a ++ 0 :: b) = a := by
  induction a with
  | nil => simp [stripNul]
  | cons x xs ih =>
    have hx : x ≠ 0 := fun h => ha (by simp [h])
    have hxs : (0 : Nat) ∉ xs := fun h => ha (by simp [h])
    simp [stripNul, hx, ih hxs]

theorem read_no_nul (a : Bytes) (ha : (0 : Nat) ∉ a) : stripNul a = a := by
  have := stripNul_no_nul a ha 0
  simpa using this

/-- the reader never returns a NUL -/
theorem read_has_no_nul (bs : Bytes) : (0 : Nat) ∉ stripNul bs := by
  induction bs with
  | nil => simp [stripNul]
  | cons x xs ih =>
    simp only [stripNul]
    split
    · simp
    · rename_i hx
      intro hm
      rcases List.mem_cons.mp hm with h | h
      · exact hx h.symm
      · exact ih h

/-- write-then-read of a fixed field returns the text cut to the width (NUL-free text) -/
theorem read_write_fixed (n : Nat) (e : Bytes) (he : (0 : Nat) ∉ e) : stripNul (writeStr n 0 e) = e.take n := by
  rw [fixed_content]
  have : (0 : Nat) ∉ e.take n := fun h => he (List.mem_of_mem_take h)
  exact stripNul_no_nul _ this _

/-- **terminated — partial**: the field ends in a NUL byte whenever the encoded text is shorter
than the field (fixed) -/
theorem terminated_partial (n : Nat) (e : Bytes) (h : e.length < n) : (writeStr n 0 e).getLast? = some 0 := by
  rw [fixed_content]
  have ht : e.take n = e := List.take_of_length_le (by omega)
  rw [ht]
  have hk : n - e.length = (n - e.length - 1) + 1 := by omega
  rw [hk, List.replicate_succ']
  simp

/-- the full statement ("MST, MSX, MSL, MTC always end in a NUL byte") is false on the current code:
a text that fills the field leaves no room for the terminator (kernel-checked witnesses; recorded as
a known finding) -/
theorem terminated_fails_fixed : (writeStr 4 0 [97, 98, 99, 100]).getLast? = some 100 := by decide
theorem terminated_fails_aligned : (writeStr 128 4 [97, 98, 99, 100]).getLast? = some 100 := by decide

/-! non-vacuity -/
example : writeStr 8 0 [72, 105] = [72, 105, 0, 0, 0, 0, 0, 0] := by decide
example : writeStr 64 4 [72, 105, 33] = [72, 105, 33, 0] := by decide
example : stripNul [72, 0, 105, 0] = [72] := by decide

/-- **the sink does not matter**: a packet is serialised field by field, each field handed to the sink with `write_all`
(`Conn.writeAll`: keep offering the rest until it is gone). On any sink — however few bytes it takes per call, however often it is
not ready — when every write succeeds the sink holds exactly the in-memory image; the harness's `c11.sink` cases run
the real writers against such sinks -/
theorem sink_independent (fields : List Bytes) (img : Bytes) (hf : fields.flatten = img) (ws : List Conn.WEv) (out : Bytes)
    (h : Conn.writeMany fields ws = (out, true)) : out = img :=
  hf ▸ Props.C06.write_many_ok fields ws out h

/-- … and whatever happens it holds a prefix of the image, never bytes out of place -/
theorem sink_prefix (fields : List Bytes) (img : Bytes) (hf : fields.flatten = img) (ws : List Conn.WEv) :
    (Conn.writeMany fields ws).1 <+: img :=
  hf ▸ Props.C06.write_many_prefix fields ws

end Insim.Props.C11
