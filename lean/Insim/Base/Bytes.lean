/-
L0: bytes, little-endian integers, hex I/O for the driver. Core Lean only.
-/
namespace Insim

abbrev Byte := Nat            -- a wire byte is modelled as a `Nat` with an explicit `< 256` predicate
abbrev Bytes := List Nat

/-- every element is a byte -/
def IsBytes (bs : Bytes) : Prop := ∀ b ∈ bs, b < 256

instance (bs : Bytes) : Decidable (IsBytes bs) := by unfold IsBytes; infer_instance

/-- little-endian image of `n` on `w` bytes (truncating: this *is* Rust's `as uN` followed by `to_le_bytes`) -/
def leBytes : Nat → Nat → Bytes
  | 0, _ => []
  | w + 1, n => (n % 256) :: leBytes w (n / 256)

/-- little-endian value of a byte list -/
def ofLe : Bytes → Nat
  | [] => 0
  | b :: bs => b + 256 * ofLe bs

@[simp] theorem leBytes_length (w n : Nat) : (leBytes w n).length = w := by
  induction w generalizing n with
  | zero => rfl
  | succ w ih => simp [leBytes, ih]

theorem leBytes_isBytes (w n : Nat) : IsBytes (leBytes w n) := by
  induction w generalizing n with
  | zero => intro b hb; simp [leBytes] at hb
  | succ w ih =>
    intro b hb
    simp only [leBytes, List.mem_cons] at hb
    rcases hb with rfl | hb
    · exact Nat.mod_lt _ (by decide)
    · exact ih _ b hb

theorem ofLe_leBytes (w n : Nat) (h : n < 256 ^ w) : ofLe (leBytes w n) = n := by
  induction w generalizing n with
  | zero => simp [leBytes, ofLe] at *; omega
  | succ w ih =>
    simp only [leBytes, ofLe]
    have : n / 256 < 256 ^ w := by
      rw [Nat.pow_succ] at h
      exact Nat.div_lt_of_lt_mul (by rw [Nat.mul_comm]; exact h)
    rw [ih _ this]; omega

/-- truncation law: `ofLe (leBytes w n) = n % 256^w` (the meaning of `as uN`) -/
theorem ofLe_leBytes_mod (w n : Nat) : ofLe (leBytes w n) = n % 256 ^ w := by
  induction w generalizing n with
  | zero => simp [leBytes, ofLe, Nat.mod_one]
  | succ w ih =>
    simp only [leBytes, ofLe, ih]
    rw [Nat.pow_succ, Nat.mul_comm (256 ^ w) 256, Nat.mod_mul]

theorem leBytes_ofLe (bs : Bytes) (h : IsBytes bs) : leBytes bs.length (ofLe bs) = bs := by
  induction bs with
  | nil => rfl
  | cons b bs ih =>
    have hb : b < 256 := h b (by simp)
    have hbs : IsBytes bs := fun x hx => h x (by simp [hx])
    simp only [List.length_cons, leBytes, ofLe]
    have h1 : (b + 256 * ofLe bs) % 256 = b := by omega
    have h2 : (b + 256 * ofLe bs) / 256 = ofLe bs := by omega
    rw [h1, h2, ih hbs]

theorem ofLe_lt (bs : Bytes) (h : IsBytes bs) : ofLe bs < 256 ^ bs.length := by
  induction bs with
  | nil => simp [ofLe]
  | cons b bs ih =>
    have hb : b < 256 := h b (by simp)
    have hbs : IsBytes bs := fun x hx => h x (by simp [hx])
    have := ih hbs
    simp only [ofLe, List.length_cons, Nat.pow_succ]
    omega

/-! ### three-valued outcome -/

inductive ErrClass | framing | decode | encode | io | version (n : Nat) | disconnected | timeout
  deriving DecidableEq, Repr

inductive Out (α : Type) where
  | ok (a : α)
  | err (e : ErrClass)
  | panic
  deriving Repr, DecidableEq

def ErrClass.toStr : ErrClass → String
  | .framing => "framing" | .decode => "decode" | .encode => "encode" | .io => "io"
  | .version n => s!"version({n})" | .disconnected => "disconnected" | .timeout => "timeout"

/-! ### hex I/O (driver only; no theorem depends on these) -/

def hexDigit (n : Nat) : Char :=
  if n < 10 then Char.ofNat (48 + n) else Char.ofNat (87 + n)

def hexByte (b : Nat) : String := String.ofList [hexDigit (b / 16 % 16), hexDigit (b % 16)]

def toHex (bs : Bytes) : String := if bs.isEmpty then "-" else String.join (bs.map hexByte)

def unhexDigit (c : Char) : Option Nat :=
  if '0' ≤ c ∧ c ≤ '9' then some (c.toNat - 48)
  else if 'a' ≤ c ∧ c ≤ 'f' then some (c.toNat - 87)
  else if 'A' ≤ c ∧ c ≤ 'F' then some (c.toNat - 55)
  else none

def parseHexAux : List Char → Option Bytes
  | [] => some []
  | [_] => none
  | a :: b :: rest =>
    match unhexDigit a, unhexDigit b, parseHexAux rest with
    | some x, some y, some r => some ((x * 16 + y) :: r)
    | _, _, _ => none

def parseHex (s : String) : Option Bytes := if s = "-" then some [] else parseHexAux s.toList

end Insim
