import Insim.Base.Bytes
/-
Association-list lemmas used by every table-driven property (vehicles, tracks, enums, codepages).
-/
namespace Insim

variable {κ ν : Type} [BEq κ] [LawfulBEq κ] [BEq ν] [LawfulBEq ν]

theorem lookup_some_mem {t : List (κ × ν)} {k : κ} {v : ν} (h : t.lookup k = some v) : (k, v) ∈ t := by
  induction t with
  | nil => simp [List.lookup] at h
  | cons r rs ih =>
    obtain ⟨a, b⟩ := r
    simp only [List.lookup] at h
    split at h
    · rename_i he
      have : k = a := by simpa using he
      injection h with h; subst h; subst this; simp
    · exact List.mem_cons_of_mem _ (ih h)

theorem lookup_none_not_mem {t : List (κ × ν)} {k : κ} (h : t.lookup k = none) (v : ν) : (k, v) ∉ t := by
  induction t with
  | nil => simp
  | cons r rs ih =>
    obtain ⟨a, b⟩ := r
    simp only [List.lookup] at h
    split at h
    · cases h
    · rename_i hne
      intro hm
      rcases List.mem_cons.mp hm with e | hm
      · injection e with e1 e2; subst e1; simp at hne
      · exact ih h hm

/-- two tables agree as finite maps (decidable, order-insensitive) -/
def tablesAgree (t s : List (κ × ν)) : Bool :=
  t.all (fun r => s.lookup r.1 == some r.2) && s.all (fun r => t.lookup r.1 == some r.2)

theorem lookup_eq_of_agree {t s : List (κ × ν)} (h : tablesAgree t s = true) (k : κ) :
    t.lookup k = s.lookup k := by
  simp only [tablesAgree, Bool.and_eq_true, List.all_eq_true, beq_iff_eq] at h
  obtain ⟨h1, h2⟩ := h
  cases ht : t.lookup k with
  | some v => exact (h1 _ (lookup_some_mem ht)).symm
  | none =>
    cases hs : s.lookup k with
    | none => rfl
    | some v =>
      have := h2 _ (lookup_some_mem hs)
      simp only at this
      rw [ht] at this; cases this

end Insim

/-! ### kernel-friendly tables

`decide +kernel` evaluates `Nat.beq` natively; the generic `BEq`/`DecidableEq` instances on lists build
proof terms and are several times slower on the 154-row tables. These are the same functions with the
comparisons spelled out. -/
namespace Insim

def beqB : Bytes → Bytes → Bool
  | [], [] => true
  | a :: as, b :: bs => Nat.beq a b && beqB as bs
  | _, _ => false

theorem beqB_iff (a b : Bytes) : beqB a b = true ↔ a = b := by
  induction a generalizing b with
  | nil => cases b <;> simp [beqB]
  | cons x xs ih =>
    cases b with
    | nil => simp [beqB]
    | cons y ys => simp [beqB, ih, Nat.beq_eq_true_eq]

/-- lookup by a `Nat` key -/
def lookupN {β} (k : Nat) : List (Nat × β) → Option β
  | [] => none
  | (a, b) :: r => if Nat.beq a k then some b else lookupN k r

/-- lookup by a byte-string key -/
def lookupB {β} (k : Bytes) : List (Bytes × β) → Option β
  | [] => none
  | (a, b) :: r => if beqB a k then some b else lookupB k r

def memN (k : Nat) : List Nat → Bool
  | [] => false
  | a :: r => Nat.beq a k || memN k r

def optBeqB : Option Bytes → Bytes → Bool
  | some a, b => beqB a b
  | none, _ => false

def optBeqN : Option Nat → Nat → Bool
  | some a, b => Nat.beq a b
  | none, _ => false

theorem optBeqB_iff (o : Option Bytes) (b : Bytes) : optBeqB o b = true ↔ o = some b := by
  cases o <;> simp [optBeqB, beqB_iff]

theorem optBeqN_iff (o : Option Nat) (b : Nat) : optBeqN o b = true ↔ o = some b := by
  cases o <;> simp [optBeqN, Nat.beq_eq_true_eq]

theorem lookupN_some_mem {β} {t : List (Nat × β)} {k : Nat} {v : β} (h : lookupN k t = some v) : (k, v) ∈ t := by
  induction t with
  | nil => simp [lookupN] at h
  | cons r rs ih =>
    obtain ⟨a, b⟩ := r
    simp only [lookupN] at h
    split at h
    · rename_i he
      have : a = k := Nat.eq_of_beq_eq_true he
      injection h with h; subst h; subst this; simp
    · exact List.mem_cons_of_mem _ (ih h)

theorem lookupB_some_mem {β} {t : List (Bytes × β)} {k : Bytes} {v : β} (h : lookupB k t = some v) : (k, v) ∈ t := by
  induction t with
  | nil => simp [lookupB] at h
  | cons r rs ih =>
    obtain ⟨a, b⟩ := r
    simp only [lookupB] at h
    split at h
    · rename_i he
      have : a = k := (beqB_iff a k).mp he
      injection h with h; subst h; subst this; simp
    · exact List.mem_cons_of_mem _ (ih h)

theorem memN_iff (k : Nat) (l : List Nat) : memN k l = true ↔ k ∈ l := by
  induction l with
  | nil => simp [memN]
  | cons a r ih =>
    simp only [memN, Bool.or_eq_true, ih, List.mem_cons]
    constructor
    · rintro (h | h)
      · exact Or.inl (Nat.eq_of_beq_eq_true h).symm
      · exact Or.inr h
    · rintro (h | h)
      · subst h; exact Or.inl (Nat.beq_refl _)
      · exact Or.inr h

end Insim
