/-
Association-list lemmas used by every table-driven property (vehicles, tracks, enums, codepages).
-/
namespace Insim

variable {κ ν : Type} [BEq κ] [LawfulBEq κ] [BEq ν] [LawfulBEq ν]

theorem lookup_some_mem {t : List (κ × ν)} {k : κ} {v : ν} (h : t.lookup k = some v) : (k, v) ∈ t := by
  induction t with
  | nil => simp [List.lookup] at h
  | cons r rs ih =>
    obtain ⟨a, b⟩ := r
    simp only [List.lookup] at h
    split at h
    · rename_i he
      have : k = a := by simpa using he
      injection h with h; subst h; subst this; simp
    · exact List.mem_cons_of_mem _ (ih h)

theorem lookup_none_not_mem {t : List (κ × ν)} {k : κ} (h : t.lookup k = none) (v : ν) : (k, v) ∉ t := by
  induction t with
  | nil => simp
  | cons r rs ih =>
    obtain ⟨a, b⟩ := r
    simp only [List.lookup] at h
    split at h
    · cases h
    · rename_i hne
      intro hm
      rcases List.mem_cons.mp hm with e | hm
      · injection e with e1 e2; subst e1; simp at hne
      · exact ih h hm

/-- two tables agree as finite maps (decidable, order-insensitive) -/
def tablesAgree (t s : List (κ × ν)) : Bool :=
  t.all (fun r => s.lookup r.1 == some r.2) && s.all (fun r => t.lookup r.1 == some r.2)

theorem lookup_eq_of_agree {t s : List (κ × ν)} (h : tablesAgree t s = true) (k : κ) :
    t.lookup k = s.lookup k := by
  simp only [tablesAgree, Bool.and_eq_true, List.all_eq_true, beq_iff_eq] at h
  obtain ⟨h1, h2⟩ := h
  cases ht : t.lookup k with
  | some v => exact (h1 _ (lookup_some_mem ht)).symm
  | none =>
    cases hs : s.lookup k with
    | none => rfl
    | some v =>
      have := h2 _ (lookup_some_mem hs)
      simp only at this
      rw [ht] at this; cases this

end Insim
