import Insim.Drv.Util
import Insim.Model.Track
import Insim.Model.Reader
import Insim.Gen.Track
namespace Insim.Drv.C14
open Insim Insim.Drv Insim.Track Insim.Gen.Track

def vname (t : Nat) : String := match variantNames[t]? with | some n => nameStr n | none => "?"

def handle (ws : List String) : Option String :=
  match ws with
  | ["trk.dec", h] => match parseHex h with
    | some b => some (outStr vname (decode readRows b))
    | none => some "bad-op"
  -- the same bytes from a source that hands over `per` bytes per call, through `read_exact`: value and bytes consumed
  | ["trk.seg", h, per] => match parseHex h, per.toNat? with
    | some b, some per =>
      (match Reader.decodeFrom 6 (decode readRows) (Reader.chunks per b) with
       | (.ok t, some rest) => some (s!"ok {vname t} at {b.length - rest.flatten.length}")
       | (.ok t, none) => some (s!"ok {vname t} at -")
       | (.err e, _) => some ("err " ++ e.toStr)
       | (.panic, _) => some "panic")
    | _, _ => some "bad-op"
  | ["trk.info", i] => match i.toNat? with
    | some t =>
      let wire := match encode writeRows t with | .ok b => toHex b | _ => "err"
      let code := match lookupN t codeRows with | some c => nameStr c | none => "?"
      let b2s (b : Bool) : String := if b then "1" else "0"
      let dist := match lookupN t distanceRows with | some d => b2s d | none => "?"
      let lic := match lookupN t licenceRows with | some l => toString l | none => "?"
      some s!"name={vname t} wire={wire} code={code} rev={b2s (memN t reverseList)} open={b2s (memN t openList)} dist={dist} lic={lic}"
    | none => some "bad-op"
  | _ => none

end Insim.Drv.C14
