import Insim.Drv.Util
import Insim.Model.Dur
namespace Insim.Drv.C15
open Insim Insim.Drv Insim.Dur

def lapsToken : RaceLaps → String
  | .practice => "practice"
  | .laps n => s!"laps {n}"
  | .hours n => s!"hours {n}"

def handle (ws : List String) : Option String :=
  match ws with
  | ["dur.rd", _w, s, x] =>
    match s.toNat?, x.toNat? with
    | some s, some x => some s!"ok {readDur s x}"
    | _, _ => some "bad-op"
  | ["dur.wr", w, s, ms] =>
    match w.toNat?, s.toNat?, ms.toNat? with
    | some w, some s, some ms => some (outStr toString (writeDur w s ms))
    | _, _, _ => some "bad-op"
  | ["laps.rd", b] => match b.toNat? with
    | some b => some (lapsToken (byteToLaps b))
    | none => some "bad-op"
  | ["laps.wr", "practice"] => some (toString (lapsToByte .practice))
  | ["laps.wr", "laps", n] => match n.toNat? with
    | some n => some (toString (lapsToByte (.laps n)))
    | none => some "bad-op"
  | ["laps.wr", "hours", n] => match n.toNat? with
    | some n => some (toString (lapsToByte (.hours n)))
    | none => some "bad-op"
  | ["small.rd", d, u] => match d.toNat?, u.toNat? with
    | some d, some u => match smallScale d with
      | some sc => some s!"ok ms {smallReadMs sc u}"
      | none => some "ok other"
    | _, _ => some "bad-op"
  | ["small.wr", d, ms] => match d.toNat?, ms.toNat? with
    | some d, some ms => match smallScale d with
      | some sc => some (outStr (fun u => s!"{d} {u}") (smallWriteVal sc ms))
      | none => some "bad-op"
    | _, _ => some "bad-op"
  | _ => none

end Insim.Drv.C15
