import Insim.Drv.Util
import Insim.Model.Conn
namespace Insim.Drv.Conn
open Insim Insim.Drv Insim.Frame Insim.Conn

def parseEv (t : String) : Option Ev :=
  if t = "p" then some .pending else if t = "e" then some .ioErr else if t = "t" then some .timeout
  else if t = "z" then some .eof
  else if t.startsWith "d:" then (parseHex (t.drop 2).toString).map .data
  else none

def parseEvs (s : String) : Option (List Ev) :=
  if s = "-" then some [] else (s.splitOn ",").mapM parseEv

def parseWEv (t : String) : Option WEv :=
  if t = "p" then some .pending else if t = "e" then some .ioErr
  else if t.startsWith "a" then (t.drop 1).toString.toNat?.map .accept
  else none

def parseWEvs (s : String) : Option (List WEv) :=
  if s = "-" then some [] else (s.splitOn ",").mapM parseWEv

/-- class token from the real decoder: `T.<reqi>.<subt>`, `V.<n>`, `O.<Kind>`, `E`, `P` -/
def parseCls (t : String) : Out Cls :=
  match t.splitOn "." with
  | ["T", r, s] => match r.toNat?, s.toNat? with
    | some r, some s => .ok (.tiny r s)
    | _, _ => .err .decode
  | ["V", n] => match n.toNat? with
    | some n => .ok (.ver n)
    | none => .err .decode
  | "O" :: _ => .ok .other
  | ["P"] => .panic
  | _ => .err .decode

/-- the class table `hex=token;hex=token…`: the packet parser as a finite map on whole frames -/
def parseTable (s : String) : Option (List (Bytes × String)) :=
  if s = "-" then some [] else
  (s.splitOn ";").mapM (fun kv => match kv.splitOn "=" with
    | [k, v] => (parseHex k).map (fun b => (b, v))
    | _ => none)

def itemStr (tbl : List (Bytes × String)) : Item → String
  | .pkt f _ => "pkt " ++ (match tbl.lookup f with | some t => t | none => "?")
  | .err e => "err " ++ e.toStr
  | .wrote bs => "w=" ++ toHex bs
  | .abort => "abort"
  | .blocked => "blocked"

/-- adjacent writes are one chunk of outgoing bytes -/
def coalesce : List Item → List Item
  | .wrote a :: .wrote b :: rest => coalesce (.wrote (a ++ b) :: rest)
  | i :: rest => i :: coalesce rest
  | [] => []
termination_by l => l.length

def readLine (m v tbl evs : String) : String :=
  match parseTable tbl, parseEvs evs with
  | some t, some es =>
    let cfg : Cfg := {
      mode := ⟨m = "c"⟩, verify := (v == "v1" || v == "v01"),  -- `v10`: switched on, then off; `v01`: off, then on — the last call decides
      -- the parser sees the frame without its size byte; the table is keyed by whole frames
      parse := fun body => match t.find? (fun kv => kv.1.tail = body) with
        | some kv => parseCls kv.2
        | none => .err .decode }
    let items := coalesce (run cfg [] es)
    if items.isEmpty then "-" else String.intercalate ";" (items.map (itemStr t))
  | _, _ => "bad-op"

def writeLine (frames ws : String) : String :=
  let fs : Option (List Bytes) := if frames = "-" then some [] else (frames.splitOn "+").mapM parseHex
  match fs, parseWEvs ws with
  | some fs, some ws =>
    -- an exhausted script accepts everything (as the scripted transport does)
    let ws' := ws ++ List.replicate (fs.length + 1) (.accept 1000000)
    -- per-call results: replay call by call
    let rec go (fs : List Bytes) (ws : List WEv) (res : List String) (out : Bytes) : List String × Bytes :=
      match fs with
      | [] => (res.reverse, out)
      | f :: rest =>
        match writeAll f ws with
        | (o, true, ws2) => go rest ws2 ("ok" :: res) (out ++ o)
        | (o, false, _) => (("err io" :: res).reverse, out ++ o)
    let (res, out) := go fs ws' [] []
    (if res.isEmpty then "-" else String.intercalate "," res) ++ " | out=" ++ toHex out
  | _, _ => "bad-op"

def handle (ws : List String) : Option String :=
  match ws with
  | ["framed.read", _fl, m, v, tbl, evs] => some (readLine m v tbl evs)
  -- a seventh token describes the write half while reading (short accepts / not-ready only): `writeAll` then
  -- delivers the whole keep-alive reply whatever the script (C06.write_all_complete), so the answer is unchanged
  | ["framed.read", _fl, m, v, tbl, evs, _ws] => some (readLine m v tbl evs)
  | ["framed.write", _fl, _m, frames, wsc] => some (writeLine frames wsc)
  -- a sixth token (`slow=<s>`): every not-ready of the script lasts that many seconds of the runtime's virtual clock; the
  -- model has no clock — the answer does not depend on it, which is the point
  | ["framed.write", _fl, _m, frames, wsc, _slow] => some (writeLine frames wsc)
  | _ => none

end Insim.Drv.Conn
