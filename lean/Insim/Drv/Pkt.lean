import Insim.Drv.Util
import Insim.Model.LayoutEnv
import Insim.Model.Frame
namespace Insim.Drv.Pkt
open Insim Insim.Drv Insim.Layout Insim.Frame

def signedStr (w v : Nat) : String :=
  if v ≥ 256 ^ w / 2 then "-" ++ toString (256 ^ w - v) else toString v

def valNat : Val → Nat | .n v => v | .b _ => 0
def valBytes : Val → Bytes | .b bs => bs | .n _ => []

/-- canonical tokens of one field's values (calc'd counts are not part of the typed packet) -/
def fieldToks (ty : Ty) (vs : List Val) : List String :=
  match ty, vs with
  | .count _ _, _ => []
  | .sint w, [.n v] => [signedStr w v]
  | .f32, [.n v] => ["f" ++ toString v]
  | .str _ _ rraw _ _, [.b bs] => [(if rraw then "R" else "S") ++ toHex bs]
  | .custom .vehicle, vs => (match vehOfVals vs with
      | some (.builtin nm) => ["veh:builtin:" ++ nameStr nm]
      | some (.mod id) => [s!"veh:mod:{id}"]
      | some .unknown => ["veh:unknown"]
      | none => ["veh:?"])
  | .custom .track, [.n t] => ["trk:" ++ (match Gen.Track.variantNames[t]? with | some n => nameStr n | none => "?")]
  | .custom .raceLaps, [.n k, .n n] => [if k = 0 then "laps:practice" else if k = 1 then s!"laps:laps:{n}" else s!"laps:hours:{n}"]
  | .custom .fuel, [.n k, .n p] => [if k = 0 then s!"fuel:{p}" else "fuel:no"]
  | .custom .fuel200, [.n k, .n p] => [if k = 0 then s!"fuel:{p}" else "fuel:no"]
  | .custom .conInfo, vs =>
      -- x and y are i16
      (vs.take 13).map (fun v => toString (valNat v)) ++ (vs.drop 13).map (fun v => signedStr 2 (valNat v))
  | .custom .smallType, [.n d, .n v] => [s!"small:{d}:{v}"]
  | .custom .cimMode, [.n d, .n s, .n t] => [s!"cim:{d}:{s}:{t}"]
  | .custom .gameVersion, [.b maj, .n minor, .n patch] =>
      ["gv:" ++ nameStr maj ++ ":" ++ toString minor ++ ":" ++ (if patch = 0 then "-" else toString (patch - 1))]
  | _, [.n v] => [toString v]
  | _, _ => ["?"]

def fieldsToks : List Field → List Val → List String
  | [], _ => []
  | f :: fs, vs => fieldToks f.ty (vs.take (arity f.ty)) ++ fieldsToks fs (vs.drop (arity f.ty))

def ipStr (v : Nat) : String := s!"{v / 16777216 % 256}.{v / 65536 % 256}.{v / 256 % 256}.{v % 256}"

def tailToks (L : Layout) : TailVal → List String
  | .none => []
  | .elems es => ["[" ++ String.intercalate ";" (es.map (fun e => match L.tail with
      | .vec elt _ _ => String.intercalate "," (fieldsToks elt e)
      | _ => "?")) ++ "]"]
  | .set xs => ["{" ++ String.intercalate ";" (xs.map (fun x => match L.tail with
      | .set .mal => s!"veh:mod:{x}"
      | _ => ipStr x)) ++ "}"]
  | .text bs => [(match L.tail with | .strEof _ rraw _ _ => if rraw then "R" else "S" | _ => "S") ++ toHex bs]

def pvalStr (L : Layout) (v : PVal) : String :=
  let toks :=
    if L.customBody then
      -- MSO: reqi ucid plid usertype name msg (the harness recombines name+msg and recomputes textstart)
      (match v.vals with
       | [.n a, .n b, .n c, .n d, .b nm, .b msg] => [toString a, toString b, toString c, toString d, "S" ++ toHex nm, "S" ++ toHex msg]
       | _ => ["?"])
    else fieldsToks L.fields v.vals ++ tailToks L v.tail
  nameStr L.kind ++ " " ++ (if toks.isEmpty then "-" else String.intercalate "," toks)

def parseP (bs : Bytes) : Out (Layout × PVal) := parsePacket genEnv Gen.Packets.all bs

def decLine (m : String) (h : String) (reenc : Bool) : String :=
  match parseHex h with
  | none => "bad-op"
  | some buf =>
    let mode : Mode := ⟨m = "c"⟩
    let (r, rest) := Frame.decode mode parseP buf
    let tailS := s!" rem={rest.length}"
    match r with
    | .ok none => "none" ++ tailS
    | .ok (some (L, v)) =>
      let re := if reenc then
          " | re=" ++ (match Frame.encode mode (writePacket genEnv L v) with
            | .ok bs => toHex bs
            | .err _ => "err"
            | .panic => "panic")
        else ""
      "ok " ++ pvalStr L v ++ tailS ++ re
    | .err e => "err " ++ e.toStr ++ tailS
    | .panic => "panic" ++ tailS

def handle (ws : List String) : Option String :=
  match ws with
  | ["pkt.dec", m, h] => some (decLine m h false)
  | ["pkt.rt", m, h] => some (decLine m h true)
  | _ => none

end Insim.Drv.Pkt

namespace Insim.Drv.Pkt
def handleLen (ws : List String) : Option String :=
  match ws with
  | ["enc.len", m, n] => match n.toNat? with
    | some len => some (match Insim.Frame.encodeLength ⟨m = "c"⟩ len with
        | .ok k => s!"ok {k}"
        | .err _ => "err"
        | .panic => "panic")
    | none => some "bad-op"
  | _ => none
end Insim.Drv.Pkt

namespace Insim.Drv.Pkt
def handleStr (ws : List String) : Option String :=
  match ws with
  | ["str.write", n, a, h] => match n.toNat?, a.toNat?, Insim.parseHex h with
    | some n, some a, some e => some (Insim.toHex (Insim.Layout.writeStr n a e))
    | _, _, _ => some "bad-op"
  | ["str.read", h] => match Insim.parseHex h with
    | some b => some (Insim.toHex (Insim.Layout.stripNul b))
    | none => some "bad-op"
  | _ => none
end Insim.Drv.Pkt
