import Insim.Base.Bytes
namespace Insim.Drv
open Insim

def nameStr (n : List Nat) : String := String.ofList (n.map Char.ofNat)
def strName (s : String) : List Nat := s.toList.map Char.toNat

def outStr {α} (f : α → String) : Out α → String
  | .ok a => "ok " ++ f a
  | .err e => "err " ++ e.toStr
  | .panic => "panic"

def words (line : String) : List String := (line.trimAscii.toString.splitOn " ").filter (· ≠ "")

end Insim.Drv
