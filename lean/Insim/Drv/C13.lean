import Insim.Drv.Util
import Insim.Model.Vehicle
import Insim.Model.Reader
import Insim.Gen.Vehicle
namespace Insim.Drv.C13
open Insim Insim.Drv Insim.Vehicle

def vehToken : Veh → String
  | .builtin n => "builtin " ++ nameStr n
  | .mod id => s!"mod {id}"
  | .unknown => "unknown"

def vehLine (b : Bytes) : String :=
  match decode Gen.Vehicle.readRows b with
  | .ok v =>
    let enc := match encode Gen.Vehicle.writeRows v with
      | .ok bs => toHex bs
      | .err _ => "err"
      | .panic => "panic"
    let disp := match display Gen.Vehicle.displayRows v with
      | some d => nameStr d
      | none => "-"
    s!"ok {vehToken v}; enc={enc}; disp={disp}"
  | .err e => "err " ++ e.toStr
  | .panic => "panic"

def handle (ws : List String) : Option String :=
  match ws with
  | ["veh.seg", h, per] => match parseHex h, per.toNat? with
    | some b, some per =>
      (match Reader.decodeFrom 4 (decode Gen.Vehicle.readRows) (Reader.chunks per b) with
       | (.ok v, some rest) => some (s!"ok {vehToken v} at {b.length - rest.flatten.length}")
       | (.ok v, none) => some (s!"ok {vehToken v} at -")
       | (.err e, _) => some ("err " ++ e.toStr)
       | (.panic, _) => some "panic")
    | _, _ => some "bad-op"
  | ["veh", h] => match parseHex h with
    | some b => some (vehLine b)
    | none => some "bad-op"
  | _ => none

end Insim.Drv.C13
