import Insim.Drv.Util
import Insim.Model.Vehicle
import Insim.Gen.Vehicle
namespace Insim.Drv.C13
open Insim Insim.Drv Insim.Vehicle

def vehToken : Veh → String
  | .builtin n => "builtin " ++ nameStr n
  | .mod id => s!"mod {id}"
  | .unknown => "unknown"

def vehLine (b : Bytes) : String :=
  match decode Gen.Vehicle.readRows b with
  | .ok v =>
    let enc := match encode Gen.Vehicle.writeRows v with
      | .ok bs => toHex bs
      | .err _ => "err"
      | .panic => "panic"
    let disp := match display Gen.Vehicle.displayRows v with
      | some d => nameStr d
      | none => "-"
    s!"ok {vehToken v}; enc={enc}; disp={disp}"
  | .err e => "err " ++ e.toStr
  | .panic => "panic"

def handle (ws : List String) : Option String :=
  match ws with
  | ["veh", h] => match parseHex h with
    | some b => some (vehLine b)
    | none => some "bad-op"
  | _ => none

end Insim.Drv.C13
