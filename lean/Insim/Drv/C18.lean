import Insim.Drv.Util
import Insim.Model.Builder
import Insim.Gen.Builder
import Insim.Base.Table
namespace Insim.Drv.C18
open Insim Insim.Drv Insim.Bld

def cpsStr (s : List Nat) : String := if s.isEmpty then "-" else String.intercalate "," (s.map toString)

def optStr (x : String) : Option (Option (List Nat)) :=
  if x = "-" then some none else if x = "e" then some (some [])
  else ((x.splitOn ".").mapM String.toNat?).map some

def parseOp (t : String) : Option Op :=
  match t.splitOn ":" with
  | ["tcp"] => some .tcp
  | ["udp", x] => if x = "-" then some (.udp none) else x.toNat?.map (fun p => .udp (some p))
  | ["relay"] => some .relay
  | ["mode", m] => some (.mode (m = "c"))
  | ["flags", n] => n.toNat?.map (fun n => .flags (BitVec.ofNat 16 n))
  | ["flag", n, b] => (lookupB (strName n) Gen.Builder.flagSetters).map (fun m => .flag (BitVec.ofNat 16 m) (b = "1"))
  | ["pfx", x] => if x = "-" then some (.pfx none) else x.toNat?.map (fun c => .pfx (some c))
  | ["interval", x] => if x = "-" then some (.interval none) else x.toNat?.map (fun c => .interval (some c))
  | ["iname", x] => (optStr x).map .iname
  | ["admin", x] => (optStr x).map .admin
  | ["reqi", r] => r.toNat?.map .reqi
  | ["other", _] => some .other
  | _ => none

def handle (ws : List String) : Option String :=
  match ws with
  | ["bld", ops] =>
    let parsed : Option (List Op) := if ops = "-" then some [] else (ops.splitOn ",").mapM parseOp
    match parsed with
    | some ops =>
      let i := isi Gen.Builder.defaultIname Gen.Builder.insimVersion (run ops)
      some s!"isi reqi={i.reqi} udpport={i.udpport} flags={i.flags.toNat} ver={i.version} pfx={i.pfx} interval={i.interval} admin={cpsStr i.admin} iname={cpsStr i.iname}"
    | none => some "bad-op"
  | _ => none

end Insim.Drv.C18
