import Insim.Drv.Conn
import Insim.Model.Cancel
namespace Insim.Drv.C19
open Insim Insim.Drv Insim.Frame Insim.Conn Insim.Cancel

def handle8 (ws : List String) : Option String :=
  match ws with
  | ["cancel", m, v, tbl, evs, wevs, drops, fl] =>
    let fls : List Bool := let t := (fl.drop 3).toString; if t = "-" then [] else (t.splitOn ",").map (fun x => x = "1")
    let ds : Option (List Nat) := if drops = "-" then some [] else (drops.splitOn ",").mapM String.toNat?
    match Conn.parseTable tbl, Conn.parseEvs evs, Conn.parseWEvs wevs, ds with
    | some t, some es, some wes, some ds =>
      let cfg : Cfg := {
        mode := ⟨m = "c"⟩, verify := v = "v1",
        parse := fun body => match t.find? (fun kv => kv.1.tail = body) with
          | some kv => Conn.parseCls kv.2
          | none => .err .decode }
      let st : St := { buf := [], revs := es, wevs := wes, out := [], fevs := fls }
      let r := session cfg (fun n => ds.contains n) false 2000 0 st .idle
      let items := r.1.map (Conn.itemStr t)
      some ((if items.isEmpty then "-" else String.intercalate ";" items) ++ " | out=" ++ toHex r.2.out)
    | _, _, _, _ => some "bad-op"
  | _ => none

def handle (ws : List String) : Option String :=
  match ws with
  | ["cancel", m, v, tbl, evs, wevs, drops] => handle8 ["cancel", m, v, tbl, evs, wevs, drops, "fl=-"]
  | _ => handle8 ws

end Insim.Drv.C19
