import Insim.Drv.Pkt
import Insim.Model.Files
import Insim.Model.FilesEnv
namespace Insim.Drv.C17
open Insim Insim.Drv Insim.Layout Insim.Files

abbrev leafs : Leafs := genLeafs

/-- plain token of one leaf value: signed for sint, raw bits for f32 (the harness prints `to_bits`) -/
def tok (ty : Ty) (v : Val) : String :=
  match ty, v with
  | .sint w, .n x => Pkt.signedStr w x
  | .str _ _ _ _ _, .b bs => "S" ++ toHex bs
  | _, .n x => toString x
  | _, .b bs => toHex bs

def toks : List Field → List Val → List String
  | [], _ => []
  | f :: fs, v :: vs => tok f.ty v :: toks fs vs
  | _, [] => []

def sep (s : String) (l : List String) : String := if l.isEmpty then "-" else String.intercalate s l

def pthStr (p : Pth) : String :=
  "Pth " ++ String.intercalate "," (toks leafs.pthHeader p.header) ++ "," ++ sep "|" (p.nodes.map (fun n => String.intercalate ":" (toks leafs.node n)))

def objStr (o : Obj) : String :=
  String.intercalate ":" (toks leafs.objHeader o.header) ++ "/" ++ String.intercalate "+" (o.points.map (fun p => String.intercalate ":" (toks leafs.point p)))
    ++ "/" ++ String.intercalate "+" (o.triangles.map (fun t => String.intercalate ":" (toks leafs.triangle t)))

def smxStr (s : Smx) : String :=
  "Smx " ++ String.intercalate "," (toks leafs.smxHeader s.header) ++ "," ++ sep "|" (s.objects.map objStr) ++ "," ++ toString s.checkpoints.length ++ "," ++
    sep ":" (s.checkpoints.map (Pkt.signedStr 4))

def outHex : Out Bytes → String
  | .ok b => toHex b
  | .err _ => "err"
  | .panic => "panic"

def handle (ws : List String) : Option String :=
  match ws with
  | ["pth", h] => match parseHex h with
    | some b => some (match decPth leafs b with
      | .ok (p, rest) => s!"ok {pthStr p} rem={rest.length} | re={outHex (encPth leafs p)}"
      | .err e => "err " ++ e.toStr
      | .panic => "panic")
    | none => some "bad-op"
  | ["smx", h] => match parseHex h with
    | some b => some (match decSmx leafs b with
      | .ok (s, rest) => s!"ok {smxStr s} rem={rest.length} | re={outHex (encSmx leafs s)}"
      | .err e => "err " ++ e.toStr
      | .panic => "panic")
    | none => some "bad-op"
  | _ => none

end Insim.Drv.C17
