import Insim.Drv.Util
import Insim.Model.Escape
namespace Insim.Drv.C12
open Insim Insim.Drv Insim.Esc

def parseCps (s : String) : Option Str := if s = "-" then some [] else (s.splitOn ",").mapM String.toNat?
def cpsStr (s : Str) : String := if s.isEmpty then "-" else String.intercalate "," (s.map toString)

def handle (ws : List String) : Option String :=
  match ws with
  | ["esc", t] => (parseCps t).map (fun s => cpsStr (escape s)) |>.orElse (fun _ => some "bad-op")
  | ["unesc", t] => (parseCps t).map (fun s => cpsStr (unescape s)) |>.orElse (fun _ => some "bad-op")
  | ["strip", t] => (parseCps t).map (fun s => cpsStr (strip s)) |>.orElse (fun _ => some "bad-op")
  | _ => none

end Insim.Drv.C12
