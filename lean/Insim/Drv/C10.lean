import Insim.Drv.Util
import Insim.Model.Codepage
import Insim.Model.MsoText
import Insim.Gen.Codepages
namespace Insim.Drv.C10
open Insim Insim.Drv Insim.Cp

def parseCps (s : String) : Option Str := if s = "-" then some [] else (s.splitOn ",").mapM String.toNat?

def mkOfByte (b : Nat) : Option Mk := Mk.all.find? (fun m => m.byte == b)
def mkOfLetter (s : String) : Option Mk := match s.toList with | [c] => mkOfByte c.toNat | _ => none

def parsePer (lv : String) : Option (Mk × Option Bytes) :=
  match lv.splitOn ":" with
  | [l, v] =>
    match mkOfLetter l with
    | some m => if v = "-" then some (m, none) else (parseHex v).map (fun b => (m, some b))
    | none => none
  | _ => none

def parseEnt (ent : String) : Option (Nat × List (Mk × Option Bytes)) :=
  match ent.splitOn "=" with
  | [c, per] =>
    match c.toNat?, (per.splitOn "/").mapM parsePer with
    | some c, some per => some (c, per)
    | _, _ => none
  | _ => none

/-- inline encoder table: one entry per character, one letter:bytes pair per codepage -/
def parseInline (s : String) : Option (List (Nat × List (Mk × Option Bytes))) :=
  if s = "-" then some [] else (s.splitOn ";").mapM parseEnt

def cpOfTable (tbl : List (Nat × List (Mk × Option Bytes))) : Mk → CP := fun m =>
  { enc := fun c => match tbl.find? (fun e => e.1 == c) with
      | some e => (match e.2.find? (fun p => p.1 == m) with | some p => p.2 | none => none)
      | none => none,
    dec := fun b => b }

def segStr : Seg → String
  | .dec m bs => String.ofList [Char.ofNat m.byte] ++ ":" ++ toHex bs
  | .keep8 => "8"

def handle (ws : List String) : Option String :=
  match ws with
  | ["cp.enc", t, inl] =>
    match parseCps t, parseInline inl with
    | some s, some tbl =>
      let cp : Mk → CP := fun m =>
        { enc := fun c => match tbl.find? (fun e => e.1 == c) with
            | some e => (match e.2.find? (fun p => p.1 == m) with | some p => p.2 | none => none)
            | none => none,
          dec := fun b => b }
      let order := Gen.Codepages.order.filterMap mkOfByte
      some (toHex (toBytes cp order s))
    | _, _ => some "bad-op"
  -- IS_MSO as typed values: (textstart, msg) -> TextStart byte and text bytes, with the encoder table given inline
  | ["mso.wr", ts, t, inl] =>
    match ts.toNat?, parseCps t, parseInline inl with
    | some ts, some s, some tbl =>
      let order := Gen.Codepages.order.filterMap mkOfByte
      (match Text.msoWrite (cpOfTable tbl) order ts s with
       | some (w, body) => some (toString w ++ " " ++ (if body.isEmpty then "-" else toHex body))
       | none => some "refused")
    | _, _, _ => some "bad-op"
  -- … and back: the decoding plan of the name part and of the whole text (resolved by the harness with encoding_rs)
  | ["mso.rd", ts, h] =>
    match ts.toNat?, (if h = "-" then some [] else parseHex h) with
    | some ts, some body =>
      (match Text.msoReadPlan ts body with
       | some (pn, pw) =>
         let pl := fun (p : List Seg) => if p.isEmpty then "-" else String.intercalate "|" (p.map segStr)
         some ("msoplan " ++ pl pn ++ " # " ++ pl pw)
       | none => some "err")
    | _, _ => some "bad-op"
  | ["cp.dec", h] =>
    match parseHex h with
    | some b => some ("plan " ++ String.intercalate "|" ((planGo .L [] b).map segStr))
    | none => some "bad-op"
  | _ => none

end Insim.Drv.C10
