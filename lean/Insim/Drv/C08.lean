import Insim.Drv.Util
import Insim.Model.Udp
namespace Insim.Drv.C08
open Insim Insim.Drv

def joinHex (v : List Bytes) : String := if v.isEmpty then "-" else String.intercalate "+" (v.map toHex)

def parseOp (t : String) : Option Udp.AOp :=
  if t = "f" then some .fl
  else if t = "t" then some .idle
  else if t.startsWith "x" then (t.drop 1).toString.toNat?.map .rx
  else if t.startsWith "w" then (parseHex (t.drop 1).toString).map .wr
  else t.toNat?.map .rd

def handle (ws : List String) : Option String :=
  match ws with
  | ["udp.ops", _fl, ops, dg] =>
    let os : Option (List Udp.AOp) := if ops = "-" then some [] else (ops.splitOn ",").mapM parseOp
    let ds : Option (List Bytes) := if dg = "-" then some [] else (dg.splitOn "+").mapM parseHex
    match os, ds with
    | some os, some ds =>
      let r := Udp.runOps { buf := [], ds := ds, sent := [] } os
      some s!"{joinHex r.1} sent={joinHex r.2.sent}"
    | _, _ => some "bad-op"
  | ["udp.adaptor", _fl, offers, dg] =>
    let os : Option (List Nat) := if offers = "-" then some [] else (offers.splitOn ",").mapM String.toNat?
    let ds : Option (List Bytes) := if dg = "-" then some [] else (dg.splitOn "+").mapM parseHex
    match os, ds with
    | some os, some ds => some (joinHex (Udp.run [] os ds).1)
    | _, _ => some "bad-op"
  | _ => none

end Insim.Drv.C08
