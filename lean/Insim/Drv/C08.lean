import Insim.Drv.Util
import Insim.Model.Udp
namespace Insim.Drv.C08
open Insim Insim.Drv

def joinHex (v : List Bytes) : String := if v.isEmpty then "-" else String.intercalate "+" (v.map toHex)

def handle (ws : List String) : Option String :=
  match ws with
  | ["udp.adaptor", _fl, offers, dg] =>
    let os : Option (List Nat) := if offers = "-" then some [] else (offers.splitOn ",").mapM String.toNat?
    let ds : Option (List Bytes) := if dg = "-" then some [] else (dg.splitOn "+").mapM parseHex
    match os, ds with
    | some os, some ds => some (joinHex (Udp.run [] os ds).1)
    | _, _ => some "bad-op"
  | _ => none

end Insim.Drv.C08
