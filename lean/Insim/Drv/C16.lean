import Insim.Drv.Util
import Insim.Model.GameVersion
namespace Insim.Drv.C16
open Insim Insim.Drv Insim.GV

/-- `cp` or `cpn` (n = the real `char::is_numeric` said yes) -/
def parseTok (t : String) : Option (Nat × Bool) :=
  if t.endsWith "n" then (t.dropEnd 1).toString.toNat?.map (fun c => (c, true))
  else t.toNat?.map (fun c => (c, false))

def parseToks (s : String) : Option (List (Nat × Bool)) :=
  if s = "-" then some [] else (s.splitOn ",").mapM parseTok

def cpsStr (s : Str) : String := if s.isEmpty then "-" else String.intercalate "," (s.map toString)

def gvTok (g : GV) : String :=
  s!"{g.major} {g.minor} " ++ (match g.patch with | some p => toString p | none => "-")

def mkGV (a b c : String) : Option GV :=
  match a.toNat?, b.toNat? with
  | some a, some b => if c = "-" then some ⟨a, b, none⟩ else c.toNat?.map (fun p => ⟨a, b, some p⟩)
  | _, _ => none

def handle (ws : List String) : Option String :=
  match ws with
  | ["gv.parse", toks] => match parseToks toks with
    | some ts =>
      let env : Env := { isNum := fun c => (ts.find? (fun t => t.1 == c)).map (·.2) |>.getD false,
                         parseF := parseF32, printF := fun _ => [] }
      match parse env (ts.map (·.1)) with
      | .ok g => some ("ok " ++ gvTok g)
      | .error .major => some "err major"
      | .error .minor => some "err minor"
      | .error .patch => some "err patch"
    | none => some "bad-op"
  | ["gv.cmp", a1, a2, a3, b1, b2, b3] => match mkGV a1 a2 a3, mkGV b1 b2 b3 with
    | some a, some b =>
      let o := match cmp a b with | .lt => "lt" | .eq => "eq" | .gt => "gt"
      some (o ++ " " ++ (if eqv a b then "1" else "0"))
    | _, _ => some "bad-op"
  | ["gv.print", a1, a2, a3, pm] => match mkGV a1 a2 a3, parseToks pm with
    | some g, some pm =>
      let env : Env := { isNum := fun _ => false, parseF := fun _ => none, printF := fun _ => pm.map (·.1) }
      some (cpsStr (print env g))
    | _, _ => some "bad-op"
  | _ => none

end Insim.Drv.C16
