import Insim.Drv.Util
import Insim.Model.Ws
namespace Insim.Drv.C20
open Insim Insim.Drv Insim.Ws

def parseMsg (t : String) : Option Msg :=
  if t = "t" ∨ t = "p" then some .other
  else if t.startsWith "b:" then (parseHex (t.drop 2).toString).map .binary
  else none

/-- run the reads like the harness does: one result token per read; stop at end of stream, at a
pending read, or when the offers run out -/
def go (closed : Bool) : Bytes → List Nat → List Msg → List String
  | _, [], _ => []
  | buf, o :: os, msgs =>
    match Ws.read closed buf o msgs with
    | (.pending, _, _) => ["PENDING"]
    | (.chunk [], _, _) => ["-"]
    | (.chunk (c :: cs), buf', msgs') => toHex (c :: cs) :: go closed buf' os msgs'

/-- `read_exact(n)` on the adaptor: one caller buffer filled by as many reads as it takes (each read appends to what
is already there) -/
def readExact (closed : Bool) : Nat → Bytes → Nat → List Msg → Bytes → Except String (Bytes × Bytes × List Msg)
  | _, buf, 0, msgs, acc => .ok (acc, buf, msgs)
  | 0, _, _ + 1, _, _ => .error "PENDING"
  | fuel + 1, buf, n + 1, msgs, acc =>
    match Ws.read closed buf (n + 1) msgs with
    | (.pending, _, _) => .error "PENDING"
    | (.chunk [], _, _) => .error "EOF"
    | (.chunk (c :: cs), buf', msgs') => readExact closed fuel buf' (n + 1 - (c :: cs).length) msgs' (acc ++ c :: cs)

def goExact (closed : Bool) : Bytes → List Nat → List Msg → List String
  | _, [], _ => []
  | buf, n :: ns, msgs =>
    match readExact closed (n + 1) buf n msgs [] with
    | .error e => [e]
    | .ok (blk, buf', msgs') => (if blk.isEmpty then "-" else toHex blk) :: goExact closed buf' ns msgs'

def handle (ws : List String) : Option String :=
  match ws with
  | ["ws.exact", c, sizes, msgs] =>
    let ns : Option (List Nat) := if sizes = "-" then some [] else (sizes.splitOn ",").mapM String.toNat?
    let ms : Option (List Msg) := if msgs = "-" then some [] else (msgs.splitOn "+").mapM parseMsg
    match ns, ms with
    | some ns, some ms =>
      let r := goExact (c = "1") [] ns ms
      some (if r.isEmpty then "none" else String.intercalate "+" r)
    | _, _ => some "bad-op"
  | ["ws.adaptor", c, offers, msgs] =>
    let os : Option (List Nat) := if offers = "-" then some [] else (offers.splitOn ",").mapM String.toNat?
    let ms : Option (List Msg) := if msgs = "-" then some [] else (msgs.splitOn "+").mapM parseMsg
    match os, ms with
    | some os, some ms =>
      let r := go (c = "1") [] os ms
      some (if r.isEmpty then "none" else String.intercalate "+" r)
    | _, _ => some "bad-op"
  | _ => none

end Insim.Drv.C20
