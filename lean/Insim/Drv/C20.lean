import Insim.Drv.Util
import Insim.Model.Ws
namespace Insim.Drv.C20
open Insim Insim.Drv Insim.Ws

def parseMsg (t : String) : Option Msg :=
  if t = "t" ∨ t = "p" then some .other
  else if t.startsWith "b:" then (parseHex (t.drop 2).toString).map .binary
  else none

/-- run the reads like the harness does: one result token per read; stop at end of stream, at a
pending read, or when the offers run out -/
def go (closed : Bool) : Bytes → List Nat → List Msg → List String
  | _, [], _ => []
  | buf, o :: os, msgs =>
    match Ws.read closed buf o msgs with
    | (.pending, _, _) => ["PENDING"]
    | (.chunk [], _, _) => ["-"]
    | (.chunk (c :: cs), buf', msgs') => toHex (c :: cs) :: go closed buf' os msgs'

def handle (ws : List String) : Option String :=
  match ws with
  | ["ws.adaptor", c, offers, msgs] =>
    let os : Option (List Nat) := if offers = "-" then some [] else (offers.splitOn ",").mapM String.toNat?
    let ms : Option (List Msg) := if msgs = "-" then some [] else (msgs.splitOn "+").mapM parseMsg
    match os, ms with
    | some os, some ms =>
      let r := go (c = "1") [] os ms
      some (if r.isEmpty then "none" else String.intercalate "+" r)
    | _, _ => some "bad-op"
  | _ => none

end Insim.Drv.C20
