import Insim.Props.C10
import Insim.Lemmas.Layout
import Insim.Model.MsoText
/-
Typed text fields: the codepage layer (Model/Codepage, laws and round trip in Props/C10) composed with the
field layer (writeStr / stripNul) and, for IS_MSO, with the hand-written body's name/text split
(Model/MsoText). The statements are re-exported as property theorems in Props/C01.
-/
namespace Insim.Text
open Insim Insim.Cp Insim.Layout Insim.Props.C10

/-- the codepage the encoder is left in after `s` -/
def encEnd (cp : Mk → CP) (order : List Mk) : Mk → Str → Mk
  | cur, [] => cur
  | cur, c :: cs =>
    if isAscii c then encEnd cp order cur cs
    else match (cp cur).enc c with
      | some _ => encEnd cp order cur cs
      | none => match findCp cp cur c order with
        | some (x, _) => encEnd cp order x cs
        | none => encEnd cp order cur cs

/-- the encoder works left to right: the bytes of a prefix are a prefix of the bytes -/
theorem encGo_append (cp : Mk → CP) (order : List Mk) (a b : Str) (cur : Mk) :
    encGo cp order cur (a ++ b) = encGo cp order cur a ++ encGo cp order (encEnd cp order cur a) b := by
  induction a generalizing cur with
  | nil => simp [encGo, encEnd]
  | cons c cs ih =>
    simp only [List.cons_append, encGo, encEnd]
    by_cases ha : isAscii c = true
    · simp [ha, ih]
    · simp only [ha, Bool.false_eq_true, if_false]
      cases he : (cp cur).enc c with
      | some bs => simp [ih]
      | none =>
        cases hf : findCp cp cur c order with
        | some p => obtain ⟨x, bs⟩ := p; simp [ih]
        | none => simp [ih]

theorem toBytes_prefix (cp : Mk → CP) (order : List Mk) (a b : Str) :
    toBytes cp order (a ++ b) = toBytes cp order a ++ encGo cp order (encEnd cp order .L a) b := by
  rw [toBytes_eq_encGo, toBytes_eq_encGo, encGo_append]

/-- a sixth law, needed for texts inside NUL-terminated fields: no encoded byte is NUL -/
def NulLaw (cp : Mk → CP) : Prop := ∀ x c bs, (cp x).enc c = some bs → (0 : Nat) ∉ bs

theorem mk_byte_ne_zero (x : Mk) : x.byte ≠ 0 := by cases x <;> decide

theorem encGo_no_nul (cp : Mk → CP) (order : List Mk) (N : NulLaw cp) (s : Str) (hs : (0 : Nat) ∉ s) (cur : Mk) :
    (0 : Nat) ∉ encGo cp order cur s := by
  induction s generalizing cur with
  | nil => simp [encGo]
  | cons c cs ih =>
    have hc : c ≠ 0 := fun h => hs (by simp [h])
    have hcs : (0 : Nat) ∉ cs := fun h => hs (List.mem_cons_of_mem _ h)
    simp only [encGo]
    by_cases ha : isAscii c = true
    · simp only [ha, if_true, List.mem_cons, not_or]
      exact ⟨fun h => hc h.symm, ih hcs cur⟩
    · simp only [ha, Bool.false_eq_true, if_false]
      cases he : (cp cur).enc c with
      | some bs =>
        simp only [List.mem_append, not_or]
        exact ⟨N cur c bs he, ih hcs cur⟩
      | none =>
        cases hf : findCp cp cur c order with
        | some p =>
          obtain ⟨x, bs⟩ := p
          have hx := findCp_sound cp cur c order x bs hf
          simp only [List.mem_cons, List.mem_append, not_or]
          refine ⟨by decide, fun h => mk_byte_ne_zero x h.symm, N x c bs hx, ih hcs x⟩
        | none =>
          simp only [List.mem_cons, not_or]
          exact ⟨by decide, ih hcs cur⟩

theorem toBytes_no_nul (cp : Mk → CP) (order : List Mk) (N : NulLaw cp) (s : Str) (hs : (0 : Nat) ∉ s) :
    (0 : Nat) ∉ toBytes cp order s := by
  rw [toBytes_eq_encGo]; exact encGo_no_nul cp order N s hs .L

/-- every character costs at least one byte -/
theorem encGo_length_pos (cp : Mk → CP) (order : List Mk) (c : Nat) (cs : Str) (cur : Mk) :
    0 < (encGo cp order cur (c :: cs)).length ∨ (cp cur).enc c = some [] := by
  simp only [encGo]
  by_cases ha : isAscii c = true
  · simp [ha]
  · simp only [ha, Bool.false_eq_true, if_false]
    cases he : (cp cur).enc c with
    | some bs =>
      cases bs with
      | nil => right; rfl
      | cons b bs => left; simp
    | none =>
      cases hf : findCp cp cur c order with
      | some p => obtain ⟨x, bs⟩ := p; simp
      | none => simp

/-- what the text's preconditions are: encodable characters, carets that start no marker, no NUL -/
structure TextOk (cp : Mk → CP) (s : Str) : Prop where
  enc : ∀ c ∈ s, isAscii c = true ∨ Encodable cp c
  caret : CaretOk s
  nul : (0 : Nat) ∉ s

/-- **typed fixed-width field**: a text that fits its field comes back unchanged -/
theorem fixed_field_roundtrip (cp : Mk → CP) (order : List Mk) (ho : ∀ x : Mk, x ∈ order) (L : Laws cp) (LL : LeadLaw cp)
    (N : NulLaw cp) (n : Nat) (s : Str) (hs : TextOk cp s) (hfit : (toBytes cp order s).length ≤ n) :
    Cp.toString cp (stripNul (writeStr n 0 (toBytes cp order s))) = s := by
  obtain ⟨k, hk⟩ := writeStr_fits n 0 (toBytes cp order s) hfit
  rw [hk, stripNul_no_nul _ (toBytes_no_nul cp order N s hs.nul) k]
  exact faithful_carets cp order ho L LL s hs.enc hs.caret

/-- **typed variable-width field** (4-aligned, capped at `n`) -/
theorem aligned_field_roundtrip (cp : Mk → CP) (order : List Mk) (ho : ∀ x : Mk, x ∈ order) (L : Laws cp) (LL : LeadLaw cp)
    (N : NulLaw cp) (n : Nat) (s : Str) (hs : TextOk cp s) (hfit : (toBytes cp order s).length ≤ n) :
    Cp.toString cp (stripNul (writeStr n 4 (toBytes cp order s))) = s := by
  obtain ⟨k, hk⟩ := writeStr_fits n 4 (toBytes cp order s) hfit
  rw [hk, stripNul_no_nul _ (toBytes_no_nul cp order N s hs.nul) k]
  exact faithful_carets cp order ho L LL s hs.enc hs.caret

/-! ### IS_MSO at the level of its typed fields -/

theorem utf8Len_pos (c : Nat) : 0 < utf8Len c := by unfold utf8Len; split <;> (try split) <;> (try split) <;> omega

theorem splitUtf8_append (a b : Str) : splitUtf8 (a ++ b) (strLen a) = some (a, b) := by
  induction a with
  | nil => cases b <;> simp [splitUtf8, strLen]
  | cons c cs ih =>
    have hp := utf8Len_pos c
    obtain ⟨m, hm⟩ : ∃ m, utf8Len c + strLen cs = m + 1 := ⟨utf8Len c + strLen cs - 1, by omega⟩
    simp only [List.cons_append, strLen, hm, splitUtf8]
    have h1 : utf8Len c ≤ m + 1 := by omega
    have h2 : m + 1 - utf8Len c = strLen cs := by omega
    simp [h1, h2, ih]

/-- **IS_MSO, typed**: the user's name and text, and the position where the text starts, survive the
codec — the position is translated to the wire's byte offset and back -/
theorem mso_typed_roundtrip (cp : Mk → CP) (order : List Mk) (ho : ∀ x : Mk, x ∈ order) (L : Laws cp) (LL : LeadLaw cp)
    (N : NulLaw cp) (name text : Str) (hn : TextOk cp name) (hs : TextOk cp (name ++ text))
    (hts : strLen name < 256) (hfit : (toBytes cp order (name ++ text)).length ≤ 128)
    (ts : Nat) (body : Bytes) (hw : msoWrite cp order (strLen name) (name ++ text) = some (ts, body)) :
    msoRead cp ts body = some (strLen name, name ++ text) := by
  have hpre := toBytes_prefix cp order name text
  obtain ⟨k, hk⟩ := writeStr_fits 128 4 (toBytes cp order (name ++ text)) hfit
  have hnn := toBytes_no_nul cp order N _ hs.nul
  have hrt := faithful_carets cp order ho L LL _ hs.enc hs.caret
  unfold msoWrite at hw
  by_cases h0 : strLen name > 0
  · simp only [h0, if_true, splitUtf8_append] at hw
    injection hw with hw
    simp only [Prod.mk.injEq] at hw
    obtain ⟨h1, h2⟩ := hw
    have hlen : (toBytes cp order name).length ≤ 128 := by
      have := congrArg List.length hpre
      simp only [List.length_append] at this; omega
    rw [Nat.mod_eq_of_lt (by omega)] at h1
    have hne : name ≠ [] := by intro h; simp [h, strLen] at h0
    have hpos : 0 < ts := by
      obtain ⟨c, cs, rfl⟩ := List.exists_cons_of_ne_nil hne
      rw [← h1, toBytes_eq_encGo]
      rcases encGo_length_pos cp order c cs .L with h | h
      · exact h
      · exact (enc_nonempty cp L .L c h).elim
    subst h2
    rw [hk, hpre, List.append_assoc]
    have et : (toBytes cp order name ++ (encGo cp order (encEnd cp order Mk.L name) text ++ List.replicate k 0)).take ts
        = toBytes cp order name := by rw [← h1]; exact List.take_left' rfl
    have ed : (toBytes cp order name ++ (encGo cp order (encEnd cp order Mk.L name) text ++ List.replicate k 0)).drop ts
        = encGo cp order (encEnd cp order Mk.L name) text ++ List.replicate k 0 := by rw [← h1]; exact List.drop_left' rfl
    have hnl : ¬ ((toBytes cp order name ++ (encGo cp order (encEnd cp order Mk.L name) text ++ List.replicate k 0)).length < ts) := by
      rw [← h1]; simp
    have hn1 : (0 : Nat) ∉ toBytes cp order name := toBytes_no_nul cp order N _ hn.nul
    have hn2 : (0 : Nat) ∉ encGo cp order (encEnd cp order Mk.L name) text := by
      intro h; apply hnn; rw [hpre]; exact List.mem_append_right _ h
    have s1 : stripNul (toBytes cp order name) = toBytes cp order name := by
      have := stripNul_no_nul _ hn1 0; simpa using this
    simp only [msoRead, hpos, if_true, hnl, if_false, et, ed, s1, stripNul_no_nul _ hn2 k]
    rw [← hpre, hrt, faithful_carets cp order ho L LL _ hn.enc hn.caret, Nat.mod_eq_of_lt hts]
  · have hne : name = [] := by
      cases name with
      | nil => rfl
      | cons c cs => have := utf8Len_pos c; simp [strLen] at h0; omega
    subst hne
    simp only [strLen, Nat.lt_irrefl, if_false, List.nil_append] at hw ⊢
    injection hw with hw
    simp only [Prod.mk.injEq] at hw
    obtain ⟨h1, h2⟩ := hw
    subst h1; subst h2
    simp only [List.nil_append] at hk hnn hrt
    simp only [msoRead, Nat.lt_irrefl, if_false, hk, stripNul_no_nul _ hnn k, hrt]

/-- the plan the driver prints for the reader is what the reader does (given the codecs): the typed textstart is the UTF-8
length of the decoded name segments, the message the decoded segments of the whole text -/
theorem msoReadPlan_sound (cp : Mk → CP) (ts : Nat) (body : Bytes) :
    msoRead cp ts body =
      (msoReadPlan ts body).map (fun p => (strLen (p.1.flatMap (Seg.run cp)) % 256, p.2.flatMap (Seg.run cp))) := by
  unfold msoRead msoReadPlan
  by_cases h0 : ts > 0
  · by_cases hl : body.length < ts
    · simp [h0, hl]
    · simp only [h0, if_true, hl, if_false, Option.map_some, plan_sound, Cp.toString]
  · simp only [h0, if_false, Option.map_some, plan_sound, Cp.toString, List.flatMap_nil, strLen, Nat.zero_mod]

/-! non-vacuity: a one-table family that satisfies all six laws, and a message in the theorem's domain -/
def one : Mk → CP := fun _ => { enc := fun c => if c = 233 then some [233] else none, dec := fun bs => bs }

theorem one_laws : Laws one where
  decNil := by intro x; rfl
  ascii := by intro x c r _; rfl
  decEnc := by
    intro x c bs r h
    simp only [one] at h ⊢
    split at h
    · injection h with h; subst h; subst_vars; rfl
    · cases h
  noCaret := by
    intro x c bs h
    simp only [one] at h
    split at h
    · injection h with h; subst h; decide
    · cases h

theorem one_lead : LeadLaw one := by
  intro x c b bs _ h
  simp only [one] at h
  split at h
  · injection h with h; injection h with h1 _; subst h1; decide
  · cases h

theorem one_nul : NulLaw one := by
  intro x c bs h
  simp only [one] at h
  split at h
  · injection h with h; subst h; decide
  · cases h

example : msoWrite one Mk.all 4 [233, 58, 32, 104, 105] = some (3, [233, 58, 32, 104, 105, 0, 0, 0]) := by decide
example : msoRead one 3 [233, 58, 32, 104, 105, 0, 0, 0] = some (4, [233, 58, 32, 104, 105]) := by decide
example : TextOk one [233, 58, 32] ∧ TextOk one ([233, 58, 32] ++ [104, 105]) := by
  refine ⟨⟨?_, ?_, by decide⟩, ⟨?_, ?_, by decide⟩⟩
  · intro c hc; simp at hc; rcases hc with rfl | rfl | rfl
    · right; exact ⟨.L, [233], rfl⟩
    · left; decide
    · left; decide
  · simp [CaretOk]
  · intro c hc; simp at hc; rcases hc with rfl | rfl | rfl | rfl | rfl
    · right; exact ⟨.L, [233], rfl⟩
    all_goals (left; decide)
  · simp [CaretOk]

end Insim.Text
