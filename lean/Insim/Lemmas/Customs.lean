import Insim.Lemmas.Layout
import Insim.Model.LayoutEnv
import Insim.Props.C13
import Insim.Props.C14
import Insim.Props.C15
import Insim.Props.C16
/-
The hand-written field codecs plug into the generic layout proof: `CRep` is each codec's in-domain
predicate, `customs_lawful` the proof that, on it, decoding the written bytes returns the values.
`GameVersion` (8-byte text <-> parsed version): the model carries the major number as its canonical text
(the float's shortest printing, see Model/Layout.lean); in-domain = canonical major text, upper-case minor
letter, the printed text fits the 8 bytes. That printing and parsing an `f32` agree with this text-level
view is tied to the code by the correspondence run (C16 states the laws assumed of the standard library).
-/
namespace Insim.Layout
open Insim

/-- a canonical major text: ASCII digits and dots only, left unchanged by `normMajor`, readable as a float -/
def GvMajorOk (maj : Bytes) : Prop :=
  (∀ c ∈ maj, GV.isAsciiDigit c = true ∨ c = 46) ∧ normMajor maj = maj ∧ (GV.parseF32 maj).isSome = true

def gvText (maj : Bytes) (minor patch : Nat) : Bytes := maj ++ [minor] ++ (if patch = 0 then [] else natDigits (patch - 1))

def GvRep (maj : Bytes) (minor patch : Nat) : Prop :=
  GvMajorOk maj ∧ 65 ≤ minor ∧ minor ≤ 90 ∧ (gvText maj minor patch).length ≤ 8

theorem trimEndNul_pad (t : Bytes) (k : Nat) (hne : t ≠ []) (hnz : ∀ c ∈ t, c ≠ 0) : trimEndNul (t ++ List.replicate k 0) = t := by
  unfold trimEndNul
  rw [List.reverse_append, List.reverse_replicate]
  have h1 : ∀ (k : Nat) (r : Bytes), (List.replicate k 0 ++ r).dropWhile (· = 0) = r.dropWhile (· = 0) := by
    intro k r
    induction k with
    | zero => simp
    | succ n ih => simp [List.replicate_succ, List.dropWhile_cons, ih]
  rw [h1]
  cases hr : t.reverse with
  | nil => exact absurd (List.reverse_eq_nil_iff.mp hr) hne
  | cons x xs =>
    have hx : x ≠ 0 := hnz x (by rw [← List.mem_reverse, hr]; simp)
    simp only [List.dropWhile_cons, hx, decide_false, Bool.false_eq_true, if_false]
    rw [← hr, List.reverse_reverse]

theorem digit_nz (c : Nat) (h : GV.isAsciiDigit c = true) : c ≠ 0 ∧ c < 128 := by
  simp [GV.isAsciiDigit] at h; omega

theorem takeWhile_pre (p : Nat → Bool) (pre : Bytes) (c : Nat) (rest : Bytes) (hp : ∀ x ∈ pre, p x = true) (hc : p c = false) :
    (pre ++ c :: rest).takeWhile p = pre := by
  induction pre with
  | nil => simp [List.takeWhile_cons, hc]
  | cons x xs ih =>
    have hx : p x = true := hp x (by simp)
    simp only [List.cons_append, List.takeWhile_cons, hx, if_true, ih (fun y hy => hp y (by simp [hy]))]

theorem lt_pow_natDigits (n : Nat) : n < 10 ^ (GV.natDigits n).length := by
  induction n using Nat.strongRecOn with
  | _ n ih =>
    rw [GV.natDigits]
    split
    · simp; omega
    · have := ih (n / 10) (by omega)
      rw [List.length_append, List.length_singleton, Nat.pow_succ]
      omega

theorem gv_roundtrip (env : Env) (maj : Bytes) (minor patch : Nat) (h : GvRep maj minor patch) (bs : Bytes)
    (he : customEnc env .gameVersion [.b maj, .n minor, .n patch] = .ok bs) :
    customDec env .gameVersion bs = .ok [.b maj, .n minor, .n patch] := by
  obtain ⟨⟨hchars, hnorm, hpf⟩, hlo, hhi, hlen⟩ := h
  simp only [customEnc] at he
  injection he with he
  have htxt : (maj ++ [minor] ++ (if patch = 0 then [] else natDigits (patch - 1))) = gvText maj minor patch := rfl
  rw [htxt, List.take_of_length_le hlen] at he
  subst he
  -- facts about the text
  have hds : ∀ c ∈ (if patch = 0 then [] else natDigits (patch - 1)), GV.isAsciiDigit c = true := by
    intro c hc
    split at hc
    · cases hc
    · exact Props.C16.natDigits_digits _ c hc
  have hall : ∀ c ∈ gvText maj minor patch, c ≠ 0 ∧ c < 128 := by
    intro c hc
    simp only [gvText, List.mem_append, List.mem_singleton] at hc
    rcases hc with (hc | hc) | hc
    · rcases hchars c hc with h | h
      · exact digit_nz c h
      · subst h; omega
    · subst hc; omega
    · exact digit_nz c (hds c hc)
  have hne : gvText maj minor patch ≠ [] := by simp [gvText]
  have htrim := trimEndNul_pad (gvText maj minor patch) (8 - (gvText maj minor patch).length) hne (fun c hc => (hall c hc).1)
  have hlt : (gvText maj minor patch ++ List.replicate (8 - (gvText maj minor patch).length) 0).all (· < 128) = true := by
    rw [List.all_eq_true]
    intro c hc
    rw [List.mem_append] at hc
    rcases hc with hc | hc
    · simpa using (hall c hc).2
    · rw [List.mem_replicate] at hc; simp [hc.2]
  simp only [customDec, hlt, if_true, htrim]
  -- the major phase
  have hmajp : ∀ x ∈ maj, GV.isMajorChar gvEnv x = true := by
    intro x hx
    rcases hchars x hx with h | h
    · simp [GV.isMajorChar, gvEnv, h]
    · subst h; simp [GV.isMajorChar]
  have hminA : GV.isAsciiAlpha minor = true := by simp [GV.isAsciiAlpha]; omega
  have hminD : GV.isAsciiDigit minor = false := by simp [GV.isAsciiDigit]; omega
  have hminM : GV.isMajorChar gvEnv minor = false := by
    simp only [GV.isMajorChar, gvEnv, hminD, Bool.false_or]; simp; omega
  have hshape : gvText maj minor patch = maj ++ minor :: (if patch = 0 then [] else natDigits (patch - 1)) := by
    simp [gvText]
  have hspan := Props.C16.spanP_all (GV.isMajorChar gvEnv) maj minor (if patch = 0 then [] else natDigits (patch - 1)) hmajp hminM
  have hup : GV.toAsciiUpper minor = minor := by simp [GV.toAsciiUpper]; omega
  obtain ⟨bits, hbits⟩ := Option.isSome_iff_exists.mp hpf
  have htw : (gvText maj minor patch).takeWhile (fun c => GV.isAsciiDigit c || c == 46) = maj := by
    rw [hshape]
    apply takeWhile_pre
    · intro x hx
      rcases hchars x hx with h | h
      · simp [h]
      · subst h; simp
    · simp only [hminD, Bool.false_or]; simp; omega
  have hnotempty : (gvText maj minor patch).isEmpty = false := by
    cases hg : gvText maj minor patch with
    | nil => exact absurd hg hne
    | cons _ _ => rfl
  -- parse
  have hparse : GV.parse gvEnv (gvText maj minor patch) =
      .ok { major := bits, minor := minor, patch := if patch = 0 then none else some (patch - 1) } := by
    rw [hshape]
    cases hm : maj ++ minor :: (if patch = 0 then [] else natDigits (patch - 1)) with
    | nil => simp at hm
    | cons a as =>
      rw [← hm]
      simp only [GV.parse]
      rw [hm]
      simp only []
      rw [← hm, hspan]
      have e : gvEnv.parseF = GV.parseF32 := rfl
      simp only [e, hbits, hminA, if_true, hup]
      by_cases hp0 : patch = 0
      · simp [hp0, GV.patchPhase]
      · simp only [hp0, if_false]
        have hdd : ∀ x ∈ GV.natDigits (patch - 1), gvEnv.isNum x = true := fun x hx => Props.C16.natDigits_digits _ x hx
        cases hd : natDigits (patch - 1) with
        | nil => exact absurd hd (Props.C16.natDigits_ne_nil _)
        | cons d ds =>
          simp only [GV.patchPhase]
          rw [← hd]
          have hsp := Props.C16.spanP_all_nil gvEnv.isNum (GV.natDigits (patch - 1)) hdd
          have e2 : natDigits (patch - 1) = GV.natDigits (patch - 1) := rfl
          rw [e2, hsp]
          have hsmall : patch - 1 < 2 ^ 64 := by
            have h1 := lt_pow_natDigits (patch - 1)
            have h2 : (GV.natDigits (patch - 1)).length ≤ 8 := by
              have := hlen
              simp only [gvText, hp0, if_false, List.length_append, natDigits] at this
              omega
            have h3 : 10 ^ (GV.natDigits (patch - 1)).length ≤ 10 ^ 8 := Nat.pow_le_pow_right (by omega) h2
            omega
          simp only [Props.C16.parseUsize_natDigits _ hsmall]
  rw [hparse]
  simp only [hnotempty, htw, hnorm]
  by_cases hp0 : patch = 0
  · simp [hp0]
  · simp only [hp0, if_false]
    have : patch - 1 + 1 = patch := by omega
    simp [this]

def CRep : CustomId → List Val → Prop
  | .raceLaps, vs => ∃ k x, vs = [.n k, .n x] ∧
      ((k = 0 ∧ x = 0) ∨ (k = 1 ∧ ((1 ≤ x ∧ x ≤ 99) ∨ (100 ≤ x ∧ x ≤ 1000 ∧ x % 10 = 0))) ∨ (k = 2 ∧ 1 ≤ x ∧ x ≤ 48))
  | .fuel, vs => ∃ k p, vs = [.n k, .n p] ∧ ((k = 0 ∧ p < 255) ∨ (k = 1 ∧ p = 0))
  | .fuel200, vs => ∃ k p, vs = [.n k, .n p] ∧ ((k = 0 ∧ p < 255) ∨ (k = 1 ∧ p = 0))
  | .cimMode, vs => ∃ d s t, vs = [.n d, .n s, .n t] ∧
      ((d = 0 ∧ s ≤ 4 ∧ t = 0) ∨ ((d = 1 ∨ d = 2 ∨ d = 4 ∨ d = 5) ∧ s = 0 ∧ t = 0) ∨ (d = 3 ∧ s ≤ 8 ∧ t = 0) ∨ (d = 6 ∧ s ≤ 2 ∧ t < 256))
  | .conInfo, vs => ∃ plid info steer thr brk clu han gearsp speed direction heading accelf accelr x y,
      vs = [.n plid, .n info, .n steer, .n thr, .n brk, .n clu, .n han, .n gearsp, .n speed, .n direction, .n heading, .n accelf, .n accelr, .n x, .n y] ∧
      plid < 256 ∧ info < 256 ∧ info &&& genEnv.compCarInfoMask = info ∧ steer < 256 ∧ thr ≤ 15 ∧ brk ≤ 15 ∧ clu ≤ 15 ∧ han ≤ 15 ∧ gearsp ≤ 15 ∧
      speed < 256 ∧ direction < 256 ∧ heading < 256 ∧ accelf < 256 ∧ accelr < 256 ∧ x < 65536 ∧ y < 65536
  | .smallType, vs => ∃ d v, vs = [.n d, .n v] ∧
      ((d = 0 ∧ v = 0) ∨ ((d = 1 ∨ d = 2 ∨ d = 5 ∨ d = 6) ∧ v % 10 = 0 ∧ v / 10 < 2 ^ 32) ∨ (d = 3 ∧ v ≤ 3) ∨ (d = 4 ∧ v ≤ 1) ∨
       (d = 7 ∧ v < 2 ^ 32) ∨ (d = 8 ∧ v < 2 ^ 32 ∧ v &&& genEnv.smallAlcMask = v) ∨ (d = 9 ∧ v < 2 ^ 32 ∧ v &&& genEnv.smallLcsMask = v) ∨
       (d = 10 ∧ v < 2 ^ 32 ∧ v &&& genEnv.smallLclMask = v))
  | .vehicle, vs => ∃ b veh, IsBytes b ∧ Vehicle.decode genEnv.vehRead b = .ok veh ∧ vs = vehVals veh
  | .track, vs => ∃ t, t ∈ Gen.Track.variants ∧ vs = [.n t]
  | .gameVersion, vs => ∃ maj minor patch, vs = [.b maj, .n minor, .n patch] ∧ GvRep maj minor patch

theorem vehOfVals_vehVals (v : Vehicle.Veh) : vehOfVals (vehVals v) = some v := by
  cases v <;> rfl

theorem ofLe2 (v : Nat) (h : v < 65536) : ofLe (leBytes 2 v) = v := ofLe_leBytes 2 v (by omega)

theorem customs_lawful : CustomLawful genEnv CRep := by
  refine ⟨?_, ?_, ?_⟩
  · -- size
    intro c vs bs hr he
    cases c with
    | raceLaps => obtain ⟨k, x, rfl, _⟩ := hr; simp only [customEnc] at he; injection he with he; subst he; rfl
    | fuel => obtain ⟨k, p, rfl, _⟩ := hr; simp only [customEnc] at he; injection he with he; subst he; rfl
    | fuel200 => obtain ⟨k, p, rfl, _⟩ := hr; simp only [customEnc] at he; injection he with he; subst he; rfl
    | cimMode => obtain ⟨d, s, t, rfl, _⟩ := hr; simp only [customEnc] at he; injection he with he; subst he; rfl
    | conInfo =>
      obtain ⟨plid, info, steer, thr, brk, clu, han, gearsp, speed, direction, heading, accelf, accelr, x, y, rfl, h⟩ := hr
      simp only [customEnc] at he
      split at he
      · cases he
      · injection he with he; subst he; simp [wireSize]
    | smallType =>
      obtain ⟨d, v, rfl, h⟩ := hr
      simp only [customEnc] at he
      split at he
      · simp only [Dur.smallWriteVal] at he; split at he <;> (first | (injection he with he; subst he; simp [wireSize]) | cases he)
      · split at he
        · simp only [Dur.smallWriteVal] at he; split at he <;> (first | (injection he with he; subst he; simp [wireSize]) | cases he)
        · injection he with he; subst he; simp [wireSize]
    | vehicle =>
      obtain ⟨b, veh, hb, hd, rfl⟩ := hr
      simp only [customEnc, vehOfVals_vehVals] at he
      have := Props.C13.reencode b hb veh hd
      have e : genEnv.vehWrite = Gen.Vehicle.writeRows := rfl
      rw [e, this] at he; injection he with he; subst he
      -- a successful decode consumed exactly four bytes
      unfold Vehicle.decode at hd; split at hd
      · rfl
      · cases hd
    | track =>
      obtain ⟨t, ht, rfl⟩ := hr
      simp only [customEnc] at he
      obtain ⟨w, hw, hdw⟩ := Props.C14.decode_encode t ht
      have e : genEnv.trkWrite = Gen.Track.writeRows := rfl
      rw [e, hw] at he; injection he with he; subst he
      unfold Track.decode at hdw; split at hdw
      · rename_i h6; simpa [wireSize] using h6
      · cases hdw
    | gameVersion =>
      obtain ⟨maj, minor, patch, rfl, _⟩ := hr
      simp only [customEnc] at he
      injection he with he; subst he
      simp only [List.length_append, List.length_replicate, List.length_take, wireSize]
      omega
  · -- inverse
    intro c vs bs hr he
    cases c with
    | raceLaps =>
      obtain ⟨k, x, rfl, h⟩ := hr
      simp only [customEnc] at he; injection he with he; subst he
      rcases h with ⟨rfl, rfl⟩ | ⟨rfl, h⟩ | ⟨rfl, h1, h2⟩
      · rfl
      · have hin : Dur.InRange (.laps x) := by simp only [Dur.InRange]; omega
        have := Props.C15.laps_enc_sound (.laps x) hin
        have hrd : Dur.roundDown (.laps x) = .laps x := by
          simp only [Dur.roundDown]; split
          · congr 1; omega
          · rfl
        simp only [customDec, if_neg (show (1 : Nat) ≠ 0 by decide), if_true, this, hrd]
      · have hin : Dur.InRange (.hours x) := by simp only [Dur.InRange]; omega
        have := Props.C15.laps_enc_sound (.hours x) hin
        simp only [customDec, if_neg (show (2 : Nat) ≠ 0 by decide), if_neg (show (2 : Nat) ≠ 1 by decide), this, Dur.roundDown]
    | fuel =>
      obtain ⟨k, p, rfl, h⟩ := hr
      simp only [customEnc] at he; injection he with he; subst he
      rcases h with ⟨rfl, hp⟩ | ⟨rfl, rfl⟩
      · have : p % 256 = p := by omega
        have hne : p ≠ 255 := by omega
        simp [customDec, this, Dur.fuelRead, hne]
      · simp [customDec, Dur.fuelRead]
    | fuel200 =>
      obtain ⟨k, p, rfl, h⟩ := hr
      simp only [customEnc] at he; injection he with he; subst he
      rcases h with ⟨rfl, hp⟩ | ⟨rfl, rfl⟩
      · have : p % 256 = p := by omega
        have hne : p ≠ 255 := by omega
        simp [customDec, this, Dur.fuelRead, hne]
      · simp [customDec, Dur.fuelRead]
    | cimMode =>
      obtain ⟨d, s, t, rfl, h⟩ := hr
      simp only [customEnc] at he; injection he with he; subst he
      rcases h with ⟨rfl, hs, rfl⟩ | ⟨hd, rfl, rfl⟩ | ⟨rfl, hs, rfl⟩ | ⟨rfl, hs, ht⟩
      · simp [customDec, hs]
      · rcases hd with rfl | rfl | rfl | rfl <;> simp [customDec]
      · simp [customDec, hs]
      · have : s = 0 ∨ s = 1 ∨ s = 2 := by omega
        rcases this with rfl | rfl | rfl <;> simp [customDec]
    | conInfo =>
      obtain ⟨plid, info, steer, thr, brk, clu, han, gearsp, speed, direction, heading, accelf, accelr, x, y, rfl,
        h1, h2, h3, h4, h5, h6, h7, h8, h9, h10, h11, h12, h13, h14, h15, h16⟩ := hr
      simp only [customEnc] at he
      have hg : ¬ (thr > 15 ∨ brk > 15 ∨ clu > 15 ∨ han > 15 ∨ gearsp > 15) := by omega
      simp only [hg, if_false] at he
      injection he with he; subst he
      have e1 : leBytes 2 x = [x % 256, x / 256 % 256] := by simp [leBytes]
      have e2 : leBytes 2 y = [y % 256, y / 256 % 256] := by simp [leBytes]
      simp only [e1, e2, List.cons_append, List.nil_append, customDec]
      have m1 : plid % 256 = plid := by omega
      have m2 : info % 256 = info := by omega
      have m3 : steer % 256 = steer := by omega
      have m4 : speed % 256 = speed := by omega
      have m5 : direction % 256 = direction := by omega
      have m6 : heading % 256 = heading := by omega
      have m7 : accelf % 256 = accelf := by omega
      have m8 : accelr % 256 = accelr := by omega
      have n1 : (thr * 16 + brk) / 16 = thr := by omega
      have n2 : (thr * 16 + brk) % 16 = brk := by omega
      have n3 : (clu * 16 + han) / 16 = clu := by omega
      have n4 : (clu * 16 + han) % 16 = han := by omega
      have n5 : gearsp * 16 / 16 = gearsp := by omega
      have n6 : ofLe [x % 256, x / 256 % 256] = x := by simp [ofLe]; omega
      have n7 : ofLe [y % 256, y / 256 % 256] = y := by simp [ofLe]; omega
      simp only [m1, m2, m3, m4, m5, m6, m7, m8, n1, n2, n3, n4, n5, n6, n7, h3]
    | smallType =>
      obtain ⟨d, v, rfl, h⟩ := hr
      simp only [customEnc] at he
      have l4 : ∀ u, u < 2 ^ 32 → ∃ a b c e, leBytes 4 u = [a, b, c, e] ∧ ofLe [a, b, c, e] = u := by
        intro u hu
        refine ⟨u % 256, u / 256 % 256, u / 256 / 256 % 256, u / 256 / 256 / 256 % 256, by simp [leBytes], ?_⟩
        simp [ofLe]; omega
      rcases h with ⟨rfl, rfl⟩ | ⟨hd, hm, hq⟩ | ⟨rfl, hv⟩ | ⟨rfl, hv⟩ | ⟨rfl, hv⟩ | ⟨rfl, hv, hmk⟩ | ⟨rfl, hv, hmk⟩ | ⟨rfl, hv, hmk⟩
      · simp at he; subst he; simp [customDec, leBytes]
      · simp only [hd, if_true, Dur.smallWriteVal, hq] at he
        injection he with he; subst he
        obtain ⟨a, b, c, e, hl, ho⟩ := l4 (v / 10) hq
        have hmul : v / 10 * 10 = v := Nat.div_mul_cancel (Nat.dvd_of_mod_eq_zero hm)
        rcases hd with rfl | rfl | rfl | rfl <;> simp [hl, customDec, ho, hmul]
      · simp at he; subst he
        obtain ⟨a, b, c, e, hl, ho⟩ := l4 v (by omega)
        have : v = 0 ∨ v = 1 ∨ v = 2 ∨ v = 3 := by omega
        simp only [hl, customDec, ho]
        rcases this with rfl | rfl | rfl | rfl <;> simp
      · simp at he; subst he
        obtain ⟨a, b, c, e, hl, ho⟩ := l4 v (by omega)
        have : v = 0 ∨ v = 1 := by omega
        simp only [hl, customDec, ho]
        rcases this with rfl | rfl <;> simp
      · simp only [show ¬ ((7 : Nat) = 1 ∨ (7 : Nat) = 2 ∨ (7 : Nat) = 5 ∨ (7 : Nat) = 6) by decide, if_false, if_true, Dur.smallWriteVal, Nat.div_one, hv] at he
        injection he with he; subst he
        obtain ⟨a, b, c, e, hl, ho⟩ := l4 v hv
        simp [hl, customDec, ho]
      · simp at he; subst he
        obtain ⟨a, b, c, e, hl, ho⟩ := l4 v hv
        simp [hl, customDec, ho, hmk]
      · simp at he; subst he
        obtain ⟨a, b, c, e, hl, ho⟩ := l4 v hv
        simp [hl, customDec, ho, hmk]
      · simp at he; subst he
        obtain ⟨a, b, c, e, hl, ho⟩ := l4 v hv
        simp [hl, customDec, ho, hmk]
    | vehicle =>
      obtain ⟨b, veh, hb, hd, rfl⟩ := hr
      simp only [customEnc, vehOfVals_vehVals] at he
      have := Props.C13.reencode b hb veh hd
      have e : genEnv.vehWrite = Gen.Vehicle.writeRows := rfl
      rw [e, this] at he; injection he with he; subst he
      simp only [customDec, hd]
    | track =>
      obtain ⟨t, ht, rfl⟩ := hr
      simp only [customEnc] at he
      obtain ⟨w, hw, hdw⟩ := Props.C14.decode_encode t ht
      have e : genEnv.trkWrite = Gen.Track.writeRows := rfl
      rw [e, hw] at he; injection he with he; subst he
      have e2 : genEnv.trkRead = Gen.Track.readRows := rfl
      simp only [customDec, e2, hdw]
    | gameVersion =>
      obtain ⟨maj, minor, patch, rfl, h⟩ := hr
      exact gv_roundtrip genEnv maj minor patch h bs he
  · -- arity
    intro c vs hr
    cases c with
    | raceLaps => obtain ⟨_, _, rfl, _⟩ := hr; rfl
    | fuel => obtain ⟨_, _, rfl, _⟩ := hr; rfl
    | fuel200 => obtain ⟨_, _, rfl, _⟩ := hr; rfl
    | cimMode => obtain ⟨_, _, _, rfl, _⟩ := hr; rfl
    | conInfo => obtain ⟨_, _, _, _, _, _, _, _, _, _, _, _, _, _, _, rfl, _⟩ := hr; rfl
    | smallType => obtain ⟨_, _, rfl, _⟩ := hr; rfl
    | vehicle => obtain ⟨_, veh, _, _, rfl⟩ := hr; cases veh <;> rfl
    | track => obtain ⟨_, _, rfl⟩ := hr; rfl
    | gameVersion => obtain ⟨_, _, _, rfl, _⟩ := hr; rfl

/-- non-vacuity: version `0.7D3` is in the domain -/
example : GvRep [48, 46, 55] 68 4 := by
  refine ⟨⟨by decide, by decide, by decide +kernel⟩, by omega, by omega, by decide +kernel⟩

end Insim.Layout
