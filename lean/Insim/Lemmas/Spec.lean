import Insim.Model.Spec
import Insim.Props.C03
/-! Generic facts tying a layout's byte map (`Insim.Spec.codeMarks`) to what the generic codec writes and reads. -/
namespace Insim.Spec
open Insim Insim.Layout Insim.Props.C03


/-- spare marks are zero bytes, position by position -/
def SpareZero : List Mark → Bytes → Prop
  | [], [] => True
  | m :: ms, b :: bs => (m = .spare → b = 0) ∧ SpareZero ms bs
  | _, _ => False

theorem spareZero_append (m1 m2 : List Mark) (b1 b2 : Bytes) (h1 : SpareZero m1 b1) (h2 : SpareZero m2 b2) :
    SpareZero (m1 ++ m2) (b1 ++ b2) := by
  induction m1 generalizing b1 with
  | nil => cases b1 with
    | nil => simpa using h2
    | cons _ _ => exact absurd h1 (by simp [SpareZero])
  | cons m ms ih => cases b1 with
    | nil => exact absurd h1 (by simp [SpareZero])
    | cons b bs => exact ⟨h1.1, ih bs h1.2⟩

theorem spareZero_replicate (k : Nat) : SpareZero (List.replicate k .spare) (List.replicate k 0) := by
  induction k with
  | zero => trivial
  | succ k ih => exact ⟨fun _ => rfl, ih⟩

theorem spareZero_of_nospare (ms : List Mark) (bs : Bytes) (hl : ms.length = bs.length) (hn : ∀ m ∈ ms, m ≠ .spare) :
    SpareZero ms bs := by
  induction ms generalizing bs with
  | nil => cases bs with
    | nil => trivial
    | cons _ _ => simp at hl
  | cons m ms ih => cases bs with
    | nil => simp at hl
    | cons b bs =>
      exact ⟨fun h => absurd h (hn m (by simp)), ih bs (by simpa using hl) (fun x hx => hn x (by simp [hx]))⟩

theorem spareZero_length (ms : List Mark) (bs : Bytes) (h : SpareZero ms bs) : ms.length = bs.length := by
  induction ms generalizing bs with
  | nil => cases bs with
    | nil => rfl
    | cons _ _ => exact absurd h (by simp [SpareZero])
  | cons m ms ih => cases bs with
    | nil => exact absurd h (by simp [SpareZero])
    | cons b bs => simp [ih bs h.2]

theorem spareZero_get (ms : List Mark) (bs : Bytes) (h : SpareZero ms bs) (i : Nat) (hm : ms[i]? = some .spare) :
    bs[i]? = some 0 := by
  induction ms generalizing bs i with
  | nil => simp at hm
  | cons m ms ih => cases bs with
    | nil => exact absurd h (by simp [SpareZero])
    | cons b bs =>
      cases i with
      | zero => simp at hm; simp [h.1 hm]
      | succ i => simp at hm ⊢; exact ih bs h.2 i hm

theorem widthOn_wr (ty : Ty) : widthOn .wr ty = wTy ty := by cases ty <;> rfl

/-- the non-pad marks of a field contain no `spare` and are `width` long -/
theorem bodyMarks (pre : Bytes) (f : Field) :
    ∃ ms : List Mark, ms.length = wTy f.ty ∧ (∀ m ∈ ms, m ≠ .spare) ∧
      fieldMarks .wr pre f = List.replicate f.wb .spare ++ ms ++ List.replicate f.wa .spare := by
  unfold fieldMarks
  simp only [padB, padA, widthOn_wr]
  cases hc : clsOf f.ty with
  | none =>
    refine ⟨List.replicate (wTy f.ty) .opaque, by simp, ?_, ?_⟩
    · intro m hm; simp at hm; rw [hm.2]; simp
    · cases hw : wTy f.ty <;> simp
  | some cu =>
    obtain ⟨c, u⟩ := cu
    cases hw : wTy f.ty with
    | zero => exact ⟨[], rfl, by simp, by simp⟩
    | succ w =>
      refine ⟨.start (pre ++ normName f.path) c u (w + 1) :: List.replicate w .cont, by simp, ?_, by simp⟩
      intro m hm
      simp only [List.mem_cons, List.mem_replicate] at hm
      rcases hm with rfl | ⟨_, rfl⟩ <;> simp

/-- **spare bytes are written as zero**: whatever the values, the writer's output for a field list is
as long as its byte map and carries a zero byte at every `spare` mark -/
theorem enc_spare_zero (cnt : Nat) (pre : Bytes) (fields : List Field) (hfx : ∀ f ∈ fields, fixedStr f.ty = true) :
    ∀ (vs : List Val) (bs : Bytes), encFields genEnv cnt fields vs = .ok bs → SpareZero (codeMarks .wr pre fields) bs := by
  induction fields with
  | nil =>
    intro vs bs h
    cases vs with
    | nil => simp only [encFields] at h; injection h with h; subst h; trivial
    | cons _ _ => simp [encFields] at h
  | cons f fs ih =>
    intro vs bs h
    simp only [encFields] at h
    split at h
    · cases h1 : encTy genEnv f.ty cnt (vs.take (arity f.ty)) with
      | err e => simp [h1] at h
      | panic => simp [h1] at h
      | ok b1 =>
        simp only [h1] at h
        cases h2 : encFields genEnv cnt fs (vs.drop (arity f.ty)) with
        | err e => simp [h2] at h
        | panic => simp [h2] at h
        | ok b2 =>
          simp only [h2] at h
          injection h with h; subst h
          have l1 := encTy_length f.ty cnt _ b1 (hfx f (by simp)) h1
          obtain ⟨ms, hl, hn, he⟩ := bodyMarks pre f
          simp only [codeMarks, he]
          refine spareZero_append _ _ _ _ ?_ (ih (fun g hg => hfx g (by simp [hg])) _ b2 h2)
          refine spareZero_append _ _ _ _ (spareZero_append _ _ _ _ (spareZero_replicate _) ?_) (spareZero_replicate _)
          exact spareZero_of_nospare ms b1 (by rw [hl, l1]) hn
    · cases h


/-- number of leaf values carried by a field list -/
def arities : List Field → Nat
  | [] => 0
  | f :: fs => arity f.ty + arities fs

/-- **every field is written at its offset**: for a field list `pre ++ f :: post`, the writer's output is
`a ++ pads ++ b ++ pads ++ c` where `a` is as long as the fields before `f` and `b` is the encoding of `f`'s own values -/
theorem enc_field_at (cnt : Nat) (pre : List Field) (f : Field) (post : List Field)
    (hfx : ∀ g ∈ pre ++ f :: post, fixedStr g.ty = true) :
    ∀ (vs : List Val) (bs : Bytes), encFields genEnv cnt (pre ++ f :: post) vs = .ok bs →
      ∃ a b c, bs = a ++ (List.replicate f.wb 0 ++ b ++ List.replicate f.wa 0) ++ c ∧ a.length = fieldsWSize pre ∧
        encTy genEnv f.ty cnt ((vs.drop (arities pre)).take (arity f.ty)) = .ok b ∧ b.length = wTy f.ty := by
  induction pre with
  | nil =>
    intro vs bs h
    simp only [List.nil_append, encFields] at h
    split at h
    · cases h1 : encTy genEnv f.ty cnt (vs.take (arity f.ty)) with
      | err e => simp [h1] at h
      | panic => simp [h1] at h
      | ok b1 =>
        simp only [h1] at h
        cases h2 : encFields genEnv cnt post (vs.drop (arity f.ty)) with
        | err e => simp [h2] at h
        | panic => simp [h2] at h
        | ok b2 =>
          simp only [h2] at h
          injection h with h; subst h
          refine ⟨[], b1, b2, by simp, rfl, by simpa [arities] using h1, ?_⟩
          exact encTy_length f.ty cnt _ b1 (hfx f (by simp)) h1
    · cases h
  | cons g gs ih =>
    intro vs bs h
    simp only [List.cons_append, encFields] at h
    split at h
    · cases h1 : encTy genEnv g.ty cnt (vs.take (arity g.ty)) with
      | err e => simp [h1] at h
      | panic => simp [h1] at h
      | ok b1 =>
        simp only [h1] at h
        cases h2 : encFields genEnv cnt (gs ++ f :: post) (vs.drop (arity g.ty)) with
        | err e => simp [h2] at h
        | panic => simp [h2] at h
        | ok b2 =>
          simp only [h2] at h
          injection h with h; subst h
          obtain ⟨a, b, c, e1, e2, e3, e4⟩ := ih (fun x hx => hfx x (by simp at hx ⊢; exact Or.inr hx)) _ b2 h2
          have l1 := encTy_length g.ty cnt _ b1 (hfx g (by simp)) h1
          refine ⟨List.replicate g.wb 0 ++ b1 ++ List.replicate g.wa 0 ++ a, b, c, ?_, ?_, ?_, e4⟩
          · rw [e1]; simp [List.append_assoc]
          · simp only [List.length_append, List.length_replicate, l1, e2, fieldsWSize, wSize]
          · simpa [arities, List.drop_drop, Nat.add_comm] using e3
    · cases h

/-- read-side size of a field list -/
def fieldsRSize : List Field → Nat
  | [] => 0
  | f :: fs => f.rb + wireSize f.ty + f.ra + fieldsRSize fs

theorem decTy_rest (env : Env) (ty : Ty) (x : Bytes) (vs : List Val) (r : Bytes)
    (h : decTy env ty x = .ok (vs, r)) : r = x.drop (wireSize ty) := by
  unfold decTy at h
  by_cases hl : x.length < wireSize ty
  · simp [hl] at h
  · simp only [hl, if_false] at h
    cases ty with
    | enumU8 vals => simp only at h; split at h <;> simp_all
    | custom c =>
      simp only at h
      cases hc : customDec env c (List.take (wireSize (.custom c)) x) <;> simp_all
    | _ => simp only at h; injection h with h; injection h with _ h2; exact h2.symm

/-- **every field is read from its offset**: when a field list `pre ++ f :: post` decodes, `f`'s values are
what its own decoder returns on the input with the bytes of the fields before it (and its leading pad) removed -/
theorem dec_field_at (env : Env) (pre : List Field) (f : Field) (post : List Field) :
    ∀ (x : Bytes) (vs : List Val) (r : Bytes), decFields env (pre ++ f :: post) x = .ok (vs, r) →
      ∃ v r1, decTy env f.ty (x.drop (fieldsRSize pre + f.rb)) = .ok (v, r1) := by
  induction pre with
  | nil =>
    intro x vs r h
    simp only [List.nil_append, decFields] at h
    cases h1 : decTy env f.ty (x.drop f.rb) with
    | err e => simp [h1] at h
    | panic => simp [h1] at h
    | ok p => exact ⟨p.1, p.2, by simpa [fieldsRSize] using h1⟩
  | cons g gs ih =>
    intro x vs r h
    simp only [List.cons_append, decFields] at h
    cases h1 : decTy env g.ty (x.drop g.rb) with
    | err e => simp [h1] at h
    | panic => simp [h1] at h
    | ok p =>
      obtain ⟨v1, r1⟩ := p
      simp only [h1] at h
      cases h2 : decFields env (gs ++ f :: post) (r1.drop g.ra) with
      | err e => simp [h2] at h
      | panic => simp [h2] at h
      | ok q =>
        obtain ⟨v, r2, hd⟩ := ih _ q.1 q.2 h2
        have hr := decTy_rest env g.ty _ v1 r1 h1
        refine ⟨v, r2, ?_⟩
        rw [hr] at hd
        simpa [fieldsRSize, List.drop_drop, Nat.add_comm, Nat.add_left_comm, Nat.add_assoc] using hd

theorem codeMarks_length_wr (pre : Bytes) (fields : List Field) : (codeMarks .wr pre fields).length = fieldsWSize fields := by
  induction fields with
  | nil => rfl
  | cons f fs ih =>
    have : (fieldMarks .wr pre f).length = wSize f := by
      unfold fieldMarks
      simp only [padB, padA]
      have hw : widthOn .wr f.ty = wTy f.ty := by cases f.ty <;> rfl
      rw [hw]
      cases clsOf f.ty with
      | none => cases hw2 : wTy f.ty <;> simp [wSize, hw2] <;> omega
      | some cu => cases hw2 : wTy f.ty <;> simp [wSize, hw2] <;> omega
    simp only [codeMarks, List.length_append, this, ih, fieldsWSize]

theorem codeMarks_length_rd (pre : Bytes) (fields : List Field) : (codeMarks .rd pre fields).length = fieldsRSize fields := by
  induction fields with
  | nil => rfl
  | cons f fs ih =>
    have : (fieldMarks .rd pre f).length = f.rb + wireSize f.ty + f.ra := by
      unfold fieldMarks
      simp only [padB, padA]
      have hw : widthOn .rd f.ty = wireSize f.ty := by cases f.ty <;> rfl
      rw [hw]
      cases clsOf f.ty with
      | none => cases hw2 : wireSize f.ty <;> simp <;> omega
      | some cu => cases hw2 : wireSize f.ty <;> simp <;> omega
    simp only [codeMarks, List.length_append, this, ih, fieldsRSize]

/-- the byte map of `pre ++ f :: post` has `f`'s start mark exactly where `f` is written / read -/
theorem codeMarks_start (s : Side) (pre : Bytes) (gs : List Field) (f : Field) (post : List Field) (c u w : Nat)
    (hc : clsOf f.ty = some (c, u)) (hw : widthOn s f.ty = w + 1) :
    (codeMarks s pre (gs ++ f :: post))[(codeMarks s pre gs).length + padB s f]? = some (.start (pre ++ normName f.path) c u (w + 1)) := by
  induction gs with
  | nil =>
    simp only [List.nil_append, codeMarks, List.length_nil, Nat.zero_add]
    unfold fieldMarks
    simp only [hc, hw]
    rw [List.append_assoc, List.append_assoc, List.getElem?_append_right (by simp)]
    simp
  | cons g gs ih =>
    simp only [List.cons_append, codeMarks, List.length_append]
    rw [Nat.add_assoc, List.getElem?_append_right (by omega)]
    have : (fieldMarks s pre g).length + ((codeMarks s pre gs).length + padB s f) - (fieldMarks s pre g).length
        = (codeMarks s pre gs).length + padB s f := by omega
    rw [this]; exact ih

end Insim.Spec
