import Insim.Model.Frame
namespace Insim.Frame

theorem decodeLength_complete (m : Mode) (f rest : Bytes) (h : ValidFrame m f) :
    decodeLength m (f ++ rest) = .len f.length := by
  obtain ⟨b, t, rfl, ha, h4, hmax⟩ := h
  have hl : ¬ ((b :: (t ++ rest)).length < minLen) := by simp [minLen] at h4 ⊢; omega
  have h0 : ¬ (m.announced b < minLen) := by simp [minLen]; omega
  have h1 : ¬ (m.announced b > m.maxLen) := by omega
  have h3 : ¬ ((b :: (t ++ rest)).length < m.announced b) := by simp at ha ⊢; omega
  simp only [decodeLength, List.cons_append, hl, h0, h1, h3, if_false]
  rw [ha]

theorem decodeLength_prefix (m : Mode) (f : Bytes) (k : Nat) (h : ValidFrame m f) (hk : k < f.length) :
    decodeLength m (f.take k) = .needMore := by
  obtain ⟨b, t, rfl, ha, h4, hmax⟩ := h
  cases k with
  | zero => simp [decodeLength, minLen]
  | succ k =>
    simp only [List.length_cons] at ha h4 hmax hk
    have h0 : ¬ (m.announced b < minLen) := by simp [minLen]; omega
    have h1 : ¬ (m.announced b > m.maxLen) := by omega
    have h3 : min k t.length + 1 < m.announced b := by omega
    simp only [List.take_succ_cons, decodeLength, List.length_cons, List.length_take, h0, h1, h3, if_true, if_false]
    split <;> rfl

theorem decodeLength_len_spec (m : Mode) (buf : Bytes) (n : Nat) (h : decodeLength m buf = .len n) :
    ∃ b, buf.head? = some b ∧ n = m.announced b ∧ 4 ≤ n ∧ n ≤ m.maxLen ∧ n ≤ buf.length := by
  cases buf with
  | nil => simp [decodeLength, minLen] at h
  | cons b tl =>
    simp only [decodeLength] at h
    split at h
    · cases h
    · split at h
      · cases h
      · split at h
        · cases h
        · split at h
          · cases h
          · injection h with h; subst h
            refine ⟨b, rfl, rfl, ?_, ?_, ?_⟩ <;> simp [minLen] at * <;> omega

theorem split_complete (m : Mode) (f rest : Bytes) (h : ValidFrame m f) :
    split m (f ++ rest) = .frame f rest := by
  simp only [split, decodeLength_complete m f rest h, List.take_left', List.drop_left']

theorem split_prefix (m : Mode) (f : Bytes) (k : Nat) (h : ValidFrame m f) (hk : k < f.length) :
    split m (f.take k) = .needMore := by
  simp only [split, decodeLength_prefix m f k h hk]

/-- what `split` returns as a frame is the announced prefix (at least 4 bytes, within the mode's limit) -/
theorem split_frame_spec (m : Mode) (buf f rest : Bytes) (h : split m buf = .frame f rest) :
    ∃ b, buf.head? = some b ∧ f = buf.take (m.announced b) ∧ rest = buf.drop (m.announced b) ∧
      4 ≤ m.announced b ∧ m.announced b ≤ m.maxLen ∧ m.announced b ≤ buf.length := by
  unfold split at h
  split at h
  · cases h
  · cases h
  · rename_i n hd
    obtain ⟨b, hb, rfl, h4, hm, hl⟩ := decodeLength_len_spec m buf n hd
    injection h with h1 h2
    exact ⟨b, hb, h1.symm, h2.symm, h4, hm, hl⟩

theorem split_frame_append (m : Mode) (buf f rest : Bytes) (h : split m buf = .frame f rest) :
    buf = f ++ rest := by
  obtain ⟨b, _, hf, hr, _⟩ := split_frame_spec m buf f rest h
  subst hf; subst hr; exact (List.take_append_drop _ _).symm

end Insim.Frame
