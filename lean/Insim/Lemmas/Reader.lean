import Insim.Model.Reader
/-
`read_exact` over a source that hands its data over in pieces: the result does not depend on the cuts.
-/
namespace Insim.Reader
open Insim

theorem read_conserves (n : Nat) (ps : List Bytes) : (read n ps).1 ++ (read n ps).2.flatten = ps.flatten := by
  induction ps with
  | nil => simp [read]
  | cons p ps ih =>
    simp only [read]
    by_cases he : p.isEmpty = true
    · have : p = [] := List.isEmpty_iff.mp he
      simp [he, ih, this]
    · by_cases hl : p.length ≤ n
      · simp [he, hl]
      · simp [he, hl, ← List.append_assoc, List.take_append_drop]

theorem read_length_le (n : Nat) (ps : List Bytes) : (read n ps).1.length ≤ n := by
  induction ps with
  | nil => simp [read]
  | cons p ps ih =>
    simp only [read]
    by_cases he : p.isEmpty = true
    · simpa [he] using ih
    · by_cases hl : p.length ≤ n
      · simp [he, hl]
      · simp [he, hl]; omega

theorem read_empty_iff (n : Nat) (hn : 0 < n) (ps : List Bytes) : (read n ps).1 = [] ↔ ps.flatten = [] := by
  induction ps with
  | nil => simp [read]
  | cons p ps ih =>
    simp only [read]
    by_cases he : p.isEmpty = true
    · have : p = [] := List.isEmpty_iff.mp he
      simp [he, ih, this]
    · have hp : p ≠ [] := fun h => he (by simp [h])
      by_cases hl : p.length ≤ n
      · simp [he, hl, hp]
      · simp only [he, hl, if_false, Bool.false_eq_true, List.flatten_cons, List.append_eq_nil_iff, hp, false_and, iff_false]
        intro h
        cases p with
        | nil => exact hp rfl
        | cons x xs =>
          cases n with
          | zero => omega
          | succ k => simp at h

/-- **`read_exact` does not see the cuts**: whatever the pieces, a successful call returns the first `n` bytes of the data
and leaves exactly the rest -/
theorem readExact_some : ∀ (n : Nat) (ps : List Bytes) (acc out : Bytes) (rest : List Bytes),
    readExact n ps acc = some (out, rest) → out = acc ++ ps.flatten.take n ∧ rest.flatten = ps.flatten.drop n := by
  intro n
  induction n using Nat.strongRecOn with
  | _ n ih =>
    intro ps acc out rest h
    cases n with
    | zero =>
      simp only [readExact] at h
      injection h with h; injection h with h1 h2; subst h1; subst h2; simp
    | succ m =>
      rw [readExact] at h
      split at h
      rename_i chunk ps' hr
      by_cases hc : chunk.isEmpty = true
      · simp [hc] at h
      · simp only [hc, if_false, Bool.false_eq_true] at h
        have hcons := read_conserves (m + 1) ps
        have hle := read_length_le (m + 1) ps
        rw [hr] at hcons hle
        simp only at hcons hle
        have hpos : 0 < chunk.length := by
          cases chunk with
          | nil => simp at hc
          | cons _ _ => simp
        obtain ⟨h1, h2⟩ := ih (m + 1 - chunk.length) (by omega) ps' (acc ++ chunk) out rest h
        rw [← hcons]
        refine ⟨?_, ?_⟩
        · rw [h1, List.append_assoc]
          congr 1
          rw [List.take_append]
          have : (m + 1) - chunk.length = m + 1 - chunk.length := rfl
          rw [List.take_of_length_le hle]
        · rw [h2, List.drop_append]
          rw [List.drop_of_length_le hle]; simp

/-- … and it fails exactly when fewer than `n` bytes are left -/
theorem readExact_none_iff : ∀ (n : Nat) (ps : List Bytes) (acc : Bytes),
    readExact n ps acc = none ↔ ps.flatten.length < n := by
  intro n
  induction n using Nat.strongRecOn with
  | _ n ih =>
    intro ps acc
    cases n with
    | zero => simp [readExact]
    | succ m =>
      rw [readExact]
      split
      rename_i chunk ps' hr
      have hcons := read_conserves (m + 1) ps
      have hle := read_length_le (m + 1) ps
      have hemp := read_empty_iff (m + 1) (by omega) ps
      rw [hr] at hcons hle hemp
      simp only at hcons hle hemp
      by_cases hc : chunk.isEmpty = true
      · have : chunk = [] := List.isEmpty_iff.mp hc
        have h0 := hemp.mp this
        simp [hc, h0]
      · simp only [hc, if_false, Bool.false_eq_true]
        have hpos : 0 < chunk.length := by
          cases chunk with
          | nil => simp at hc
          | cons _ _ => simp
        rw [ih (m + 1 - chunk.length) (by omega) ps' (acc ++ chunk)]
        have := congrArg List.length hcons
        simp only [List.length_append] at this
        omega

/-- one call of `read` is *not* `read_exact`: a source may hand over fewer bytes than asked (the reason a field decoder
must loop) -/
theorem read_may_be_short : (read 6 [[66, 76, 49], [82, 0, 0]]).1 = [66, 76, 49] := by decide

/-- **a field decoded through `read_exact` does not see the cuts**: the value is the decoder's answer on the first `n` bytes of
the data, and the source is left right behind them — or the data is too short and the call fails -/
theorem decodeFrom_spec {α} (n : Nat) (dec : Bytes → Out α) (pieces : List Bytes) :
    (pieces.flatten.length < n ∧ decodeFrom n dec pieces = (.err .decode, none)) ∨
    (n ≤ pieces.flatten.length ∧ ∃ rest, decodeFrom n dec pieces = (dec (pieces.flatten.take n), some rest) ∧
       rest.flatten = pieces.flatten.drop n) := by
  unfold decodeFrom
  cases h : readExact n pieces [] with
  | none =>
    left
    exact ⟨(readExact_none_iff n pieces []).mp h, rfl⟩
  | some p =>
    obtain ⟨bs, rest⟩ := p
    right
    obtain ⟨h1, h2⟩ := readExact_some n pieces [] bs rest h
    have hn : ¬ pieces.flatten.length < n := by
      intro hlt
      have := (readExact_none_iff n pieces []).mpr hlt
      rw [this] at h; cases h
    refine ⟨by omega, rest, ?_, h2⟩
    simp [h1]

theorem chunks_flatten (per : Nat) (b : Bytes) : (chunks per b).flatten = b := by
  induction hn : b.length using Nat.strongRecOn generalizing b with
  | _ n ih =>
    unfold chunks
    by_cases h : per = 0 ∨ b = []
    · simp only [h, dite_true]
      by_cases hb : b = []
      · simp [hb]
      · simp [hb]
    · simp only [h, dite_false, List.flatten_cons]
      have hb : b ≠ [] := fun e => h (Or.inr e)
      have hp : per ≠ 0 := fun e => h (Or.inl e)
      have hl : 0 < b.length := List.length_pos_iff.mpr hb
      rw [ih (b.drop per).length (by simp only [List.length_drop]; omega) (b.drop per) rfl]
      exact List.take_append_drop per b

end Insim.Reader
