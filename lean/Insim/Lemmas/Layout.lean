import Insim.Model.Layout
/-
Generic round-trip lemmas for the flat-layout codec: one field, a field list, a vector tail.
Everything is proved for an arbitrary environment and an arbitrary field list satisfying the
decidable well-formedness predicate `Field.sym` (reader and writer attributes agree) — the regenerated
layouts are then checked against it by `decide`.
-/
namespace Insim.Layout
open Insim

/-- reader and writer sides of a field type agree -/
def Ty.sym : Ty → Bool
  | .dur rw rs ww ws => rw == ww && rs == ws && decide (0 < rs)
  | .str rn wn rraw wraw align => rn == wn && rraw == wraw && decide (align ≤ 1)
  | _ => true

def Field.sym (f : Field) : Bool := f.rb == f.wb && f.ra == f.wa && f.ty.sym

/-- in-domain ("representable on the wire") values of a non-custom field type -/
def RepTy : Ty → List Val → Prop
  | .uint w, [.n v] => v < 256 ^ w
  | .sint w, [.n v] => v < 256 ^ w
  | .f32, [.n v] => v < 256 ^ 4
  | .bool8, [.n v] => v ≤ 1
  | .char8, [.n v] => v < 256
  | .spclose, [.n v] => v < 4096
  | .enumU8 vals, [.n v] => memN v vals = true ∧ v < 256
  | .flags w mask, [.n v] => v &&& mask = v ∧ v < 256 ^ w
  | .dur rw rs _ _, [.n ms] => ms % rs = 0 ∧ ms / rs < 256 ^ rw
  | .str rn _ _ _ _, [.b e] => e.length ≤ rn ∧ (0 : Nat) ∉ e
  | _, _ => False

theorem stripNul_no_nul (e : Bytes) (h : (0 : Nat) ∉ e) (k : Nat) : stripNul (e ++ List.replicate k 0) = e := by
  induction e with
  | nil => cases k <;> simp [stripNul, List.replicate]
  | cons x xs ih =>
    have hx : x ≠ 0 := fun hx => h (by simp [hx])
    have hxs : (0 : Nat) ∉ xs := fun hm => h (by simp [hm])
    simp [stripNul, hx, ih hxs]

theorem ofLe_single (x : Nat) : ofLe [x] = x := by simp [ofLe]

/-- bytes written for a non-custom, non-count field decode back to the same values -/
theorem decTy_encTy_simple (env : Env) (ty : Ty) (cnt : Nat) (vs : List Val) (bs r : Bytes)
    (hs : ty.sym = true) (hr : RepTy ty vs) (he : encTy env ty cnt vs = .ok bs) :
    decTy env ty (bs ++ r) = .ok (vs, r) := by
  cases ty with
  | uint w =>
    match vs, hr with
    | [.n v], hr =>
      simp only [encTy] at he; injection he with he; subst he
      simp only [RepTy] at hr
      simp [decTy, wireSize, ofLe_leBytes w v hr]
  | sint w =>
    match vs, hr with
    | [.n v], hr =>
      simp only [encTy] at he; injection he with he; subst he
      simp only [RepTy] at hr
      simp [decTy, wireSize, ofLe_leBytes w v hr]
  | f32 =>
    match vs, hr with
    | [.n v], hr =>
      simp only [encTy] at he; injection he with he; subst he
      simp only [RepTy] at hr
      simp [decTy, wireSize, ofLe_leBytes 4 v hr]
  | bool8 =>
    match vs, hr with
    | [.n v], hr =>
      simp only [encTy] at he; injection he with he; subst he
      simp only [RepTy] at hr
      have : v = 0 ∨ v = 1 := by omega
      rcases this with rfl | rfl <;> simp [decTy, wireSize, ofLe]
  | char8 =>
    match vs, hr with
    | [.n v], hr =>
      simp only [encTy] at he; injection he with he; subst he
      simp only [RepTy] at hr
      simp [decTy, wireSize, ofLe, Nat.mod_eq_of_lt hr]
  | spclose =>
    match vs, hr with
    | [.n v], hr =>
      simp only [encTy] at he; injection he with he; subst he
      simp only [RepTy] at hr
      have h2 : v < 256 ^ 2 := by omega
      simp [decTy, wireSize, ofLe_leBytes 2 v h2, Nat.mod_eq_of_lt hr]
  | enumU8 vals =>
    match vs, hr with
    | [.n v], hr =>
      simp only [encTy] at he; injection he with he; subst he
      simp only [RepTy] at hr
      simp [decTy, wireSize, ofLe, Nat.mod_eq_of_lt hr.2, hr.1]
  | flags w mask =>
    match vs, hr with
    | [.n v], hr =>
      simp only [encTy] at he; injection he with he; subst he
      simp only [RepTy] at hr
      simp [decTy, wireSize, ofLe_leBytes w v hr.2, hr.1]
  | dur rw rs ww ws =>
    match vs, hr with
    | [.n ms], hr =>
      simp only [Ty.sym, Bool.and_eq_true, beq_iff_eq, decide_eq_true_eq] at hs
      obtain ⟨⟨h1, h2⟩, h3⟩ := hs
      subst h1; subst h2
      simp only [RepTy] at hr
      simp only [encTy, Dur.writeDur, hr.2, if_true] at he
      injection he with he; subst he
      have : ms / rs * rs = ms := Nat.div_mul_cancel (Nat.dvd_of_mod_eq_zero hr.1)
      simp [decTy, wireSize, ofLe_leBytes rw _ hr.2, Dur.readDur, this]
  | str rn wn rraw wraw align =>
    match vs, hr with
    | [.b e], hr =>
      simp only [Ty.sym, Bool.and_eq_true, beq_iff_eq, decide_eq_true_eq] at hs
      obtain ⟨⟨h1, h2⟩, h3⟩ := hs
      subst h1
      simp only [RepTy] at hr
      have ha : ¬ (align > 1) := by omega
      simp only [encTy, writeStr, ha, if_false] at he
      injection he with he; subst he
      have ht : e.take rn = e := List.take_of_length_le hr.1
      simp only [ht]
      have hl : (e ++ List.replicate (rn - e.length) 0).length = rn := by simp; omega
      have hst : stripNul (e ++ List.replicate (rn - e.length) 0) = e := stripNul_no_nul e hr.2 _
      generalize e ++ List.replicate (rn - e.length) 0 = p at hl hst
      have h1 : (p ++ r).take rn = p := by rw [← hl]; exact List.take_left' rfl
      have h2 : (p ++ r).drop rn = r := by rw [← hl]; exact List.drop_left' rfl
      have h3' : ¬ ((p ++ r).length < rn) := by simp; omega
      simp only [decTy, wireSize, h1, h2, h3', if_false, hst]
  | count w s => simp [RepTy] at hr
  | custom c => simp [RepTy] at hr

end Insim.Layout

namespace Insim.Layout
open Insim

/-- what must hold of a hand-written codec for it to plug into the generic proof -/
structure CustomLawful (env : Env) (CRep : CustomId → List Val → Prop) : Prop where
  size : ∀ c vs bs, CRep c vs → customEnc env c vs = .ok bs → bs.length = wireSize (.custom c)
  inv : ∀ c vs bs, CRep c vs → customEnc env c vs = .ok bs → customDec env c bs = .ok vs
  arity : ∀ c vs, CRep c vs → vs.length = arity (.custom c)

/-- in-domain values of any field type: `cnt` is the element count the packet's `count` field must carry -/
def RepAny (CRep : CustomId → List Val → Prop) (cnt : Nat) : Ty → List Val → Prop
  | .count w _, vs => vs = [.n cnt] ∧ cnt < 256 ^ w
  | .custom c, vs => CRep c vs
  | ty, vs => RepTy ty vs

theorem RepTy_length (ty : Ty) (vs : List Val) (h : RepTy ty vs) : vs.length = 1 := by
  cases ty <;> (match vs, h with
    | [.n _], _ => rfl
    | [.b _], _ => rfl)

theorem arity_simple (ty : Ty) (vs : List Val) (h : RepTy ty vs) : arity ty = 1 := by
  cases ty <;> first | rfl | (simp [RepTy] at h)

theorem decTy_encTy (env : Env) (CRep : CustomId → List Val → Prop) (L : CustomLawful env CRep)
    (ty : Ty) (cnt : Nat) (vs : List Val) (bs r : Bytes)
    (hs : ty.sym = true) (hr : RepAny CRep cnt ty vs) (he : encTy env ty cnt vs = .ok bs) :
    decTy env ty (bs ++ r) = .ok (vs, r) ∧ vs.length = arity ty := by
  cases ty with
  | count w s =>
    simp only [RepAny] at hr
    obtain ⟨rfl, hc⟩ := hr
    simp only [encTy] at he; injection he with he; subst he
    exact ⟨by simp [decTy, wireSize, ofLe_leBytes w cnt hc], rfl⟩
  | custom c =>
    simp only [RepAny] at hr
    simp only [encTy] at he
    have hsz := L.size c vs bs hr he
    have hinv := L.inv c vs bs hr he
    have h1 : (bs ++ r).take (wireSize (.custom c)) = bs := by rw [← hsz]; exact List.take_left' rfl
    have h2 : (bs ++ r).drop (wireSize (.custom c)) = r := by rw [← hsz]; exact List.drop_left' rfl
    have h3 : ¬ ((bs ++ r).length < wireSize (.custom c)) := by simp; omega
    refine ⟨?_, L.arity c vs hr⟩
    simp only [decTy, h1, h2, h3, if_false, hinv]
  | uint w => exact ⟨decTy_encTy_simple env _ cnt vs bs r hs hr he, by rw [RepTy_length _ vs hr]; rfl⟩
  | sint w => exact ⟨decTy_encTy_simple env _ cnt vs bs r hs hr he, by rw [RepTy_length _ vs hr]; rfl⟩
  | f32 => exact ⟨decTy_encTy_simple env _ cnt vs bs r hs hr he, by rw [RepTy_length _ vs hr]; rfl⟩
  | bool8 => exact ⟨decTy_encTy_simple env _ cnt vs bs r hs hr he, by rw [RepTy_length _ vs hr]; rfl⟩
  | char8 => exact ⟨decTy_encTy_simple env _ cnt vs bs r hs hr he, by rw [RepTy_length _ vs hr]; rfl⟩
  | spclose => exact ⟨decTy_encTy_simple env _ cnt vs bs r hs hr he, by rw [RepTy_length _ vs hr]; rfl⟩
  | enumU8 vals => exact ⟨decTy_encTy_simple env _ cnt vs bs r hs hr he, by rw [RepTy_length _ vs hr]; rfl⟩
  | flags w m => exact ⟨decTy_encTy_simple env _ cnt vs bs r hs hr he, by rw [RepTy_length _ vs hr]; rfl⟩
  | dur a b c d => exact ⟨decTy_encTy_simple env _ cnt vs bs r hs hr he, by rw [RepTy_length _ vs hr]; rfl⟩
  | str a b c d e => exact ⟨decTy_encTy_simple env _ cnt vs bs r hs hr he, by rw [RepTy_length _ vs hr]; rfl⟩

/-- in-domain values of a field list -/
def RepFields (CRep : CustomId → List Val → Prop) (cnt : Nat) : List Field → List Val → Prop
  | [], vs => vs = []
  | f :: fs, vs =>
    RepAny CRep cnt f.ty (vs.take (arity f.ty)) ∧
    maxvOk f.maxv vs = true ∧
    RepFields CRep cnt fs (vs.drop (arity f.ty))

theorem drop_replicate_append (k : Nat) (x : Bytes) : (List.replicate k 0 ++ x).drop k = x := by
  induction k with
  | zero => rfl
  | succ k ih => simpa [List.replicate_succ] using ih

/-- **field lists round-trip**: for every field list whose reader and writer attributes agree and
every in-domain value list, decoding what the writer produced (followed by anything) returns the
values and exactly the rest -/
theorem decFields_encFields (env : Env) (CRep : CustomId → List Val → Prop) (L : CustomLawful env CRep)
    (cnt : Nat) (fields : List Field) (hsym : ∀ f ∈ fields, f.sym = true) :
    ∀ (vs : List Val) (bs r : Bytes), RepFields CRep cnt fields vs → encFields env cnt fields vs = .ok bs →
      decFields env fields (bs ++ r) = .ok (vs, r) := by
  induction fields with
  | nil =>
    intro vs bs r hr he
    simp only [RepFields] at hr; subst hr
    simp only [encFields] at he; injection he with he; subst he
    simp [decFields]
  | cons f fs ih =>
    intro vs bs r hr he
    obtain ⟨h1, hmax, h3⟩ := hr
    have hf := hsym f (by simp)
    simp only [Field.sym, Bool.and_eq_true, beq_iff_eq] at hf
    obtain ⟨⟨hb, ha⟩, hty⟩ := hf
    simp only [encFields, hmax, if_true] at he
    cases h_e : encTy env f.ty cnt (vs.take (arity f.ty)) with
    | err e => simp [h_e] at he
    | panic => simp [h_e] at he
    | ok b1 =>
      simp only [h_e] at he
      cases h_r : encFields env cnt fs (vs.drop (arity f.ty)) with
      | err e => simp [h_r] at he
      | panic => simp [h_r] at he
      | ok rest =>
        simp only [h_r] at he
        injection he with he; subst he
        obtain ⟨hd, _⟩ := decTy_encTy env CRep L f.ty cnt _ b1 (List.replicate f.wa 0 ++ rest ++ r) hty h1 h_e
        have ihr := ih (fun g hg => hsym g (by simp [hg])) _ rest r h3 h_r
        simp only [decFields]
        have e1 : (List.replicate f.wb 0 ++ b1 ++ List.replicate f.wa 0 ++ rest ++ r).drop f.rb
            = b1 ++ (List.replicate f.wa 0 ++ rest ++ r) := by
          rw [hb]
          have := drop_replicate_append f.wb (b1 ++ (List.replicate f.wa 0 ++ rest ++ r))
          simpa [List.append_assoc] using this
        rw [e1, hd]
        have e2 : (List.replicate f.wa 0 ++ rest ++ r).drop f.ra = rest ++ r := by
          rw [ha]
          have := drop_replicate_append f.wa (rest ++ r)
          simpa [List.append_assoc] using this
        simp only [e2, ihr, List.take_append_drop]

/-- … and the writer's output has the layout's size: every field occupies its pads plus its wire width -/
def fieldsSize : List Field → Nat
  | [] => 0
  | f :: fs => f.wb + wireSize f.ty + f.wa + fieldsSize fs

end Insim.Layout

namespace Insim.Layout
open Insim

/-! ### tails and whole bodies -/

theorem decElems_encElems (env : Env) (CRep : CustomId → List Val → Prop) (L : CustomLawful env CRep)
    (elt : List Field) (hsym : ∀ f ∈ elt, f.sym = true) :
    ∀ (es : List (List Val)) (bs r : Bytes), (∀ e ∈ es, RepFields CRep 0 elt e) → encElems env elt es = .ok bs →
      decElems env elt es.length (bs ++ r) = .ok (es, r) := by
  intro es
  induction es with
  | nil =>
    intro bs r _ he
    simp only [encElems] at he; injection he with he; subst he
    simp [decElems]
  | cons e es ih =>
    intro bs r hr he
    simp only [encElems] at he
    cases h1 : encFields env 0 elt e with
    | err x => simp [h1] at he
    | panic => simp [h1] at he
    | ok b1 =>
      simp only [h1] at he
      cases h2 : encElems env elt es with
      | err x => simp [h2] at he
      | panic => simp [h2] at he
      | ok b2 =>
        simp only [h2] at he
        injection he with he; subst he
        have d1 := decFields_encFields env CRep L 0 elt hsym e b1 (b2 ++ r) (hr e (by simp)) h1
        have d2 := ih b2 r (fun x hx => hr x (by simp [hx])) h2
        simp only [List.length_cons, decElems, List.append_assoc, d1, d2]

/-- no field of an element is a count; a packet with a vector or set tail has exactly one count field -/
def hasCount : List Field → Bool
  | [] => false
  | f :: fs => (match f.ty with | .count _ _ => true | _ => false) || hasCount fs

theorem countOf_rep (CRep : CustomId → List Val → Prop) (cnt : Nat) (fields : List Field) (vs : List Val)
    (hc : hasCount fields = true) (hr : RepFields CRep cnt fields vs) : countOf fields vs = some cnt := by
  induction fields generalizing vs with
  | nil => simp [hasCount] at hc
  | cons f fs ih =>
    obtain ⟨h1, _, h3⟩ := hr
    cases hty : f.ty with
    | count w s =>
      rw [hty] at h1
      simp only [RepAny, arity] at h1
      obtain ⟨hv, _⟩ := h1
      cases vs with
      | nil => simp at hv
      | cons v vs' =>
        simp only [List.take_succ_cons, List.take_zero, List.cons.injEq, and_true] at hv
        subst hv
        simp [countOf, hty]
    | _ =>
      all_goals
        simp only [hasCount, hty, Bool.false_or] at hc
        rw [hty] at h3
        simp only [countOf, hty]
        exact ih _ hc h3

theorem decU32s_flatMap : ∀ (xs : List Nat) (r : Bytes), (∀ x ∈ xs, x < 256 ^ 4) →
    decU32s xs.length (xs.flatMap (leBytes 4) ++ r) = .ok (xs, r) := by
  intro xs
  induction xs with
  | nil => intro r _; simp [decU32s]
  | cons c cs ih =>
    intro r hr
    have hc := hr c (by simp)
    have i := ih r (fun x hx => hr x (by simp [hx]))
    have hl : (leBytes 4 c).length = 4 := leBytes_length 4 c
    have e1 : (leBytes 4 c ++ (cs.flatMap (leBytes 4) ++ r)).take 4 = leBytes 4 c := List.take_left' hl
    have e2 : (leBytes 4 c ++ (cs.flatMap (leBytes 4) ++ r)).drop 4 = cs.flatMap (leBytes 4) ++ r := List.drop_left' hl
    have hn : ¬ (leBytes 4 c ++ (cs.flatMap (leBytes 4) ++ r)).length < 4 := by simp
    simp only [List.flatMap_cons, List.length_cons, decU32s, List.append_assoc, hn, if_false, e1, e2, i,
      ofLe_leBytes 4 c hc]

/-- the aligned / fixed text writer only appends NULs to a text that fits -/
theorem writeStr_fits (n align : Nat) (e : Bytes) (hl : e.length ≤ n) : ∃ k, writeStr n align e = e ++ List.replicate k 0 := by
  unfold writeStr
  by_cases ha : align > 1
  · simp only [ha, if_true]
    refine ⟨min (n - e.length) ((e.length + (align - 1)) / align * align - e.length), ?_⟩
    rw [List.take_append, List.take_of_length_le hl]
    simp [List.take_replicate]
  · simp only [ha, if_false]
    rw [List.take_of_length_le hl]
    exact ⟨n - e.length, rfl⟩


/-- well-formedness of a layout as far as the generic proof needs it (decidable) -/
def Layout.wf (L : Layout) : Bool :=
  L.fields.all Field.sym &&
  (match L.tail with
   | .none => true
   | .vec elt oddR oddW => elt.all Field.sym && !hasCount elt && hasCount L.fields && oddR == oddW
   | .set _ => hasCount L.fields
   | .strEof wn rraw wraw align => rraw == wraw && (align == 4 || align ≤ 1) && wn % 4 == 0)

/-- in-domain packet bodies: fixed-size kinds, counted vectors, sets of 32-bit words (first occurrences only,
as the crate's `IndexSet` keeps them) and until-end-of-frame texts (NUL-free, within the maximum) -/
def RepBody (CRep : CustomId → List Val → Prop) (L : Layout) (v : PVal) : Prop :=
  RepFields CRep (tailCount v.tail) L.fields v.vals ∧
  (match L.maxElems with | some m => tailCount v.tail ≤ m | none => True) ∧
  (match L.tail, v.tail with
   | .none, .none => True
   | .vec elt _ _, .elems es => ∀ e ∈ es, RepFields CRep 0 elt e
   | .set _, .set xs => (∀ x ∈ xs, x < 256 ^ 4) ∧ dedup xs [] = xs
   | .strEof wn _ _ _, .text e => e.length ≤ wn ∧ (0 : Nat) ∉ e
   | _, _ => False)

/-- **bodies round-trip** (every tail shape): decoding the writer's output returns the packet -/
theorem decBody_encBody (env : Env) (CRep : CustomId → List Val → Prop) (LW : CustomLawful env CRep)
    (L : Layout) (hb : L.customBody = false) (hwf : L.wf = true) (v : PVal) (bs : Bytes)
    (hr : RepBody CRep L v) (he : encBody env L v = .ok bs) :
    decBody env L bs = .ok v := by
  obtain ⟨hf, hm, ht⟩ := hr
  simp only [Layout.wf, Bool.and_eq_true, List.all_eq_true] at hwf
  obtain ⟨hsym, htail⟩ := hwf
  have hgo : encBody.go env L v = .ok bs := by
    simp only [encBody, hb, Bool.false_eq_true, if_false] at he
    cases hme : L.maxElems with
    | none => simpa [hme] using he
    | some m =>
      rw [hme] at hm he
      have : ¬ (tailCount v.tail > m) := by simp at hm; omega
      simpa [this] using he
  simp only [encBody.go] at hgo
  cases h1 : encFields env (tailCount v.tail) L.fields v.vals with
  | err e => simp [h1] at hgo
  | panic => simp [h1] at hgo
  | ok b1 =>
    simp only [h1] at hgo
    cases h2 : encTail env L.tail v.tail with
    | err e => simp [h2] at hgo
    | panic => simp [h2] at hgo
    | ok b2 =>
      simp only [h2] at hgo
      injection hgo with hgo; subst hgo
      have d1 := decFields_encFields env CRep LW (tailCount v.tail) L.fields hsym v.vals b1 b2 hf h1
      simp only [decBody, hb, Bool.false_eq_true, if_false, d1]
      cases hL : L.tail with
      | none =>
        rw [hL] at ht h2
        cases hv : v.tail with
        | none => simp [decTail]; cases v; simp_all
        | elems es => rw [hv] at ht; simp at ht
        | set xs => rw [hv] at ht; simp at ht
        | text t => rw [hv] at ht; simp at ht
      | vec elt oddR oddW =>
        rw [hL] at ht h2 htail
        cases hv : v.tail with
        | none => rw [hv] at ht; simp at ht
        | set xs => rw [hv] at ht; simp at ht
        | text t => rw [hv] at ht; simp at ht
        | elems es =>
          rw [hv] at ht h2 hf
          simp only [encTail] at h2
          simp only [Bool.and_eq_true, List.all_eq_true, Bool.not_eq_true'] at htail
          obtain ⟨⟨⟨hes, _⟩, hcnt⟩, _⟩ := htail
          have hc := countOf_rep CRep (tailCount (.elems es)) L.fields v.vals hcnt hf
          cases h3 : encElems env elt es with
          | err e => simp [h3] at h2
          | panic => simp [h3] at h2
          | ok b3 =>
            simp only [h3] at h2
            injection h2 with h2; subst h2
            have d2 := decElems_encElems env CRep LW elt hes es b3 (List.replicate (if es.length % 2 = 1 then oddW else 0) 0) ht h3
            simp only [decTail, hc, tailCount, Option.getD, d2]
            cases v; simp_all
      | set s =>
        rw [hL] at ht h2 htail
        cases hv : v.tail with
        | none => rw [hv] at ht; simp at ht
        | elems es => rw [hv] at ht; simp at ht
        | text t => rw [hv] at ht; simp at ht
        | set xs =>
          rw [hv] at ht h2 hf
          simp only [encTail] at h2
          injection h2 with h2; subst h2
          have hc := countOf_rep CRep (tailCount (.set xs)) L.fields v.vals htail hf
          have d2 := decU32s_flatMap xs [] ht.1
          simp only [List.append_nil] at d2
          simp only [decTail, hc, tailCount, Option.getD, d2, ht.2]
          cases v; simp_all
      | strEof wn rraw wraw align =>
        rw [hL] at ht h2
        cases hv : v.tail with
        | none => rw [hv] at ht; simp at ht
        | elems es => rw [hv] at ht; simp at ht
        | set xs => rw [hv] at ht; simp at ht
        | text e =>
          rw [hv] at ht h2
          simp only [encTail] at h2
          injection h2 with h2; subst h2
          obtain ⟨k, hk⟩ := writeStr_fits wn align e ht.1
          simp only [decTail, hk, stripNul_no_nul e ht.2 k]
          cases v; simp_all

/-- in-domain IS_MSO values: bytes, a known user type, NUL-free name and message that fit the 128-byte text -/
def RepMso (v : PVal) : Prop :=
  ∃ reqi ucid plid ut name msg,
    v = { vals := [.n reqi, .n ucid, .n plid, .n ut, .b name, .b msg], tail := .none } ∧
    reqi < 256 ∧ ucid < 256 ∧ plid < 256 ∧ memN ut msoUserTypes = true ∧
    (0 : Nat) ∉ name ∧ (0 : Nat) ∉ msg ∧ name.length + msg.length ≤ 128

theorem memN_lt (ut : Nat) (h : memN ut msoUserTypes = true) : ut < 256 := by
  simp only [msoUserTypes, memN] at h
  revert h
  simp only [Bool.or_eq_true, Bool.or_false]
  intro h
  rcases h with h | h | h | h <;> (have := Nat.eq_of_beq_eq_true h; omega)

/-- **the hand-written IS_MSO body round-trips** -/
theorem decMso_encMso (v : PVal) (hr : RepMso v) (bs : Bytes) (he : encMso v = .ok bs) : decMso bs = .ok v := by
  obtain ⟨reqi, ucid, plid, ut, name, msg, rfl, h1, h2, h3, h4, h5, h6, h7⟩ := hr
  simp only [encMso] at he
  injection he with he; subst he
  have hut := memN_lt ut h4
  obtain ⟨k, hk⟩ := writeStr_fits 128 4 (name ++ msg) (by rw [List.length_append]; exact h7)
  have hnl : name.length % 256 = name.length := Nat.mod_eq_of_lt (by omega)
  simp only [List.cons_append, List.nil_append, decMso, Nat.mod_eq_of_lt h1, Nat.mod_eq_of_lt h2, Nat.mod_eq_of_lt h3,
    Nat.mod_eq_of_lt hut, h4, if_true, hnl, hk]
  by_cases hn : name.length > 0
  · have hlen : ¬ ((name ++ msg ++ List.replicate k 0).length < name.length) := by simp
    have e1 : (name ++ msg ++ List.replicate k 0).take name.length = name := by
      rw [List.append_assoc]; exact List.take_left' rfl
    have e2 : (name ++ msg ++ List.replicate k 0).drop name.length = msg ++ List.replicate k 0 := by
      rw [List.append_assoc]; exact List.drop_left' rfl
    have s1 : stripNul name = name := by
      have := stripNul_no_nul name h5 0; simpa using this
    simp only [hn, if_true, hlen, if_false, e1, e2, s1, stripNul_no_nul msg h6 k]
  · have hn0 : name = [] := List.length_eq_zero_iff.mp (by omega)
    subst hn0
    simp only [List.length_nil, Nat.lt_irrefl, if_false, List.nil_append, stripNul_no_nul msg h6 k, gt_iff_lt]

/-- every body shape, the hand-written one included -/
def RepAnyBody (CRep : CustomId → List Val → Prop) (L : Layout) (v : PVal) : Prop :=
  (L.customBody = false ∧ RepBody CRep L v) ∨ (L.customBody = true ∧ RepMso v)

theorem decBody_encBody_any (env : Env) (CRep : CustomId → List Val → Prop) (LW : CustomLawful env CRep)
    (L : Layout) (hwf : L.wf = true) (v : PVal) (bs : Bytes)
    (hr : RepAnyBody CRep L v) (he : encBody env L v = .ok bs) : decBody env L bs = .ok v := by
  rcases hr with ⟨hb, hr⟩ | ⟨hb, hr⟩
  · exact decBody_encBody env CRep LW L hb hwf v bs hr he
  · simp only [encBody, hb, if_true] at he
    simp only [decBody, hb, if_true]
    exact decMso_encMso v hr bs he

end Insim.Layout
