import Insim.Model.Conn
import Insim.Lemmas.Frame
namespace Insim.Conn
open Insim Insim.Frame

theorem prefix_cases (buf d f x : Bytes) (h : buf ++ d = f ++ x) :
    (∃ b', buf = f ++ b' ∧ x = b' ++ d) ∨ (∃ k, k < f.length ∧ buf = f.take k) := by
  rcases List.append_eq_append_iff.mp h with ⟨a', h1, h2⟩ | ⟨c', h1, h2⟩
  · by_cases ha : a' = []
    · subst ha; left; exact ⟨[], by simp [h1], by simp at h2; simp [h2]⟩
    · right
      refine ⟨buf.length, ?_, ?_⟩
      · rw [h1]; simp; exact List.length_pos_iff.mpr ha
      · rw [h1]; simp
  · left; exact ⟨c', h1, h2.symm ▸ rfl⟩

/-- a frame's own results never look like a transport fault -/
theorem frameItems_noFault (cfg : Cfg) (f : Bytes) : ∀ i ∈ frameItems cfg f, i.isFault = false := by
  intro i hi
  unfold frameItems at hi
  split at hi
  · split at hi
    · simp at hi; subst hi; rfl
    · split at hi
      · simp at hi; rcases hi with rfl | rfl <;> rfl
      · simp at hi; subst hi; rfl
  · simp at hi; subst hi; rfl
  · simp at hi; subst hi; rfl

theorem filter_noFault (l : List Item) (h : ∀ i ∈ l, i.isFault = false) :
    l.filter (fun i => !i.isFault) = l ∧ l.filter Item.isFault = [] := by
  constructor
  · apply List.filter_eq_self.mpr; intro i hi; simp [h i hi]
  · apply List.filter_eq_nil_iff.mpr; intro i hi; simp [h i hi]

/-- with the buffer ahead of the script, the front of the remaining frames is what `split` sees -/
theorem front_split (m : Mode) (f : Bytes) (fs : List Bytes) (buf : Bytes) (evs : List Ev)
    (hvf : ValidFrame m f) (hinv : buf ++ dataOf evs = (f :: fs).flatten) :
    (∃ b', buf = f ++ b' ∧ split m buf = .frame f b' ∧ b' ++ dataOf evs = fs.flatten) ∨
    (split m buf = .needMore ∧ ∃ k, k < f.length ∧ buf = f.take k) := by
  simp only [List.flatten_cons] at hinv
  rcases prefix_cases _ _ _ _ hinv with ⟨b', rfl, hx⟩ | ⟨k, hk, rfl⟩
  · left; exact ⟨b', rfl, split_complete m f b' hvf, hx.symm⟩
  · right; exact ⟨split_prefix m f k hvf hk, k, hk, rfl⟩

end Insim.Conn
