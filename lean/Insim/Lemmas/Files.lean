import Insim.Model.Files
import Insim.Lemmas.Layout
import Insim.Props.C04
namespace Insim.Files
open Insim Insim.Layout

/-- no hand-written codec occurs in the file formats -/
def NoC : CustomId → List Val → Prop := fun _ _ => False

theorem noC_lawful : CustomLawful noEnv NoC :=
  ⟨fun _ _ _ h => absurd h id, fun _ _ _ h => absurd h id, fun _ _ h => absurd h id⟩

/-- in-domain value lists for a field list whose `count` fields carry the given lengths, in order -/
def RepC : List Nat → List Field → List Val → Prop
  | _, [], vs => vs = []
  | cs, f :: fs, vs =>
    RepAny NoC (cntFor f.ty cs) f.ty (vs.take (arity f.ty)) ∧
    (∀ w s, f.ty = .count w s → cs ≠ []) ∧
    RepC (restCs f.ty cs) fs (vs.drop (arity f.ty))

/-- field lists with several `calc`ed counts round-trip -/
theorem decFields_encFieldsC (fields : List Field) (hsym : ∀ f ∈ fields, f.sym = true) :
    ∀ (cs : List Nat) (vs : List Val) (bs r : Bytes), RepC cs fields vs → encFieldsC noEnv cs fields vs = .ok bs →
      decFields noEnv fields (bs ++ r) = .ok (vs, r) := by
  induction fields with
  | nil =>
    intro cs vs bs r hr he
    simp only [RepC] at hr; subst hr
    simp only [encFieldsC] at he; injection he with he; subst he
    simp [decFields]
  | cons f fs ih =>
    intro cs vs bs r hr he
    obtain ⟨h1, _, h3⟩ := hr
    have hf := hsym f (by simp)
    simp only [Field.sym, Bool.and_eq_true, beq_iff_eq] at hf
    obtain ⟨⟨hb, ha⟩, hty⟩ := hf
    simp only [encFieldsC] at he
    cases h_e : encTy noEnv f.ty (cntFor f.ty cs) (vs.take (arity f.ty)) with
    | err e => simp [h_e] at he
    | panic => simp [h_e] at he
    | ok b1 =>
      simp only [h_e] at he
      cases h_r : encFieldsC noEnv (restCs f.ty cs) fs (vs.drop (arity f.ty)) with
      | err e => simp [h_r] at he
      | panic => simp [h_r] at he
      | ok rest =>
        simp only [h_r] at he
        injection he with he; subst he
        obtain ⟨hd, _⟩ := decTy_encTy noEnv NoC noC_lawful f.ty _ _ b1 (List.replicate f.wa 0 ++ rest ++ r) hty h1 h_e
        have ihr := ih (fun g hg => hsym g (by simp [hg])) _ _ rest r h3 h_r
        simp only [decFields]
        have e1 : (List.replicate f.wb 0 ++ b1 ++ List.replicate f.wa 0 ++ rest ++ r).drop f.rb
            = b1 ++ (List.replicate f.wa 0 ++ rest ++ r) := by
          rw [hb]
          have := drop_replicate_append f.wb (b1 ++ (List.replicate f.wa 0 ++ rest ++ r))
          simpa [List.append_assoc] using this
        rw [e1, hd]
        have e2 : (List.replicate f.wa 0 ++ rest ++ r).drop f.ra = rest ++ r := by
          rw [ha]
          have := drop_replicate_append f.wa (rest ++ r)
          simpa [List.append_assoc] using this
        simp only [e2, ihr, List.take_append_drop]

/-- number of `count` fields of a field list -/
def nCounts : List Field → Nat
  | [] => 0
  | f :: fs => (match f.ty with | .count _ _ => 1 | _ => 0) + nCounts fs

/-- the decoded counts are the lengths the writer filled in -/
theorem countsOf_rep (fields : List Field) : ∀ (cs : List Nat) (vs : List Val), RepC cs fields vs →
    countsOf fields vs = cs.take (nCounts fields) := by
  induction fields with
  | nil => intro cs vs _; simp [countsOf, nCounts]
  | cons f fs ih =>
    intro cs vs hr
    obtain ⟨h1, hne, h3⟩ := hr
    cases hty : f.ty with
    | count w s =>
      rw [hty] at h1 h3
      simp only [RepAny, arity, cntFor] at h1
      obtain ⟨hv, _⟩ := h1
      cases vs with
      | nil => simp at hv
      | cons v vs' =>
        simp only [List.take_succ_cons, List.take_zero, List.cons.injEq, and_true] at hv
        subst hv
        cases cs with
        | nil => exact absurd rfl (hne w s hty)
        | cons c cs' =>
          have := ih cs' vs' (by simpa [arity, restCs] using h3)
          simp only [countsOf, hty, arity, List.drop_succ_cons, List.drop_zero, this, nCounts, List.headD_cons]
          rw [Nat.add_comm 1, List.take_succ_cons]
    | custom c => rw [hty] at h1; exact absurd h1 id
    | _ =>
      all_goals
        rw [hty] at h3
        have := ih cs _ h3
        simp only [countsOf, hty, nCounts, Nat.zero_add, restCs] at this ⊢
        exact this

/-! ### extension, sizes, decoded values are in-domain, canonical bytes -/



theorem decTy_ext (env : Env) (ty : Ty) (x y : Bytes) (vs : List Val) (r : Bytes)
    (h : decTy env ty x = .ok (vs, r)) : decTy env ty (x ++ y) = .ok (vs, r ++ y) := by
  unfold decTy at h ⊢
  by_cases hl : x.length < wireSize ty
  · simp [hl] at h
  · have h1 : ¬ (x ++ y).length < wireSize ty := by simp; omega
    have ht : (x ++ y).take (wireSize ty) = x.take (wireSize ty) :=
      List.take_append_of_le_length (by omega)
    have hd : (x ++ y).drop (wireSize ty) = x.drop (wireSize ty) ++ y :=
      List.drop_append_of_le_length (by omega)
    simp only [hl, h1, if_false, ht, hd] at h ⊢
    cases ty with
    | enumU8 vals =>
      simp only at h ⊢
      split at h
      · rename_i hm; simp only [hm, if_true]; injection h with h; injection h with h1 h2; subst h1; subst h2; rfl
      · cases h
    | custom c =>
      simp only at h ⊢
      cases hc : customDec env c (List.take (wireSize (.custom c)) x) with
      | ok v => simp only [hc] at h ⊢; injection h with h; injection h with h1 h2; subst h1; subst h2; rfl
      | err e => simp [hc] at h
      | panic => simp [hc] at h
    | _ => simp only at h ⊢; injection h with h; injection h with h1 h2; subst h1; subst h2; rfl
theorem decTy_len (env : Env) (ty : Ty) (x : Bytes) (vs : List Val) (r : Bytes)
    (h : decTy env ty x = .ok (vs, r)) : x.length = wireSize ty + r.length := by
  unfold decTy at h
  by_cases hl : x.length < wireSize ty
  · simp [hl] at h
  · simp only [hl, if_false] at h
    have : r = x.drop (wireSize ty) := by
      cases ty with
      | enumU8 vals => simp only at h; split at h <;> simp_all
      | custom c =>
        simp only at h
        cases hc : customDec env c (List.take (wireSize (.custom c)) x) <;> simp_all
      | _ => simp only at h; injection h with h; injection h with _ h2; exact h2.symm
    subst this
    simp; omega

/-- field lists whose truncation is always noticed: every field has a positive width, and a field
with trailing padding is never the last one -/
def extOk : List Field → Bool
  | [] => true
  | f :: fs => decide (0 < wireSize f.ty) && (f.ra == 0 || !fs.isEmpty) && extOk fs

/-- every field has a positive width -/
def posOk : List Field → Bool
  | [] => true
  | f :: fs => decide (0 < wireSize f.ty) && posOk fs

theorem extOk_pos (fs : List Field) (h : extOk fs = true) : posOk fs = true := by
  induction fs with
  | nil => rfl
  | cons f fs ih =>
    simp only [extOk, Bool.and_eq_true, decide_eq_true_eq] at h
    simp only [posOk, Bool.and_eq_true, decide_eq_true_eq]
    exact ⟨h.1.1, ih h.2⟩

theorem decFields_nil_err (env : Env) (fs : List Field) (h : posOk fs = true) (hne : fs ≠ []) (vs : List Val) (r : Bytes) :
    decFields env fs [] ≠ .ok (vs, r) := by
  cases fs with
  | nil => exact absurd rfl hne
  | cons f fs =>
    simp only [posOk, Bool.and_eq_true, decide_eq_true_eq] at h
    intro hd
    simp only [decFields, List.drop_nil] at hd
    have : decTy env f.ty [] = .err .decode := by
      unfold decTy; simp; omega
    simp [this] at hd

theorem decFields_ext (env : Env) (fields : List Field) (hok : extOk fields = true) :
    ∀ (x y : Bytes) (vs : List Val) (r : Bytes), decFields env fields x = .ok (vs, r) →
      decFields env fields (x ++ y) = .ok (vs, r ++ y) := by
  induction fields with
  | nil => intro x y vs r h; simp only [decFields] at h ⊢; injection h with h; injection h with h1 h2; subst h1; subst h2; rfl
  | cons f fs ih =>
    intro x y vs r h
    simp only [extOk, Bool.and_eq_true, decide_eq_true_eq, Bool.or_eq_true, beq_iff_eq] at hok
    obtain ⟨⟨hw, hra⟩, hfs⟩ := hok
    simp only [decFields] at h ⊢
    cases h1 : decTy env f.ty (x.drop f.rb) with
    | err e => simp [h1] at h
    | panic => simp [h1] at h
    | ok p =>
      obtain ⟨v1, r1⟩ := p
      simp only [h1] at h
      cases h2 : decFields env fs (r1.drop f.ra) with
      | err e => simp [h2] at h
      | panic => simp [h2] at h
      | ok q =>
        obtain ⟨v2, r2⟩ := q
        simp only [h2] at h
        injection h with h; injection h with ha hb; subst ha; subst hb
        have hlen := decTy_len env f.ty _ v1 r1 h1
        have hx : f.rb ≤ x.length := by
          simp only [List.length_drop] at hlen; omega
        have e1 : (x ++ y).drop f.rb = x.drop f.rb ++ y := List.drop_append_of_le_length hx
        rw [e1, decTy_ext env f.ty _ y v1 r1 h1]
        have hr1 : f.ra ≤ r1.length := by
          rcases hra with h0 | hne
          · omega
          · by_cases hlt : f.ra ≤ r1.length
            · exact hlt
            · exfalso
              have : r1.drop f.ra = [] := List.drop_eq_nil_of_le (by omega)
              rw [this] at h2
              exact decFields_nil_err env fs (extOk_pos fs hfs) (by cases fs <;> simp_all) v2 r2 h2
        have e2 : (r1 ++ y).drop f.ra = r1.drop f.ra ++ y := List.drop_append_of_le_length hr1
        simp only [e2, ih hfs _ y v2 r2 h2]

theorem decElems_ext (env : Env) (elt : List Field) (hok : extOk elt = true) :
    ∀ (k : Nat) (x y : Bytes) (es : List (List Val)) (r : Bytes), decElems env elt k x = .ok (es, r) →
      decElems env elt k (x ++ y) = .ok (es, r ++ y) := by
  intro k
  induction k with
  | zero => intro x y es r h; simp only [decElems] at h ⊢; injection h with h; injection h with h1 h2; subst h1; subst h2; rfl
  | succ k ih =>
    intro x y es r h
    simp only [decElems] at h ⊢
    cases h1 : decFields env elt x with
    | err e => simp [h1] at h
    | panic => simp [h1] at h
    | ok p =>
      obtain ⟨v1, r1⟩ := p
      simp only [h1] at h
      cases h2 : decElems env elt k r1 with
      | err e => simp [h2] at h
      | panic => simp [h2] at h
      | ok q =>
        obtain ⟨v2, r2⟩ := q
        simp only [h2] at h
        injection h with h; injection h with ha hb; subst ha; subst hb
        simp only [decFields_ext env elt hok x y v1 r1 h1, ih r1 y v2 r2 h2]


theorem isBytes_drop (x : Bytes) (k : Nat) (h : IsBytes x) : IsBytes (x.drop k) :=
  fun b hb => h b (List.mem_of_mem_drop hb)
theorem isBytes_take (x : Bytes) (k : Nat) (h : IsBytes x) : IsBytes (x.take k) :=
  fun b hb => h b (List.mem_of_mem_take hb)

theorem stripNul_length_le (x : Bytes) : (stripNul x).length ≤ x.length := by
  induction x with
  | nil => simp [stripNul]
  | cons b bs ih => simp only [stripNul]; split <;> simp <;> omega

theorem stripNul_no_zero (x : Bytes) : (0 : Nat) ∉ stripNul x := by
  induction x with
  | nil => simp [stripNul]
  | cons b bs ih =>
    simp only [stripNul]; split
    · simp
    · rename_i hb; simp only [List.mem_cons, not_or]; exact ⟨fun h => hb h.symm, ih⟩

/-- the field types that occur in the file formats -/
def fileTy : Ty → Bool
  | .uint _ => true | .sint _ => true | .f32 => true
  | .str _ _ _ _ _ => true | .count _ _ => true
  | _ => false

theorem fileTy_arity (ty : Ty) (h : fileTy ty = true) : arity ty = 1 := by
  cases ty <;> first | rfl | (simp [fileTy] at h)

/-- decoded values of one field are in-domain; `c` is the value a `count` field carried -/
theorem decTy_file (ty : Ty) (x : Bytes) (v1 : List Val) (r1 : Bytes) (hx : IsBytes x) (hf : fileTy ty = true)
    (h : decTy noEnv ty x = .ok (v1, r1)) :
    IsBytes r1 ∧ ∃ a, v1 = [a] ∧ (∀ w s, ty = .count w s → ∃ c, a = .n c ∧ c < 256 ^ w) ∧
      ((∀ w s, ty ≠ .count w s) → RepTy ty [a]) := by
  unfold decTy at h
  by_cases hl : x.length < wireSize ty
  · simp [hl] at h
  · simp only [hl, if_false] at h
    have hraw : IsBytes (x.take (wireSize ty)) := isBytes_take x _ hx
    have hlen : (x.take (wireSize ty)).length = wireSize ty := by simp; omega
    have hlt := ofLe_lt _ hraw
    rw [hlen] at hlt
    cases ty with
    | uint w =>
      simp only at h; injection h with h; injection h with h1 h2; subst h1; subst h2
      exact ⟨isBytes_drop x _ hx, _, rfl, (by intro w s h; cases h), fun _ => by simpa [RepTy, wireSize] using hlt⟩
    | sint w =>
      simp only at h; injection h with h; injection h with h1 h2; subst h1; subst h2
      exact ⟨isBytes_drop x _ hx, _, rfl, (by intro w s h; cases h), fun _ => by simpa [RepTy, wireSize] using hlt⟩
    | f32 =>
      simp only at h; injection h with h; injection h with h1 h2; subst h1; subst h2
      exact ⟨isBytes_drop x _ hx, _, rfl, (by intro w s h; cases h), fun _ => by simpa [RepTy, wireSize] using hlt⟩
    | str a b c d e =>
      simp only at h; injection h with h; injection h with h1 h2; subst h1; subst h2
      refine ⟨isBytes_drop x _ hx, _, rfl, (by intro w s h; cases h), fun _ => ?_⟩
      simp only [RepTy]
      refine ⟨?_, stripNul_no_zero _⟩
      have := stripNul_length_le (List.take (wireSize (.str a b c d e)) x)
      rw [hlen] at this; simpa [wireSize] using this
    | count w s =>
      simp only at h; injection h with h; injection h with h1 h2; subst h1; subst h2
      refine ⟨isBytes_drop x _ hx, _, rfl, ?_, fun hn => absurd rfl (hn w s)⟩
      intro w' s' he; cases he
      exact ⟨_, rfl, by simpa [wireSize] using hlt⟩
    | _ => simp [fileTy] at hf

theorem decFields_rep (fields : List Field) (hf : ∀ f ∈ fields, fileTy f.ty = true) :
    ∀ (x : Bytes) (vs : List Val) (r : Bytes), IsBytes x → decFields noEnv fields x = .ok (vs, r) →
      RepC (countsOf fields vs) fields vs ∧ IsBytes r := by
  induction fields with
  | nil =>
    intro x vs r hx h
    simp only [decFields] at h; injection h with h; injection h with h1 h2; subst h1; subst h2
    exact ⟨by simp [RepC], hx⟩
  | cons f fs ih =>
    intro x vs r hx h
    simp only [decFields] at h
    cases h1 : decTy noEnv f.ty (x.drop f.rb) with
    | err e => simp [h1] at h
    | panic => simp [h1] at h
    | ok p =>
      obtain ⟨v1, r1⟩ := p
      simp only [h1] at h
      cases h2 : decFields noEnv fs (r1.drop f.ra) with
      | err e => simp [h2] at h
      | panic => simp [h2] at h
      | ok q =>
        obtain ⟨v2, r2⟩ := q
        simp only [h2] at h
        injection h with h; injection h with ha hb; subst ha; subst hb
        have hft := hf f (by simp)
        obtain ⟨hr1, a, rfl, hcnt, hrep⟩ := decTy_file f.ty _ v1 r1 (isBytes_drop x _ hx) hft h1
        obtain ⟨ihr, ihb⟩ := ih (fun g hg => hf g (by simp [hg])) _ v2 r2 (isBytes_drop r1 _ hr1) h2
        refine ⟨?_, ihb⟩
        have har := fileTy_arity f.ty hft
        cases hty : f.ty with
        | count w s =>
          obtain ⟨c, rfl, hc⟩ := hcnt w s hty
          simp only [RepC, hty, arity, countsOf, cntFor, restCs, List.singleton_append, List.take_succ_cons,
            List.take_zero, List.drop_succ_cons, List.drop_zero, List.headD_cons, List.tail_cons, RepAny]
          exact ⟨⟨trivial, hc⟩, fun _ _ _ => by simp, ihr⟩
        | custom c => rw [hty] at hft; simp [fileTy] at hft
        | _ =>
          all_goals
            have hr := hrep (by intro w s he; rw [hty] at he; cases he)
            rw [hty] at hr
            simp only [RepC, hty, arity, countsOf, restCs, List.singleton_append, List.take_succ_cons,
              List.take_zero, List.drop_succ_cons, List.drop_zero, RepAny]
            first
              | exact ⟨hr, fun _ _ he => (by cases he), ihr⟩
              | (rw [hty] at hft; simp [fileTy] at hft)
/-- a text field is canonical when it is the writer's padding of its own content -/
def canonTy : Ty → Bytes → Prop
  | .str _ wn _ _ al, raw => writeStr wn al (stripNul raw) = raw
  | _, _ => True

/-- canonical bytes for a field list: pads are zero and texts are canonical -/
def CanonFields : List Field → Bytes → Prop
  | [], _ => True
  | f :: fs, x =>
    x.take f.rb = List.replicate f.rb 0 ∧
    canonTy f.ty ((x.drop f.rb).take (wireSize f.ty)) ∧
    ((x.drop f.rb).drop (wireSize f.ty)).take f.ra = List.replicate f.ra 0 ∧
    CanonFields fs (((x.drop f.rb).drop (wireSize f.ty)).drop f.ra)

theorem decTy_canon (ty : Ty) (x : Bytes) (v1 : List Val) (r1 : Bytes) (hx : IsBytes x) (hf : fileTy ty = true)
    (hc : canonTy ty (x.take (wireSize ty))) (h : decTy noEnv ty x = .ok (v1, r1)) :
    r1 = x.drop (wireSize ty) ∧
    ∀ cnt, (∀ w s, ty = .count w s → v1 = [.n cnt]) → encTy noEnv ty cnt v1 = .ok (x.take (wireSize ty)) := by
  unfold decTy at h
  by_cases hl : x.length < wireSize ty
  · simp [hl] at h
  · simp only [hl, if_false] at h
    have hraw : IsBytes (x.take (wireSize ty)) := isBytes_take x _ hx
    have hlen : (x.take (wireSize ty)).length = wireSize ty := by simp; omega
    have hle := leBytes_ofLe _ hraw
    rw [hlen] at hle
    cases ty with
    | uint w =>
      simp only at h; injection h with h; injection h with h1 h2; subst h1; subst h2
      exact ⟨rfl, fun _ _ => by simpa [encTy, wireSize] using hle⟩
    | sint w =>
      simp only at h; injection h with h; injection h with h1 h2; subst h1; subst h2
      exact ⟨rfl, fun _ _ => by simpa [encTy, wireSize] using hle⟩
    | f32 =>
      simp only at h; injection h with h; injection h with h1 h2; subst h1; subst h2
      exact ⟨rfl, fun _ _ => by simpa [encTy, wireSize] using hle⟩
    | str a b c d e =>
      simp only at h; injection h with h; injection h with h1 h2; subst h1; subst h2
      exact ⟨rfl, fun _ _ => by simpa [encTy, canonTy] using hc⟩
    | count w s =>
      simp only at h; injection h with h; injection h with h1 h2; subst h1; subst h2
      refine ⟨rfl, fun cnt hcnt => ?_⟩
      have := hcnt w s rfl
      simp only [List.cons.injEq, Val.n.injEq, and_true] at this
      rw [← this]
      simpa [encTy, wireSize] using hle
    | _ => simp [fileTy] at hf

theorem take_eq_replicate_len (x : Bytes) (k : Nat) (h : x.take k = List.replicate k 0) : k ≤ x.length := by
  have := congrArg List.length h
  simp at this; omega

theorem decFields_canon (fields : List Field) (hf : ∀ f ∈ fields, fileTy f.ty = true)
    (hsym : ∀ f ∈ fields, f.sym = true) :
    ∀ (x : Bytes) (vs : List Val) (r : Bytes), IsBytes x → CanonFields fields x →
      decFields noEnv fields x = .ok (vs, r) →
      ∃ b, encFieldsC noEnv (countsOf fields vs) fields vs = .ok b ∧ x = b ++ r := by
  induction fields with
  | nil =>
    intro x vs r hx _ h
    simp only [decFields] at h; injection h with h; injection h with h1 h2; subst h1; subst h2
    exact ⟨[], by simp [encFieldsC], rfl⟩
  | cons f fs ih =>
    intro x vs r hx hc h
    obtain ⟨hc1, hc2, hc3, hc4⟩ := hc
    have hs := hsym f (by simp)
    simp only [Field.sym, Bool.and_eq_true, beq_iff_eq] at hs
    obtain ⟨⟨hb, ha⟩, _⟩ := hs
    simp only [decFields] at h
    cases h1 : decTy noEnv f.ty (x.drop f.rb) with
    | err e => simp [h1] at h
    | panic => simp [h1] at h
    | ok p =>
      obtain ⟨v1, r1⟩ := p
      simp only [h1] at h
      cases h2 : decFields noEnv fs (r1.drop f.ra) with
      | err e => simp [h2] at h
      | panic => simp [h2] at h
      | ok q =>
        obtain ⟨v2, r2⟩ := q
        simp only [h2] at h
        injection h with h; injection h with hva hvb; subst hva; subst hvb
        have hft := hf f (by simp)
        obtain ⟨hr1, henc⟩ := decTy_canon f.ty _ v1 r1 (isBytes_drop x _ hx) hft hc2 h1
        subst hr1
        obtain ⟨b', hb', hx'⟩ := ih (fun g hg => hf g (by simp [hg])) (fun g hg => hsym g (by simp [hg])) _ v2 r2
          (isBytes_drop _ _ (isBytes_drop _ _ (isBytes_drop x _ hx))) hc4 h2
        obtain ⟨_, a, rfl, hcnt, _⟩ := decTy_file f.ty _ v1 _ (isBytes_drop x _ hx) hft h1
        have hxs : x = List.replicate f.wb 0 ++ (List.take (wireSize f.ty) (List.drop f.rb x) ++
            (List.replicate f.wa 0 ++ (b' ++ r2))) := by
          rw [← hb, ← ha, ← hc1, ← hc3, ← hx', List.take_append_drop, List.take_append_drop, List.take_append_drop]
        cases hty : f.ty with
        | count w s =>
          obtain ⟨c, rfl, _⟩ := hcnt w s hty
          have he := henc c (fun _ _ _ => rfl)
          rw [hty] at he
          refine ⟨List.replicate f.wb 0 ++ List.take (wireSize f.ty) (List.drop f.rb x) ++ List.replicate f.wa 0 ++ b', ?_, ?_⟩
          · simp only [countsOf, hty, arity, List.singleton_append, List.drop_succ_cons, List.drop_zero, encFieldsC,
              cntFor, restCs, List.headD_cons, List.tail_cons, List.take_succ_cons, List.take_zero, he, hb']
          · simpa [List.append_assoc] using hxs
        | custom c => rw [hty] at hft; simp [fileTy] at hft
        | _ =>
          all_goals
            have he := henc 0 (fun w s hh => by rw [hty] at hh; cases hh)
            rw [hty] at he
            refine ⟨List.replicate f.wb 0 ++ List.take (wireSize f.ty) (List.drop f.rb x) ++ List.replicate f.wa 0 ++ b', ?_, ?_⟩
            · first
                | (simp only [countsOf, hty, arity, List.singleton_append, List.drop_succ_cons, List.drop_zero, encFieldsC,
                    cntFor, restCs, List.take_succ_cons, List.take_zero, hb']
                   simp only [encTy] at he ⊢
                   simp only [he])
                | (rw [hty] at hft; simp [fileTy] at hft)
            · first
                | (simpa [List.append_assoc] using hxs)
                | (rw [hty] at hft; simp [fileTy] at hft)


/-! ### encoders succeed on in-domain values; element vectors -/


theorem encTy_ok (ty : Ty) (cnt : Nat) (vs : List Val) (hf : fileTy ty = true) (hr : RepAny NoC cnt ty vs) :
    ∃ b, encTy noEnv ty cnt vs = .ok b := by
  cases ty with
  | count w s => exact ⟨_, rfl⟩
  | uint w => (match vs, hr with | [.n v], _ => exact ⟨_, rfl⟩)
  | sint w => (match vs, hr with | [.n v], _ => exact ⟨_, rfl⟩)
  | f32 => (match vs, hr with | [.n v], _ => exact ⟨_, rfl⟩)
  | str a b c d e => (match vs, hr with | [.b v], _ => exact ⟨_, rfl⟩)
  | _ => simp [fileTy] at hf

theorem encFieldsC_ok (fields : List Field) (hf : ∀ f ∈ fields, fileTy f.ty = true) :
    ∀ (cs : List Nat) (vs : List Val), RepC cs fields vs → ∃ b, encFieldsC noEnv cs fields vs = .ok b := by
  induction fields with
  | nil => intro cs vs h; simp only [RepC] at h; subst h; exact ⟨[], by simp [encFieldsC]⟩
  | cons f fs ih =>
    intro cs vs h
    obtain ⟨h1, _, h3⟩ := h
    obtain ⟨b1, hb1⟩ := encTy_ok f.ty _ _ (hf f (by simp)) h1
    obtain ⟨b2, hb2⟩ := ih (fun g hg => hf g (by simp [hg])) _ _ h3
    exact ⟨List.replicate f.wb 0 ++ b1 ++ List.replicate f.wa 0 ++ b2, by simp only [encFieldsC, hb1, hb2]⟩

def isCount : Ty → Bool | .count _ _ => true | _ => false

/-- element layouts (Node, ObjectPoint, Triangle): file field types, symmetric, no assertion, no count -/
def eltOk (elt : List Field) : Bool :=
  elt.all (fun f => fileTy f.ty && f.sym && f.maxv.isNone && !isCount f.ty) && posOk elt

/-- header layouts: file field types, symmetric -/
def hdrOk (fields : List Field) : Bool :=
  fields.all (fun f => fileTy f.ty && f.sym) && extOk fields

theorem eltOk_parts (elt : List Field) (h : eltOk elt = true) :
    (∀ f ∈ elt, fileTy f.ty = true) ∧ (∀ f ∈ elt, f.sym = true) ∧ (∀ f ∈ elt, f.maxv = none) ∧
    (∀ f ∈ elt, isCount f.ty = false) ∧ posOk elt = true := by
  simp only [eltOk, Bool.and_eq_true, List.all_eq_true, Bool.not_eq_true', Option.isNone_iff_eq_none] at h
  exact ⟨fun f hf => (h.1 f hf).1.1.1, fun f hf => (h.1 f hf).1.1.2, fun f hf => (h.1 f hf).1.2,
    fun f hf => (h.1 f hf).2, h.2⟩

theorem hdrOk_parts (fs : List Field) (h : hdrOk fs = true) :
    (∀ f ∈ fs, fileTy f.ty = true) ∧ (∀ f ∈ fs, f.sym = true) ∧ extOk fs = true := by
  simp only [hdrOk, Bool.and_eq_true, List.all_eq_true] at h
  exact ⟨fun f hf => (h.1 f hf).1, fun f hf => (h.1 f hf).2, h.2⟩

theorem encFields_eq_C (elt : List Field) (hm : ∀ f ∈ elt, f.maxv = none) (hc : ∀ f ∈ elt, isCount f.ty = false) :
    ∀ (cs : List Nat) (vs : List Val), encFields noEnv 0 elt vs = encFieldsC noEnv cs elt vs := by
  induction elt with
  | nil => intro cs vs; cases vs <;> simp [encFields, encFieldsC]
  | cons f fs ih =>
    intro cs vs
    have h1 := hm f (by simp)
    have h2 := hc f (by simp)
    have e1 : encTy noEnv f.ty 0 (vs.take (arity f.ty)) = encTy noEnv f.ty (cntFor f.ty cs) (vs.take (arity f.ty)) := by
      cases hty : f.ty <;> first | rfl | (rw [hty] at h2; simp [isCount] at h2)
    have e2 : restCs f.ty cs = cs := by
      cases hty : f.ty <;> first | rfl | (rw [hty] at h2; simp [isCount] at h2)
    simp only [encFields, encFieldsC, h1, maxvOk, if_true, e1, e2,
      ih (fun g hg => hm g (by simp [hg])) (fun g hg => hc g (by simp [hg])) cs]
    rfl

theorem countsOf_nil (elt : List Field) (hc : ∀ f ∈ elt, isCount f.ty = false) : ∀ vs, countsOf elt vs = [] := by
  induction elt with
  | nil => intro vs; rfl
  | cons f fs ih =>
    intro vs
    have h2 := hc f (by simp)
    have := ih (fun g hg => hc g (by simp [hg]))
    cases hty : f.ty <;> first
      | (simp only [countsOf, hty, this]; done)
      | (rw [hty] at h2; simp [isCount] at h2)

/-- in-domain elements -/
def RepElems (elt : List Field) (es : List (List Val)) : Prop := ∀ e ∈ es, RepC [] elt e

theorem decElems_rep (elt : List Field) (h : eltOk elt = true) :
    ∀ (k : Nat) (x : Bytes) (es : List (List Val)) (r : Bytes), IsBytes x → decElems noEnv elt k x = .ok (es, r) →
      RepElems elt es ∧ IsBytes r ∧ es.length = k := by
  obtain ⟨hf, _, _, hc, _⟩ := eltOk_parts elt h
  intro k
  induction k with
  | zero =>
    intro x es r hx hd
    simp only [decElems] at hd; injection hd with hd; injection hd with h1 h2; subst h1; subst h2
    exact ⟨fun e he => (by cases he), hx, rfl⟩
  | succ k ih =>
    intro x es r hx hd
    simp only [decElems] at hd
    cases h1 : decFields noEnv elt x with
    | err e => simp [h1] at hd
    | panic => simp [h1] at hd
    | ok p =>
      obtain ⟨v1, r1⟩ := p
      simp only [h1] at hd
      cases h2 : decElems noEnv elt k r1 with
      | err e => simp [h2] at hd
      | panic => simp [h2] at hd
      | ok q =>
        obtain ⟨v2, r2⟩ := q
        simp only [h2] at hd
        injection hd with hd; injection hd with ha hb; subst ha; subst hb
        obtain ⟨hr, hb1⟩ := decFields_rep elt hf x v1 r1 hx h1
        rw [countsOf_nil elt hc] at hr
        obtain ⟨ih1, ih2, ih3⟩ := ih r1 v2 r2 hb1 h2
        refine ⟨?_, ih2, by simp [ih3]⟩
        intro e he
        simp only [List.mem_cons] at he
        rcases he with rfl | he
        · exact hr
        · exact ih1 e he

theorem encElems_decElems (elt : List Field) (h : eltOk elt = true) :
    ∀ (es : List (List Val)), RepElems elt es →
      ∃ b, encElems noEnv elt es = .ok b ∧ ∀ r, decElems noEnv elt es.length (b ++ r) = .ok (es, r) := by
  obtain ⟨hf, hs, hm, hc, _⟩ := eltOk_parts elt h
  intro es
  induction es with
  | nil => intro _; exact ⟨[], rfl, fun r => by simp [decElems]⟩
  | cons e es ih =>
    intro hr
    obtain ⟨b1, hb1⟩ := encFieldsC_ok elt hf [] e (hr e (by simp))
    obtain ⟨b2, hb2, hd2⟩ := ih (fun x hx => hr x (by simp [hx]))
    refine ⟨b1 ++ b2, by simp only [encElems, encFields_eq_C elt hm hc [] e, hb1, hb2], fun r => ?_⟩
    have d1 := decFields_encFieldsC elt hs [] e b1 (b2 ++ r) (hr e (by simp)) hb1
    simp only [List.length_cons, decElems, List.append_assoc, d1, hd2 r]

/-- pad-free and text-free field lists: every byte string is canonical for them -/
def canonFree (fields : List Field) : Bool :=
  fields.all (fun f => f.rb == 0 && f.ra == 0 && (match f.ty with | .str _ _ _ _ _ => false | _ => true))

theorem canonFree_canon (fields : List Field) (h : canonFree fields = true) : ∀ x, CanonFields fields x := by
  induction fields with
  | nil => intro x; trivial
  | cons f fs ih =>
    intro x
    simp only [canonFree, List.all_cons, Bool.and_eq_true, beq_iff_eq] at h
    obtain ⟨⟨⟨h1, h2⟩, h3⟩, h4⟩ := h
    refine ⟨by simp [h1], ?_, by simp [h2], ih (by simpa [canonFree] using h4) _⟩
    cases hty : f.ty <;> first | trivial | (rw [hty] at h3; simp at h3)

/-- canonical bytes for `k` consecutive elements -/
def CanonElems (elt : List Field) : Nat → Bytes → Prop
  | 0, _ => True
  | k + 1, x => CanonFields elt x ∧ ∀ vs r1, decFields noEnv elt x = .ok (vs, r1) → CanonElems elt k r1

theorem canonFree_canonElems (elt : List Field) (h : canonFree elt = true) : ∀ k x, CanonElems elt k x := by
  intro k
  induction k with
  | zero => intro x; trivial
  | succ k ih => intro x; exact ⟨canonFree_canon elt h x, fun _ r1 _ => ih r1⟩

theorem decElems_canon (elt : List Field) (h : eltOk elt = true) :
    ∀ (k : Nat) (x : Bytes) (es : List (List Val)) (r : Bytes), IsBytes x → CanonElems elt k x →
      decElems noEnv elt k x = .ok (es, r) → ∃ b, encElems noEnv elt es = .ok b ∧ x = b ++ r := by
  obtain ⟨hf, hs, hm, hc, _⟩ := eltOk_parts elt h
  intro k
  induction k with
  | zero =>
    intro x es r hx _ hd
    simp only [decElems] at hd; injection hd with hd; injection hd with h1 h2; subst h1; subst h2
    exact ⟨[], rfl, rfl⟩
  | succ k ih =>
    intro x es r hx hcan hd
    simp only [decElems] at hd
    cases h1 : decFields noEnv elt x with
    | err e => simp [h1] at hd
    | panic => simp [h1] at hd
    | ok p =>
      obtain ⟨v1, r1⟩ := p
      simp only [h1] at hd
      cases h2 : decElems noEnv elt k r1 with
      | err e => simp [h2] at hd
      | panic => simp [h2] at hd
      | ok q =>
        obtain ⟨v2, r2⟩ := q
        simp only [h2] at hd
        injection hd with hd; injection hd with ha hb; subst ha; subst hb
        obtain ⟨b1, hb1, hx1⟩ := decFields_canon elt hf hs x v1 r1 hx hcan.1 h1
        rw [countsOf_nil elt hc] at hb1
        obtain ⟨_, hbr1⟩ := decFields_rep elt hf x v1 r1 hx h1
        obtain ⟨b2, hb2, hx2⟩ := ih r1 v2 r2 hbr1 (hcan.2 v1 r1 h1) h2
        exact ⟨b1 ++ b2, by simp only [encElems, encFields_eq_C elt hm hc [] v1, hb1, hb2], by rw [hx1, hx2, List.append_assoc]⟩

theorem decFields_le (env : Env) (fields : List Field) :
    ∀ (x : Bytes) (vs : List Val) (r : Bytes), decFields env fields x = .ok (vs, r) → r.length ≤ x.length := by
  induction fields with
  | nil => intro x vs r h; simp only [decFields] at h; injection h with h; injection h with _ h2; subst h2; exact Nat.le_refl _
  | cons f fs ih =>
    intro x vs r h
    simp only [decFields] at h
    cases h1 : decTy env f.ty (x.drop f.rb) with
    | err e => simp [h1] at h
    | panic => simp [h1] at h
    | ok p =>
      obtain ⟨v1, r1⟩ := p
      simp only [h1] at h
      cases h2 : decFields env fs (r1.drop f.ra) with
      | err e => simp [h2] at h
      | panic => simp [h2] at h
      | ok q =>
        obtain ⟨v2, r2⟩ := q
        simp only [h2] at h
        injection h with h; injection h with ha hb; subst ha; subst hb
        have l1 := decTy_len env f.ty _ v1 r1 h1
        have l2 := ih _ v2 r2 h2
        simp only [List.length_drop] at l1 l2
        omega

theorem decElems_len (elt : List Field) :
    ∀ (k : Nat) (x : Bytes) (es : List (List Val)) (r : Bytes), decElems noEnv elt k x = .ok (es, r) →
      es.length = k ∧ r.length ≤ x.length := by
  intro k
  induction k with
  | zero =>
    intro x es r hd
    simp only [decElems] at hd; injection hd with hd; injection hd with h1 h2; subst h1; subst h2
    exact ⟨rfl, Nat.le_refl _⟩
  | succ k ih =>
    intro x es r hd
    simp only [decElems] at hd
    cases h1 : decFields noEnv elt x with
    | err e => simp [h1] at hd
    | panic => simp [h1] at hd
    | ok p =>
      obtain ⟨v1, r1⟩ := p
      simp only [h1] at hd
      cases h2 : decElems noEnv elt k r1 with
      | err e => simp [h2] at hd
      | panic => simp [h2] at hd
      | ok q =>
        obtain ⟨v2, r2⟩ := q
        simp only [h2] at hd
        injection hd with hd; injection hd with ha hb; subst ha; subst hb
        obtain ⟨i1, i2⟩ := ih r1 v2 r2 h2
        have := decFields_le noEnv elt x v1 r1 h1
        exact ⟨by simp [i1], by omega⟩


/-- extension when something is left over: trailing padding cannot have run short, so positive widths suffice -/
theorem decFields_ext' (env : Env) (fields : List Field) (hok : posOk fields = true) :
    ∀ (x y : Bytes) (vs : List Val) (r : Bytes), decFields env fields x = .ok (vs, r) → r ≠ [] →
      decFields env fields (x ++ y) = .ok (vs, r ++ y) := by
  induction fields with
  | nil => intro x y vs r h _; simp only [decFields] at h ⊢; injection h with h; injection h with h1 h2; subst h1; subst h2; rfl
  | cons f fs ih =>
    intro x y vs r h hrne
    simp only [posOk, Bool.and_eq_true, decide_eq_true_eq] at hok
    obtain ⟨hw, hfs⟩ := hok
    simp only [decFields] at h ⊢
    cases h1 : decTy env f.ty (x.drop f.rb) with
    | err e => simp [h1] at h
    | panic => simp [h1] at h
    | ok p =>
      obtain ⟨v1, r1⟩ := p
      simp only [h1] at h
      cases h2 : decFields env fs (r1.drop f.ra) with
      | err e => simp [h2] at h
      | panic => simp [h2] at h
      | ok q =>
        obtain ⟨v2, r2⟩ := q
        simp only [h2] at h
        injection h with h; injection h with ha hb; subst ha; subst hb
        have hlen := decTy_len env f.ty _ v1 r1 h1
        have hx : f.rb ≤ x.length := by
          simp only [List.length_drop] at hlen; omega
        have e1 : (x ++ y).drop f.rb = x.drop f.rb ++ y := List.drop_append_of_le_length hx
        rw [e1, decTy_ext env f.ty _ y v1 r1 h1]
        have hle := decFields_le env fs _ v2 r2 h2
        have hr1 : f.ra ≤ r1.length := by
          have : 0 < r2.length := List.length_pos_iff.mpr hrne
          simp only [List.length_drop] at hle; omega
        have e2 : (r1 ++ y).drop f.ra = r1.drop f.ra ++ y := List.drop_append_of_le_length hr1
        simp only [e2, ih hfs _ y v2 r2 h2 hrne]

theorem decElems_le (env : Env) (elt : List Field) :
    ∀ (k : Nat) (x : Bytes) (es : List (List Val)) (r : Bytes), decElems env elt k x = .ok (es, r) →
      r.length ≤ x.length := by
  intro k
  induction k with
  | zero =>
    intro x es r hd
    simp only [decElems] at hd; injection hd with hd; injection hd with h1 h2; subst h2
    exact Nat.le_refl _
  | succ k ih =>
    intro x es r hd
    simp only [decElems] at hd
    cases h1 : decFields env elt x with
    | err e => simp [h1] at hd
    | panic => simp [h1] at hd
    | ok p =>
      obtain ⟨v1, r1⟩ := p
      simp only [h1] at hd
      cases h2 : decElems env elt k r1 with
      | err e => simp [h2] at hd
      | panic => simp [h2] at hd
      | ok q =>
        obtain ⟨v2, r2⟩ := q
        simp only [h2] at hd
        injection hd with hd; injection hd with ha hb; subst ha; subst hb
        have := ih r1 v2 r2 h2
        have := decFields_le env elt x v1 r1 h1
        omega

theorem decElems_ext' (env : Env) (elt : List Field) (hok : posOk elt = true) :
    ∀ (k : Nat) (x y : Bytes) (es : List (List Val)) (r : Bytes), decElems env elt k x = .ok (es, r) → r ≠ [] →
      decElems env elt k (x ++ y) = .ok (es, r ++ y) := by
  intro k
  induction k with
  | zero => intro x y es r h _; simp only [decElems] at h ⊢; injection h with h; injection h with h1 h2; subst h1; subst h2; rfl
  | succ k ih =>
    intro x y es r h hrne
    simp only [decElems] at h ⊢
    cases h1 : decFields env elt x with
    | err e => simp [h1] at h
    | panic => simp [h1] at h
    | ok p =>
      obtain ⟨v1, r1⟩ := p
      simp only [h1] at h
      cases h2 : decElems env elt k r1 with
      | err e => simp [h2] at h
      | panic => simp [h2] at h
      | ok q =>
        obtain ⟨v2, r2⟩ := q
        simp only [h2] at h
        injection h with h; injection h with ha hb; subst ha; subst hb
        have hle := decElems_le env elt k r1 v2 r2 h2
        have hr1 : r1 ≠ [] := by
          intro hn; rw [hn] at hle
          exact hrne (List.length_eq_zero_iff.mp (Nat.le_zero.mp hle))
        simp only [decFields_ext' env elt hok x y v1 r1 h1 hr1, ih r1 y v2 r2 h2 hrne]

/-! ### containers -/


theorem decFields_lt (env : Env) (fields : List Field) (hok : posOk fields = true) (hne : fields ≠ []) :
    ∀ (x : Bytes) (vs : List Val) (r : Bytes), decFields env fields x = .ok (vs, r) → r.length < x.length := by
  cases fields with
  | nil => exact absurd rfl hne
  | cons f fs =>
    intro x vs r h
    simp only [posOk, Bool.and_eq_true, decide_eq_true_eq] at hok
    simp only [decFields] at h
    cases h1 : decTy env f.ty (x.drop f.rb) with
    | err e => simp [h1] at h
    | panic => simp [h1] at h
    | ok p =>
      obtain ⟨v1, r1⟩ := p
      simp only [h1] at h
      cases h2 : decFields env fs (r1.drop f.ra) with
      | err e => simp [h2] at h
      | panic => simp [h2] at h
      | ok q =>
        obtain ⟨v2, r2⟩ := q
        simp only [h2] at h
        injection h with h; injection h with ha hb; subst ha; subst hb
        have l1 := decTy_len env f.ty _ v1 r1 h1
        have l2 := decFields_le env fs _ v2 r2 h2
        simp only [List.length_drop] at l1 l2
        omega

/-- a decoded vector never has more elements than the input has bytes -/
theorem decElems_count_le (elt : List Field) (hok : posOk elt = true) (hne : elt ≠ []) :
    ∀ (k : Nat) (x : Bytes) (es : List (List Val)) (r : Bytes), decElems noEnv elt k x = .ok (es, r) →
      es.length + r.length ≤ x.length := by
  intro k
  induction k with
  | zero =>
    intro x es r hd
    simp only [decElems] at hd; injection hd with hd; injection hd with h1 h2; subst h1; subst h2
    simp
  | succ k ih =>
    intro x es r hd
    simp only [decElems] at hd
    cases h1 : decFields noEnv elt x with
    | err e => simp [h1] at hd
    | panic => simp [h1] at hd
    | ok p =>
      obtain ⟨v1, r1⟩ := p
      simp only [h1] at hd
      cases h2 : decElems noEnv elt k r1 with
      | err e => simp [h2] at hd
      | panic => simp [h2] at hd
      | ok q =>
        obtain ⟨v2, r2⟩ := q
        simp only [h2] at hd
        injection hd with hd; injection hd with ha hb; subst ha; subst hb
        have := ih r1 v2 r2 h2
        have := decFields_lt noEnv elt hok hne x v1 r1 h1
        simp only [List.length_cons]; omega

theorem dropMagic_ext (m x y b : Bytes) (h : dropMagic m x = some b) : dropMagic m (x ++ y) = some (b ++ y) := by
  unfold dropMagic at h ⊢
  split at h
  · rename_i hm
    injection h with h; subst h
    have hl : m.length ≤ x.length := by
      have := congrArg List.length hm; simp at this; omega
    rw [List.take_append_of_le_length hl, if_pos hm, List.drop_append_of_le_length hl]
  · cases h

theorem dropMagic_eq (m x b : Bytes) (h : dropMagic m x = some b) : x = m ++ b := by
  unfold dropMagic at h
  split at h
  · rename_i hm; injection h with h
    rw [← h]
    conv => lhs; rw [← List.take_append_drop m.length x, hm]
  · cases h

theorem dropMagic_append (m b : Bytes) : dropMagic m (m ++ b) = some b := by
  unfold dropMagic; simp

/-! ## PTH -/

def PthOk (lf : Leafs) : Bool :=
  hdrOk lf.pthHeader && nCounts lf.pthHeader == 1 && eltOk lf.node && !lf.node.isEmpty && extOk lf.node

def RepPth (lf : Leafs) (p : Pth) : Prop :=
  RepC [p.nodes.length] lf.pthHeader p.header ∧ RepElems lf.node p.nodes ∧ p.nodes.length < 2 ^ 31

theorem decPth_no_panic (lf : Leafs) (bs : Bytes) : decPth lf bs ≠ .panic := by
  unfold decPth
  split
  · simp
  · split
    · split
      · split
        · split
          · simp
          · simp
          · rename_i h; exact absurd h (Props.C04.decElems_no_panic _ _ _ _)
        · simp
      · simp
    · simp
    · rename_i h; exact absurd h (Props.C04.decFields_no_panic _ _ _)

/-- what a successful parse means, step by step -/
theorem decPth_ok_iff (lf : Leafs) (x : Bytes) (p : Pth) (r : Bytes) (h : decPth lf x = .ok (p, r)) :
    ∃ b1 b2 n, dropMagic lf.pthMagic x = some b1 ∧ decFields noEnv lf.pthHeader b1 = .ok (p.header, b2) ∧
      countsOf lf.pthHeader p.header = [n] ∧ countOk n = true ∧ decElems noEnv lf.node n b2 = .ok (p.nodes, r) := by
  unfold decPth at h
  cases hm : dropMagic lf.pthMagic x with
  | none => simp [hm] at h
  | some b1 =>
    simp only [hm] at h
    cases hh : decFields noEnv lf.pthHeader b1 with
    | err e => simp [hh] at h
    | panic => simp [hh] at h
    | ok q =>
      obtain ⟨hv, b2⟩ := q
      simp only [hh] at h
      split at h
      · rename_i n hc
        split at h
        · rename_i hok
          cases hd : decElems noEnv lf.node n b2 with
          | err e => simp [hd] at h
          | panic => simp [hd] at h
          | ok q2 =>
            obtain ⟨ns, rest⟩ := q2
            simp only [hd] at h
            injection h with h; injection h with h1 h2; subst h1; subst h2
            exact ⟨b1, b2, n, rfl, hh, hc, hok, hd⟩
        · cases h
      · cases h

theorem decPth_of_steps (lf : Leafs) (x : Bytes) (hv : List Val) (ns : List (List Val)) (r b1 b2 : Bytes) (n : Nat)
    (h1 : dropMagic lf.pthMagic x = some b1) (h2 : decFields noEnv lf.pthHeader b1 = .ok (hv, b2))
    (h3 : countsOf lf.pthHeader hv = [n]) (h4 : countOk n = true) (h5 : decElems noEnv lf.node n b2 = .ok (ns, r)) :
    decPth lf x = .ok ({ header := hv, nodes := ns }, r) := by
  unfold decPth
  simp only [h1, h2, h3, h4, if_true, h5]


/-! ### PTH -/


theorem PthOk_parts (lf : Leafs) (h : PthOk lf = true) :
    hdrOk lf.pthHeader = true ∧ nCounts lf.pthHeader = 1 ∧ eltOk lf.node = true ∧ lf.node ≠ [] ∧
    extOk lf.node = true := by
  simp only [PthOk, Bool.and_eq_true, beq_iff_eq, Bool.not_eq_true', List.isEmpty_eq_false_iff] at h
  exact ⟨h.1.1.1.1, h.1.1.1.2, h.1.1.2, h.1.2, h.2⟩

theorem pth_ext (lf : Leafs) (hok : PthOk lf = true) (x y : Bytes) (p : Pth) (r : Bytes)
    (h : decPth lf x = .ok (p, r)) : decPth lf (x ++ y) = .ok (p, r ++ y) := by
  obtain ⟨hh, _, he, _, hxe⟩ := PthOk_parts lf hok
  obtain ⟨_, _, hx⟩ := hdrOk_parts _ hh
  obtain ⟨b1, b2, n, h1, h2, h3, h4, h5⟩ := decPth_ok_iff lf x p r h
  exact decPth_of_steps lf (x ++ y) p.header p.nodes (r ++ y) (b1 ++ y) (b2 ++ y) n
    (dropMagic_ext _ _ _ _ h1) (decFields_ext noEnv _ hx _ y _ _ h2) h3 h4 (decElems_ext noEnv _ hxe n _ y _ _ h5)

theorem pth_prefix_rejected (lf : Leafs) (hok : PthOk lf = true) (c t : Bytes) (p : Pth)
    (hd : decPth lf (c ++ t) = .ok (p, t)) (k : Nat) (hk : k < c.length) :
    ∃ e, decPth lf (c.take k) = .err e := by
  cases hq : decPth lf (c.take k) with
  | err e => exact ⟨e, rfl⟩
  | panic => exact absurd hq (decPth_no_panic lf _)
  | ok q =>
    exfalso
    obtain ⟨p', r'⟩ := q
    have := pth_ext lf hok (c.take k) (c.drop k ++ t) p' r' hq
    rw [← List.append_assoc, List.take_append_drop, hd] at this
    injection this with this; injection this with _ h2
    have := congrArg List.length h2
    simp at this; omega

theorem pth_size_justified (lf : Leafs) (hok : PthOk lf = true) (x : Bytes) (p : Pth) (r : Bytes)
    (h : decPth lf x = .ok (p, r)) : p.nodes.length + r.length ≤ x.length := by
  obtain ⟨hh, _, he, hne, _⟩ := PthOk_parts lf hok
  obtain ⟨_, _, _, _, hxe⟩ := eltOk_parts _ he
  obtain ⟨b1, b2, n, h1, h2, h3, h4, h5⟩ := decPth_ok_iff lf x p r h
  have l1 := decElems_count_le lf.node hxe hne n b2 _ r h5
  have l2 := decFields_le noEnv _ b1 _ b2 h2
  have l3 := congrArg List.length (dropMagic_eq _ _ _ h1)
  simp at l3; omega

theorem pth_negative_count (lf : Leafs) (x b1 b2 : Bytes) (hv : List Val) (n : Nat)
    (h1 : dropMagic lf.pthMagic x = some b1) (h2 : decFields noEnv lf.pthHeader b1 = .ok (hv, b2))
    (h3 : countsOf lf.pthHeader hv = [n]) (h4 : 2 ^ 31 ≤ n) : decPth lf x = .err .decode := by
  unfold decPth
  have : countOk n = false := by simp [countOk]; omega
  simp [h1, h2, h3, this]

theorem pth_write_parse (lf : Leafs) (hok : PthOk lf = true) (p : Pth) (hr : RepPth lf p) (b r : Bytes)
    (he : encPth lf p = .ok b) : decPth lf (b ++ r) = .ok (p, r) := by
  obtain ⟨hh, hn, hel, _, _⟩ := PthOk_parts lf hok
  obtain ⟨hf, hs, _⟩ := hdrOk_parts _ hh
  obtain ⟨r1, r2, r3⟩ := hr
  unfold encPth at he
  cases e1 : encFieldsC noEnv [p.nodes.length] lf.pthHeader p.header with
  | err e => simp [e1] at he
  | panic => simp [e1] at he
  | ok hb =>
    simp only [e1] at he
    obtain ⟨nb, e2, d2⟩ := encElems_decElems lf.node hel p.nodes r2
    simp only [e2] at he
    injection he with he; subst he
    have d1 := decFields_encFieldsC lf.pthHeader hs _ _ hb (nb ++ r) r1 e1
    have c1 := countsOf_rep lf.pthHeader _ _ r1
    rw [hn] at c1
    refine decPth_of_steps lf _ p.header p.nodes r (hb ++ (nb ++ r)) (nb ++ r) p.nodes.length ?_ d1 (by simpa using c1)
      (by simp [countOk]; exact r3) (d2 r)
    simp only [List.append_assoc]; exact dropMagic_append _ _

theorem pth_parsed_rep (lf : Leafs) (hok : PthOk lf = true) (x : Bytes) (hx : IsBytes x) (p : Pth) (r : Bytes)
    (h : decPth lf x = .ok (p, r)) : RepPth lf p ∧ IsBytes r := by
  obtain ⟨hh, hn, hel, _, _⟩ := PthOk_parts lf hok
  obtain ⟨hf, hs, _⟩ := hdrOk_parts _ hh
  obtain ⟨b1, b2, n, h1, h2, h3, h4, h5⟩ := decPth_ok_iff lf x p r h
  have hb1 : IsBytes b1 := by
    have := dropMagic_eq _ _ _ h1
    intro b hb; exact hx b (by rw [this]; simp [hb])
  obtain ⟨q1, q2⟩ := decFields_rep lf.pthHeader hf b1 _ b2 hb1 h2
  obtain ⟨q3, q4, q5⟩ := decElems_rep lf.node hel n b2 _ r q2 h5
  rw [h3] at q1
  refine ⟨⟨by rw [q5]; exact q1, q3, ?_⟩, q4⟩
  rw [q5]; simpa [countOk] using h4

theorem pth_enc_ok (lf : Leafs) (hok : PthOk lf = true) (p : Pth) (hr : RepPth lf p) : ∃ b, encPth lf p = .ok b := by
  obtain ⟨hh, hn, hel, _, _⟩ := PthOk_parts lf hok
  obtain ⟨hf, hs, _⟩ := hdrOk_parts _ hh
  obtain ⟨r1, r2, r3⟩ := hr
  obtain ⟨hb, e1⟩ := encFieldsC_ok lf.pthHeader hf _ _ r1
  obtain ⟨nb, e2, _⟩ := encElems_decElems lf.node hel p.nodes r2
  exact ⟨lf.pthMagic ++ hb ++ nb, by simp only [encPth, e1, e2]⟩

theorem pth_parse_write_parse (lf : Leafs) (hok : PthOk lf = true) (x : Bytes) (hx : IsBytes x) (p : Pth) (r : Bytes)
    (h : decPth lf x = .ok (p, r)) : ∃ b, encPth lf p = .ok b ∧ decPth lf b = .ok (p, []) := by
  obtain ⟨hr, _⟩ := pth_parsed_rep lf hok x hx p r h
  obtain ⟨b, hb⟩ := pth_enc_ok lf hok p hr
  exact ⟨b, hb, by simpa using pth_write_parse lf hok p hr b [] hb⟩

def PthCanonFree (lf : Leafs) : Bool := canonFree lf.pthHeader && canonFree lf.node

theorem pth_canonical (lf : Leafs) (hok : PthOk lf = true) (hcf : PthCanonFree lf = true) (x : Bytes) (hx : IsBytes x)
    (p : Pth) (r : Bytes) (h : decPth lf x = .ok (p, r)) : ∃ b, encPth lf p = .ok b ∧ x = b ++ r := by
  obtain ⟨hh, hn, hel, _, _⟩ := PthOk_parts lf hok
  obtain ⟨hf, hs, _⟩ := hdrOk_parts _ hh
  simp only [PthCanonFree, Bool.and_eq_true] at hcf
  obtain ⟨b1, b2, n, h1, h2, h3, h4, h5⟩ := decPth_ok_iff lf x p r h
  have hb1 : IsBytes b1 := by
    have := dropMagic_eq _ _ _ h1
    intro b hb; exact hx b (by rw [this]; simp [hb])
  obtain ⟨hb, e1, x1⟩ := decFields_canon lf.pthHeader hf hs b1 _ b2 hb1 (canonFree_canon _ hcf.1 _) h2
  obtain ⟨_, q2⟩ := decFields_rep lf.pthHeader hf b1 _ b2 hb1 h2
  obtain ⟨nb, e2, x2⟩ := decElems_canon lf.node hel n b2 _ r q2 (canonFree_canonElems _ hcf.2 _ _) h5
  obtain ⟨_, _, q5⟩ := decElems_rep lf.node hel n b2 _ r q2 h5
  rw [h3] at e1
  refine ⟨lf.pthMagic ++ hb ++ nb, by simp only [encPth, q5, e1, e2], ?_⟩
  rw [dropMagic_eq _ _ _ h1, x1, x2]; simp [List.append_assoc]



/-! ## SMX objects -/

def ObjOk (lf : Leafs) : Bool :=
  hdrOk lf.objHeader && nCounts lf.objHeader == 2 && eltOk lf.point && eltOk lf.triangle &&
  !lf.objHeader.isEmpty && !lf.point.isEmpty && !lf.triangle.isEmpty

theorem ObjOk_parts (lf : Leafs) (h : ObjOk lf = true) :
    hdrOk lf.objHeader = true ∧ nCounts lf.objHeader = 2 ∧ eltOk lf.point = true ∧ eltOk lf.triangle = true ∧
    lf.objHeader ≠ [] ∧ lf.point ≠ [] ∧ lf.triangle ≠ [] := by
  simp only [ObjOk, Bool.and_eq_true, beq_iff_eq, Bool.not_eq_true', List.isEmpty_eq_false_iff] at h
  exact ⟨h.1.1.1.1.1.1, h.1.1.1.1.1.2, h.1.1.1.1.2, h.1.1.1.2, h.1.1.2, h.1.2, h.2⟩

def RepObj (lf : Leafs) (o : Obj) : Prop :=
  RepC [o.points.length, o.triangles.length] lf.objHeader o.header ∧ RepElems lf.point o.points ∧
  RepElems lf.triangle o.triangles ∧ o.points.length < 2 ^ 31 ∧ o.triangles.length < 2 ^ 31

theorem decObj_no_panic (lf : Leafs) (bs : Bytes) : decObj lf bs ≠ .panic := by
  unfold decObj
  split
  · split
    · split
      · split
        · split
          · simp
          · simp
          · rename_i h; exact absurd h (Props.C04.decElems_no_panic _ _ _ _)
        · simp
        · rename_i h; exact absurd h (Props.C04.decElems_no_panic _ _ _ _)
      · simp
    · simp
  · simp
  · rename_i h; exact absurd h (Props.C04.decFields_no_panic _ _ _)

theorem decObj_ok_iff (lf : Leafs) (x : Bytes) (o : Obj) (r : Bytes) (h : decObj lf x = .ok (o, r)) :
    ∃ b1 b2 np nt, decFields noEnv lf.objHeader x = .ok (o.header, b1) ∧
      countsOf lf.objHeader o.header = [np, nt] ∧ countOk np = true ∧ countOk nt = true ∧
      decElems noEnv lf.point np b1 = .ok (o.points, b2) ∧ decElems noEnv lf.triangle nt b2 = .ok (o.triangles, r) := by
  unfold decObj at h
  cases hh : decFields noEnv lf.objHeader x with
  | err e => simp [hh] at h
  | panic => simp [hh] at h
  | ok q =>
    obtain ⟨hv, b1⟩ := q
    simp only [hh] at h
    split at h
    · rename_i np nt hc
      split at h
      · rename_i hok
        simp only [Bool.and_eq_true] at hok
        cases hd : decElems noEnv lf.point np b1 with
        | err e => simp [hd] at h
        | panic => simp [hd] at h
        | ok q2 =>
          obtain ⟨ps, b2⟩ := q2
          simp only [hd] at h
          cases hd2 : decElems noEnv lf.triangle nt b2 with
          | err e => simp [hd2] at h
          | panic => simp [hd2] at h
          | ok q3 =>
            obtain ⟨ts, b3⟩ := q3
            simp only [hd2] at h
            injection h with h; injection h with h1 h2; subst h1; subst h2
            exact ⟨b1, b2, np, nt, rfl, hc, hok.1, hok.2, hd, hd2⟩
      · cases h
    · cases h

theorem decObj_of_steps (lf : Leafs) (x : Bytes) (hv : List Val) (ps ts : List (List Val)) (r b1 b2 : Bytes) (np nt : Nat)
    (h2 : decFields noEnv lf.objHeader x = .ok (hv, b1))
    (h3 : countsOf lf.objHeader hv = [np, nt]) (h4 : countOk np = true) (h4' : countOk nt = true)
    (h5 : decElems noEnv lf.point np b1 = .ok (ps, b2)) (h6 : decElems noEnv lf.triangle nt b2 = .ok (ts, r)) :
    decObj lf x = .ok ({ header := hv, points := ps, triangles := ts }, r) := by
  unfold decObj
  simp only [h2, h3, h4, h4', Bool.and_self, if_true, h5, h6]

theorem obj_ext (lf : Leafs) (hok : ObjOk lf = true) (x y : Bytes) (o : Obj) (r : Bytes)
    (h : decObj lf x = .ok (o, r)) (hrne : r ≠ []) : decObj lf (x ++ y) = .ok (o, r ++ y) := by
  obtain ⟨hh, _, hp, ht, _⟩ := ObjOk_parts lf hok
  obtain ⟨_, _, hx⟩ := hdrOk_parts _ hh
  obtain ⟨_, _, _, _, hxp⟩ := eltOk_parts _ hp
  obtain ⟨_, _, _, _, hxt⟩ := eltOk_parts _ ht
  obtain ⟨b1, b2, np, nt, h2, h3, h4, h4', h5, h6⟩ := decObj_ok_iff lf x o r h
  have hb2 : b2 ≠ [] := by
    intro hn
    have hle := decElems_le noEnv _ nt b2 _ r h6
    rw [hn] at hle
    exact hrne (List.length_eq_zero_iff.mp (Nat.le_zero.mp hle))
  exact decObj_of_steps lf (x ++ y) o.header o.points o.triangles (r ++ y) (b1 ++ y) (b2 ++ y) np nt
    (decFields_ext noEnv _ hx _ y _ _ h2) h3 h4 h4' (decElems_ext' noEnv _ hxp np _ y _ _ h5 hb2)
    (decElems_ext' noEnv _ hxt nt _ y _ _ h6 hrne)

/-- an object consumes at least one byte, and at least one per point and per triangle -/
theorem obj_size (lf : Leafs) (hok : ObjOk lf = true) (x : Bytes) (o : Obj) (r : Bytes)
    (h : decObj lf x = .ok (o, r)) : 1 + o.points.length + o.triangles.length + r.length ≤ x.length := by
  obtain ⟨hh, _, hp, ht, hne, hnp, hnt⟩ := ObjOk_parts lf hok
  obtain ⟨_, _, hx⟩ := hdrOk_parts _ hh
  obtain ⟨_, _, _, _, hxp⟩ := eltOk_parts _ hp
  obtain ⟨_, _, _, _, hxt⟩ := eltOk_parts _ ht
  obtain ⟨b1, b2, np, nt, h2, h3, h4, h4', h5, h6⟩ := decObj_ok_iff lf x o r h
  have l1 := decFields_lt noEnv _ (extOk_pos _ hx) hne x _ b1 h2
  have l2 := decElems_count_le lf.point hxp hnp np b1 _ b2 h5
  have l3 := decElems_count_le lf.triangle hxt hnt nt b2 _ r h6
  omega

theorem obj_write_parse (lf : Leafs) (hok : ObjOk lf = true) (o : Obj) (hr : RepObj lf o) (b r : Bytes)
    (he : encObj lf o = .ok b) : decObj lf (b ++ r) = .ok (o, r) := by
  obtain ⟨hh, hn, hp, ht, _⟩ := ObjOk_parts lf hok
  obtain ⟨hf, hs, _⟩ := hdrOk_parts _ hh
  obtain ⟨r1, r2, r3, r4, r5⟩ := hr
  unfold encObj at he
  cases e1 : encFieldsC noEnv [o.points.length, o.triangles.length] lf.objHeader o.header with
  | err e => simp [e1] at he
  | panic => simp [e1] at he
  | ok hb =>
    simp only [e1] at he
    obtain ⟨pb, e2, d2⟩ := encElems_decElems lf.point hp o.points r2
    obtain ⟨tb, e3, d3⟩ := encElems_decElems lf.triangle ht o.triangles r3
    simp only [e2, e3] at he
    injection he with he; subst he
    have d1 := decFields_encFieldsC lf.objHeader hs _ _ hb (pb ++ (tb ++ r)) r1 e1
    have c1 := countsOf_rep lf.objHeader _ _ r1
    rw [hn] at c1
    have := decObj_of_steps lf (hb ++ (pb ++ (tb ++ r))) o.header o.points o.triangles r (pb ++ (tb ++ r)) (tb ++ r)
      o.points.length o.triangles.length d1 (by simpa using c1) (by simp [countOk]; exact r4) (by simp [countOk]; exact r5)
      (d2 _) (d3 r)
    simpa [List.append_assoc] using this

theorem obj_parsed_rep (lf : Leafs) (hok : ObjOk lf = true) (x : Bytes) (hx : IsBytes x) (o : Obj) (r : Bytes)
    (h : decObj lf x = .ok (o, r)) : RepObj lf o ∧ IsBytes r := by
  obtain ⟨hh, hn, hp, ht, _⟩ := ObjOk_parts lf hok
  obtain ⟨hf, hs, _⟩ := hdrOk_parts _ hh
  obtain ⟨b1, b2, np, nt, h2, h3, h4, h4', h5, h6⟩ := decObj_ok_iff lf x o r h
  obtain ⟨q1, q2⟩ := decFields_rep lf.objHeader hf x _ b1 hx h2
  obtain ⟨q3, q4, q5⟩ := decElems_rep lf.point hp np b1 _ b2 q2 h5
  obtain ⟨q6, q7, q8⟩ := decElems_rep lf.triangle ht nt b2 _ r q4 h6
  rw [h3] at q1
  refine ⟨⟨by rw [q5, q8]; exact q1, q3, q6, ?_, ?_⟩, q7⟩
  · rw [q5]; simpa [countOk] using h4
  · rw [q8]; simpa [countOk] using h4'

theorem obj_enc_ok (lf : Leafs) (hok : ObjOk lf = true) (o : Obj) (hr : RepObj lf o) : ∃ b, encObj lf o = .ok b := by
  obtain ⟨hh, hn, hp, ht, _⟩ := ObjOk_parts lf hok
  obtain ⟨hf, hs, _⟩ := hdrOk_parts _ hh
  obtain ⟨r1, r2, r3, _, _⟩ := hr
  obtain ⟨hb, e1⟩ := encFieldsC_ok lf.objHeader hf _ _ r1
  obtain ⟨pb, e2, _⟩ := encElems_decElems lf.point hp o.points r2
  obtain ⟨tb, e3, _⟩ := encElems_decElems lf.triangle ht o.triangles r3
  exact ⟨hb ++ pb ++ tb, by simp only [encObj, e1, e2, e3]⟩

/-- canonical bytes for one object: header, points and triangles -/
def CanonObj (lf : Leafs) (x : Bytes) : Prop :=
  CanonFields lf.objHeader x ∧
  ∀ hv b1 np nt, decFields noEnv lf.objHeader x = .ok (hv, b1) → countsOf lf.objHeader hv = [np, nt] →
    CanonElems lf.point np b1 ∧ ∀ ps b2, decElems noEnv lf.point np b1 = .ok (ps, b2) → CanonElems lf.triangle nt b2

theorem obj_canonical (lf : Leafs) (hok : ObjOk lf = true) (x : Bytes) (hx : IsBytes x) (hcan : CanonObj lf x)
    (o : Obj) (r : Bytes) (h : decObj lf x = .ok (o, r)) : ∃ b, encObj lf o = .ok b ∧ x = b ++ r := by
  obtain ⟨hh, hn, hp, ht, _⟩ := ObjOk_parts lf hok
  obtain ⟨hf, hs, _⟩ := hdrOk_parts _ hh
  obtain ⟨b1, b2, np, nt, h2, h3, h4, h4', h5, h6⟩ := decObj_ok_iff lf x o r h
  obtain ⟨c1, c2⟩ := hcan
  obtain ⟨c3, c4⟩ := c2 _ b1 np nt h2 h3
  obtain ⟨hb, e1, x1⟩ := decFields_canon lf.objHeader hf hs x _ b1 hx c1 h2
  obtain ⟨_, q2⟩ := decFields_rep lf.objHeader hf x _ b1 hx h2
  obtain ⟨pb, e2, x2⟩ := decElems_canon lf.point hp np b1 _ b2 q2 c3 h5
  obtain ⟨_, q4, q5⟩ := decElems_rep lf.point hp np b1 _ b2 q2 h5
  obtain ⟨tb, e3, x3⟩ := decElems_canon lf.triangle ht nt b2 _ r q4 (c4 _ b2 h5) h6
  obtain ⟨_, _, q8⟩ := decElems_rep lf.triangle ht nt b2 _ r q4 h6
  rw [h3] at e1
  refine ⟨hb ++ pb ++ tb, by simp only [encObj, q5, q8, e1, e2, e3], ?_⟩
  rw [x1, x2, x3]; simp [List.append_assoc]

/-! ## object lists -/

theorem decObjs_no_panic (lf : Leafs) : ∀ (k : Nat) (bs : Bytes), decObjs lf k bs ≠ .panic := by
  intro k
  induction k with
  | zero => intro bs; simp [decObjs]
  | succ k ih =>
    intro bs
    simp only [decObjs]
    cases h1 : decObj lf bs with
    | err e => simp
    | panic => exact absurd h1 (decObj_no_panic lf bs)
    | ok p =>
      obtain ⟨o, r⟩ := p
      simp only
      cases h2 : decObjs lf k r with
      | err e => simp
      | panic => exact absurd h2 (ih r)
      | ok q => simp

/-- the shape of a successful object-list parse -/
theorem decObjs_succ (lf : Leafs) (k : Nat) (x : Bytes) (os : List Obj) (r : Bytes)
    (h : decObjs lf (k + 1) x = .ok (os, r)) :
    ∃ o os' r1, os = o :: os' ∧ decObj lf x = .ok (o, r1) ∧ decObjs lf k r1 = .ok (os', r) := by
  simp only [decObjs] at h
  cases h1 : decObj lf x with
  | err e => simp [h1] at h
  | panic => simp [h1] at h
  | ok p =>
    obtain ⟨o, r1⟩ := p
    simp only [h1] at h
    cases h2 : decObjs lf k r1 with
    | err e => simp [h2] at h
    | panic => simp [h2] at h
    | ok q =>
      obtain ⟨os', r2⟩ := q
      simp only [h2] at h
      injection h with h; injection h with ha hb; subst ha; subst hb
      exact ⟨o, os', r1, rfl, rfl, h2⟩

theorem decObjs_zero (lf : Leafs) (x : Bytes) (os : List Obj) (r : Bytes) (h : decObjs lf 0 x = .ok (os, r)) :
    os = [] ∧ r = x := by
  simp only [decObjs] at h; injection h with h; injection h with h1 h2; exact ⟨h1.symm, h2.symm⟩

theorem decObj_le (lf : Leafs) (x : Bytes) (o : Obj) (r : Bytes) (h : decObj lf x = .ok (o, r)) :
    r.length ≤ x.length := by
  obtain ⟨b1, b2, np, nt, h2, _, _, _, h5, h6⟩ := decObj_ok_iff lf x o r h
  have := decFields_le noEnv _ x _ b1 h2
  have := decElems_le noEnv _ np b1 _ b2 h5
  have := decElems_le noEnv _ nt b2 _ r h6
  omega

theorem decObjs_le (lf : Leafs) :
    ∀ (k : Nat) (x : Bytes) (os : List Obj) (r : Bytes), decObjs lf k x = .ok (os, r) → r.length ≤ x.length := by
  intro k
  induction k with
  | zero => intro x os r h; obtain ⟨_, rfl⟩ := decObjs_zero lf x os r h; exact Nat.le_refl _
  | succ k ih =>
    intro x os r h
    obtain ⟨o, os', r1, rfl, h1, h2⟩ := decObjs_succ lf k x os r h
    have := decObj_le lf x o r1 h1
    have := ih r1 os' r h2
    omega

theorem objs_ext (lf : Leafs) (hok : ObjOk lf = true) :
    ∀ (k : Nat) (x y : Bytes) (os : List Obj) (r : Bytes), decObjs lf k x = .ok (os, r) → r ≠ [] →
      decObjs lf k (x ++ y) = .ok (os, r ++ y) := by
  intro k
  induction k with
  | zero => intro x y os r h _; obtain ⟨rfl, rfl⟩ := decObjs_zero lf x os r h; simp [decObjs]
  | succ k ih =>
    intro x y os r h hrne
    obtain ⟨o, os', r1, rfl, h1, h2⟩ := decObjs_succ lf k x os r h
    have hr1 : r1 ≠ [] := by
      intro hn
      have hle := decObjs_le lf k r1 os' r h2
      rw [hn] at hle
      exact hrne (List.length_eq_zero_iff.mp (Nat.le_zero.mp hle))
    simp only [decObjs, obj_ext lf hok x y o r1 h1 hr1, ih r1 y os' r h2 hrne]

def objsWeight : List Obj → Nat
  | [] => 0
  | o :: os => 1 + o.points.length + o.triangles.length + objsWeight os

/-- objects, points and triangles together never outnumber the input bytes -/
theorem objs_size (lf : Leafs) (hok : ObjOk lf = true) :
    ∀ (k : Nat) (x : Bytes) (os : List Obj) (r : Bytes), decObjs lf k x = .ok (os, r) →
      objsWeight os + r.length ≤ x.length ∧ os.length = k := by
  intro k
  induction k with
  | zero => intro x os r h; obtain ⟨rfl, rfl⟩ := decObjs_zero lf x os r h; simp [objsWeight]
  | succ k ih =>
    intro x os r h
    obtain ⟨o, os', r1, rfl, h1, h2⟩ := decObjs_succ lf k x os r h
    have := obj_size lf hok x o r1 h1
    obtain ⟨i1, i2⟩ := ih r1 os' r h2
    simp only [objsWeight, List.length_cons]; omega

def RepObjs (lf : Leafs) (os : List Obj) : Prop := ∀ o ∈ os, RepObj lf o

theorem objs_write_parse (lf : Leafs) (hok : ObjOk lf = true) :
    ∀ (os : List Obj), RepObjs lf os → ∃ b, encObjs lf os = .ok b ∧ ∀ r, decObjs lf os.length (b ++ r) = .ok (os, r) := by
  intro os
  induction os with
  | nil => intro _; exact ⟨[], rfl, fun r => by simp [decObjs]⟩
  | cons o os ih =>
    intro hr
    obtain ⟨b1, e1⟩ := obj_enc_ok lf hok o (hr o (by simp))
    obtain ⟨b2, e2, d2⟩ := ih (fun x hx => hr x (by simp [hx]))
    refine ⟨b1 ++ b2, by simp only [encObjs, e1, e2], fun r => ?_⟩
    have d1 := obj_write_parse lf hok o (hr o (by simp)) b1 (b2 ++ r) e1
    simp only [List.length_cons, decObjs, List.append_assoc, d1, d2 r]

theorem objs_parsed_rep (lf : Leafs) (hok : ObjOk lf = true) :
    ∀ (k : Nat) (x : Bytes) (os : List Obj) (r : Bytes), IsBytes x → decObjs lf k x = .ok (os, r) →
      RepObjs lf os ∧ IsBytes r := by
  intro k
  induction k with
  | zero => intro x os r hx h; obtain ⟨rfl, rfl⟩ := decObjs_zero lf x os r h; exact ⟨fun o ho => (by cases ho), hx⟩
  | succ k ih =>
    intro x os r hx h
    obtain ⟨o, os', r1, rfl, h1, h2⟩ := decObjs_succ lf k x os r h
    obtain ⟨q1, q2⟩ := obj_parsed_rep lf hok x hx o r1 h1
    obtain ⟨q3, q4⟩ := ih r1 os' r q2 h2
    refine ⟨?_, q4⟩
    intro o' ho'
    simp only [List.mem_cons] at ho'
    rcases ho' with rfl | ho'
    · exact q1
    · exact q3 o' ho'

def CanonObjs (lf : Leafs) : Nat → Bytes → Prop
  | 0, _ => True
  | k + 1, x => CanonObj lf x ∧ ∀ o r1, decObj lf x = .ok (o, r1) → CanonObjs lf k r1

theorem objs_canonical (lf : Leafs) (hok : ObjOk lf = true) :
    ∀ (k : Nat) (x : Bytes) (os : List Obj) (r : Bytes), IsBytes x → CanonObjs lf k x → decObjs lf k x = .ok (os, r) →
      ∃ b, encObjs lf os = .ok b ∧ x = b ++ r := by
  intro k
  induction k with
  | zero => intro x os r hx _ h; obtain ⟨rfl, rfl⟩ := decObjs_zero lf x os r h; exact ⟨[], rfl, rfl⟩
  | succ k ih =>
    intro x os r hx hcan h
    obtain ⟨o, os', r1, rfl, h1, h2⟩ := decObjs_succ lf k x os r h
    obtain ⟨b1, e1, x1⟩ := obj_canonical lf hok x hx hcan.1 o r1 h1
    obtain ⟨_, q2⟩ := obj_parsed_rep lf hok x hx o r1 h1
    obtain ⟨b2, e2, x2⟩ := ih r1 os' r q2 (hcan.2 o r1 h1) h2
    exact ⟨b1 ++ b2, by simp only [encObjs, e1, e2], by rw [x1, x2, List.append_assoc]⟩

/-! ## checkpoint indices -/

theorem decI32s_no_panic : ∀ (k : Nat) (bs : Bytes), decI32s k bs ≠ .panic := by
  intro k
  induction k with
  | zero => intro bs; simp [decI32s]
  | succ k ih =>
    intro bs
    simp only [decI32s]
    split
    · simp
    · cases h2 : decI32s k (bs.drop 4) with
      | err e => simp
      | panic => exact absurd h2 (ih _)
      | ok q => simp

theorem decI32s_succ (k : Nat) (x : Bytes) (cs : List Nat) (r : Bytes) (h : decI32s (k + 1) x = .ok (cs, r)) :
    4 ≤ x.length ∧ ∃ cs', cs = ofLe (x.take 4) :: cs' ∧ decI32s k (x.drop 4) = .ok (cs', r) := by
  simp only [decI32s] at h
  split at h
  · cases h
  · rename_i hl
    cases h2 : decI32s k (x.drop 4) with
    | err e => simp [h2] at h
    | panic => simp [h2] at h
    | ok q =>
      obtain ⟨cs', r2⟩ := q
      simp only [h2] at h
      injection h with h; injection h with ha hb; subst ha; subst hb
      exact ⟨by omega, cs', rfl, rfl⟩

theorem decI32s_zero (x : Bytes) (cs : List Nat) (r : Bytes) (h : decI32s 0 x = .ok (cs, r)) : cs = [] ∧ r = x := by
  simp only [decI32s] at h; injection h with h; injection h with h1 h2; exact ⟨h1.symm, h2.symm⟩

theorem i32s_ext : ∀ (k : Nat) (x y : Bytes) (cs : List Nat) (r : Bytes), decI32s k x = .ok (cs, r) →
    decI32s k (x ++ y) = .ok (cs, r ++ y) := by
  intro k
  induction k with
  | zero => intro x y cs r h; obtain ⟨rfl, rfl⟩ := decI32s_zero x cs r h; simp [decI32s]
  | succ k ih =>
    intro x y cs r h
    obtain ⟨hl, cs', rfl, h2⟩ := decI32s_succ k x cs r h
    have hn : ¬ (x ++ y).length < 4 := by simp; omega
    simp only [decI32s, hn, if_false, List.take_append_of_le_length hl, List.drop_append_of_le_length hl,
      ih _ y cs' r h2]

theorem i32s_size : ∀ (k : Nat) (x : Bytes) (cs : List Nat) (r : Bytes), decI32s k x = .ok (cs, r) →
    4 * cs.length + r.length = x.length ∧ cs.length = k := by
  intro k
  induction k with
  | zero => intro x cs r h; obtain ⟨rfl, rfl⟩ := decI32s_zero x cs r h; simp
  | succ k ih =>
    intro x cs r h
    obtain ⟨hl, cs', rfl, h2⟩ := decI32s_succ k x cs r h
    obtain ⟨i1, i2⟩ := ih _ cs' r h2
    simp only [List.length_drop, List.length_cons] at i1 ⊢; omega

def RepI32s (cs : List Nat) : Prop := ∀ c ∈ cs, c < 256 ^ 4

theorem i32s_write_parse : ∀ (cs : List Nat) (r : Bytes), RepI32s cs →
    decI32s cs.length (cs.flatMap (leBytes 4) ++ r) = .ok (cs, r) := by
  intro cs
  induction cs with
  | nil => intro r _; simp [decI32s]
  | cons c cs ih =>
    intro r hr
    have hc := hr c (by simp)
    have i := ih r (fun x hx => hr x (by simp [hx]))
    have hl : (leBytes 4 c).length = 4 := leBytes_length 4 c
    have e1 : (leBytes 4 c ++ (cs.flatMap (leBytes 4) ++ r)).take 4 = leBytes 4 c := List.take_left' hl
    have e2 : (leBytes 4 c ++ (cs.flatMap (leBytes 4) ++ r)).drop 4 = cs.flatMap (leBytes 4) ++ r := List.drop_left' hl
    have hn : ¬ (leBytes 4 c ++ (cs.flatMap (leBytes 4) ++ r)).length < 4 := by simp
    simp only [List.flatMap_cons, List.length_cons, decI32s, List.append_assoc, hn, if_false, e1, e2, i,
      ofLe_leBytes 4 c hc]

theorem i32s_parsed : ∀ (k : Nat) (x : Bytes) (cs : List Nat) (r : Bytes), IsBytes x → decI32s k x = .ok (cs, r) →
    RepI32s cs ∧ IsBytes r ∧ x = cs.flatMap (leBytes 4) ++ r := by
  intro k
  induction k with
  | zero => intro x cs r hx h; obtain ⟨rfl, rfl⟩ := decI32s_zero x cs r h; exact ⟨fun c hc => (by cases hc), hx, rfl⟩
  | succ k ih =>
    intro x cs r hx h
    obtain ⟨hl, cs', rfl, h2⟩ := decI32s_succ k x cs r h
    obtain ⟨i1, i2, i3⟩ := ih _ cs' r (isBytes_drop x 4 hx) h2
    have hraw := isBytes_take x 4 hx
    have hlen : (x.take 4).length = 4 := by simp; omega
    have hlt := ofLe_lt _ hraw
    have hle := leBytes_ofLe _ hraw
    rw [hlen] at hlt hle
    refine ⟨?_, i2, ?_⟩
    · intro c hc
      simp only [List.mem_cons] at hc
      rcases hc with rfl | hc
      · exact hlt
      · exact i1 c hc
    · simp only [List.flatMap_cons, hle, List.append_assoc, ← i3, List.take_append_drop]




/-! ## SMX -/

/-- the checkpoint count is a single pad-free 4-byte count field -/
def CkOk (lf : Leafs) : Bool :=
  hdrOk lf.checkpointCount && nCounts lf.checkpointCount == 1 && lf.checkpointCount.length == 1 &&
  canonFree lf.checkpointCount && lf.checkpointCount.all (fun f => wireSize f.ty == 4)

def SmxOk (lf : Leafs) : Bool :=
  hdrOk lf.smxHeader && nCounts lf.smxHeader == 1 && ObjOk lf && CkOk lf

theorem SmxOk_parts (lf : Leafs) (h : SmxOk lf = true) :
    hdrOk lf.smxHeader = true ∧ nCounts lf.smxHeader = 1 ∧ ObjOk lf = true ∧ CkOk lf = true := by
  simp only [SmxOk, Bool.and_eq_true, beq_iff_eq] at h
  exact ⟨h.1.1.1, h.1.1.2, h.1.2, h.2⟩

theorem CkOk_parts (lf : Leafs) (h : CkOk lf = true) :
    hdrOk lf.checkpointCount = true ∧ nCounts lf.checkpointCount = 1 ∧ canonFree lf.checkpointCount = true ∧
    ∃ f s, lf.checkpointCount = [f] ∧ f.ty = .count 4 s := by
  simp only [CkOk, Bool.and_eq_true, beq_iff_eq] at h
  obtain ⟨⟨⟨⟨h1, h2⟩, h3⟩, h4⟩, h5⟩ := h
  refine ⟨h1, h2, h4, ?_⟩
  cases hc : lf.checkpointCount with
  | nil => rw [hc] at h3; simp at h3
  | cons f fs =>
    cases fs with
    | cons g gs => rw [hc] at h3; simp at h3
    | nil =>
      rw [hc] at h2 h5
      simp only [List.all_cons, List.all_nil, Bool.and_true, beq_iff_eq] at h5
      cases hty : f.ty with
      | count w s =>
        rw [hty] at h5; simp only [wireSize] at h5; subst h5
        exact ⟨f, s, rfl, hty⟩
      | _ => simp [nCounts, hty] at h2

/-- decoded values of the checkpoint-count field list are exactly one number -/
theorem ck_vals (lf : Leafs) (h : CkOk lf = true) (cs : List Nat) (cv : List Val)
    (hr : RepC cs lf.checkpointCount cv) : cv = [.n (cs.headD 0)] := by
  obtain ⟨_, _, _, f, s, hf, hty⟩ := CkOk_parts lf h
  rw [hf] at hr
  obtain ⟨h1, _, h3⟩ := hr
  rw [hty] at h1 h3
  simp only [RepAny, arity, cntFor] at h1
  simp only [RepC, arity] at h3
  have := List.take_append_drop 1 cv
  rw [h1.1, h3] at this
  simpa using this.symm

theorem ck_rep (lf : Leafs) (h : CkOk lf = true) (n : Nat) (hn : n < 2 ^ 31) :
    RepC [n] lf.checkpointCount [.n n] := by
  obtain ⟨_, _, _, f, s, hf, hty⟩ := CkOk_parts lf h
  rw [hf]
  refine ⟨?_, fun _ _ _ => by simp, ?_⟩
  · rw [hty]; simp only [RepAny, arity, cntFor, List.headD_cons, List.take_succ_cons, List.take_zero, true_and]
    omega
  · rw [hty]; simp [RepC, arity]

def RepSmx (lf : Leafs) (s : Smx) : Prop :=
  RepC [s.objects.length] lf.smxHeader s.header ∧ RepObjs lf s.objects ∧ RepI32s s.checkpoints ∧
  s.objects.length < 2 ^ 31 ∧ s.checkpoints.length < 2 ^ 31

theorem decSmx_no_panic (lf : Leafs) (bs : Bytes) : decSmx lf bs ≠ .panic := by
  unfold decSmx
  split
  · simp
  · split
    · split
      · split
        · split
          · split
            · split
              · split
                · split
                  · simp
                  · simp
                  · rename_i h; exact absurd h (decI32s_no_panic _ _)
                · simp
              · simp
            · simp
            · rename_i h; exact absurd h (Props.C04.decFields_no_panic _ _ _)
          · simp
          · rename_i h; exact absurd h (decObjs_no_panic lf _ _)
        · simp
      · simp
    · simp
    · rename_i h; exact absurd h (Props.C04.decFields_no_panic _ _ _)

theorem decSmx_ok_iff (lf : Leafs) (x : Bytes) (s : Smx) (r : Bytes) (h : decSmx lf x = .ok (s, r)) :
    ∃ b1 b2 b3 b4 no cv nc, dropMagic lf.smxMagic x = some b1 ∧ decFields noEnv lf.smxHeader b1 = .ok (s.header, b2) ∧
      countsOf lf.smxHeader s.header = [no] ∧ countOk no = true ∧ decObjs lf no b2 = .ok (s.objects, b3) ∧
      decFields noEnv lf.checkpointCount b3 = .ok (cv, b4) ∧ countsOf lf.checkpointCount cv = [nc] ∧
      countOk nc = true ∧ decI32s nc b4 = .ok (s.checkpoints, r) := by
  unfold decSmx at h
  cases hm : dropMagic lf.smxMagic x with
  | none => simp [hm] at h
  | some b1 =>
    simp only [hm] at h
    cases hh : decFields noEnv lf.smxHeader b1 with
    | err e => simp [hh] at h
    | panic => simp [hh] at h
    | ok q =>
      obtain ⟨hv, b2⟩ := q
      simp only [hh] at h
      split at h
      · rename_i no hc
        split at h
        · rename_i hok
          cases hd : decObjs lf no b2 with
          | err e => simp [hd] at h
          | panic => simp [hd] at h
          | ok q2 =>
            obtain ⟨os, b3⟩ := q2
            simp only [hd] at h
            cases hk : decFields noEnv lf.checkpointCount b3 with
            | err e => simp [hk] at h
            | panic => simp [hk] at h
            | ok q3 =>
              obtain ⟨cv, b4⟩ := q3
              simp only [hk] at h
              split at h
              · rename_i nc hcc
                split at h
                · rename_i hok2
                  cases hi : decI32s nc b4 with
                  | err e => simp [hi] at h
                  | panic => simp [hi] at h
                  | ok q4 =>
                    obtain ⟨cs, rest⟩ := q4
                    simp only [hi] at h
                    injection h with h; injection h with h1 h2; subst h1; subst h2
                    exact ⟨b1, b2, b3, b4, no, cv, nc, rfl, hh, hc, hok, hd, hk, hcc, hok2, hi⟩
                · cases h
              · cases h
        · cases h
      · cases h

theorem decSmx_of_steps (lf : Leafs) (x : Bytes) (hv : List Val) (os : List Obj) (cs : List Nat)
    (r b1 b2 b3 b4 : Bytes) (no nc : Nat) (cv : List Val)
    (h1 : dropMagic lf.smxMagic x = some b1) (h2 : decFields noEnv lf.smxHeader b1 = .ok (hv, b2))
    (h3 : countsOf lf.smxHeader hv = [no]) (h4 : countOk no = true) (h5 : decObjs lf no b2 = .ok (os, b3))
    (h6 : decFields noEnv lf.checkpointCount b3 = .ok (cv, b4)) (h7 : countsOf lf.checkpointCount cv = [nc])
    (h8 : countOk nc = true) (h9 : decI32s nc b4 = .ok (cs, r)) :
    decSmx lf x = .ok ({ header := hv, objects := os, checkpoints := cs }, r) := by
  unfold decSmx
  simp only [h1, h2, h3, h4, if_true, h5, h6, h7, h8, h9]

theorem smx_ext (lf : Leafs) (hok : SmxOk lf = true) (x y : Bytes) (s : Smx) (r : Bytes)
    (h : decSmx lf x = .ok (s, r)) : decSmx lf (x ++ y) = .ok (s, r ++ y) := by
  obtain ⟨hh, _, ho, hck⟩ := SmxOk_parts lf hok
  obtain ⟨_, _, hx⟩ := hdrOk_parts _ hh
  obtain ⟨hch, _, _, _⟩ := CkOk_parts lf hck
  obtain ⟨_, _, hxc⟩ := hdrOk_parts _ hch
  obtain ⟨b1, b2, b3, b4, no, cv, nc, h1, h2, h3, h4, h5, h6, h7, h8, h9⟩ := decSmx_ok_iff lf x s r h
  have hb3 : b3 ≠ [] := by
    intro hn; rw [hn] at h6
    obtain ⟨_, _, _, f, sg, hf, _⟩ := CkOk_parts lf hck
    exact decFields_nil_err noEnv _ (extOk_pos _ hxc) (by rw [hf]; simp) cv b4 h6
  exact decSmx_of_steps lf (x ++ y) s.header s.objects s.checkpoints (r ++ y) (b1 ++ y) (b2 ++ y) (b3 ++ y) (b4 ++ y)
    no nc cv (dropMagic_ext _ _ _ _ h1) (decFields_ext noEnv _ hx _ y _ _ h2) h3 h4 (objs_ext lf ho no _ y _ _ h5 hb3)
    (decFields_ext noEnv _ hxc _ y _ _ h6) h7 h8 (i32s_ext nc _ y _ _ h9)

theorem smx_prefix_rejected (lf : Leafs) (hok : SmxOk lf = true) (c t : Bytes) (s : Smx)
    (hd : decSmx lf (c ++ t) = .ok (s, t)) (k : Nat) (hk : k < c.length) :
    ∃ e, decSmx lf (c.take k) = .err e := by
  cases hq : decSmx lf (c.take k) with
  | err e => exact ⟨e, rfl⟩
  | panic => exact absurd hq (decSmx_no_panic lf _)
  | ok q =>
    exfalso
    obtain ⟨s', r'⟩ := q
    have := smx_ext lf hok (c.take k) (c.drop k ++ t) s' r' hq
    rw [← List.append_assoc, List.take_append_drop, hd] at this
    injection this with this; injection this with _ h2
    have := congrArg List.length h2
    simp at this; omega

theorem smx_size_justified (lf : Leafs) (hok : SmxOk lf = true) (x : Bytes) (s : Smx) (r : Bytes)
    (h : decSmx lf x = .ok (s, r)) : objsWeight s.objects + 4 * s.checkpoints.length + r.length ≤ x.length := by
  obtain ⟨hh, _, ho, hck⟩ := SmxOk_parts lf hok
  obtain ⟨b1, b2, b3, b4, no, cv, nc, h1, h2, h3, h4, h5, h6, h7, h8, h9⟩ := decSmx_ok_iff lf x s r h
  have l1 := congrArg List.length (dropMagic_eq _ _ _ h1)
  have l2 := decFields_le noEnv _ b1 _ b2 h2
  have l3 := (objs_size lf ho no b2 _ b3 h5).1
  have l4 := decFields_le noEnv _ b3 _ b4 h6
  have l5 := (i32s_size nc b4 _ r h9).1
  simp at l1; omega

theorem smx_negative_object_count (lf : Leafs) (x b1 b2 : Bytes) (hv : List Val) (n : Nat)
    (h1 : dropMagic lf.smxMagic x = some b1) (h2 : decFields noEnv lf.smxHeader b1 = .ok (hv, b2))
    (h3 : countsOf lf.smxHeader hv = [n]) (h4 : 2 ^ 31 ≤ n) : decSmx lf x = .err .decode := by
  unfold decSmx
  have : countOk n = false := by simp [countOk]; omega
  simp [h1, h2, h3, this]

theorem obj_negative_count (lf : Leafs) (x b1 : Bytes) (hv : List Val) (np nt : Nat)
    (h2 : decFields noEnv lf.objHeader x = .ok (hv, b1))
    (h3 : countsOf lf.objHeader hv = [np, nt]) (h4 : 2 ^ 31 ≤ np ∨ 2 ^ 31 ≤ nt) : decObj lf x = .err .decode := by
  unfold decObj
  have : (countOk np && countOk nt) = false := by
    rcases h4 with h | h
    · have : countOk np = false := by simp [countOk]; omega
      simp [this]
    · have : countOk nt = false := by simp [countOk]; omega
      simp [this]
  simp [h2, h3, this]

theorem smx_write_parse (lf : Leafs) (hok : SmxOk lf = true) (s : Smx) (hr : RepSmx lf s) (b r : Bytes)
    (he : encSmx lf s = .ok b) : decSmx lf (b ++ r) = .ok (s, r) := by
  obtain ⟨hh, hn, ho, hck⟩ := SmxOk_parts lf hok
  obtain ⟨hf, hs, _⟩ := hdrOk_parts _ hh
  obtain ⟨hch, hcn, _, _⟩ := CkOk_parts lf hck
  obtain ⟨hcf, hcs, _⟩ := hdrOk_parts _ hch
  obtain ⟨r1, r2, r3, r4, r5⟩ := hr
  unfold encSmx at he
  cases e1 : encFieldsC noEnv [s.objects.length] lf.smxHeader s.header with
  | err e => simp [e1] at he
  | panic => simp [e1] at he
  | ok hb =>
    simp only [e1] at he
    obtain ⟨ob, e2, d2⟩ := objs_write_parse lf ho s.objects r2
    simp only [e2] at he
    have rck := ck_rep lf hck s.checkpoints.length r5
    cases e3 : encFieldsC noEnv [s.checkpoints.length] lf.checkpointCount [.n s.checkpoints.length] with
    | err e => simp [e3] at he
    | panic => simp [e3] at he
    | ok cb =>
      simp only [e3] at he
      injection he with he; subst he
      have d1 := decFields_encFieldsC lf.smxHeader hs _ _ hb (ob ++ (cb ++ (s.checkpoints.flatMap (leBytes 4) ++ r))) r1 e1
      have c1 := countsOf_rep lf.smxHeader _ _ r1
      rw [hn] at c1
      have d3 := decFields_encFieldsC lf.checkpointCount hcs _ _ cb (s.checkpoints.flatMap (leBytes 4) ++ r) rck e3
      have c3 := countsOf_rep lf.checkpointCount _ _ rck
      rw [hcn] at c3
      have := decSmx_of_steps lf (lf.smxMagic ++ (hb ++ (ob ++ (cb ++ (s.checkpoints.flatMap (leBytes 4) ++ r)))))
        s.header s.objects s.checkpoints r _ _ _ _ s.objects.length s.checkpoints.length _
        (dropMagic_append _ _) d1 (by simpa using c1) (by simp [countOk]; exact r4) (d2 _) d3 (by simpa using c3)
        (by simp [countOk]; exact r5) (i32s_write_parse s.checkpoints r r3)
      simpa [List.append_assoc] using this

theorem smx_parsed_rep (lf : Leafs) (hok : SmxOk lf = true) (x : Bytes) (hx : IsBytes x) (s : Smx) (r : Bytes)
    (h : decSmx lf x = .ok (s, r)) : RepSmx lf s ∧ IsBytes r := by
  obtain ⟨hh, hn, ho, hck⟩ := SmxOk_parts lf hok
  obtain ⟨hf, hs, _⟩ := hdrOk_parts _ hh
  obtain ⟨hch, hcn, _, _⟩ := CkOk_parts lf hck
  obtain ⟨hcf, hcs, _⟩ := hdrOk_parts _ hch
  obtain ⟨b1, b2, b3, b4, no, cv, nc, h1, h2, h3, h4, h5, h6, h7, h8, h9⟩ := decSmx_ok_iff lf x s r h
  have hb1 : IsBytes b1 := by
    have := dropMagic_eq _ _ _ h1
    intro b hb; exact hx b (by rw [this]; simp [hb])
  obtain ⟨q1, q2⟩ := decFields_rep lf.smxHeader hf b1 _ b2 hb1 h2
  obtain ⟨q3, q4⟩ := objs_parsed_rep lf ho no b2 _ b3 q2 h5
  obtain ⟨q5, q6⟩ := decFields_rep lf.checkpointCount hcf b3 _ b4 q4 h6
  obtain ⟨q7, q8, _⟩ := i32s_parsed nc b4 _ r q6 h9
  have l1 := (objs_size lf ho no b2 _ b3 h5).2
  have l2 := (i32s_size nc b4 _ r h9).2
  rw [h3] at q1
  refine ⟨⟨by rw [l1]; exact q1, q3, q7, ?_, ?_⟩, q8⟩
  · rw [l1]; simpa [countOk] using h4
  · rw [l2]; simpa [countOk] using h8

theorem smx_enc_ok (lf : Leafs) (hok : SmxOk lf = true) (s : Smx) (hr : RepSmx lf s) : ∃ b, encSmx lf s = .ok b := by
  obtain ⟨hh, hn, ho, hck⟩ := SmxOk_parts lf hok
  obtain ⟨hf, hs, _⟩ := hdrOk_parts _ hh
  obtain ⟨hch, hcn, _, _⟩ := CkOk_parts lf hck
  obtain ⟨hcf, hcs, _⟩ := hdrOk_parts _ hch
  obtain ⟨r1, r2, r3, r4, r5⟩ := hr
  obtain ⟨hb, e1⟩ := encFieldsC_ok lf.smxHeader hf _ _ r1
  obtain ⟨ob, e2, _⟩ := objs_write_parse lf ho s.objects r2
  obtain ⟨cb, e3⟩ := encFieldsC_ok lf.checkpointCount hcf _ _ (ck_rep lf hck s.checkpoints.length r5)
  exact ⟨lf.smxMagic ++ hb ++ ob ++ cb ++ s.checkpoints.flatMap (leBytes 4), by simp only [encSmx, e1, e2, e3]⟩

theorem smx_parse_write_parse (lf : Leafs) (hok : SmxOk lf = true) (x : Bytes) (hx : IsBytes x) (s : Smx) (r : Bytes)
    (h : decSmx lf x = .ok (s, r)) : ∃ b, encSmx lf s = .ok b ∧ decSmx lf b = .ok (s, []) := by
  obtain ⟨hr, _⟩ := smx_parsed_rep lf hok x hx s r h
  obtain ⟨b, hb⟩ := smx_enc_ok lf hok s hr
  exact ⟨b, hb, by simpa using smx_write_parse lf hok s hr b [] hb⟩

/-- an SMX file is canonical when every pad byte the parser skips is zero and the track name is
NUL-padded without junk after the terminator -/
def SmxCanonical (lf : Leafs) (x : Bytes) : Prop :=
  ∀ b1, dropMagic lf.smxMagic x = some b1 → CanonFields lf.smxHeader b1 ∧
    ∀ hv b2 no, decFields noEnv lf.smxHeader b1 = .ok (hv, b2) → countsOf lf.smxHeader hv = [no] → CanonObjs lf no b2

theorem smx_canonical (lf : Leafs) (hok : SmxOk lf = true) (x : Bytes) (hx : IsBytes x)
    (hcan : SmxCanonical lf x) (s : Smx) (r : Bytes) (h : decSmx lf x = .ok (s, r)) :
    ∃ b, encSmx lf s = .ok b ∧ x = b ++ r := by
  obtain ⟨hh, hn, ho, hck⟩ := SmxOk_parts lf hok
  obtain ⟨hf, hs, _⟩ := hdrOk_parts _ hh
  obtain ⟨hch, hcn, hccf, _⟩ := CkOk_parts lf hck
  obtain ⟨hcff, hcs, _⟩ := hdrOk_parts _ hch
  obtain ⟨b1, b2, b3, b4, no, cv, nc, h1, h2, h3, h4, h5, h6, h7, h8, h9⟩ := decSmx_ok_iff lf x s r h
  have hxe := dropMagic_eq _ _ _ h1
  have hb1 : IsBytes b1 := by
    intro b hb; exact hx b (by rw [hxe]; simp [hb])
  obtain ⟨hcan', hcan2⟩ := hcan b1 h1
  obtain ⟨hb, e1, x1⟩ := decFields_canon lf.smxHeader hf hs b1 _ b2 hb1 hcan' h2
  obtain ⟨_, q2⟩ := decFields_rep lf.smxHeader hf b1 _ b2 hb1 h2
  obtain ⟨ob, e2, x2⟩ := objs_canonical lf ho no b2 _ b3 q2 (hcan2 _ b2 no h2 h3) h5
  obtain ⟨_, q4⟩ := objs_parsed_rep lf ho no b2 _ b3 q2 h5
  obtain ⟨cb, e3, x3⟩ := decFields_canon lf.checkpointCount hcff hcs b3 _ b4 q4 (canonFree_canon _ hccf _) h6
  obtain ⟨q5, q6⟩ := decFields_rep lf.checkpointCount hcff b3 _ b4 q4 h6
  obtain ⟨_, _, x4⟩ := i32s_parsed nc b4 _ r q6 h9
  have l1 := (objs_size lf ho no b2 _ b3 h5).2
  have l2 := (i32s_size nc b4 _ r h9).2
  have hcv := ck_vals lf hck _ cv q5
  rw [h7] at hcv e3
  simp only [List.headD_cons] at hcv
  rw [h3] at e1
  rw [hcv] at e3
  refine ⟨lf.smxMagic ++ hb ++ ob ++ cb ++ s.checkpoints.flatMap (leBytes 4), by simp only [encSmx, l1, l2, e1, e2, e3], ?_⟩
  rw [hxe, x1, x2, x3, x4]; simp [List.append_assoc]


end Insim.Files
