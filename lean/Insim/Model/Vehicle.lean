import Insim.Base.Bytes
import Insim.Base.Table
/-
Hand model of `insim_core::vehicle::Vehicle`'s `BinRead`/`BinWrite`/`Display`
(insim_core/src/vehicle.rs). The three tables are *parameters*; `Insim.Gen.Vehicle`
supplies them, regenerated from the source on every run.
-/
namespace Insim.Vehicle

/-- variant names are ASCII code lists so that `decide` never has to reduce a `String` -/
abbrev Name := List Nat

inductive Veh where
  | builtin (n : Name)
  | mod (id : Nat)
  | unknown
  deriving DecidableEq, Repr

/-- `u8::is_ascii_alphanumeric` -/
def isAlnum (b : Nat) : Bool := (48 ≤ b && b ≤ 57) || (65 ≤ b && b ≤ 90) || (97 ≤ b && b ≤ 122)

/-- `bytes[0..=2].iter().all(|c| c.is_ascii_alphanumeric()) && bytes[3] == 0` -/
def isBuiltinShape (b0 b1 b2 b3 : Nat) : Bool := isAlnum b0 && isAlnum b1 && isAlnum b2 && b3 == 0

/-- `impl BinRead for Vehicle`, on exactly the bytes the reader consumes.
`rows` = the literal arms `([b'X', b'F', b'G', 0], true) => Vehicle::Xfg`. -/
def decode (rows : List (Bytes × Name)) (b : Bytes) : Out Veh :=
  match b with
  | [b0, b1, b2, b3] =>
    if b0 = 0 ∧ b1 = 0 ∧ b2 = 0 ∧ b3 = 0 then .ok .unknown
    else if isBuiltinShape b0 b1 b2 b3 then
      match rows.lookup [b0, b1, b2, b3] with
      | some n => .ok (.builtin n)
      | none => .err .decode
    else .ok (.mod (ofLe [b0, b1, b2, b3]))
  | _ => .err .decode        -- fewer than 4 bytes left: binrw reports an I/O error

/-- `impl BinWrite for Vehicle`. `wrows` = the arms `Vehicle::Xfg => [b'X', b'F', b'G', 0]`. -/
def encode (wrows : List (Name × Bytes)) : Veh → Out Bytes
  | .builtin n =>
    match wrows.lookup n with
    | some bs => .ok bs
    | none => .err .encode     -- cannot happen for a complete table (Rust's match is exhaustive)
  | .mod id => .ok (leBytes 4 id)
  | .unknown => .ok [0, 0, 0, 0]

/-- `impl Display for Vehicle` for built-ins. -/
def display (drows : List (Name × Bytes)) : Veh → Option Bytes
  | .builtin n => drows.lookup n
  | _ => none

/-! ### The InSim v9 rule, stated independently of the code's tables -/

/-- the twenty built-in cars of LFS 0.7 (wire names) -/
def specNames : List Bytes :=
  [ [85,70,49], [88,70,71], [88,82,71], [76,88,52], [76,88,54], [82,66,52], [70,88,79], [88,82,84],
    [82,65,67], [70,90,53], [85,70,82], [88,70,82], [70,88,82], [88,82,82], [70,90,82], [77,82,84],
    [70,66,77], [70,79,88], [70,79,56], [66,70,49] ]
-- UF1 XFG XRG LX4 LX6 RB4 FXO XRT RAC FZ5 UFR XFR FXR XRR FZR MRT FBM FOX FO8 BF1

/-- `XFG` ↦ the identifier a Rust variant `Xfg` gets: first letter kept, others lower-cased -/
def lower (c : Nat) : Nat := if 65 ≤ c ∧ c ≤ 90 then c + 32 else c
def variantOf : Bytes → Name
  | [] => []
  | c :: cs => c :: cs.map lower

def specRows : List (Bytes × Name) := specNames.map (fun n => (n ++ [0], variantOf n))

/-- InSim v9: three ASCII alphanumerics + NUL name a built-in car (or are an error), all zeros is
unknown, anything else is a mod id. -/
def classify (b : Bytes) : Out Veh :=
  match b with
  | [b0, b1, b2, b3] =>
    if b0 = 0 ∧ b1 = 0 ∧ b2 = 0 ∧ b3 = 0 then .ok .unknown
    else if isBuiltinShape b0 b1 b2 b3 then
      match specRows.lookup [b0, b1, b2, b3] with
      | some n => .ok (.builtin n)
      | none => .err .decode
    else .ok (.mod (ofLe [b0, b1, b2, b3]))
  | _ => .err .decode

end Insim.Vehicle
