import Insim.Base.Bytes
import Insim.Base.Table
import Insim.Model.Vehicle
import Insim.Model.Track
import Insim.Model.Dur
import Insim.Model.GameVersion
/-
L1/L2: the subset of binrw the repository uses, deeply embedded, with one generic executable codec.

A packet body is a *flat* list of fields (nested structs and fixed arrays are flattened by the
translator) plus at most one variable-length tail. Reader and writer attributes are kept separately
(`rb ra wb wa`, read/write widths and scales of durations and strings), so a declaration that is
asymmetric between the two sides is representable — and then fails well-formedness.

binrw semantics transcribed (binrw 0.14): fields in declaration order; `pad_before`/`pad_after` on
read is `seek(Current(n))` — no end-of-input check, so a missing *trailing* pad is accepted; on write
it is n zero bytes; integers little-endian; a read past the end is an error; `repr(u8)` enums reject
undeclared discriminants; bytes after the body are ignored.
-/
namespace Insim.Layout
open Insim

inductive CustomId | vehicle | track | raceLaps | fuel | fuel200 | conInfo | smallType | cimMode | gameVersion
  deriving DecidableEq, Repr

inductive SetId | mal | ipb
  deriving DecidableEq, Repr

inductive Ty where
  | uint (w : Nat)
  | sint (w : Nat)
  | f32
  | bool8
  | char8
  | spclose
  | enumU8 (vals : List Nat)
  | flags (w mask : Nat)
  | dur (rw rs ww ws : Nat)
  | str (rn wn : Nat) (rraw wraw : Bool) (align : Nat)
  | count (w : Nat) (signed : Bool)
  | custom (c : CustomId)
  deriving DecidableEq, Repr

structure Field where
  path : List Nat
  rb : Nat
  ra : Nat
  wb : Nat
  wa : Nat
  ty : Ty
  /-- `#[bw(assert(*field <= K))]`: the writer refuses larger values -/
  maxv : Option Nat := none
  deriving DecidableEq, Repr

inductive Tail where
  | none
  /-- counted vector of flat elements; `oddR`/`oddW`: spare bytes after an *odd* number of elements (read / write side) -/
  | vec (elt : List Field) (oddR oddW : Nat)
  | set (s : SetId)
  | strEof (wn : Nat) (rraw wraw : Bool) (align : Nat)
  deriving DecidableEq, Repr

structure Layout where
  kind : List Nat
  typeNo : Nat
  customBody : Bool
  fields : List Field
  tail : Tail
  maxElems : Option Nat
  deriving DecidableEq, Repr

/-- leaf values: every scalar is a `Nat` (signed integers and floats as their bit patterns, enumerants
as discriminants, flags as bits, durations in milliseconds); text is the field's bytes up to the first NUL -/
inductive Val where
  | n (v : Nat)
  | b (bs : Bytes)
  deriving DecidableEq, Repr

inductive TailVal where
  | none
  | elems (es : List (List Val))
  | set (xs : List Nat)
  | text (bs : Bytes)
  deriving DecidableEq, Repr

structure PVal where
  vals : List Val
  tail : TailVal
  deriving DecidableEq, Repr

/-- external tables the hand-written codecs consult (regenerated from the source) -/
structure Env where
  vehRead : List (Bytes × Vehicle.Name)
  vehWrite : List (Vehicle.Name × Bytes)
  trkRead : List (Bytes × Nat)
  trkWrite : List (Nat × Bytes)
  compCarInfoMask : Nat
  smallAlcMask : Nat
  smallLcsMask : Nat
  smallLclMask : Nat

/-! ### primitives -/

def wireSize : Ty → Nat
  | .uint w => w | .sint w => w | .f32 => 4 | .bool8 => 1 | .char8 => 1 | .spclose => 2
  | .enumU8 _ => 1 | .flags w _ => w | .dur rw _ _ _ => rw | .str rn _ _ _ _ => rn | .count w _ => w
  | .custom .vehicle => 4 | .custom .track => 6 | .custom .raceLaps => 1 | .custom .fuel => 1 | .custom .fuel200 => 1
  | .custom .conInfo => 16 | .custom .smallType => 5 | .custom .cimMode => 3 | .custom .gameVersion => 8

/-- `strip_trailing_nul`: despite its name, everything from the *first* NUL on is dropped -/
def stripNul : Bytes → Bytes
  | [] => []
  | b :: bs => if b = 0 then [] else b :: stripNul bs

/-- `binrw_write_codepage_string::<N>` on the already-encoded bytes `e` -/
def writeStr (n : Nat) (align : Nat) (e : Bytes) : Bytes :=
  if align > 1 then
    let a := align - 1
    -- `(len + a) & !a` for a power-of-two alignment = round up to a multiple of `align`
    let rounded := (e.length + a) / align * align
    (e ++ List.replicate (rounded - e.length) 0).take n
  else
    let t := e.take n
    t ++ List.replicate (n - t.length) 0

/-- Land of two naturals restricted to `w` bytes -/
def maskW (w : Nat) (v mask : Nat) : Nat := (v % 256 ^ w) &&& mask

/-! ### hand-written codecs (fixed size), on exactly their bytes -/

def vehVals : Vehicle.Veh → List Val
  | .builtin nm => [.n 0, .b nm]
  | .mod id => [.n 1, .n id]
  | .unknown => [.n 2, .n 0]

def vehOfVals : List Val → Option Vehicle.Veh
  | [.n 0, .b nm] => some (.builtin nm)
  | [.n 1, .n id] => some (.mod id)
  | [.n 2, .n 0] => some .unknown
  | _ => none

/-- printed number of a game version as LFS emits it (≤ 7 characters of digits and at most one dot):
Rust's shortest round-trip `Display` of the parsed f32 is the same decimal with leading zeros of the
integer part and trailing zeros of the fraction removed -/
def normMajor (s : Bytes) : Bytes :=
  let ip := s.takeWhile (· ≠ 46)
  let fp := (s.dropWhile (· ≠ 46)).drop 1
  let ip' := ip.dropWhile (· = 48)
  let ip'' := if ip'.isEmpty then [48] else ip'
  let fp' := (fp.reverse.dropWhile (· = 48)).reverse
  if fp'.isEmpty then ip'' else ip'' ++ [46] ++ fp'

def gvEnv : GV.Env := { isNum := GV.isAsciiDigit, parseF := GV.parseF32, printF := fun _ => [] }

/-- `trim_end_matches('\0')` -/
def trimEndNul (bs : Bytes) : Bytes := (bs.reverse.dropWhile (· = 0)).reverse

def customDec (env : Env) : CustomId → Bytes → Out (List Val)
  | .vehicle, bs =>
    (match Vehicle.decode env.vehRead bs with
     | .ok v => .ok (vehVals v)
     | .err e => .err e
     | .panic => .panic)
  | .track, bs =>
    (match Track.decode env.trkRead bs with
     | .ok t => .ok [.n t]
     | .err e => .err e
     | .panic => .panic)
  | .raceLaps, [b] =>
    (match Dur.byteToLaps b with
     | .practice => .ok [.n 0, .n 0]
     | .laps n => .ok [.n 1, .n n]
     | .hours n => .ok [.n 2, .n n])
  | .fuel, [b] => (match Dur.fuelRead b with | .pct p => .ok [.n 0, .n p] | .no => .ok [.n 1, .n 0])
  | .fuel200, [b] => (match Dur.fuelRead b with | .pct p => .ok [.n 0, .n p] | .no => .ok [.n 1, .n 0])
  | .conInfo, [plid, info, _pad, steer, thrbrk, cluhan, gearsp, speed, direction, heading, accelf, accelr, x0, x1, y0, y1] =>
    .ok [.n plid, .n (info &&& env.compCarInfoMask), .n steer, .n (thrbrk / 16), .n (thrbrk % 16), .n (cluhan / 16), .n (cluhan % 16),
         .n (gearsp / 16), .n speed, .n direction, .n heading, .n accelf, .n accelr, .n (ofLe [x0, x1]), .n (ofLe [y0, y1])]
  | .smallType, [d, u0, u1, u2, u3] =>
    let u := ofLe [u0, u1, u2, u3]
    (if d = 0 then .ok [.n 0, .n 0]
     else if d = 1 ∨ d = 2 ∨ d = 5 ∨ d = 6 then .ok [.n d, .n (u * 10)]
     else if d = 3 then .ok [.n 3, .n (if u = 1 ∨ u = 2 ∨ u = 3 then u else 0)]
     else if d = 4 then .ok [.n 4, .n (if u = 0 then 0 else 1)]
     else if d = 7 then .ok [.n 7, .n u]
     else if d = 8 then .ok [.n 8, .n (u &&& env.smallAlcMask)]
     else if d = 9 then .ok [.n 9, .n (u &&& env.smallLcsMask)]
     else if d = 10 then .ok [.n 10, .n (u &&& env.smallLclMask)]
     else .err .decode)
  | .cimMode, [d, sub, sel] =>
    (if d = 0 then (if sub ≤ 4 then .ok [.n 0, .n sub, .n 0] else .err .decode)
     else if d = 1 ∨ d = 2 ∨ d = 4 ∨ d = 5 then .ok [.n d, .n 0, .n 0]
     else if d = 3 then (if sub ≤ 8 then .ok [.n 3, .n sub, .n 0] else .err .decode)
     else if d = 6 then .ok [.n 6, .n (if sub = 1 ∨ sub = 2 then sub else 0), .n sel]
     else .err .decode)
  | .gameVersion, bs =>
    -- valid UTF-8 is required; any non-ASCII character makes the parse fail anyway (see DESIGN), so: ASCII only
    (if bs.all (· < 128) then
       match GV.parse gvEnv (trimEndNul bs) with
       | .ok g =>
         let txt := trimEndNul bs
         let maj := txt.takeWhile (fun c => GV.isAsciiDigit c || c == 46)
         .ok [.b (if txt.isEmpty then [48] else normMajor maj), .n g.minor, .n (match g.patch with | some p => p + 1 | none => 0)]
       | .error _ => .err .decode
     else .err .decode)
  | _, _ => .err .decode

def natDigits (n : Nat) : Bytes := GV.natDigits n

def customEnc (env : Env) : CustomId → List Val → Out Bytes
  | .vehicle, vs =>
    (match vehOfVals vs with
     | some v => Vehicle.encode env.vehWrite v
     | none => .err .encode)
  | .track, [.n t] => Track.encode env.trkWrite t
  | .raceLaps, [.n k, .n n] =>
    .ok [Dur.lapsToByte (if k = 0 then .practice else if k = 1 then .laps n else .hours n)]
  | .fuel, [.n k, .n p] => .ok [if k = 0 then p % 256 else 255]
  | .fuel200, [.n k, .n p] => .ok [if k = 0 then p % 256 else 255]
  | .conInfo, [.n plid, .n info, .n steer, .n thr, .n brk, .n clu, .n han, .n gearsp, .n speed, .n direction, .n heading, .n accelf, .n accelr, .n x, .n y] =>
    if thr > 15 ∨ brk > 15 ∨ clu > 15 ∨ han > 15 ∨ gearsp > 15 then .err .encode
    else .ok ([plid % 256, info % 256, 0, steer % 256, thr * 16 + brk, clu * 16 + han, gearsp * 16, speed % 256, direction % 256,
               heading % 256, accelf % 256, accelr % 256] ++ leBytes 2 x ++ leBytes 2 y)
  | .smallType, [.n d, .n v] =>
    (if d = 1 ∨ d = 2 ∨ d = 5 ∨ d = 6 then
       (match Dur.smallWriteVal 10 v with | .ok u => .ok (d :: leBytes 4 u) | .err e => .err e | .panic => .panic)
     else if d = 7 then
       (match Dur.smallWriteVal 1 v with | .ok u => .ok (d :: leBytes 4 u) | .err e => .err e | .panic => .panic)
     else .ok (d :: leBytes 4 v))
  | .cimMode, [.n d, .n sub, .n sel] => .ok [d, sub, sel]
  | .gameVersion, [.b maj, .n minor, .n patch] =>
    let txt := maj ++ [minor] ++ (if patch = 0 then [] else natDigits (patch - 1))
    let t := txt.take 8
    .ok (t ++ List.replicate (8 - t.length) 0)
  | _, _ => .err .encode

/-! ### one field -/

/-- decode one field from the front of `bs` (pads excluded): values and the rest -/
def decTy (env : Env) (ty : Ty) (bs : Bytes) : Out (List Val × Bytes) :=
  let w := wireSize ty
  if bs.length < w then .err .decode
  else
    let raw := bs.take w
    let rest := bs.drop w
    match ty with
    | .uint _ => .ok ([.n (ofLe raw)], rest)
    | .sint _ => .ok ([.n (ofLe raw)], rest)
    | .f32 => .ok ([.n (ofLe raw)], rest)
    | .bool8 => .ok ([.n (if ofLe raw = 0 then 0 else 1)], rest)
    | .char8 => .ok ([.n (ofLe raw)], rest)
    | .spclose => .ok ([.n (ofLe raw % 4096)], rest)
    | .enumU8 vals => if memN (ofLe raw) vals then .ok ([.n (ofLe raw)], rest) else .err .decode
    | .flags _ mask => .ok ([.n (ofLe raw &&& mask)], rest)
    | .dur _ rs _ _ => .ok ([.n (Dur.readDur rs (ofLe raw))], rest)
    | .str _ _ _ _ _ => .ok ([.b (stripNul raw)], rest)
    | .count _ _ => .ok ([.n (ofLe raw)], rest)
    | .custom c =>
      match customDec env c raw with
      | .ok vs => .ok (vs, rest)
      | .err e => .err e
      | .panic => .panic

/-- how many leaf values a field type carries -/
def arity : Ty → Nat
  | .custom .vehicle => 2 | .custom .track => 1 | .custom .raceLaps => 2 | .custom .fuel => 2 | .custom .fuel200 => 2
  | .custom .conInfo => 15 | .custom .smallType => 2 | .custom .cimMode => 3 | .custom .gameVersion => 3
  | _ => 1

/-- encode one field's values (pads excluded). `cnt` is the element count a `count` field is `calc`ed from. -/
def encTy (env : Env) (ty : Ty) (cnt : Nat) (vs : List Val) : Out Bytes :=
  match ty, vs with
  | .uint w, [.n v] => .ok (leBytes w v)
  | .sint w, [.n v] => .ok (leBytes w v)
  | .f32, [.n v] => .ok (leBytes 4 v)
  | .bool8, [.n v] => .ok [if v = 0 then 0 else 1]
  | .char8, [.n v] => .ok [v % 256]
  | .spclose, [.n v] => .ok (leBytes 2 v)
  | .enumU8 _, [.n v] => .ok [v % 256]
  | .flags w _, [.n v] => .ok (leBytes w v)
  | .dur _ _ ww ws, [.n ms] =>
    (match Dur.writeDur ww ws ms with | .ok x => .ok (leBytes ww x) | .err e => .err e | .panic => .panic)
  | .str _ wn _ _ align, [.b e] => .ok (writeStr wn align e)
  | .count w _, _ => .ok (leBytes w cnt)          -- `len() as uN`: truncating
  | .custom c, vs => customEnc env c vs
  | _, _ => .err .encode

/-! ### field lists -/

def decFields (env : Env) : List Field → Bytes → Out (List Val × Bytes)
  | [], bs => .ok ([], bs)
  | f :: fs, bs =>
    match decTy env f.ty (bs.drop f.rb) with
    | .ok (vs, rest) =>
      (match decFields env fs (rest.drop f.ra) with
       | .ok (ws, rest') => .ok (vs ++ ws, rest')
       | .err e => .err e
       | .panic => .panic)
    | .err e => .err e
    | .panic => .panic

/-- `#[bw(assert(*field <= K))]` -/
def maxvOk : Option Nat → List Val → Bool
  | some m, .n v :: _ => decide (v ≤ m)
  | _, _ => true

def encFields (env : Env) (cnt : Nat) : List Field → List Val → Out Bytes
  | [], [] => .ok []
  | [], _ :: _ => .err .encode
  | f :: fs, vs =>
    if maxvOk f.maxv vs then
      match encTy env f.ty cnt (vs.take (arity f.ty)) with
      | .ok bs =>
        (match encFields env cnt fs (vs.drop (arity f.ty)) with
         | .ok rest => .ok (List.replicate f.wb 0 ++ bs ++ List.replicate f.wa 0 ++ rest)
         | .err e => .err e
         | .panic => .panic)
      | .err e => .err e
      | .panic => .panic
    else .err .encode

/-- the value of the (first) `count` field among the decoded values -/
def countOf : List Field → List Val → Option Nat
  | [], _ => none
  | f :: fs, vs =>
    match f.ty, vs with
    | .count _ _, .n v :: _ => some v
    | _, _ => countOf fs (vs.drop (arity f.ty))

/-! ### tails -/

def decElems (env : Env) (elt : List Field) : Nat → Bytes → Out (List (List Val) × Bytes)
  | 0, bs => .ok ([], bs)
  | k + 1, bs =>
    match decFields env elt bs with
    | .ok (vs, rest) =>
      (match decElems env elt k rest with
       | .ok (es, rest') => .ok (vs :: es, rest')
       | .err e => .err e
       | .panic => .panic)
    | .err e => .err e
    | .panic => .panic

def encElems (env : Env) (elt : List Field) : List (List Val) → Out Bytes
  | [] => .ok []
  | e :: es =>
    match encFields env 0 elt e with
    | .ok bs => (match encElems env elt es with | .ok r => .ok (bs ++ r) | .err x => .err x | .panic => .panic)
    | .err x => .err x
    | .panic => .panic

def decU32s : Nat → Bytes → Out (List Nat × Bytes)
  | 0, bs => .ok ([], bs)
  | k + 1, bs =>
    if bs.length < 4 then .err .decode
    else match decU32s k (bs.drop 4) with
      | .ok (xs, r) => .ok (ofLe (bs.take 4) :: xs, r)
      | .err e => .err e
      | .panic => .panic

/-- `IndexSet::insert` in sequence: first occurrence kept, order preserved -/
def dedup : List Nat → List Nat → List Nat
  | [], acc => acc.reverse
  | x :: xs, acc => if memN x acc then dedup xs acc else dedup xs (x :: acc)

def tailCount : TailVal → Nat
  | .elems es => es.length
  | .set xs => xs.length
  | _ => 0

def decTail (env : Env) (t : Tail) (cnt : Option Nat) (bs : Bytes) : Out TailVal :=
  match t with
  | .none => .ok .none
  | .vec elt _ _ =>      -- the trailing spare bytes are skipped with `seek`: nothing to check on read
    (match decElems env elt (cnt.getD 0) bs with
     | .ok (es, _) => .ok (.elems es)
     | .err e => .err e
     | .panic => .panic)
  | .set _ =>
    (match decU32s (cnt.getD 0) bs with
     | .ok (xs, _) => .ok (.set (dedup xs []))
     | .err e => .err e
     | .panic => .panic)
  | .strEof _ _ _ _ => .ok (.text (stripNul bs))

def encTail (env : Env) (t : Tail) (tv : TailVal) : Out Bytes :=
  match t, tv with
  | .none, .none => .ok []
  | .vec elt _ oddW, .elems es =>
    (match encElems env elt es with
     | .ok bs => .ok (bs ++ List.replicate (if es.length % 2 = 1 then oddW else 0) 0)
     | .err e => .err e
     | .panic => .panic)
  | .set _, .set xs => .ok (xs.flatMap (leBytes 4))
  | .strEof wn _ _ align, .text e => .ok (writeStr wn align e)
  | _, _ => .err .encode

/-! ### whole bodies -/

/-- MSO (hand-written body): `reqi, pad, ucid, plid, usertype, textstart, text…` at byte level.
The decoded value keeps the name part and the message part as separate byte strings; `textstart`
is recomputed from the name's encoded length on write. -/
def msoUserTypes : List Nat := [0, 1, 2, 3]

def decMso (bs : Bytes) : Out PVal :=
  match bs with
  | reqi :: _pad :: ucid :: plid :: ut :: ts :: rest =>
    if memN ut msoUserTypes then
      if ts > 0 then
        if rest.length < ts then .err .decode
        else .ok { vals := [.n reqi, .n ucid, .n plid, .n ut, .b (stripNul (rest.take ts)), .b (stripNul (rest.drop ts))], tail := .none }
      else .ok { vals := [.n reqi, .n ucid, .n plid, .n ut, .b [], .b (stripNul rest)], tail := .none }
    else .err .decode
  | _ => .err .decode

def encMso (v : PVal) : Out Bytes :=
  match v.vals with
  | [.n reqi, .n ucid, .n plid, .n ut, .b name, .b msg] =>
    -- the text is padded to a multiple of 4 and capped at MSO_MSG_MAX_LEN = 128, exactly like an aligned text field
    .ok ([reqi % 256, 0, ucid % 256, plid % 256, ut % 256, name.length % 256] ++ writeStr 128 4 (name ++ msg))
  | _ => .err .encode

def decBody (env : Env) (L : Layout) (bs : Bytes) : Out PVal :=
  if L.customBody then decMso bs
  else
    match decFields env L.fields bs with
    | .ok (vs, rest) =>
      (match decTail env L.tail (countOf L.fields vs) rest with
       | .ok tv => .ok { vals := vs, tail := tv }
       | .err e => .err e
       | .panic => .panic)
    | .err e => .err e
    | .panic => .panic

def encBody (env : Env) (L : Layout) (v : PVal) : Out Bytes :=
  if L.customBody then encMso v
  else
    match L.maxElems with
    | some m => if tailCount v.tail > m then .err .encode else go
    | none => go
where go : Out Bytes :=
    match encFields env (tailCount v.tail) L.fields v.vals with
    | .ok bs => (match encTail env L.tail v.tail with | .ok t => .ok (bs ++ t) | .err e => .err e | .panic => .panic)
    | .err e => .err e
    | .panic => .panic

/-- `Packet::read`: the type byte selects the variant, the body follows; trailing bytes are ignored -/
def parsePacket (env : Env) (all : List Layout) (bs : Bytes) : Out (Layout × PVal) :=
  match bs with
  | [] => .err .decode
  | t :: body =>
    match all.find? (fun L => L.typeNo == t) with
    | some L => (match decBody env L body with | .ok v => .ok (L, v) | .err e => .err e | .panic => .panic)
    | none => .err .decode

/-- `Packet::write` -/
def writePacket (env : Env) (L : Layout) (v : PVal) : Out Bytes :=
  match encBody env L v with
  | .ok b => .ok (L.typeNo :: b)
  | .err e => .err e
  | .panic => .panic

end Insim.Layout
