import Insim.Model.Conn
/-
UDP adaptors (net/blocking_impl/udp.rs, net/tokio_impl/udp.rs after the `fix:` commit that made the
tokio `poll_read` receive into the adaptor's own buffer like the blocking one).

A socket is a list of datagrams still to arrive. `recv` into the 1020-byte scratch array keeps at
most `maxDatagram` bytes of a datagram (the operating system discards the rest).
-/
namespace Insim.Udp
open Insim

/-- `crate::MAX_SIZE_PACKET` -/
def maxDatagram : Nat := 1020

/-- one `read(buf)` call with `offer = buf.len()`: serve from the adaptor buffer if it holds anything,
otherwise receive one datagram into the scratch array, buffer it, and serve from it.
Returns the chunk, the adaptor buffer afterwards and the datagrams still to arrive;
`none` = no datagram available (the call blocks / is pending). -/
def read (buf : Bytes) (offer : Nat) (dgrams : List Bytes) : Option (Bytes × Bytes × List Bytes) :=
  match buf with
  | _ :: _ => some (buf.take offer, buf.drop offer, dgrams)
  | [] =>
    match dgrams with
    | [] => none
    | d :: ds => some ((d.take maxDatagram).take offer, (d.take maxDatagram).drop offer, ds)

/-- successive reads with the given offered sizes -/
def run : Bytes → List Nat → List Bytes → List Bytes × Bytes × List Bytes
  | buf, [], ds => ([], buf, ds)
  | buf, o :: os, ds =>
    match read buf o ds with
    | none => ([], buf, ds)
    | some (chunk, buf', ds') =>
      let r := run buf' os ds'
      (chunk :: r.1, r.2.1, r.2.2)

/-- the tokio adaptor *before* the repair: the datagram is received straight into the caller's
slice and whatever does not fit is lost. Kept as the negation witness of C08 on the pinned tree. -/
def readUnbuffered (offer : Nat) (dgrams : List Bytes) : Option (Bytes × List Bytes) :=
  match dgrams with
  | [] => none
  | d :: ds => some (d.take offer, ds)

/-- the write half: one `send` per `write`, carrying exactly the bytes handed over -/
def write (frame : Bytes) (sent : List Bytes) : List Bytes := sent ++ [frame]

/-- `read_exact(n)`: the caller keeps ONE buffer across as many reads as it takes to fill it; every read appends to
what is already there (the adaptor must honour a partly filled buffer). `fuel` bounds the number of reads (each serves at
least one byte when anything is available). Returns the `n` bytes, the adaptor buffer afterwards, the datagrams still to
arrive; `none` = the data runs out first (the call would block). -/
def readExact : Nat → Bytes → Nat → List Bytes → Bytes → Option (Bytes × Bytes × List Bytes)
  | _, buf, 0, ds, acc => some (acc, buf, ds)
  | 0, _, _ + 1, _, _ => none
  | fuel + 1, buf, n + 1, ds, acc =>
    match read buf (n + 1) ds with
    | none => none
    | some (chunk, buf', ds') =>
      if chunk.isEmpty then none
      else readExact fuel buf' (n + 1 - chunk.length) ds' (acc ++ chunk)

/-- what the owner of an adaptor can do with it: read with an offered slice size, flush the write half,
write one frame. The adaptor's buffer is a *receive-side* hold-back buffer only: neither `flush` (a no-op;
sends are unbuffered) nor `write` touches it. -/
inductive AOp where
  | rd (offer : Nat)
  | fl
  | wr (frame : Bytes)
  /-- a read attempted while nothing is buffered and no datagram has arrived: the receive call fails (time-out,
  would-block) or stays pending, and nothing changes -/
  | idle
  /-- `read_exact(n)` -/
  | rx (n : Nat)
deriving Repr

/-- adaptor state: hold-back buffer, datagrams still to arrive, datagrams sent so far -/
structure ASt where
  buf : Bytes
  ds : List Bytes
  sent : List Bytes

/-- any interleaving of reads, flushes and writes; returns the chunks served and the final state.
A read with nothing available ends the run (the call would block). -/
def runOps : ASt → List AOp → List Bytes × ASt
  | s, [] => ([], s)
  | s, .rd o :: ops =>
    match read s.buf o s.ds with
    | none => ([], s)
    | some (chunk, buf', ds') =>
      let r := runOps { s with buf := buf', ds := ds' } ops
      (chunk :: r.1, r.2)
  | s, .fl :: ops => runOps s ops
  | s, .idle :: ops => runOps s ops
  | s, .rx n :: ops =>
    match readExact (n + 1) s.buf n s.ds [] with
    | none => ([], s)
    | some (chunk, buf', ds') =>
      let r := runOps { s with buf := buf', ds := ds' } ops
      (chunk :: r.1, r.2)
  | s, .wr f :: ops => runOps { s with sent := write f s.sent } ops

end Insim.Udp
