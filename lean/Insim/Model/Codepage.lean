import Insim.Base.Bytes
/-
Hand model of insim_core/src/string/codepages.rs: `to_lossy_bytes` and `to_lossy_string` over an
*abstract family of ten codecs* (`cp : Mk → CP`). What a codec does to a character / byte string is
`encoding_rs`'s business and appears only through the laws stated in `Insim.Props.C10`.
Characters are code points.
-/
namespace Insim.Cp

abbrev Str := List Nat

structure CP where
  /-- per-character encoder: `none` = unmappable in this codepage -/
  enc : Nat → Option Bytes
  /-- whole-segment decoder (lossy, total) -/
  dec : Bytes → Str

/-- the ten codepage letters -/
inductive Mk | L | G | C | E | T | B | J | H | S | K
  deriving DecidableEq, Repr

def Mk.byte : Mk → Nat
  | .L => 76 | .G => 71 | .C => 67 | .E => 69 | .T => 84 | .B => 66 | .J => 74 | .H => 72 | .S => 83 | .K => 75

def Mk.all : List Mk := [.L, .G, .C, .E, .T, .B, .J, .H, .S, .K]

/-- `is_lfs_codepage` + `as_lfs_codepage` + `propagate_lfs_codepage` on the byte after a caret:
letter ↦ (table, keep-the-marker-in-the-text). `^8` selects Latin-1 and is kept. -/
def mk? (b : Nat) : Option (Mk × Bool) :=
  if b = 76 then some (.L, false) else if b = 71 then some (.G, false) else if b = 67 then some (.C, false)
  else if b = 69 then some (.E, false) else if b = 84 then some (.T, false) else if b = 66 then some (.B, false)
  else if b = 74 then some (.J, false) else if b = 72 then some (.H, false) else if b = 83 then some (.S, false)
  else if b = 75 then some (.K, false) else if b = 56 then some (.L, true) else none

def isAscii (c : Nat) : Bool := c < 128

/-- search the candidate codepages in the given order, skipping the current one -/
def findCp (cp : Mk → CP) (cur : Mk) (c : Nat) : List Mk → Option (Mk × Bytes)
  | [] => none
  | x :: xs =>
    if x = cur then findCp cp cur c xs
    else match (cp x).enc c with
      | some bs => some (x, bs)
      | none => findCp cp cur c xs

/-- `to_lossy_bytes`, slow path. `order` = `VALID_CODEPAGES_FOR_ENCODING`. -/
def encGo (cp : Mk → CP) (order : List Mk) : Mk → Str → Bytes
  | _, [] => []
  | cur, c :: cs =>
    if isAscii c then c :: encGo cp order cur cs
    else match (cp cur).enc c with
      | some bs => bs ++ encGo cp order cur cs
      | none => match findCp cp cur c order with
        | some (x, bs) => 94 :: x.byte :: (bs ++ encGo cp order x cs)
        | none => 63 :: encGo cp order cur cs        -- fallback `?`

/-- `to_lossy_bytes`: all-ASCII input is returned as is -/
def toBytes (cp : Mk → CP) (order : List Mk) (s : Str) : Bytes :=
  if s.all isAscii then s else encGo cp order .L s

/-- `to_lossy_string` as a left-to-right state machine: `cur` = codec of the current segment,
`acc` = bytes of the current segment so far. A marker is a caret followed by a codepage letter;
markers cannot overlap, so this scan finds the same positions as the code's `tuple_windows`. -/
def decGo (cp : Mk → CP) : Mk → Bytes → Bytes → Str
  | cur, acc, [] => (cp cur).dec acc
  | cur, acc, [b] => (cp cur).dec (acc ++ [b])
  | cur, acc, b :: x :: rest =>
    if b = 94 then
      match mk? x with
      | some (m, keep) => (cp cur).dec acc ++ (if keep then [94, 56] else []) ++ decGo cp m [] rest
      | none => decGo cp cur (acc ++ [b]) (x :: rest)
    else decGo cp cur (acc ++ [b]) (x :: rest)

def toString (cp : Mk → CP) (bs : Bytes) : Str := decGo cp .L [] bs

/-! ### the decoder's plan (for the correspondence run): which codec decodes which bytes -/
inductive Seg where
  | dec (m : Mk) (bs : Bytes)
  | keep8
  deriving DecidableEq, Repr

def planGo : Mk → Bytes → Bytes → List Seg
  | cur, acc, [] => [.dec cur acc]
  | cur, acc, [b] => [.dec cur (acc ++ [b])]
  | cur, acc, b :: x :: rest =>
    if b = 94 then
      match mk? x with
      | some (m, keep) => .dec cur acc :: ((if keep then [Seg.keep8] else []) ++ planGo m [] rest)
      | none => planGo cur (acc ++ [b]) (x :: rest)
    else planGo cur (acc ++ [b]) (x :: rest)

def Seg.run (cp : Mk → CP) : Seg → Str
  | .dec m bs => (cp m).dec bs
  | .keep8 => [94, 56]

end Insim.Cp
