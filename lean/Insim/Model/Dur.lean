import Insim.Base.Bytes
/-
Hand model of insim_core/src/duration.rs, insim/src/insim/racelaps.rs, the time-carrying
sub-types of insim/src/insim/small.rs and Fuel/Fuel200 (insim/src/insim/lap.rs).
Durations are whole milliseconds (`Duration::as_millis`); sub-millisecond parts never reach the wire.
-/
namespace Insim.Dur

/-- `binrw_parse_duration::<uW, SCALE>`: wire value ↦ milliseconds -/
def readDur (scale x : Nat) : Nat := x * scale

/-- `binrw_write_duration::<uW, SCALE>`: `T::try_from(ms / SCALE)`, refusing what does not fit -/
def writeDur (w scale ms : Nat) : Out Nat :=
  if ms / scale < 256 ^ w then .ok (ms / scale) else .err .encode

/-! ### RaceLaps -/

inductive RaceLaps where
  | practice
  | laps (n : Nat)
  | hours (n : Nat)
  deriving DecidableEq, Repr

/-- `impl From<u8> for RaceLaps` -/
def byteToLaps (b : Nat) : RaceLaps :=
  if b = 0 then .practice
  else if b ≤ 99 then .laps b
  else if b ≤ 190 then .laps ((b - 100) * 10 + 100)
  else if b ≤ 238 then .hours (b - 190)
  else .practice

/-- `impl From<RaceLaps> for u8` (after the `fix:` commit that range-checks `Hours`) -/
def lapsToByte : RaceLaps → Nat
  | .practice => 0
  | .laps n => if 1 ≤ n ∧ n ≤ 99 then n else if 100 ≤ n ∧ n ≤ 1000 then (n - 100) / 10 + 100 else 0
  | .hours n => if 1 ≤ n ∧ n ≤ 48 then n + 190 else 0

/-- a race length the wire format can express exactly or by rounding down -/
def InRange : RaceLaps → Prop
  | .practice => True
  | .laps n => 1 ≤ n ∧ n ≤ 1000
  | .hours n => 1 ≤ n ∧ n ≤ 48

/-- rounding down to the field's resolution (10 laps above 100) -/
def roundDown : RaceLaps → RaceLaps
  | .laps n => if 100 ≤ n then .laps (n / 10 * 10) else .laps n
  | r => r

/-! ### Small: sub-types whose payload is a time -/

/-- scale of the time-carrying SmallType discriminants: 1,2,5,6 are 1/100 s; 7 is ms -/
def smallScale (discrim : Nat) : Option Nat :=
  if discrim = 1 ∨ discrim = 2 ∨ discrim = 5 ∨ discrim = 6 then some 10
  else if discrim = 7 then some 1 else none

/-- reader: `Duration::from_millis(uval as u64 * scale)` -/
def smallReadMs (scale uval : Nat) : Nat := uval * scale

/-- writer (after the `fix:` commit): divide first, then refuse what does not fit a u32 -/
def smallWriteVal (scale ms : Nat) : Out Nat :=
  if ms / scale < 2 ^ 32 then .ok (ms / scale) else .err .encode

/-! ### Fuel / Fuel200 -/
inductive Fuel | pct (p : Nat) | no
  deriving DecidableEq, Repr
def fuelRead (b : Nat) : Fuel := if b = 255 then .no else .pct b
/-- `Percentage(255)` is not representable: it shares the byte of `No` -/
def fuelWrite : Fuel → Nat
  | .pct p => p % 256
  | .no => 255

end Insim.Dur
