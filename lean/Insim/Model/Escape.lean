import Insim.Base.Bytes
/-
Hand model of insim_core/src/string/escaping.rs (`escape`, `unescape`) and colours.rs (`strip`),
over code points. The fast paths (`return input` when nothing needs doing) are part of the model.
-/
namespace Insim.Esc

abbrev Str := List Nat

def caret : Nat := 94
/-- `is_lfs_colour`: '0'..'9' -/
def isColour (c : Nat) : Bool := 48 ≤ c && c ≤ 57

/-- `try_lfs_escape` -/
def esc? (c : Nat) : Option Nat :=
  if c = 94 then some 94 else          -- ^ ↦ ^
  if c = 124 then some 118 else        -- | ↦ v
  if c = 42 then some 97 else          -- * ↦ a
  if c = 58 then some 99 else          -- : ↦ c
  if c = 92 then some 100 else         -- \ ↦ d
  if c = 47 then some 115 else         -- / ↦ s
  if c = 63 then some 113 else         -- ? ↦ q
  if c = 34 then some 116 else         -- " ↦ t
  if c = 60 then some 108 else         -- < ↦ l
  if c = 62 then some 114 else         -- > ↦ r
  if c = 35 then some 104 else none    -- # ↦ h

/-- `try_lfs_unescape` -/
def unesc? (c : Nat) : Option Nat :=
  if c = 94 then some 94 else
  if c = 118 then some 124 else
  if c = 97 then some 42 else
  if c = 99 then some 58 else
  if c = 100 then some 92 else
  if c = 115 then some 47 else
  if c = 113 then some 63 else
  if c = 116 then some 34 else
  if c = 108 then some 60 else
  if c = 114 then some 62 else
  if c = 104 then some 35 else none

/-- LFS's reserved characters, which must not appear raw in escaped text -/
def reserved : List Nat := [124, 42, 58, 92, 47, 63, 34, 60, 62, 35]

/-- slow path of `escape` -/
def escapeSlow : Str → Str
  | [] => []
  | [c] => match esc? c with
      | some e => [94, e]
      | none => [c]
  | c :: d :: rest =>
      if c = 94 ∧ isColour d = true then c :: d :: escapeSlow rest
      else match esc? c with
        | some e => 94 :: e :: escapeSlow (d :: rest)
        | none => c :: escapeSlow (d :: rest)

def escape (s : Str) : Str := if s.any (fun c => (esc? c).isSome) then escapeSlow s else s

/-- slow path of `unescape` -/
def unescapeSlow : Str → Str
  | [] => []
  | [i] => [i]
  | i :: j :: rest =>
      if i = 94 then
        match unesc? j with
        | some k => k :: unescapeSlow rest
        | none => i :: unescapeSlow (j :: rest)
      else i :: unescapeSlow (j :: rest)

def unescape (s : Str) : Str := if s.any (· == 94) then unescapeSlow s else s

/-- slow path of `strip` -/
def stripSlow : Str → Str
  | [] => []
  | [i] => [i]
  | i :: j :: rest =>
      if i = 94 ∧ j = 94 then i :: j :: stripSlow rest
      else if i = 94 ∧ isColour j = true then stripSlow rest
      else i :: stripSlow (j :: rest)

def strip (s : Str) : Str := if s.any (· == 94) then stripSlow s else s

/-! ### an independent reading of "colour code": tokenise, then drop the colour tokens -/

inductive Tok where
  | escCaret            -- `^^`
  | colour (d : Nat)    -- `^0` … `^9`
  | plain (c : Nat)
  deriving DecidableEq, Repr

def tokens : Str → List Tok
  | [] => []
  | [c] => [.plain c]
  | c :: d :: rest =>
      if c = 94 ∧ d = 94 then .escCaret :: tokens rest
      else if c = 94 ∧ isColour d = true then .colour d :: tokens rest
      else .plain c :: tokens (d :: rest)

def Tok.text : Tok → Str
  | .escCaret => [94, 94]
  | .colour d => [94, d]
  | .plain c => [c]

def Tok.isColourTok : Tok → Bool
  | .colour _ => true
  | _ => false

end Insim.Esc
