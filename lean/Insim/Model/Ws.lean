import Insim.Model.Conn
/-
WebSocket adaptor (net/tokio_impl/websocket.rs): `poll_read` serves from the adaptor buffer, otherwise
pulls the next message — binary payloads are appended to the buffer, any other message kind is
ignored, the end of the message stream yields a zero-byte read.
-/
namespace Insim.Ws
open Insim

inductive Msg where
  | binary (bs : Bytes)
  | other               -- text, ping, pong, frame …
  deriving DecidableEq, Repr

inductive RRes where
  | chunk (bs : Bytes)  -- `Ready(Ok(()))` with these bytes filled in (empty = end of stream)
  | pending             -- no message available yet
  deriving DecidableEq, Repr

/-- one `poll_read` with `offer = buf.remaining()`; `closed` = the peer has ended the message stream -/
def read (closed : Bool) : Bytes → Nat → List Msg → RRes × Bytes × List Msg
  | buf, offer, [] =>
    if buf ≠ [] ∧ offer > 0 then (.chunk (buf.take offer), buf.drop offer, [])
    else if closed then (.chunk [], buf, []) else (.pending, buf, [])
  | buf, offer, .binary m :: rest =>
    if buf ≠ [] ∧ offer > 0 then (.chunk (buf.take offer), buf.drop offer, .binary m :: rest)
    else read closed (buf ++ m) offer rest
  | buf, offer, .other :: rest =>
    if buf ≠ [] ∧ offer > 0 then (.chunk (buf.take offer), buf.drop offer, .other :: rest)
    else read closed buf offer rest

/-- successive reads until the stream ends, the script of offers runs out, or a read is pending -/
def run (closed : Bool) : Bytes → List Nat → List Msg → List Bytes × Bytes × List Msg
  | buf, [], msgs => ([], buf, msgs)
  | buf, o :: os, msgs =>
    match read closed buf o msgs with
    | (.pending, buf', msgs') => ([], buf', msgs')
    | (.chunk [], buf', msgs') => ([[]], buf', msgs')       -- zero-byte read: the connection reports `disconnected`
    | (.chunk (c :: cs), buf', msgs') =>
      let r := run closed buf' os msgs'
      ((c :: cs) :: r.1, r.2.1, r.2.2)

def payload : Msg → Bytes
  | .binary bs => bs
  | .other => []

/-- the write half: `poll_write` turns the whole buffer it is handed into one binary message -/
def write (frame : Bytes) (sent : List Msg) : List Msg := sent ++ [.binary frame]

end Insim.Ws
