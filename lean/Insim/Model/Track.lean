import Insim.Base.Bytes
import Insim.Base.Table
/-
Hand model of `insim_core::track::Track`'s reader / writer / accessors over *parameter* tables
(supplied by `Insim.Gen.Track`, regenerated from track.rs on every run).
-/
namespace Insim.Track
open Insim

abbrev Name := List Nat

/-- `impl BinRead for Track`: six bytes, first literal arm that matches, else `NoVariantMatch` -/
def decode (rows : List (Bytes × Nat)) (b : Bytes) : Out Nat :=
  if b.length = 6 then
    match lookupB b rows with
    | some t => .ok t
    | none => .err .decode
  else .err .decode

/-- `impl BinWrite for Track` -/
def encode (wrows : List (Nat × Bytes)) (t : Nat) : Out Bytes :=
  match lookupN t wrows with
  | some bs => .ok bs
  | none => .err .encode

/-- short code NUL-padded to six bytes -/
def pad6 (code : Bytes) : Bytes := code ++ List.replicate (6 - code.length) 0

def lastIs (code : Bytes) (a b : Nat) : Bool :=
  match code.getLast? with
  | some c => Nat.beq c a || Nat.beq c b
  | none => false

/-- the track area: the two letters in front of the configuration number -/
def area (code : Bytes) : Bytes := code.take 2

end Insim.Track
