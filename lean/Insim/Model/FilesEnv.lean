import Insim.Model.Files
import Insim.Gen.Files
/-! The leaf layouts regenerated from insim_pth/src/lib.rs and insim_smx/src/lib.rs, packaged for the container model. -/
namespace Insim.Files
open Insim

def genLeafs : Leafs where
  pthMagic := Gen.Files.pthMagic
  smxMagic := Gen.Files.smxMagic
  pthHeader := Gen.Files.pthHeader
  node := Gen.Files.node
  smxHeader := Gen.Files.smxHeader
  checkpointCount := Gen.Files.checkpointCount
  objHeader := Gen.Files.objHeader
  point := Gen.Files.point
  triangle := Gen.Files.triangle

end Insim.Files
