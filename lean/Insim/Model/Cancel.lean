import Insim.Model.Conn
/-
Small-step semantics of the tokio `Framed::read` future (net/tokio_impl/framed.rs) for cancellation:
what one `poll` does, where it can suspend, and what `drop` discards.

Persistent across futures: the connection buffer, the transport (scripts), the outgoing bytes.
Local to one future: the phase — in particular a packet that has been decoded (and removed from the
buffer) while its keep-alive reply is still being written.
-/
namespace Insim.Cancel
open Insim Insim.Frame Insim.Conn

structure St where
  buf : Bytes
  revs : List Ev
  wevs : List WEv
  out : Bytes
  /-- readiness of the transport's `poll_flush`, one entry per call (`true` = not ready); exhausted = ready -/
  fevs : List Bool := []
  deriving DecidableEq, Repr

inductive Phase where
  | idle
  | writing (rem : Bytes) (f : Bytes) (c : Cls)   -- reply partly written; `f`,`c` = the decoded keep-alive held by the future
  | flushing (f : Bytes) (c : Cls)                 -- reply written, `flush().await` of `Framed::write` not yet complete
  deriving DecidableEq, Repr

inductive WOut | done | pending (rem : Bytes) | failed
  deriving DecidableEq, Repr

/-- `write_all_buf` polled once: keeps writing until the reply is out, the transport is not ready, or fails.
An exhausted script accepts everything. -/
def pollWrite : List WEv → Bytes → Bytes → List WEv × Bytes × WOut
  | ws, out, [] => (ws, out, .done)
  | [], out, rem => ([], out ++ rem, .done)
  | .pending :: ws, out, rem => (ws, out, .pending rem)
  | .ioErr :: ws, out, _ => (ws, out, .failed)
  | .accept k :: ws, out, b :: bs =>
    if k = 0 then (ws, out, .failed)
    else pollWrite ws (out ++ (b :: bs).take k) ((b :: bs).drop k)

inductive ROut where
  | ready (i : Item)
  | keepalive (f : Bytes) (c : Cls)   -- decoded, removed from the buffer; the reply must be written before it is returned
  | pending
  | stuck                             -- script exhausted while waiting
  deriving DecidableEq, Repr

/-- a complete frame at the front of the buffer: classify it -/
def onFrame (cfg : Cfg) (f rest : Bytes) (evs : List Ev) : Bytes × List Ev × ROut :=
  match cfg.parse f.tail with
  | .ok c =>
    (match (if cfg.verify then versionReject c else none) with
     | some n => (rest, evs, .ready (.err (.version n)))
     | none => if isKeepAlive c then (rest, evs, .keepalive f c) else (rest, evs, .ready (.pkt f c)))
  | .err _ => (rest, evs, .ready (.err .decode))
  | .panic => (rest, evs, .ready .abort)

/-- the read part of one poll: decode from the buffer first, otherwise take the next transport event -/
def pollRead (cfg : Cfg) : Bytes → List Ev → Bytes × List Ev × ROut
  | buf, [] =>
    (match split cfg.mode buf with
     | .frame f rest => onFrame cfg f rest []
     | .framing => (buf, [], .ready (.err .framing))
     | .needMore => (buf, [], .stuck))
  | buf, e :: evs' =>
    match split cfg.mode buf with
    | .frame f rest => onFrame cfg f rest (e :: evs')
    | .framing => (buf, e :: evs', .ready (.err .framing))
    | .needMore =>
      match e with
      | .data bs => pollRead cfg (buf ++ bs) evs'
      | .pending => (buf, evs', .pending)
      | .ioErr => (buf, evs', .ready (.err .io))
      | .timeout => (buf, evs', .ready (.err .timeout))
      | .eof => (buf, evs', .ready (.err .disconnected))

inductive PollRes | ready (i : Item) | pending | stuck
  deriving DecidableEq, Repr

/-- `flush()` polled once -/
def pollFlush : List Bool → List Bool × Bool
  | true :: fs => (fs, true)
  | _ :: fs => (fs, false)
  | [] => ([], false)

/-- the reply has been handed to the transport completely: flush, then return the keep-alive -/
def afterWrite (st : St) (f : Bytes) (c : Cls) : St × Phase × PollRes :=
  match pollFlush st.fevs with
  | (fs, true) => ({ st with fevs := fs }, .flushing f c, .pending)
  | (fs, false) => ({ st with fevs := fs }, .idle, .ready (.pkt f c))

/-- one `poll` of the read future -/
def poll (cfg : Cfg) (st : St) : Phase → St × Phase × PollRes
  | .writing rem f c =>
    match pollWrite st.wevs st.out rem with
    | (ws, out, .done) => afterWrite { st with wevs := ws, out := out } f c
    | (ws, out, .pending rem') => ({ st with wevs := ws, out := out }, .writing rem' f c, .pending)
    | (ws, out, .failed) => ({ st with wevs := ws, out := out }, .idle, .ready (.err .io))
  | .flushing f c => afterWrite st f c
  | .idle =>
    match pollRead cfg st.buf st.revs with
    | (buf, evs, .ready i) => ({ st with buf := buf, revs := evs }, .idle, .ready i)
    | (buf, evs, .pending) => ({ st with buf := buf, revs := evs }, .idle, .pending)
    | (buf, evs, .stuck) => ({ st with buf := buf, revs := evs }, .idle, .stuck)
    | (buf, evs, .keepalive f c) =>
      match pollWrite st.wevs st.out (pong cfg.mode) with
      | (ws, out, .done) => afterWrite { st with buf := buf, revs := evs, wevs := ws, out := out } f c
      | (ws, out, .pending rem') => ({ st with buf := buf, revs := evs, wevs := ws, out := out }, .writing rem' f c, .pending)
      | (ws, out, .failed) => ({ st with buf := buf, revs := evs, wevs := ws, out := out }, .idle, .ready (.err .io))

/-- is the session over after this result? (as the harness stops calling `read`) -/
def Item.final : Item → Bool
  | .err .disconnected => true
  | .err .framing => true
  | .abort => true
  | _ => false

/-- A session: the caller keeps calling `read`; whenever a poll returns `Pending` the scheduler may
drop the future (`dropAt n` for the n-th suspension) and start a new one. `safeOnly` restricts drops
to suspensions at which the future holds no decoded packet. Returns the delivered results and the
final state. -/
def session (cfg : Cfg) (dropAt : Nat → Bool) (safeOnly : Bool) : Nat → Nat → St → Phase → List Item × St
  | 0, _, st, _ => ([], st)
  | fuel + 1, n, st, ph =>
    match poll cfg st ph with
    | (st', _, .ready i) =>
      if Item.final i then ([i], st')
      else let r := session cfg dropAt safeOnly fuel n st' .idle; (i :: r.1, r.2)
    | (st', _, .stuck) => ([], st')
    | (st', ph', .pending) =>
      let dropNow := dropAt n && (!safeOnly || (match ph' with | .idle => true | _ => false))
      session cfg dropAt safeOnly fuel (n + 1) st' (if dropNow then .idle else ph')

end Insim.Cancel
