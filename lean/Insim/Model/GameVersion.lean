import Insim.Base.Bytes
/-
Hand model of `insim_core::game_version::GameVersion` (FromStr, Display, PartialEq, Ord).
Characters are code points (`Nat`). Three things are *parameters* with recorded laws:
  * `isNum`   — `char::is_numeric` (a Unicode table of the standard library),
  * `parseF`  — `str::parse::<f32>` on a string of numeric characters and dots, giving the bit pattern,
  * `printF`  — `Display for f32`.
-/
namespace Insim.GV

abbrev Str := List Nat

structure GV where
  major : Nat          -- f32 bit pattern
  minor : Nat          -- code point
  patch : Option Nat
  deriving DecidableEq, Repr

inductive PErr | major | minor | patch
  deriving DecidableEq, Repr

structure Env where
  isNum : Nat → Bool
  parseF : Str → Option Nat
  printF : Nat → Str

def isAsciiAlpha (c : Nat) : Bool := (65 ≤ c && c ≤ 90) || (97 ≤ c && c ≤ 122)
def toAsciiUpper (c : Nat) : Nat := if 97 ≤ c ∧ c ≤ 122 then c - 32 else c
def isAsciiDigit (c : Nat) : Bool := 48 ≤ c && c ≤ 57

/-- `take_while_ref`: longest prefix satisfying `p`, and the rest -/
def spanP (p : Nat → Bool) : Str → Str × Str
  | [] => ([], [])
  | c :: cs => if p c then let r := spanP p cs; (c :: r.1, r.2) else ([], c :: cs)

/-- `str::parse::<usize>` on a string of numeric characters: ASCII digits only, non-empty, < 2^64 -/
def digitsVal : Str → Nat → Nat
  | [], acc => acc
  | c :: cs, acc => digitsVal cs (acc * 10 + (c - 48))

def parseUsize (s : Str) : Option Nat :=
  if s.isEmpty then none
  else if s.all isAsciiDigit then
    (let v := digitsVal s 0; if v < 2 ^ 64 then some v else none)
  else none

/-- the `Patch` iterations of the loop: it runs while characters remain; each iteration takes the
numeric prefix (possibly empty) and must parse it as `usize`. After a successful first iteration any
remaining text starts with a non-numeric character, so the second iteration's prefix is empty and
`"".parse::<usize>()` fails: trailing text is always an error. -/
def patchPhase (env : Env) (g : GV) (rest : Str) : Except PErr GV :=
  match rest with
  | [] => .ok g
  | _ :: _ =>
    match parseUsize (spanP env.isNum rest).1 with
    | none => .error .patch
    | some n =>
      match (spanP env.isNum rest).2 with
      | [] => .ok { g with patch := some n }
      | _ :: _ => .error .patch

/-- numeric-or-dot, the test of the `Major` phase -/
def isMajorChar (env : Env) (c : Nat) : Bool := env.isNum c || c == 46

/-- `impl FromStr for GameVersion` -/
def parse (env : Env) (text : Str) : Except PErr GV :=
  match text with
  | [] => .ok { major := 0, minor := 65, patch := none }
  | _ :: _ =>
    match env.parseF (spanP (isMajorChar env) text).1 with
    | none => .error .major
    | some bits =>
      match (spanP (isMajorChar env) text).2 with
      | [] => .ok { major := bits, minor := 65, patch := none }
      | c :: rest' =>
        if isAsciiAlpha c then patchPhase env { major := bits, minor := toAsciiUpper c, patch := none } rest'
        else .error .minor

/-- `Display for usize`: decimal digits, most significant first -/
def natDigits (n : Nat) : Str :=
  if h : n < 10 then [48 + n] else natDigits (n / 10) ++ [48 + n % 10]
termination_by n
decreasing_by omega

/-- `impl Display for GameVersion` -/
def print (env : Env) (g : GV) : Str :=
  match g.patch with
  | some p => env.printF g.major ++ [g.minor] ++ natDigits p
  | none => env.printF g.major ++ [g.minor]

/-- `impl PartialEq` -/
def eqv (a b : GV) : Bool := a.major == b.major && a.minor == b.minor && a.patch.getD 0 == b.patch.getD 0

/-- `impl Ord`, on versions whose number is a non-negative non-NaN float (everything `parse`
produces): for those, the order of the floats is the order of their bit patterns -/
def cmp (a b : GV) : Ordering :=
  match compare a.major b.major, compare a.minor b.minor, compare (a.patch.getD 0) (b.patch.getD 0) with
  | .eq, .eq, p => p
  | .eq, .gt, _ => .gt
  | .eq, .lt, _ => .lt
  | m, _, _ => m

/-! ### exact decimal → f32 (round to nearest, ties to even), for the driver's concrete `parseF` -/

/-- value `num/den` (positive) ↦ f32 bits -/
def ratToF32 (num den : Nat) : Nat :=
  if num = 0 then 0 else
  -- e := floor(log2(num/den)) estimated, then corrected
  let est : Int := (Nat.log2 num : Int) - (Nat.log2 den : Int)
  let scaled (e : Int) : Nat × Nat :=   -- num/den / 2^(e-23) as a fraction
    let sh := e - 23
    if sh ≥ 0 then (num, den * 2 ^ sh.toNat) else (num * 2 ^ (-sh).toNat, den)
  let pick : Int := if (scaled (est + 1)).1 / (scaled (est + 1)).2 ≥ 2 ^ 23 then est + 1
    else if (scaled est).1 / (scaled est).2 ≥ 2 ^ 23 then est else est - 1
  -- subnormal range: fixed exponent
  let e : Int := if pick < -126 then -126 else pick
  let (n, d) := scaled e
  let q := n / d
  let r := n % d
  let m := if 2 * r > d ∨ (2 * r = d ∧ q % 2 = 1) then q + 1 else q
  -- m in [0, 2^24]; biased exponent
  let (m, e) := if m ≥ 2 ^ 24 then (m / 2, e + 1) else (m, e)
  if m < 2 ^ 23 then m          -- subnormal (e = -126): bits are the mantissa
  else
    let be := e + 127
    if be ≥ 255 then 0x7F800000 else be.toNat * 2 ^ 23 + (m - 2 ^ 23)

/-- `str::parse::<f32>` restricted to strings over digits and dots -/
def parseF32 (s : Str) : Option Nat :=
  let (ip, rest) := spanP isAsciiDigit s
  let ok (fp : Str) : Option Nat :=
    if ip.isEmpty ∧ fp.isEmpty then none
    else some (ratToF32 (digitsVal (ip ++ fp) 0) (10 ^ fp.length))
  match rest with
  | [] => ok []
  | 46 :: fr => let (fp, rest') := spanP isAsciiDigit fr; if rest'.isEmpty then ok fp else none
  | _ => none

end Insim.GV
