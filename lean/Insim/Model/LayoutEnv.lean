import Insim.Model.Layout
import Insim.Gen.Packets
import Insim.Gen.Vehicle
import Insim.Gen.Track
/-- the environment of the hand-written codecs, filled from the regenerated tables -/
def Insim.Layout.genEnv : Insim.Layout.Env :=
  { vehRead := Insim.Gen.Vehicle.readRows, vehWrite := Insim.Gen.Vehicle.writeRows,
    trkRead := Insim.Gen.Track.readRows, trkWrite := Insim.Gen.Track.writeRows,
    compCarInfoMask := Insim.Gen.Packets.compCarInfoMask,
    smallAlcMask := Insim.Gen.Packets.plcAllowedCarsMask,
    smallLcsMask := Insim.Gen.Packets.lcsFlagsMask,
    smallLclMask := Insim.Gen.Packets.lclFlagsMask }
