import Insim.Base.Bytes
/-
A byte source that hands its data over in pieces: what `std::io::Read::read` is allowed to do. The hand-written field
codecs (Vehicle, Track, the file readers) get their bytes through `read_exact`; this file models that loop and proves
that its result does not depend on how the source cuts the data up.
-/
namespace Insim.Reader
open Insim

/-- one `read` call asking for `n ≥ 1` bytes from a source that will deliver `pieces` (empty pieces skipped): at most `n` bytes,
never across a piece boundary; `[]` only at end of data -/
def read (n : Nat) : List Bytes → Bytes × List Bytes
  | [] => ([], [])
  | p :: ps =>
    if p.isEmpty then read n ps
    else if p.length ≤ n then (p, ps) else (p.take n, p.drop n :: ps)

/-- `read_exact(n)`: keep reading until `n` bytes are there; `none` = unexpected end of data -/
def readExact : Nat → List Bytes → Bytes → Option (Bytes × List Bytes)
  | 0, ps, acc => some (acc, ps)
  | n + 1, ps, acc =>
    match _h : read (n + 1) ps with
    | (chunk, ps') =>
      if chunk.isEmpty then none
      else readExact (n + 1 - chunk.length) ps' (acc ++ chunk)
termination_by n => n
decreasing_by
  have : 0 < chunk.length := by
    cases chunk with
    | nil => simp at *
    | cons _ _ => simp
  omega

/-- a field decoder `dec` (a function of exactly the field's `n` bytes) fed from such a source through `read_exact`: the value,
and what the source still holds afterwards; an unexpected end of data is binrw's I/O error -/
def decodeFrom {α} (n : Nat) (dec : Bytes → Out α) (pieces : List Bytes) : Out α × Option (List Bytes) :=
  match readExact n pieces [] with
  | some (bs, rest) => (dec bs, some rest)
  | none => (.err .decode, none)

/-- the same source cut into pieces of `per ≥ 1` bytes (what the harness's dribbling reader does) -/
def chunks (per : Nat) (b : Bytes) : List Bytes :=
  if h : per = 0 ∨ b = [] then (if b = [] then [] else [b])
  else b.take per :: chunks per (b.drop per)
termination_by b.length
decreasing_by
  have hb : b ≠ [] := fun e => h (Or.inr e)
  have : 0 < b.length := List.length_pos_iff.mpr hb
  simp only [List.length_drop]; omega

end Insim.Reader
