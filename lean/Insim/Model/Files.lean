import Insim.Model.Layout
/-
PTH and SMX files (insim_pth, insim_smx): containers of counted vectors over flat leaf layouts.
The leaf layouts (header fields, Node, Object header, ObjectPoint, Triangle) are parameters supplied by
`Insim.Gen.Files`; the container shape is hand-modelled: magic, header with `calc`ed i32 counts,
`#[br(count = n)]` vectors — a negative count is an error.
-/
namespace Insim.Files
open Insim Insim.Layout

/-- no hand-written codecs occur in these files -/
def noEnv : Env := { vehRead := [], vehWrite := [], trkRead := [], trkWrite := [], compCarInfoMask := 0,
                     smallAlcMask := 0, smallLcsMask := 0, smallLclMask := 0 }

/-- values of all `count` fields among decoded values, in order -/
def countsOf : List Field → List Val → List Nat
  | [], _ => []
  | f :: fs, vs =>
    match f.ty, vs with
    | .count _ _, .n v :: _ => v :: countsOf fs (vs.drop (arity f.ty))
    | _, _ => countsOf fs (vs.drop (arity f.ty))

/-- an i32 count as binrw sees it: negative (top bit set) is "count out of range" -/
def countOk (v : Nat) : Bool := decide (v < 2 ^ 31)

def dropMagic (magic bs : Bytes) : Option Bytes :=
  if bs.take magic.length = magic then some (bs.drop magic.length) else none

/-- the length a `count` field is `calc`ed from (the next one in order), and the lengths left for later fields -/
def cntFor : Ty → List Nat → Nat
  | .count _ _, cs => cs.headD 0
  | _, _ => 0
def restCs : Ty → List Nat → List Nat
  | .count _ _, cs => cs.tail
  | _, cs => cs

/-- encode a field list whose `count` fields are filled from the given lengths, in order -/
def encFieldsC (env : Env) : List Nat → List Field → List Val → Out Bytes
  | _, [], [] => .ok []
  | _, [], _ :: _ => .err .encode
  | cs, f :: fs, vs =>
    match encTy env f.ty (cntFor f.ty cs) (vs.take (arity f.ty)) with
    | .ok bs =>
      (match encFieldsC env (restCs f.ty cs) fs (vs.drop (arity f.ty)) with
       | .ok rest => .ok (List.replicate f.wb 0 ++ bs ++ List.replicate f.wa 0 ++ rest)
       | .err e => .err e
       | .panic => .panic)
    | .err e => .err e
    | .panic => .panic

structure Leafs where
  pthMagic : Bytes
  smxMagic : Bytes
  pthHeader : List Field
  node : List Field
  smxHeader : List Field
  checkpointCount : List Field
  objHeader : List Field
  point : List Field
  triangle : List Field

/-! ### PTH -/

structure Pth where
  header : List Val
  nodes : List (List Val)
  deriving DecidableEq, Repr

def decPth (lf : Leafs) (bs : Bytes) : Out (Pth × Bytes) :=
  match dropMagic lf.pthMagic bs with
  | none => .err .decode
  | some b1 =>
    match decFields noEnv lf.pthHeader b1 with
    | .ok (hv, b2) =>
      (match countsOf lf.pthHeader hv with
       | [n] =>
         if countOk n then
           match decElems noEnv lf.node n b2 with
           | .ok (ns, rest) => .ok ({ header := hv, nodes := ns }, rest)
           | .err e => .err e
           | .panic => .panic
         else .err .decode
       | _ => .err .decode)
    | .err e => .err e
    | .panic => .panic

def encPth (lf : Leafs) (p : Pth) : Out Bytes :=
  match encFieldsC noEnv [p.nodes.length] lf.pthHeader p.header with
  | .ok h =>
    (match encElems noEnv lf.node p.nodes with
     | .ok ns => .ok (lf.pthMagic ++ h ++ ns)
     | .err e => .err e
     | .panic => .panic)
  | .err e => .err e
  | .panic => .panic

/-! ### SMX -/

structure Obj where
  header : List Val
  points : List (List Val)
  triangles : List (List Val)
  deriving DecidableEq, Repr

structure Smx where
  header : List Val
  objects : List Obj
  checkpoints : List Nat
  deriving DecidableEq, Repr

def decObj (lf : Leafs) (bs : Bytes) : Out (Obj × Bytes) :=
  match decFields noEnv lf.objHeader bs with
  | .ok (hv, b1) =>
    (match countsOf lf.objHeader hv with
     | [np, nt] =>
       if countOk np && countOk nt then
         match decElems noEnv lf.point np b1 with
         | .ok (ps, b2) =>
           (match decElems noEnv lf.triangle nt b2 with
            | .ok (ts, b3) => .ok ({ header := hv, points := ps, triangles := ts }, b3)
            | .err e => .err e
            | .panic => .panic)
         | .err e => .err e
         | .panic => .panic
       else .err .decode
     | _ => .err .decode)
  | .err e => .err e
  | .panic => .panic

def decObjs (lf : Leafs) : Nat → Bytes → Out (List Obj × Bytes)
  | 0, bs => .ok ([], bs)
  | k + 1, bs =>
    match decObj lf bs with
    | .ok (o, rest) =>
      (match decObjs lf k rest with
       | .ok (os, rest') => .ok (o :: os, rest')
       | .err e => .err e
       | .panic => .panic)
    | .err e => .err e
    | .panic => .panic

def decI32s : Nat → Bytes → Out (List Nat × Bytes)
  | 0, bs => .ok ([], bs)
  | k + 1, bs =>
    if bs.length < 4 then .err .decode
    else match decI32s k (bs.drop 4) with
      | .ok (xs, r) => .ok (ofLe (bs.take 4) :: xs, r)
      | .err e => .err e
      | .panic => .panic

def decSmx (lf : Leafs) (bs : Bytes) : Out (Smx × Bytes) :=
  match dropMagic lf.smxMagic bs with
  | none => .err .decode
  | some b1 =>
    match decFields noEnv lf.smxHeader b1 with
    | .ok (hv, b2) =>
      (match countsOf lf.smxHeader hv with
       | [no] =>
         if countOk no then
           match decObjs lf no b2 with
           | .ok (os, b3) =>
             (match decFields noEnv lf.checkpointCount b3 with
              | .ok (cv, b4) =>
                (match countsOf lf.checkpointCount cv with
                 | [nc] =>
                   if countOk nc then
                     match decI32s nc b4 with
                     | .ok (cs, rest) => .ok ({ header := hv, objects := os, checkpoints := cs }, rest)
                     | .err e => .err e
                     | .panic => .panic
                   else .err .decode
                 | _ => .err .decode)
              | .err e => .err e
              | .panic => .panic)
           | .err e => .err e
           | .panic => .panic
         else .err .decode
       | _ => .err .decode)
    | .err e => .err e
    | .panic => .panic

def encObj (lf : Leafs) (o : Obj) : Out Bytes :=
  match encFieldsC noEnv [o.points.length, o.triangles.length] lf.objHeader o.header with
  | .ok h =>
    (match encElems noEnv lf.point o.points with
     | .ok ps =>
       (match encElems noEnv lf.triangle o.triangles with
        | .ok ts => .ok (h ++ ps ++ ts)
        | .err e => .err e
        | .panic => .panic)
     | .err e => .err e
     | .panic => .panic)
  | .err e => .err e
  | .panic => .panic

def encObjs (lf : Leafs) : List Obj → Out Bytes
  | [] => .ok []
  | o :: os =>
    match encObj lf o with
    | .ok b => (match encObjs lf os with | .ok r => .ok (b ++ r) | .err e => .err e | .panic => .panic)
    | .err e => .err e
    | .panic => .panic

def encSmx (lf : Leafs) (s : Smx) : Out Bytes :=
  match encFieldsC noEnv [s.objects.length] lf.smxHeader s.header with
  | .ok h =>
    (match encObjs lf s.objects with
     | .ok os =>
       (match encFieldsC noEnv [s.checkpoints.length] lf.checkpointCount [.n s.checkpoints.length] with
        | .ok c => .ok (lf.smxMagic ++ h ++ os ++ c ++ s.checkpoints.flatMap (leBytes 4))
        | .err e => .err e
        | .panic => .panic)
     | .err e => .err e
     | .panic => .panic)
  | .err e => .err e
  | .panic => .panic

end Insim.Files
