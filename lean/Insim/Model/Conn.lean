import Insim.Model.Frame
/-
L4: the `Framed` read loop (net/blocking_impl/framed.rs and net/tokio_impl/framed.rs — the two files
differ only in `.await`, the 90 s timeout around `read_buf` and the write call, so they are one
definition here; `timeout`/`pending` events simply never occur in a blocking script).

A transport is a *script* of read events. A `data` event is what one `read` call returned (never
empty): whatever slice size the connection offered, the sequence of returned chunks is a partition of
the byte stream, and the theorems quantify over every partition.
-/
namespace Insim.Conn
open Insim Insim.Frame

inductive Ev where
  | data (bs : Bytes)
  | pending          -- tokio: `Poll::Pending`, the future is polled again later
  | ioErr            -- a transient transport error
  | timeout          -- tokio: nothing arrived for DEFAULT_TIMEOUT_SECS
  | eof              -- `read` returned 0
  deriving DecidableEq, Repr

/-- what the connection needs to know about a decoded packet -/
inductive Cls where
  | tiny (reqi subt : Nat)
  | ver (insimver : Nat)
  | other
  deriving DecidableEq, Repr

/-- `Packet::maybe_pong`: TINY, sub-type NONE (0), request id 0 -/
def isKeepAlive : Cls → Bool
  | .tiny 0 0 => true
  | _ => false

/-- `crate::VERSION` -/
def insimVersion : Nat := 9

/-- `Packet::maybe_verify_version`: `some n` = rejected with `IncompatibleVersion(n)` -/
def versionReject : Cls → Option Nat
  | .ver n => if n ≠ insimVersion then some n else none
  | _ => none

structure Cfg where
  mode : Mode
  verify : Bool
  /-- packet parser, on the frame minus its size byte -/
  parse : Bytes → Out Cls

/-- the keep-alive reply: `Codec::encode(Tiny { reqi: 0, subt: None })` -/
def pong (m : Mode) : Bytes := if m.compressed then [1, 3, 0, 0] else [4, 3, 0, 0]

inductive Item where
  | pkt (frame : Bytes) (c : Cls)   -- `read` returned `Ok(packet)`
  | err (e : ErrClass)              -- `read` returned `Err(..)`
  | wrote (bs : Bytes)              -- bytes handed to the transport's write half
  | abort                           -- the process panicked
  | blocked                         -- the script ran out while `read` was waiting
  deriving DecidableEq, Repr

/-- what one complete frame produces -/
def frameItems (cfg : Cfg) (f : Bytes) : List Item :=
  match cfg.parse (f.tail) with
  | .ok c =>
    match (if cfg.verify then versionReject c else none) with
    | some n => [.err (.version n)]
    | none => if isKeepAlive c then [.wrote (pong cfg.mode), .pkt f c] else [.pkt f c]
  | .err _ => [.err .decode]
  | .panic => [.abort]

/-- all successive `read` calls until the connection is over or the script is exhausted;
outgoing writes are interleaved at the point where they happen -/
def run (cfg : Cfg) : Bytes → List Ev → List Item
  | buf, evs =>
    match h : split cfg.mode buf with
    | .frame f rest =>
      if cfg.parse (f.tail) = .panic then [.abort]
      else frameItems cfg f ++ run cfg rest evs
    | .framing => [.err .framing]       -- the frame is not removed: every later read fails the same way
    | .needMore =>
      match evs with
      | [] => [.blocked]
      | .data bs :: evs' => run cfg (buf ++ bs) evs'
      | .pending :: evs' => run cfg buf evs'
      | .ioErr :: evs' => .err .io :: run cfg buf evs'
      | .timeout :: evs' => .err .timeout :: run cfg buf evs'
      | .eof :: _ => [.err .disconnected]
termination_by buf evs => (evs.length, buf.length)
decreasing_by
  all_goals simp_wf
  · exact Prod.Lex.right _ (split_rest_lt cfg.mode buf f rest h)
  all_goals exact Prod.Lex.left _ _ (by simp)

/-! ### script observables -/

/-- the bytes a script delivers before the stream ends -/
def dataOf : List Ev → Bytes
  | [] => []
  | .data bs :: es => bs ++ dataOf es
  | .eof :: _ => []
  | _ :: es => dataOf es

/-- number of transient failures (I/O errors, timeouts) before the stream ends -/
def faultsOf : List Ev → Nat
  | [] => 0
  | .ioErr :: es => faultsOf es + 1
  | .timeout :: es => faultsOf es + 1
  | .eof :: _ => 0
  | _ :: es => faultsOf es

def EndsEof : List Ev → Prop
  | [] => False
  | .eof :: _ => True
  | _ :: es => EndsEof es

def Item.isFault : Item → Bool
  | .err .io => true
  | .err .timeout => true
  | _ => false

/-! ### the write path (`Framed::write`) -/

inductive WEv where
  | accept (k : Nat)   -- the transport takes `min k remaining` bytes (k ≥ 1)
  | pending            -- tokio: not ready, try again
  | ioErr
  deriving DecidableEq, Repr

/-- `write_all` / `write_all_buf`: keep writing until the frame is gone. Returns what reached the
transport, whether the call succeeded, and the unused script. -/
def writeAll : Bytes → List WEv → Bytes × Bool × List WEv
  | [], ws => ([], true, ws)
  | _ :: _, [] => ([], false, [])              -- script exhausted: blocked
  | b :: bs, .pending :: ws => writeAll (b :: bs) ws
  | _ :: _, .ioErr :: ws => ([], false, ws)
  | b :: bs, .accept k :: ws =>
    if k = 0 then ([], false, ws)              -- `WriteZero`
    else
      let r := writeAll ((b :: bs).drop k) ws
      ((b :: bs).take k ++ r.1, r.2.1, r.2.2)
termination_by bs ws => (ws.length, bs.length)
decreasing_by
  all_goals simp_wf
  all_goals exact Prod.Lex.left _ _ (by simp)

/-- a sequence of `write` calls; stops at the first failure like a caller using `?` -/
def writeMany : List Bytes → List WEv → Bytes × Bool
  | [], _ => ([], true)
  | f :: fs, ws =>
    match writeAll f ws with
    | (out, true, ws') => let r := writeMany fs ws'; (out ++ r.1, r.2)
    | (out, false, _) => (out, false)

end Insim.Conn
