import Insim.Model.Layout
/-
C02: the specification side (an independent table: `Insim.Gen.Spec`, generated from
DESIGN-appendix-spec.md, nothing under /repo) and the normaliser that turns a packet layout
regenerated from the source into the same vocabulary: a *byte map* of the frame.

A byte map assigns to every byte offset of the fixed part of a frame (from offset 2, the request id)
one mark: `spare` (must be written as zero, ignored on read), `start` of a field (with its
normalised name, class, unit, width and — for enumerants and flags — its name/value rows), `cont`
(a later byte of a multi-byte field) or `opaque` (a byte of a hand-written codec whose inner layout is
compared separately).
-/
namespace Insim.Spec
open Insim Insim.Layout

/-- one field of the specification -/
structure SCell where
  code : Bytes          -- the normalised name the crate is expected to use
  off : Nat             -- offset from the start of the frame (or of the element)
  width : Nat
  cls : Nat             -- 0 uint 1 sint 2 f32 3 text 4 car 5 dur 6 spclose 7 enum 8 flags 9 bytes
  unit : Nat            -- durations: milliseconds per wire unit
  rows : List (Bytes × Nat)   -- enumerants / flag constants: (normalised name, value)
  deriving DecidableEq, Repr

inductive STail where
  | none
  | text (code : Bytes) (off min max : Nat)
  | vec (code : Bytes) (off eltSize oddPad : Nat) (cells : List SCell)
  deriving DecidableEq, Repr

structure SKind where
  typeNo : Nat
  name : Bytes
  size : Nat            -- length of the fixed part, counted from byte 0 of the frame
  cells : List SCell
  tail : STail
  deriving DecidableEq, Repr

inductive Mark where
  | spare
  | start (name : Bytes) (cls unit width : Nat)
  | cont
  | opaque
  deriving DecidableEq, Repr

/-! ### byte map of a specification entry -/

/-- marks of one cell -/
def cellMarks (c : SCell) : List Mark :=
  match c.width with
  | 0 => []
  | w + 1 => .start c.code c.cls c.unit c.width :: List.replicate w .cont

/-- lay cells (sorted by offset) over `[pos, stop)`, filling gaps with `spare` -/
def specMarks : List SCell → Nat → Nat → List Mark
  | [], pos, stop => List.replicate (stop - pos) .spare
  | c :: cs, pos, stop =>
    List.replicate (c.off - pos) .spare ++ cellMarks c ++ specMarks cs (c.off + c.width) stop

/-! ### byte map of a regenerated layout -/

def lower (b : Nat) : Nat := if 65 ≤ b ∧ b ≤ 90 then b + 32 else b
def keep (b : Nat) : Bool :=
  (97 ≤ b && b ≤ 122) || (48 ≤ b && b ≤ 57) || b == 46 || b == 91 || b == 93
/-- lower case, keep letters, digits, `.`, `[`, `]` -/
def normName (p : Bytes) : Bytes := (p.map lower).filter keep

/-- class of a field type in the specification's vocabulary; `none` = hand-written codec (opaque) -/
def clsOf : Ty → Option (Nat × Nat)
  | .uint _ => some (0, 0) | .count _ _ => some (0, 0) | .bool8 => some (0, 0) | .char8 => some (0, 0)
  | .sint _ => some (1, 0)
  | .f32 => some (2, 0)
  | .str _ _ _ _ _ => some (3, 0)
  | .custom .vehicle => some (4, 0)
  | .custom .track => some (3, 0)
  | .custom .raceLaps => some (0, 0)
  | .custom .fuel => some (0, 0)
  | .custom .fuel200 => some (0, 0)
  | .dur _ rs _ _ => some (5, rs)
  | .spclose => some (6, 0)
  | .enumU8 _ => some (7, 0)
  | .flags _ _ => some (8, 0)
  | .custom _ => none

inductive Side | rd | wr deriving DecidableEq, Repr

def widthOn : Side → Ty → Nat
  | .rd, ty => wireSize ty
  | .wr, .dur _ _ ww _ => ww
  | .wr, .str _ wn _ _ _ => wn
  | .wr, ty => wireSize ty

def padB (s : Side) (f : Field) : Nat := match s with | .rd => f.rb | .wr => f.wb
def padA (s : Side) (f : Field) : Nat := match s with | .rd => f.ra | .wr => f.wa

def fieldMarks (s : Side) (pre : Bytes) (f : Field) : List Mark :=
  let w := widthOn s f.ty
  List.replicate (padB s f) .spare ++
  (match clsOf f.ty, w with
   | _, 0 => []
   | some (c, u), w' + 1 => .start (pre ++ normName f.path) c u w :: List.replicate w' .cont
   | none, _ => List.replicate w .opaque) ++
  List.replicate (padA s f) .spare

def codeMarks (s : Side) (pre : Bytes) : List Field → List Mark
  | [] => []
  | f :: fs => fieldMarks s pre f ++ codeMarks s pre fs

/-! ### comparison -/

/-- the names agree when equal, or when the specification's name is the crate's name behind a
prefix (`plid[3]` for `plid[3]`), the comparison is on normalised names -/
def markOk : Mark → Mark → Bool
  | .opaque, _ => true
  | .spare, .spare => true
  | .cont, .cont => true
  | .start n c u w, .start n' c' u' w' => beqB n n' && c == c' && u == u' && w == w'
  | _, _ => false

def marksOk : List Mark → List Mark → Bool
  | [], [] => true
  | a :: as, b :: bs => markOk a b && marksOk as bs
  | _, _ => false

/-- rows: every (name, value) of the specification occurs among the crate's -/
def rowsIn (spec code : List (Bytes × Nat)) : Bool :=
  spec.all (fun r => code.any (fun q => beqB q.1 r.1 && q.2 == r.2))

def lookupRows (tbl : List (Nat × Bytes × List (Bytes × Nat))) (tno : Nat) (path : Bytes) : Option (List (Bytes × Nat)) :=
  match tbl.find? (fun r => r.1 == tno && beqB (normName r.2.1) path) with
  | some r => some r.2.2
  | none => none

/-- enumerant / flag rows of every specification cell are present in the crate's table for the field of
that name. A field without a table on the crate's side is one handled by a hand-written codec (the byte
map marks it opaque; a plain integer there would already fail the class comparison). -/
def cellsRowsOk (tbl : List (Nat × Bytes × List (Bytes × Nat))) (tno : Nat) (pre : Bytes) (cells : List SCell) : Bool :=
  cells.all (fun c => c.rows.isEmpty ||
    (match lookupRows tbl tno (pre ++ c.code) with
     | some code => rowsIn c.rows code
     | none => true))

/-- the tail of a layout against the tail of the specification -/
def tailOk (s : Side) (t : Tail) (st : STail) (fixedLen : Nat) : Bool :=
  match t, st with
  | .none, .none => true
  | .vec elt oddR oddW, .vec _ off eltSize oddPad cells =>
    off == fixedLen && marksOk (codeMarks s [] elt) (specMarks cells 0 eltSize) &&
    (match s with | .rd => oddR == oddPad | .wr => oddW == oddPad)
  | .set _, .vec _ off eltSize oddPad cells =>
    off == fixedLen && eltSize == 4 && oddPad == 0 && cells.length == 1
  | .strEof wn _ _ align, .text _ off _ mx =>
    off == fixedLen && wn == mx && align == 4
  | _, _ => false

/-- a regenerated layout conforms to a specification entry on the given side -/
def conformsOn (s : Side) (L : Layout) (S : SKind) : Bool :=
  L.typeNo == S.typeNo &&
  marksOk (codeMarks s [] L.fields) (specMarks S.cells 2 S.size) &&
  tailOk s L.tail S.tail S.size

def specFor (all : List SKind) (tno : Nat) : Option SKind := all.find? (fun S => S.typeNo == tno)

def conforms (tbl : List (Nat × Bytes × List (Bytes × Nat))) (spec : List SKind) (L : Layout) : Bool :=
  match specFor spec L.typeNo with
  | none => false
  | some S =>
    if L.customBody then true else
    conformsOn .rd L S && conformsOn .wr L S && cellsRowsOk tbl L.typeNo [] S.cells &&
    (match S.tail with
     | .vec code _ _ _ cells => cellsRowsOk tbl L.typeNo (code ++ [46]) cells
     | _ => true)

/-- first offset at which the byte maps differ (for the report) -/
def firstDiff : List Mark → List Mark → Nat → Option Nat
  | [], [], _ => none
  | a :: as, b :: bs, i => if markOk a b then firstDiff as bs (i + 1) else some i
  | _, _, i => some i

end Insim.Spec
