import Insim.Model.Codepage
import Insim.Model.Layout
/-
IS_MSO at the level of its typed fields (`msg: String`, `textstart: u8`): the hand-written body codec of
insim/src/insim/mso.rs composed with the codepage layer (Model/Codepage) — what `Mso::write_options` puts
after the five header bytes, and what `Mso::read_options` makes of it. Strings are lists of code points;
`textstart` counts UTF-8 bytes of the Rust string on the typed side and wire bytes on the wire side.
-/
namespace Insim.Text
open Insim Insim.Cp Insim.Layout

def utf8Len (c : Nat) : Nat := if c < 0x80 then 1 else if c < 0x800 then 2 else if c < 0x10000 then 3 else 4
def strLen : Str → Nat
  | [] => 0
  | c :: cs => utf8Len c + strLen cs

/-- `msg.get(..textstart)`: the prefix of `textstart` UTF-8 bytes, if that is a character boundary -/
def splitUtf8 : Str → Nat → Option (Str × Str)
  | s, 0 => some ([], s)
  | [], _ + 1 => none
  | c :: cs, n + 1 =>
    if utf8Len c ≤ n + 1 then
      match splitUtf8 cs (n + 1 - utf8Len c) with
      | some (a, b) => some (c :: a, b)
      | none => none
    else none

/-- `Mso::write_options` on (textstart, msg): the TextStart byte and the text bytes; `none` = refused -/
def msoWrite (cp : Mk → CP) (order : List Mk) (ts : Nat) (s : Str) : Option (Nat × Bytes) :=
  if ts > 0 then
    match splitUtf8 s ts with
    | some (nm, _) => some ((toBytes cp order nm).length % 256, writeStr 128 4 (toBytes cp order s))
    | none => none
  else some (0, writeStr 128 4 (toBytes cp order s))

/-- `Mso::read_options` on the TextStart byte and the rest of the frame: (textstart, msg) -/
def msoRead (cp : Mk → CP) (ts : Nat) (body : Bytes) : Option (Nat × Str) :=
  if ts > 0 then
    if body.length < ts then none
    else
      let nm := stripNul (body.take ts)
      some (strLen (Cp.toString cp nm) % 256, Cp.toString cp (nm ++ stripNul (body.drop ts)))
  else some (0, Cp.toString cp (stripNul body))

/-- the same reader as a decoding plan (for the correspondence run, where the codecs are `encoding_rs`'s): the segments of
the name part alone (their decoded UTF-8 length is the typed textstart) and of the whole text -/
def msoReadPlan (ts : Nat) (body : Bytes) : Option (List Seg × List Seg) :=
  if ts > 0 then
    if body.length < ts then none
    else
      let nm := stripNul (body.take ts)
      some (planGo .L [] nm, planGo .L [] (nm ++ stripNul (body.drop ts)))
  else some ([], planGo .L [] (stripNul body))

end Insim.Text
