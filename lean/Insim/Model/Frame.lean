import Insim.Base.Bytes
/-
L3: `insim::net::Mode` (mode.rs) and `insim::net::Codec` (codec.rs), transcribed line by line.
The packet parser / serialiser is a *parameter* (`parse`, a body of bytes): its own model is the
layout layer; everything here holds for every parser.
-/
namespace Insim.Frame

structure Mode where
  compressed : Bool
  deriving DecidableEq, Repr

/-- `Mode::max_length` -/
def Mode.maxLen (m : Mode) : Nat := if m.compressed then 1020 else 255
/-- size byte ↦ announced frame length -/
def Mode.announced (m : Mode) (b : Nat) : Nat := if m.compressed then b * 4 else b
/-- `valid_raw_buffer_min_len` -/
def minLen : Nat := 4

/-! ### `Mode::encode_length` -/

/-- `len` includes the size byte. The three `panic!` sites are modelled as `panic`. -/
def encodeLength (m : Mode) (len : Nat) : Out Nat :=
  if len < minLen then .panic
  else if m.compressed then
    if len % 4 = 0 then
      (if len > m.maxLen then .panic else .ok (len / 4))
    else .panic
  else
    (if len > m.maxLen then .panic else .ok len)

/-! ### `Mode::decode_length` -/

inductive DecLen where
  | needMore
  | framing
  | len (n : Nat)
  deriving DecidableEq, Repr

def decodeLength (m : Mode) (buf : Bytes) : DecLen :=
  if buf.length < minLen then .needMore
  else match buf with
    | [] => .needMore
    | b :: _ =>
      if m.announced b < minLen then .framing
      else if m.announced b > m.maxLen then .framing
      else if buf.length < m.announced b then .needMore
      else .len (m.announced b)

/-! ### `Codec::decode` -/

inductive Split where
  | needMore
  | framing
  | frame (f rest : Bytes)
  deriving DecidableEq, Repr

/-- `decode_length` followed by `split_to(n)` -/
def split (m : Mode) (buf : Bytes) : Split :=
  match decodeLength m buf with
  | .needMore => .needMore
  | .framing => .framing
  | .len n => .frame (buf.take n) (buf.drop n)

/-- needed for the termination of the read loop: removing a frame shrinks the buffer -/
theorem split_rest_lt (m : Mode) (buf f rest : Bytes) (h : split m buf = .frame f rest) : rest.length < buf.length := by
  unfold split at h
  split at h
  · cases h
  · cases h
  · rename_i n hd
    injection h with h1 h2
    subst h2
    cases buf with
    | nil => simp [decodeLength, minLen] at hd
    | cons b tl =>
      simp only [decodeLength] at hd
      split at hd
      · cases hd
      · split at hd
        · cases hd
        · split at hd
          · cases hd
          · split at hd
            · cases hd
            · injection hd with hd; subst hd
              simp [minLen] at *; omega

/-- `Codec::decode`: result and the caller's buffer afterwards. `parse` sees the frame minus its
size byte (`advance(1)`), and nothing else. -/
def decode {P} (m : Mode) (parse : Bytes → Out P) (buf : Bytes) : Out (Option P) × Bytes :=
  match split m buf with
  | .needMore => (.ok none, buf)
  | .framing => (.err .framing, buf)
  | .frame f rest =>
    match parse (f.tail) with
    | .ok p => (.ok (some p), rest)
    | .err _ => (.err .decode, rest)
    | .panic => (.panic, rest)

/-! ### `Codec::encode` -/

/-- `body` = what `Packet::write` produced (type byte, request id, …), or its error -/
def encode (m : Mode) (body : Out Bytes) : Out Bytes :=
  match body with
  | .ok bs =>
    match encodeLength m (bs.length + 1) with
    | .ok n => .ok (n :: bs)
    | .err e => .err e
    | .panic => .panic
  | .err _ => .err .encode
  | .panic => .panic

/-- a valid frame: its size byte announces exactly its length, which is within the mode's bounds -/
def ValidFrame (m : Mode) (f : Bytes) : Prop :=
  ∃ b t, f = b :: t ∧ m.announced b = f.length ∧ 4 ≤ f.length ∧ f.length ≤ m.maxLen

end Insim.Frame
