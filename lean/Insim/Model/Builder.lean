import Insim.Base.Bytes
/-
Hand model of `insim::builder::Builder` as far as the handshake is concerned: the fields that feed
`Builder::isi()`, every public setter as an `Op`, and `isi()` itself (after the `fix:` commit that
removed the `unwrap` on an absent UDP local address).
-/
namespace Insim.Bld

inductive Proto | tcp | udp | relay
  deriving DecidableEq, Repr

structure Cfg where
  proto : Proto := .tcp
  udpLocalPort : Option Nat := none
  compressed : Bool := true
  flags : BitVec 16 := 0
  pfx : Option Nat := none          -- `isi_prefix`
  interval : Option Nat := none     -- ms
  iname : Option (List Nat) := none
  admin : Option (List Nat) := none
  reqi : Nat := 0
  deriving DecidableEq, Repr

inductive Op where
  | tcp
  | udp (localPort : Option Nat)
  | relay
  | mode (compressed : Bool)
  | flags (v : BitVec 16)                 -- `isi_flags`: wholesale replacement
  | flag (mask : BitVec 16) (on : Bool)   -- `isi_flag_*`: `IsiFlags::set(mask, on)`
  | pfx (c : Option Nat)
  | interval (ms : Option Nat)
  | iname (s : Option (List Nat))
  | admin (s : Option (List Nat))
  | reqi (r : Nat)
  | other                                  -- setters that do not feed the handshake (timeouts, nodelay, verify_version, relay_*)
  deriving DecidableEq, Repr

/-- `bitflags`' `set`: insert or remove the mask -/
def setMask (x mask : BitVec 16) (on : Bool) : BitVec 16 := if on then x ||| mask else x &&& ~~~mask

def apply (c : Cfg) : Op → Cfg
  | .tcp => { c with proto := .tcp }
  | .udp l => { c with proto := .udp, udpLocalPort := l }
  | .relay => { c with proto := .relay }
  | .mode m => { c with compressed := m }
  | .flags v => { c with flags := v }
  | .flag m on => { c with flags := setMask c.flags m on }
  | .pfx p => { c with pfx := p }
  | .interval i => { c with interval := i }
  | .iname s => { c with iname := s }
  | .admin s => { c with admin := s }
  | .reqi r => { c with reqi := r }
  | .other => c

def run (ops : List Op) : Cfg := ops.foldl apply {}

structure Isi where
  reqi : Nat
  udpport : Nat
  flags : BitVec 16
  version : Nat
  pfx : Nat
  interval : Nat
  admin : List Nat
  iname : List Nat
  deriving DecidableEq, Repr

/-- `Builder::isi()`; `defaultIname`/`version` come from the regenerated constants -/
def isi (defaultIname : List Nat) (version : Nat) (c : Cfg) : Isi :=
  { reqi := c.reqi,
    udpport := (match c.proto with
      | .udp => c.udpLocalPort.getD 0
      | _ => 0),
    flags := c.flags,
    version := version,
    pfx := c.pfx.getD 0,
    interval := c.interval.getD 0,
    admin := c.admin.getD [],
    iname := c.iname.getD defaultIname }

/-- last op (scanning from the end) for which `g` has an opinion -/
def lastSome {α} (g : Op → Option α) : List Op → Option α
  | [] => none
  | op :: rest => match lastSome g rest with
    | some v => some v
    | none => g op

end Insim.Bld
