import Insim.Drv.C08
import Insim.Drv.C10
import Insim.Drv.C12
import Insim.Drv.C13
import Insim.Drv.C14
import Insim.Drv.C15
import Insim.Drv.C16
import Insim.Drv.C17
import Insim.Drv.C18
import Insim.Drv.C19
import Insim.Drv.C20
import Insim.Drv.Conn
import Insim.Drv.Pkt
/-
Line-protocol driver: one operation per input line, one canonical result per output line.
Imports model files only (no Mathlib, no proof files) so that it links as a native executable.
-/
open Insim.Drv

def dispatch (line : String) : String :=
  let ws := words line
  let hs : List (List String → Option String) := [C08.handle, C10.handle, C12.handle, C13.handle, C14.handle, C15.handle, C16.handle, C17.handle, C18.handle, C19.handle, C20.handle, Conn.handle, Pkt.handle, Pkt.handleLen, Pkt.handleStr]
  match hs.findSome? (fun h => h ws) with
  | some r => r
  | none => "bad-op"

partial def loop (hin hout : IO.FS.Stream) : IO Unit := do
  let line ← hin.getLine
  if line.isEmpty then return ()
  hout.putStrLn (dispatch line)
  loop hin hout

def main : IO Unit := do
  let hin ← IO.getStdin
  let hout ← IO.getStdout
  loop hin hout
  hout.flush
