-- This module serves as the root of the `Insim` library.
-- Import modules here that should be built as part of the library.
import Insim.Basic
