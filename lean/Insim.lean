import Insim.Base.Bytes
