"""All packet declarations -> lean/Insim/Gen/Packets.lean + lean/Insim/Gen/layouts.json.

Reads, from the working tree: the `Packet` enum (variant -> magic -> body type), every `#[binrw]` struct
reachable from it (field order, pad_before/pad_after per side, integer widths, fixed arrays, nested structs,
counted vectors with their `calc`), every `repr(u8)` enum, every `bitflags!` block, the newtype identifiers,
the duration / codepage-string helper attributes, and the struct-level `bw(assert(..))`.
A type with a hand-written `impl BinRead` is never translated: it becomes `custom <id>` (hand model +
correspondence). Anything the reader does not understand is a `translate:` obligation, never a guess.
"""
import re, glob
from common import *

PRIMS = {"u8": ("uint", 1), "u16": ("uint", 2), "u32": ("uint", 4), "u64": ("uint", 8),
         "i8": ("sint", 1), "i16": ("sint", 2), "i32": ("sint", 4), "i64": ("sint", 8), "f32": ("f32", 4)}

# hand-modelled codecs: type name -> (custom id, wire size in bytes)
CUSTOM_SIZES = {"Vehicle": 4, "Track": 6, "RaceLaps": 1, "Fuel": 1, "Fuel200": 1, "ConInfo": 16, "SmallType": 5,
                "CimMode": 3, "GameVersion": 8}


def split_top(s, sep=",", angle=True):
    out, depth, cur = [], 0, []
    for ch in s:
        if ch in ("([{<" if angle else "([{"):
            depth += 1
        elif ch in (")]}>" if angle else ")]}"):
            depth -= 1
        if ch == sep and depth == 0:
            out.append("".join(cur)); cur = []
        else:
            cur.append(ch)
    if "".join(cur).strip():
        out.append("".join(cur))
    return out


def eval_int(expr, env, where):
    e = expr.strip()
    e = re.sub(r"Self::(\w+)\.bits\(\)", lambda m: str(env[m.group(1)]), e)
    e = re.sub(r"\b(\d+)_?(u8|u16|u32|u64|usize|i32)\b", r"\1", e)
    if not re.fullmatch(r"[0-9xXa-fA-FbB_\s()<|&+\-*]+", e):
        raise TranslateError(where, f"cannot evaluate constant {expr!r}")
    return int(eval(e.replace("_", ""), {"__builtins__": {}}))


class Decls:
    def __init__(self):
        self.newtypes = {}   # name -> prim
        self.enums = {}      # name -> [(variant, disc)]
        self.flags = {}      # name -> (width, [(const, bits)], truncating: bool)
        self.structs = {}    # name -> dict(fields=[...], asserts=[...], file=...)
        self.customs = set() # names with a hand-written BinRead/BinWrite
        self.consts = {}     # usize consts by name
        self.files = {}


def parse_attrs(attr_text):
    """attribute text (several #[...]) -> list of inner strings"""
    out = []
    i = 0
    while True:
        j = attr_text.find("#[", i)
        if j < 0:
            break
        k = balanced(attr_text, j + 1, "[", "]")
        out.append(attr_text[j + 2:k - 1].strip())
        i = k
    return out


INT_TYS = r"(?:usize|u8|u16|u32|u64|i8|i16|i32|i64|isize)"


def normalise_source(src):
    """Semantics-preserving spellings a maintainer may use are brought to one form before any pattern is applied:
    type aliases of integer types are expanded; integer constants (of any integer type, possibly defined through
    earlier constants and arithmetic) are substituted where they are *used inside attributes and generic
    arguments*. Returns (normalised source, constants)."""
    for m in list(re.finditer(r"\btype\s+(\w+)\s*=\s*(" + INT_TYS + r")\s*;", src)):
        src = re.sub(r"\b%s\b(?!\s*=)" % re.escape(m.group(1)), m.group(2), src)
    consts = {}
    for _ in range(4):   # constants may refer to earlier ones
        for m in re.finditer(r"const\s+(\w+)\s*:\s*" + INT_TYS + r"\s*=\s*([^;]+);", src):
            if m.group(1) in consts:
                continue
            e = m.group(2)
            e = re.sub(r"\b(u8|u16|u32)::MAX\b", lambda t: str({"u8": 255, "u16": 65535, "u32": 4294967295}[t.group(1)]), e)
            e = re.sub(r"\s+as\s+" + INT_TYS, "", e)
            e = re.sub(r"\b([A-Z][A-Z0-9_]*)\b", lambda t: str(consts[t.group(1)]) if t.group(1) in consts else t.group(0), e)
            try:
                consts[m.group(1)] = eval_int(e, {}, "const")
            except TranslateError:
                pass
    if consts:
        names = sorted(consts, key=len, reverse=True)
        pat = re.compile(r"\b(" + "|".join(re.escape(n) for n in names) + r")\b")
        out, i = [], 0
        while True:
            j = src.find("#[", i)
            if j < 0:
                out.append(src[i:])
                break
            k = balanced(src, j + 1, "[", "]")
            out.append(src[i:j])
            out.append(pat.sub(lambda t: str(consts[t.group(1)]), src[j:k]))
            i = k
        src = "".join(out)
    return src, consts


def scan_file(rel, D):
    src, consts = normalise_source(strip_comments(read(rel)))
    D.files[rel] = src
    D.consts.update(consts)
    for m in re.finditer(r"impl\s+(?:binrw::|insim_core::binrw::)?BinRead\s+for\s+(\w+)", src):
        D.customs.add(m.group(1))
    for m in re.finditer(r"impl\s+(?:binrw::|insim_core::binrw::)?BinWrite\s+for\s+(\w+)", src):
        D.customs.add(m.group(1))
    # newtypes
    for m in re.finditer(r"pub\s+struct\s+(\w+)\s*\(\s*pub\s+(\w+)\s*\)\s*;", src):
        if m.group(2) in PRIMS:
            D.newtypes[m.group(1)] = m.group(2)
    # bitflags
    for m in re.finditer(r"bitflags!\s*\{", src):
        body_end = balanced(src, m.end() - 1)
        body = src[m.end():body_end - 1]
        for sm in re.finditer(r"((?:\s*#\[[^\n]*\]\s*\n)*)\s*pub\s+struct\s+(\w+)\s*:\s*(u8|u16|u32|u64)\s*\{", body):
            attrs = parse_attrs(sm.group(1))
            inner_end = balanced(body, sm.end() - 1)
            inner = body[sm.end():inner_end - 1]
            consts, env = [], {}
            for cm in re.finditer(r"const\s+(\w+)\s*=\s*([^;]+);", inner):
                v = eval_int(cm.group(2), env, f"{rel}:{sm.group(2)}::{cm.group(1)}")
                env[cm.group(1)] = v
                consts.append((cm.group(1), v))
            trunc = any(re.search(r"br\(\s*map\s*=\s*Self::from_bits_truncate\s*\)", a) for a in attrs)
            bits_w = any(re.search(r"bw\(\s*map\s*=\s*\|&?x(?::\s*&\w+)?\|\s*x\.bits\(\)\s*\)", a) for a in attrs)
            D.flags[sm.group(2)] = {"w": PRIMS[sm.group(3)][1], "consts": consts, "trunc": trunc, "bits_w": bits_w, "file": rel}
    # enums
    for m in re.finditer(r"((?:\s*#\[[^\n]*\]\s*\n)+)\s*pub\s+enum\s+(\w+)\s*\{", src):
        attrs = parse_attrs(m.group(1))
        end = balanced(src, m.end() - 1)
        body = src[m.end():end - 1]
        if not any(re.search(r"brw\(\s*repr\(\s*u8\s*\)\s*\)", a) or re.search(r"brw\(.*repr\s*=\s*u8", a) for a in attrs):
            continue
        variants = []
        for part in split_top(body):
            p = re.sub(r"#\[[^\]]*\]", "", part).strip()
            if not p:
                continue
            vm = re.fullmatch(r"(\w+)\s*=\s*([0-9xXa-fA-F_]+)", p)
            if not vm:
                raise TranslateError(f"{rel}:enum {m.group(2)}", f"variant without explicit discriminant: {p!r}")
            variants.append((vm.group(1), int(vm.group(2).replace("_", ""), 0)))
        D.enums[m.group(2)] = {"variants": variants, "file": rel}
    # structs with named fields
    for m in re.finditer(r"((?:\s*#\[[^\n]*\]\s*\n)*)\s*pub\s+struct\s+(\w+)\s*(?:<[^>]*>)?\s*(?:where[^{]*)?\{", src):
        name = m.group(2)
        start = m.end() - 1
        # skip bitflags inner structs (they have `: uN` before the brace and never match this regex) and tuple structs
        end = balanced(src, start)
        body = src[start + 1:end - 1]
        attrs = parse_attrs(m.group(1))
        if not any(a == "binrw" or a.startswith("binrw") for a in attrs):
            if name in D.customs:
                continue
            # not a binrw struct (e.g. Builder); ignore
            continue
        fields = []
        for fm in re.finditer(r"((?:\s*#\[(?:[^\[\]]|\[[^\]]*\])*\]\s*)*)\s*(pub\s+)?(\w+)\s*:\s*([^,\n]+(?:<[^>]*>)?)\s*,", body):
            fields.append({"attrs": parse_attrs(fm.group(1)), "pub": bool(fm.group(2)), "name": fm.group(3), "ty": fm.group(4).strip()})
        D.structs[name] = {"fields": fields, "attrs": attrs, "file": rel}


def field_ty(D, f, where, counts):
    """-> (ty dict, extra) for a single declared field"""
    attrs = f["attrs"]
    ty = f["ty"]
    joined = " ; ".join(attrs)

    def has(pat):
        return re.search(pat, joined)
    # duration
    r = has(r"parse_with\s*=\s*binrw_parse_duration::<\s*(\w+)\s*,\s*(\d+)\s*,\s*_\s*>")
    w = has(r"write_with\s*=\s*binrw_write_duration::<\s*(\w+)\s*,\s*(\d+)\s*,\s*_\s*>")
    if r or w:
        if not (r and w):
            raise TranslateError(where, "duration helper on one side only")
        return {"k": "dur", "rw": PRIMS[r.group(1)][1], "rs": int(r.group(2)), "ww": PRIMS[w.group(1)][1], "ws": int(w.group(2))}
    # strings
    rs = has(r"parse_with\s*=\s*binrw_parse_codepage_string::<\s*(\w+)\s*,\s*_\s*>(?:\s*,\s*args\(([^)]*)\))?")
    re_eof = has(r"parse_with\s*=\s*binrw_parse_codepage_string_until_eof(?:\s*,\s*args\(([^)]*)\))?")
    ws = has(r"write_with\s*=\s*binrw_write_codepage_string::<\s*(\w+)\s*,\s*_\s*>(?:\s*,\s*args\(([^)]*)\))?")
    if rs or re_eof or ws:
        if not ws or not (rs or re_eof):
            raise TranslateError(where, "codepage string helper on one side only")
        wn = int(ws.group(1)) if ws.group(1).isdigit() else D.consts.get(ws.group(1))
        wargs = [a.strip() for a in (ws.group(2) or "").split(",") if a.strip()]
        wraw = (wargs[0] == "true") if wargs else False
        walign = int(wargs[1]) if len(wargs) > 1 else 0
        if rs:
            rn = int(rs.group(1)) if rs.group(1).isdigit() else D.consts.get(rs.group(1))
            rargs = [a.strip() for a in (rs.group(2) or "").split(",") if a.strip()]
            rraw = (rargs[0] == "true") if rargs else False
            return {"k": "str", "rn": rn, "wn": wn, "rraw": rraw, "wraw": wraw, "align": walign}
        rargs = [a.strip() for a in (re_eof.group(1) or "").split(",") if a.strip()]
        rraw = (rargs[0] == "true") if rargs else False
        return {"k": "streof", "wn": wn, "rraw": rraw, "wraw": wraw, "align": walign}
    if has(r"parse_with\s*=\s*parse_game_version") or has(r"write_with\s*=\s*write_game_version"):
        return {"k": "custom", "id": "GameVersion", "size": 8}
    if has(r"parse_with\s*=\s*binrw_parse_spclose_strip_reserved_bits"):
        if ty != "u16":
            raise TranslateError(where, "spclose helper on a non-u16 field")
        return {"k": "spclose"}
    # the two set-valued tails: recognised by the field's type (the helper functions' names are private and free to
    # change; their bodies are hand-modelled and tied by the correspondence run)
    m = has(r"parse_with\s*=\s*\w+\s*,\s*args\((\w+)\)")
    if m and has(r"write_with\s*=\s*\w+") and re.sub(r"\s", "", ty) == "IndexSet<Vehicle>":
        return {"k": "tailset", "id": "mal", "count": m.group(1)}
    if m and has(r"write_with\s*=\s*\w+") and re.sub(r"\s", "", ty) == "IndexSet<Ipv4Addr>":
        return {"k": "tailset", "id": "ipb", "count": m.group(1)}
    # bool / char maps
    if has(r"br\(\s*map\s*=\s*\|x:\s*u8\|\s*x\s*!=\s*0\s*\)"):
        if not has(r"bw\(\s*map\s*=\s*\|&x\|\s*x\s+as\s+u8\s*\)") or ty != "bool":
            raise TranslateError(where, "bool map without its mirror")
        return {"k": "bool8"}
    if has(r"br\(\s*map\s*=\s*\|x:\s*u8\|\s*x\s+as\s+char\s*\)"):
        if not has(r"bw\(\s*map\s*=\s*\|&x\|\s*x\s+as\s+u8\s*\)") or ty != "char":
            raise TranslateError(where, "char map without its mirror")
        return {"k": "char8"}
    if has(r"br\(\s*map\s*=\s*\|x:\s*u32\|\s*Ipv4Addr::from\(x\)\s*\)"):
        return {"k": "ipv4"}
    m = has(r"br\(\s*map\s*=\s*(\w+)::from_bits_truncate\s*\)")
    if m and m.group(1) == ty and ty == "PlcAllowedCarsSet":
        if not has(r"bw\(\s*map\s*=\s*\|x:\s*&PlcAllowedCarsSet\|\s*x\.bits\(\)\s*\)"):
            raise TranslateError(where, "PlcAllowedCarsSet read map without its mirror")
        src = D.files.get("insim/src/insim/plc.rs", "")
        impl = block_after(src, r"impl\s+PlcAllowedCarsSet\s*\{", where)
        consts = [(cm.group(1), eval_int(cm.group(2), {}, where)) for cm in re.finditer(r"const\s+(\w+)\s*:\s*u32\s*=\s*([^;]+);", impl)]
        if not consts:
            raise TranslateError(where, "no PlcAllowedCarsSet constants read")
        return {"k": "flags", "name": ty, "w": 4, "consts": consts, "trunc": True, "set_of_vehicles": True}
    if m and m.group(1) == ty and ty in D.flags:
        fl = D.flags[ty]
        return {"k": "flags", "name": ty, "w": fl["w"], "consts": fl["consts"], "trunc": True}
    # calc / count
    if has(r"bw\(\s*calc\s*=") and "br(temp)" in attrs:
        attrs = [a for a in attrs if a != "br(temp)"]     # implied by calc under #[binrw]
        f["attrs"] = attrs
        joined = " ".join(attrs)
    # a calc through a one-expression private helper `fn f(p: ..) -> T { <expr> }` is inlined
    mh = has(r"bw\(\s*calc\s*=\s*(\w+)\(\s*&?(\w+)\s*\)\s*\)")
    if mh:
        for srcf in D.files.values():
            fm = re.search(r"fn\s+%s\s*\(\s*(\w+)\s*:[^)]*\)\s*->\s*\w+\s*\{\s*([^{};]+?)\s*\}" % re.escape(mh.group(1)), srcf)
            if fm:
                expr = re.sub(r"\b%s\b" % re.escape(fm.group(1)), mh.group(2), fm.group(2))
                attrs = [("bw(calc = %s)" % expr) if re.fullmatch(r"bw\(\s*calc\s*=.*\)", a) else a for a in attrs]
                f["attrs"] = attrs
                joined = " ".join(attrs)
                break
    m = has(r"bw\(\s*calc\s*=\s*(\w+)\.len\(\)\s+as\s+(\w+)\s*\)")
    if m:
        if m.group(2) != ty or ty not in PRIMS:
            raise TranslateError(where, f"calc casts to {m.group(2)} but the field is {ty}")
        counts[f["name"]] = {"of": m.group(1), "ty": ty}
        return {"k": "count", "w": PRIMS[ty][1], "signed": PRIMS[ty][0] == "sint", "of": m.group(1)}
    m_other_calc = has(r"bw\(\s*calc\s*=")
    if m_other_calc:
        raise TranslateError(where, f"unsupported calc expression: {joined}")
    m = has(r"br\(\s*count\s*=\s*(\w+)(?:\s+as\s+usize)?\s*\)")   # a widening cast of the count changes nothing
    vm = re.fullmatch(r"Vec<\s*(\w+)\s*>", ty)
    if m or vm:
        if not (m and vm):
            raise TranslateError(where, "Vec without count or count without Vec")
        orp, owp, rest_attrs = odd_pads(attrs, f["name"], m.group(1), where)
        f["attrs"] = rest_attrs
        return {"k": "vec", "count": m.group(1), "elt": vm.group(1), "odd_r": orp, "odd_w": owp}
    leftovers = [a for a in attrs if re.match(r"(br|bw|brw)\(", a) and not re.fullmatch(r"brw?\(\s*pad_(before|after)\s*=\s*\d+\s*\)|bw\(\s*pad_(before|after)\s*=\s*\d+\s*\)|br\(\s*pad_(before|after)\s*=\s*\d+\s*\)", a)]
    if leftovers:
        raise TranslateError(where, f"unsupported attribute(s): {leftovers}")
    return type_ty(D, ty, where)


def type_ty(D, ty, where):
    ty = ty.strip()
    if ty in PRIMS:
        k, w = PRIMS[ty]
        return {"k": k, "w": w} if k != "f32" else {"k": "f32"}
    if ty in D.newtypes:
        k, w = PRIMS[D.newtypes[ty]]
        return {"k": k, "w": w, "newtype": ty}
    if ty in CUSTOM_SIZES:
        if ty != "GameVersion" and ty not in D.customs:
            raise TranslateError(where, f"{ty} is expected to have a hand-written BinRead/BinWrite")
        return {"k": "custom", "id": ty, "size": CUSTOM_SIZES[ty]}
    if ty in D.customs:
        raise TranslateError(where, f"type {ty} has a hand-written BinRead/BinWrite impl but no hand model")
    if ty in D.enums:
        return {"k": "enum", "name": ty, "vals": D.enums[ty]["variants"]}
    if ty in D.flags:
        fl = D.flags[ty]
        if not (fl["trunc"] and fl["bits_w"]):
            raise TranslateError(where, f"bitflags {ty} lacks the from_bits_truncate / bits() maps")
        return {"k": "flags", "name": ty, "w": fl["w"], "consts": fl["consts"], "trunc": True}
    m = re.fullmatch(r"\[\s*(\w+)\s*;\s*(\d+)\s*\]", ty)
    if m:
        return {"k": "array", "n": int(m.group(2)), "elt": m.group(1)}
    m = re.fullmatch(r"Point<\s*(\w+)\s*>", ty)
    if m:
        return {"k": "struct", "name": "Point", "targ": m.group(1)}
    if ty in D.structs:
        return {"k": "struct", "name": ty}
    raise TranslateError(where, f"unknown field type {ty!r}")


def odd_pads(attrs, vecname, countname, where):
    """`pad_after = if <count> % 2 == 1 { N } else { 0 }` (read) / `if <vec>.len() % 2 == 1 { N } else { 0 }` (write)"""
    r = w = 0
    rest = []
    for a in attrs:
        m = re.fullmatch(r"(br|bw)\(\s*pad_after\s*=\s*if\s+(.+?)\s*%\s*2\s*==\s*1\s*\{\s*(\d+)\s*\}\s*else\s*\{\s*0\s*\}\s*\)", a)
        if not m:
            rest.append(a)
            continue
        side, subject, n = m.group(1), m.group(2).strip(), int(m.group(3))
        if side == "br":
            if subject != countname:
                raise TranslateError(where, f"conditional read pad depends on {subject!r}, expected the count field {countname!r}")
            r = n
        else:
            if subject != f"{vecname}.len()":
                raise TranslateError(where, f"conditional write pad depends on {subject!r}, expected {vecname}.len()")
            w = n
    return r, w, rest


def pads(attrs, where):
    rb = ra = wb = wa = 0
    for a in attrs:
        m = re.fullmatch(r"(brw|br|bw)\(\s*pad_(before|after)\s*=\s*(\d+)\s*\)", a)
        if not m:
            m2 = re.search(r"pad_(before|after)", a)
            if m2:
                raise TranslateError(where, f"unsupported pad attribute {a!r}")
            continue
        side, pos, n = m.group(1), m.group(2), int(m.group(3))
        if side in ("brw", "br"):
            if pos == "before": rb += n
            else: ra += n
        if side in ("brw", "bw"):
            if pos == "before": wb += n
            else: wa += n
    return rb, ra, wb, wa


def flatten_struct(D, sname, prefix, where, targ=None, depth=0):
    """-> (flat fields, tail or None, asserts)"""
    if depth > 6:
        raise TranslateError(where, "struct nesting too deep")
    st = D.structs.get(sname)
    if st is None:
        raise TranslateError(where, f"struct {sname} not found")
    out, tail, counts = [], None, {}
    asserts = []
    for a in st["attrs"]:
        m = re.fullmatch(r"bw\(\s*assert\((.*)\)\s*\)", a, flags=re.S)
        if m:
            cond = split_top(m.group(1), angle=False)[0].strip()
            mm = re.fullmatch(r"\*?(\w+)(\.len\(\))?\s*<=\s*(\w+)", cond)
            if not mm:
                raise TranslateError(f"{where}:{sname}", f"unsupported assert {cond!r}")
            bound = int(mm.group(3)) if mm.group(3).isdigit() else D.consts.get(mm.group(3))
            if bound is None:
                raise TranslateError(f"{where}:{sname}", f"unknown bound in assert {cond!r}")
            asserts.append({"field": prefix + mm.group(1), "len": bool(mm.group(2)), "max": bound})
            if not mm.group(2):
                pending_max = st.setdefault("_maxv", {})
                pending_max[mm.group(1)] = bound
        elif re.match(r"(br|bw|brw)\(", a) and not re.fullmatch(r"brw\(\s*(little|big)\s*\)|brw\(\s*(little|big)?\s*,?\s*magic\s*=\s*b\"[^\"]*\"\s*(,\s*(little|big))?\s*\)", a):
            raise TranslateError(f"{where}:{sname}", f"unsupported struct attribute {a!r}")
    for f in st["fields"]:
        w2 = f"{st['file']}:{sname}.{f['name']}"
        ty = f["ty"]
        if targ and ty == "T":
            f = dict(f, ty=targ)
        if tail is not None:
            raise TranslateError(w2, "field after a variable-length tail")
        f = dict(f)
        t = field_ty(D, f, w2, counts)
        rb, ra, wb, wa = pads(f["attrs"], w2)
        path = prefix + f["name"]
        if t["k"] == "struct":
            sub, subtail, subasserts = flatten_struct(D, t["name"], path + ".", w2, t.get("targ"), depth + 1)
            if subtail is not None:
                raise TranslateError(w2, "nested struct with a variable-length tail")
            if not sub:
                raise TranslateError(w2, "empty nested struct")
            sub[0]["rb"] += rb; sub[0]["wb"] += wb; sub[-1]["ra"] += ra; sub[-1]["wa"] += wa
            out += sub; asserts += subasserts
        elif t["k"] == "array":
            for i in range(t["n"]):
                et = type_ty(D, t["elt"], w2)
                p = f"{path}[{i}]"
                if et["k"] == "struct":
                    sub, subtail, subasserts = flatten_struct(D, et["name"], p + ".", w2, et.get("targ"), depth + 1)
                    if subtail is not None:
                        raise TranslateError(w2, "array of structs with tails")
                    out += sub
                    asserts += subasserts
                else:
                    out.append({"path": p, "ty": et, "rb": 0, "ra": 0, "wb": 0, "wa": 0})
            n_el = t["n"]
            first = len(out) - (len(out) and 0)
            # pads of the array field as a whole
            k = len([x for x in out if x["path"].startswith(path + "[")])
            out[len(out) - k]["rb"] += rb; out[len(out) - k]["wb"] += wb; out[-1]["ra"] += ra; out[-1]["wa"] += wa
        elif t["k"] == "vec":
            if t["count"] not in counts or counts[t["count"]]["of"] != f["name"]:
                raise TranslateError(w2, f"count field {t['count']} is not `calc`ed from this vector")
            et = type_ty(D, t["elt"], w2)
            if et["k"] == "struct":
                sub, subtail, subasserts = flatten_struct(D, et["name"], "", w2, et.get("targ"), depth + 1)
                if subtail is not None:
                    raise TranslateError(w2, "vector of structs with tails")
            else:
                sub, subasserts = [{"path": "", "ty": et, "rb": 0, "ra": 0, "wb": 0, "wa": 0}], []
            if rb or ra or wb or wa:
                raise TranslateError(w2, "pads on a vector field are not supported")
            tail = {"k": "vec", "path": path, "count": t["count"], "elt": sub, "elt_asserts": subasserts, "odd_r": t["odd_r"], "odd_w": t["odd_w"]}
        elif t["k"] == "tailset":
            if t["count"] not in counts or counts[t["count"]]["of"] != f["name"]:
                raise TranslateError(w2, f"count field {t['count']} is not `calc`ed from this collection")
            tail = {"k": "set", "id": t["id"], "path": path, "count": t["count"]}
        elif t["k"] == "streof":
            tail = {"k": "streof", "path": path, "wn": t["wn"], "rraw": t["rraw"], "wraw": t["wraw"], "align": t["align"], "rb": rb, "ra": ra, "wb": wb, "wa": wa}
        else:
            fld = {"path": path, "ty": t, "rb": rb, "ra": ra, "wb": wb, "wa": wa}
            if f["name"] in st.get("_maxv", {}):
                fld["maxv"] = st["_maxv"][f["name"]]
            out.append(fld)
    return out, tail, asserts


def collect():
    D = Decls()
    files = sorted(glob.glob(os.path.join(REPO, "insim/src/insim/*.rs")) + glob.glob(os.path.join(REPO, "insim/src/relay/*.rs")) +
                   glob.glob(os.path.join(REPO, "insim/src/identifiers/*.rs")) +
                   [os.path.join(REPO, "insim_core/src", x) for x in ("license.rs", "wind.rs", "point.rs", "vehicle.rs", "track.rs")])
    for p in files:
        scan_file(os.path.relpath(p, REPO), D)
    psrc = strip_comments(read("insim/src/packet.rs"))
    body = block_after(psrc, r"pub\s+enum\s+Packet\s*\{", "insim/src/packet.rs:enum Packet")
    if not re.search(r"#\[brw\(little\)\]", psrc):
        raise TranslateError("insim/src/packet.rs:enum Packet", "#[brw(little)] not found")
    kinds = []
    # the magic is any u8 literal: decimal / hex / binary, with or without `_` separators and the `u8` suffix
    for m in re.finditer(r"#\[brw\(\s*magic\s*=\s*([0-9A-Fa-fxXbB_]+?)_?u8\s*\)\]\s*(\w+)\s*\(\s*(\w+)\s*\)\s*,", body):
        kinds.append((m.group(2), eval_int(m.group(1), {}, "insim/src/packet.rs:enum Packet"), m.group(3)))
    n_variants = len(re.findall(r"\b\w+\s*\(\s*\w+\s*\)\s*,", body))
    if n_variants != len(kinds):
        raise TranslateError("insim/src/packet.rs:enum Packet", f"{n_variants} variants but {len(kinds)} with a readable magic")
    return D, kinds


def layouts():
    D, kinds = collect()
    out = []
    for variant, magic, body_ty in kinds:
        where = f"insim/src/packet.rs:Packet::{variant}"
        if body_ty in D.customs and body_ty not in D.structs:
            # whole body hand-written (Mso)
            out.append({"kind": variant, "type_no": magic, "body": body_ty, "custom_body": True, "fields": [], "tail": None, "asserts": []})
            continue
        fields, tail, asserts = flatten_struct(D, body_ty, "", where)
        out.append({"kind": variant, "type_no": magic, "body": body_ty, "custom_body": False, "fields": fields, "tail": tail, "asserts": asserts})
    return D, out


# ---- rendering ---------------------------------------------------------------------------------

def lean_ty(t):
    k = t["k"]
    if k == "uint": return f".uint {t['w']}"
    if k == "sint": return f".sint {t['w']}"
    if k == "f32": return ".f32"
    if k == "bool8": return ".bool8"
    if k == "char8": return ".char8"
    if k == "ipv4": return ".uint 4"
    if k == "spclose": return ".spclose"
    if k == "enum": return ".enumU8 " + lean_nat_list([v for _, v in t["vals"]])
    if k == "flags":
        mask = 0
        for _, b in t["consts"]:
            mask |= b
        return f".flags {t['w']} {mask}"
    if k == "dur": return f".dur {t['rw']} {t['rs']} {t['ww']} {t['ws']}"
    if k == "str": return f".str {t['rn']} {t['wn']} {'true' if t['rraw'] else 'false'} {'true' if t['wraw'] else 'false'} {t['align']}"
    if k == "count": return f".count {t['w']} {'true' if t['signed'] else 'false'}"
    if k == "custom": return f".custom .{t['id'][0].lower() + t['id'][1:]}"
    raise TranslateError("render", f"cannot render type {t}")


def lean_field(f):
    mv = f.get("maxv")
    return f"⟨{lean_name(f['path'])}, {f['rb']}, {f['ra']}, {f['wb']}, {f['wa']}, {lean_ty(f['ty'])}, {('some ' + str(mv)) if mv is not None else 'none'}⟩"


def lean_tail(t):
    if t is None: return ".none"
    if t["k"] == "vec":
        return ".vec [" + ", ".join(lean_field(f) for f in t["elt"]) + f"] {t['odd_r']} {t['odd_w']}"
    if t["k"] == "set":
        return f".set .{t['id']}"
    if t["k"] == "streof":
        return f".strEof {t['wn']} {'true' if t['rraw'] else 'false'} {'true' if t['wraw'] else 'false'} {t['align']}"
    raise TranslateError("render", f"cannot render tail {t}")


def plc_mapping(plc_impl, plc_consts):
    """(read rows [(bit, vehicle)], write rows [(vehicle, bit)]) of PlcAllowedCarsSet: either the two hand-written
    chains (`if (value & Self::X) == Self::X { data.insert(Vehicle::V) }` / `Vehicle::V => Self::X`) or one
    `[(Vehicle::V, Self::X), ..]` table that both conversion functions iterate over"""
    pr = [(plc_consts[m.group(1)], m.group(3)) for m in re.finditer(r"if\s*\(value\s*&\s*Self::(\w+)\)\s*==\s*Self::(\w+)\s*\{\s*data\.insert\(Vehicle::(\w+)\);", plc_impl) if m.group(1) == m.group(2)]
    pw = [(m.group(1), plc_consts[m.group(2)]) for m in re.finditer(r"Vehicle::(\w+)\s*=>\s*Self::(\w+)\s*,", plc_impl)]
    if pr or pw:
        return pr, pw
    tm = re.search(r"const\s+(\w+)\s*:\s*\[\s*\(\s*Vehicle\s*,\s*u32\s*\)\s*;\s*\d+\s*\]\s*=\s*\[(.*?)\]\s*;", plc_impl, flags=re.S)
    if tm:
        rows = [(v, plc_consts[c]) for v, c in re.findall(r"\(\s*Vehicle::(\w+)\s*,\s*Self::(\w+)\s*\)", tm.group(2))]
        name = tm.group(1)
        fb = re.search(r"fn\s+from_bits_truncate[^{]*\{(.*?)\n    \}", plc_impl, flags=re.S)
        bb = re.search(r"fn\s+bits[^{]*\{(.*?)\n    \}", plc_impl, flags=re.S)
        uses_table = fb and ("Self::" + name) in fb.group(1) and re.search(r"value\s*&\s*\*?bit\s*(!=\s*0|==\s*\*?bit)", fb.group(1))
        # bits(): through the table directly or through a private lookup that searches it
        uses_table_w = bb and (("Self::" + name) in bb.group(1) or re.search(r"Self::(\w+)\(", bb.group(1)) and ("Self::" + name) in plc_impl)
        if uses_table and uses_table_w:
            return [(b, v) for v, b in rows], rows
    return [], []


def translate():
    D, ls = layouts()
    L = ["-- GENERATED by translate/packets.py from insim/src/packet.rs, insim/src/insim/*.rs, insim/src/relay/*.rs,",
         "-- insim/src/identifiers/*.rs on every run. Do not edit.",
         "import Insim.Model.Layout", "namespace Insim.Gen.Packets", "open Insim Insim.Layout", ""]
    for l in ls:
        nm = l["kind"]
        L.append(f"def l{nm} : Layout := {{")
        L.append(f"  kind := {lean_name(nm)}, typeNo := {l['type_no']}, customBody := {'true' if l['custom_body'] else 'false'},")
        L.append("  fields := [\n    " + ",\n    ".join(lean_field(f) for f in l["fields"]) + "\n  ],")
        L.append(f"  tail := {lean_tail(l['tail'])},")
        cnt = next((f for f in l["fields"] if f["ty"]["k"] == "count"), None)
        maxa = next((a["max"] for a in l["asserts"] if a["len"]), None)
        L.append(f"  maxElems := {('some ' + str(maxa)) if maxa is not None else 'none'} }}")
    L.append("def all : List Layout := [" + ", ".join("l" + l["kind"] for l in ls) + "]")
    def mask_of(name):
        if name == "PlcAllowedCarsSet":
            src = D.files.get("insim/src/insim/plc.rs", "")
            impl = block_after(src, r"impl\s+PlcAllowedCarsSet\s*\{", "insim/src/insim/plc.rs:PlcAllowedCarsSet")
            vals = [eval_int(cm.group(2), {}, "plc.rs") for cm in re.finditer(r"const\s+(\w+)\s*:\s*u32\s*=\s*([^;]+);", impl)]
        else:
            if name not in D.flags:
                raise TranslateError("flags", f"bitflags {name} not found")
            vals = [b for _, b in D.flags[name]["consts"]]
        m = 0
        for b in vals:
            m |= b
        return m
    L.append("/-- `PlcAllowedCarsSet::from_bits_truncate`: bit -> vehicle; `bits()`: vehicle -> bit -/")
    plc_src = D.files.get("insim/src/insim/plc.rs", "")
    plc_impl = block_after(plc_src, r"impl\s+PlcAllowedCarsSet\s*\{", "insim/src/insim/plc.rs:PlcAllowedCarsSet")
    plc_consts = {cm.group(1): eval_int(cm.group(2), {}, "plc.rs") for cm in re.finditer(r"const\s+(\w+)\s*:\s*u32\s*=\s*([^;]+);", plc_impl)}
    pr, pw = plc_mapping(plc_impl, plc_consts)
    L.append("def plcRead : List (Nat × List Nat) := [" + ", ".join(f"({b}, {lean_name(v)})" for b, v in pr) + "]")
    L.append("def plcWrite : List (List Nat × Nat) := [" + ", ".join(f"({lean_name(v)}, {b})" for v, b in pw) + "]")
    L.append("/-- masks of the bitflags the hand-written codecs truncate to -/")
    L.append(f"def compCarInfoMask : Nat := {mask_of('CompCarInfo')}")
    L.append(f"def plcAllowedCarsMask : Nat := {mask_of('PlcAllowedCarsSet')}")
    L.append(f"def lcsFlagsMask : Nat := {mask_of('LcsFlags')}")
    L.append(f"def lclFlagsMask : Nat := {mask_of('LclFlags')}")
    L.append("end Insim.Gen.Packets")
    changed = write_if_changed(os.path.join(GEN, "Packets.lean"), "\n".join(L) + "\n")
    # names of enumerants / flag constants per field, normalised (lower case, alphanumerics only): used by C02
    def nn(x):
        return re.sub(r"[^a-z0-9]", "", x.lower())
    NL = ["-- GENERATED by translate/packets.py on every run. Do not edit.",
          "import Insim.Base.Bytes", "namespace Insim.Gen.PacketNames", "open Insim", "",
          "/-- (type number, field path, [(normalised enumerant / flag-constant name, value)]) -/",
          "def rows : List (Nat × Bytes × List (Bytes × Nat)) := ["]
    rws = []
    plc_read_rows, plc_write_rows = pr, pw
    def add_rows(tno, path, t):
        if t["k"] == "enum":
            rws.append(f"  ({tno}, {lean_name(path)}, [" + ", ".join(f"({lean_name(nn(n))}, {v})" for n, v in t["vals"]) + "])")
        elif t["k"] == "flags" and t.get("set_of_vehicles"):
            # the constants are private: the public meaning of a bit is the vehicle it is converted to / from
            rd = {v: b for b, v in plc_read_rows}
            wr = dict(plc_write_rows)
            names = sorted(set(rd) | set(wr))
            rws.append(f"  ({tno}, {lean_name(path)}, [" + ", ".join(f"({lean_name(nn(n))}, {rd[n]})" for n in names if rd.get(n) is not None and rd.get(n) == wr.get(n)) + "])")
        elif t["k"] == "flags":
            rws.append(f"  ({tno}, {lean_name(path)}, [" + ", ".join(f"({lean_name(nn(n))}, {v})" for n, v in t["consts"]) + "])")
    for l in ls:
        for f in l["fields"]:
            add_rows(l["type_no"], f["path"], f["ty"])
        if l["tail"] and l["tail"]["k"] == "vec":
            for f in l["tail"]["elt"]:
                add_rows(l["type_no"], l["tail"]["path"] + "." + f["path"], f["ty"])
    # IS_SMALL's sub-typed values (hand-written codec): the flag / enum types its variants carry
    small_src = D.files.get("insim/src/insim/small.rs", "")
    for var, ty in re.findall(r"^\s*(\w+)\((\w+)\),", block_after(small_src, r"pub\s+enum\s+SmallType\s*\{", "insim/src/insim/small.rs:SmallType"), re.M):
        path = "subt." + var.lower()
        if ty in D.flags:
            add_rows(4, path, {"k": "flags", "consts": D.flags[ty]["consts"]})
        elif ty in D.enums:
            add_rows(4, path, {"k": "enum", "vals": D.enums[ty]["variants"]})
        elif ty == "PlcAllowedCarsSet":
            add_rows(4, path, {"k": "flags", "set_of_vehicles": True, "consts": []})
    NL.append(",\n".join(rws))
    NL.append("]")
    NL.append("end Insim.Gen.PacketNames")
    changed = write_if_changed(os.path.join(GEN, "PacketNames.lean"), "\n".join(NL) + "\n") or changed
    # PlcAllowedCarsSet: bit constant <-> vehicle, from both conversion functions
    plc_src = D.files.get("insim/src/insim/plc.rs", "")
    plc_impl = block_after(plc_src, r"impl\s+PlcAllowedCarsSet\s*\{", "insim/src/insim/plc.rs:PlcAllowedCarsSet")
    plc_consts = {cm.group(1): eval_int(cm.group(2), {}, "plc.rs") for cm in re.finditer(r"const\s+(\w+)\s*:\s*u32\s*=\s*([^;]+);", plc_impl)}
    plc_read, plc_write = plc_mapping(plc_impl, plc_consts)
    if len(plc_read) != len(plc_consts) or len(plc_write) != len(plc_consts):
        raise TranslateError("insim/src/insim/plc.rs:PlcAllowedCarsSet", f"{len(plc_consts)} constants but {len(plc_read)} read arms / {len(plc_write)} write arms")
    js = {"kinds": ls, "plc_read": plc_read, "plc_write": plc_write,
          "enums": {k: v["variants"] for k, v in D.enums.items()},
          "flags": {k: {"w": v["w"], "consts": v["consts"]} for k, v in D.flags.items()}}
    changed2 = write_if_changed(os.path.join(GEN, "layouts.json"), json.dumps(js, indent=0))
    n_fields = sum(len(l["fields"]) for l in ls)
    return {"file": "Insim/Gen/Packets.lean", "changed": changed or changed2,
            "items": {"kinds": len(ls), "flat_fields": n_fields, "enums": len(D.enums), "bitflags": len(D.flags), "newtypes": len(D.newtypes),
                      "custom_bodies": [l["kind"] for l in ls if l["custom_body"]],
                      "tails": {l["kind"]: l["tail"]["k"] for l in ls if l["tail"]}}}


if __name__ == "__main__":
    import sys
    r = translate()
    print(json.dumps(r["items"], indent=1))
