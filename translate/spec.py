#!/usr/bin/env python3
"""Parse the independent transcription of InSim v9 / relay (DESIGN-appendix-spec.md, sections A B C F G)
into Gen/Spec.lean and Gen/spec.json.  Reads nothing under /repo: this is the specification side of C02.
"""
import json, os, re, sys

HERE = os.path.dirname(os.path.abspath(__file__))
APPENDIX = os.path.join(HERE, "..", "DESIGN-appendix-spec.md")
GEN = os.path.join(HERE, "..", "lean", "Insim", "Gen")


def norm(name):
    return re.sub(r"[^a-z0-9.\[\]]", "", name.lower())


def section(text, letter):
    m = re.search(r"^## %s\. .*?```\n(.*?)```" % letter, text, re.S | re.M)
    if not m:
        raise SystemExit("spec: section %s not found" % letter)
    return m.group(1)


WIDTHS = {"f32": 4, "i32": 4, "i16": 2, "u32": 4, "car4": 4}


def strip_notes(s):
    """remove parenthesised notes, remembering the unit notes attached to a field"""
    return re.sub(r"\([^)]*\)", "", s)


def parse_struct_fields(body):
    """sequential fields `Name[:W]` (sub-struct / vector element); returns list of dict(name, rel, width, cls)"""
    out = []
    rel = 0
    for tok in strip_notes(body).split():
        if ":" in tok:
            name, w = tok.split(":", 1)
        else:
            name, w = tok, "1"
        cls, width = width_of(w)
        out.append({"name": name, "rel": rel, "width": width, "cls": "spare" if name == "z" else cls})
        rel += width
    return out, rel


def width_of(w):
    m = re.fullmatch(r"char(\d+)", w)
    if m:
        return "text", int(m.group(1))
    if w in WIDTHS:
        return {"f32": "f32", "i32": "sint", "i16": "sint", "u32": "uint", "car4": "car"}[w], WIDTHS[w]
    if re.fullmatch(r"\d+", w):
        return "uint", int(w)
    raise ValueError("width " + w)


def parse_A(text, units):
    lines = section(text, "A").split("\n")
    # join continuation lines
    entries, structs = [], {}
    cur = None
    for ln in lines:
        if not ln.strip():
            continue
        m = re.match(r"\s*(\d+) (\w+)\s+(\d+\+\d+n\(\+2 if n odd\)|\S+)\s+(.*)", ln)
        if m and not ln.startswith("      "):
            cur = {"no": int(m.group(1)), "name": m.group(2), "size": m.group(3), "body": m.group(4)}
            entries.append(cur)
            continue
        sm = re.match(r"\s+(\w+)\((\d+)\) = (.*)", ln)
        if sm:
            structs[sm.group(1)] = {"size": int(sm.group(2)), "body": sm.group(3)}
            cur_struct = sm.group(1)
            cur = ("struct", cur_struct)
            continue
        if isinstance(cur, tuple):
            structs[cur[1]]["body"] += " " + ln.strip()
        else:
            cur["body"] += " " + ln.strip()
    for k, s in structs.items():
        fs, sz = parse_struct_fields(s["body"])
        if sz != s["size"]:
            raise SystemExit("spec: struct %s fields sum to %d, declared %d" % (k, sz, s["size"]))
        s["fields"] = fs
    kinds = []
    for e in entries:
        kinds.append(parse_kind(e, structs, units))
    return kinds, structs


def parse_kind(e, structs, units):
    body = e["body"]
    k = {"no": e["no"], "name": e["name"], "fields": [], "tail": None}
    # trailing remark in parentheses about T / n ranges
    rng = re.search(r"\((T multiple of 4, (\d+)\.\.(\d+)[^)]*|n (\d+)\.\.(\d+))\)\s*$", body)
    if rng:
        body = body[: rng.start()]
    # vectors:  Name@off: n x {...} | n x Struct | n x u32 | n x 4 bytes | 32 x {...}
    vm = re.search(r"(\w+)@(\d+): (n|\d+) x (\{[^}]*\}|\w+(?: bytes)?)", body)
    vec = None
    if vm:
        body = body[: vm.start()] + body[vm.end():]
        vname, voff, cnt, what = vm.group(1), int(vm.group(2)), vm.group(3), vm.group(4)
        if what.startswith("{"):
            efs, esz = parse_struct_fields(what.strip("{} "))
        elif what in structs:
            efs, esz = [dict(f) for f in structs[what]["fields"]], structs[what]["size"]
            for f in efs:
                f["of"] = what
        elif what == "u32":
            efs, esz = [{"name": "", "rel": 0, "width": 4, "cls": "uint"}], 4
        elif what == "4 bytes":
            efs, esz = [{"name": "", "rel": 0, "width": 4, "cls": "bytes"}], 4
        else:
            raise SystemExit("spec: vector element " + what)
        vec = {"name": vname, "off": voff, "count": cnt, "elt": efs, "elt_size": esz}
    for m in re.finditer(r"(\w+)@(\d+)(?::(\w+))?(\([^)]*\))?", body):
        name, off, w, note = m.group(1), int(m.group(2)), m.group(3), m.group(4) or ""
        unit = None
        if note in ("(ms)",):
            unit = 1
        elif note == "(1/100 s)":
            unit = 10
        if w is None:
            cls, width, sub = "uint", 1, None
        elif w == "T":
            k["tail"] = {"k": "text", "name": name, "off": off}
            continue
        elif re.fullmatch(r"(\d+)x(\w+)", w):
            mm = re.fullmatch(r"(\d+)x(\w+)", w)
            n = int(mm.group(1))
            cls1, w1 = width_of(mm.group(2))
            for i in range(n):
                k["fields"].append({"name": name, "idx": i, "off": off + i * w1, "width": w1, "cls": cls1})
            continue
        elif w in structs:
            for f in structs[w]["fields"]:
                k["fields"].append({"name": name, "sub": f["name"], "of": w, "off": off + f["rel"], "width": f["width"],
                                    "cls": f["cls"]})
            continue
        else:
            cls, width = width_of(w)
        if name == "z":
            cls = "spare"
        f = {"name": name, "off": off, "width": width, "cls": cls}
        if unit:
            f["cls"], f["unit"] = "dur", unit
        if "low 12 bits" in note:
            f["cls"] = "spclose"
        k["fields"].append(f)
    k["fields"].sort(key=lambda f: f["off"])
    # size expression
    sz = e["size"]
    if re.fullmatch(r"\d+", sz):
        k["size"] = int(sz)
        if vec:  # fixed count vector (HCP): expand
            n = int(vec["count"])
            for i in range(n):
                for f in vec["elt"]:
                    k["fields"].append({"name": vec["name"], "idx": i, "sub": f["name"], "off": vec["off"] + i * vec["elt_size"] + f["rel"],
                                        "width": f["width"], "cls": f["cls"]})
            k["fields"].sort(key=lambda f: f["off"])
    else:
        m = re.fullmatch(r"(\d+)\+(\d+)n(\(\+2 if n odd\))?", sz)
        if m:
            k["size"] = int(m.group(1))
            if not vec or vec["elt_size"] != int(m.group(2)) or vec["off"] != int(m.group(1)):
                raise SystemExit("spec: %s size formula disagrees with its vector" % e["name"])
            k["tail"] = {"k": "vec", "name": vec["name"], "off": vec["off"], "elt": vec["elt"], "elt_size": vec["elt_size"],
                         "odd_pad": 2 if m.group(3) else 0}
            if rng and rng.group(4) is not None:
                k["tail"]["min"], k["tail"]["max"] = int(rng.group(4)), int(rng.group(5))
        else:
            m = re.fullmatch(r"(\d+)\+T", sz)
            if not m or not k["tail"] or k["tail"]["off"] != int(m.group(1)):
                raise SystemExit("spec: %s size %s" % (e["name"], sz))
            k["size"] = int(m.group(1))
            if rng and rng.group(2) is not None:
                k["tail"]["min"], k["tail"]["max"] = int(rng.group(2)), int(rng.group(3))
    # consistency: fields tile [2, size) without overlap
    pos = 2
    for f in k["fields"]:
        if f["off"] != pos:
            raise SystemExit("spec: %s field %s at %d but previous field ends at %d" % (e["name"], f["name"], f["off"], pos))
        pos += f["width"]
    if pos != k["size"]:
        raise SystemExit("spec: %s fields end at %d, size %d" % (e["name"], pos, k["size"]))
    return k


def parse_tables(text, letter):
    """B: `NAME  A 0 B 1 ...` with continuation lines; C: `NAME (descr)  A 0 B 1`."""
    out = {}
    cur = None
    for ln in section(text, letter).split("\n"):
        if not ln.strip():
            continue
        body = re.sub(r"\w+ \d+\(not defined in the crate; omitted from comparison\)", "", ln)
        body = strip_notes(body)
        body = body.split(";")[0]
        if "value bit" in ln and ln.startswith(" "):
            continue
        if ln.startswith(" "):
            if cur is None:
                continue
            toks = body.split()
        else:
            toks = body.split()
            # table name may be followed by a second word like "u8" / "u16"
            cur = toks[0]
            toks = toks[1:]
            while toks and re.fullmatch(r"u8|u16|u32", toks[0]):
                toks = toks[1:]
            out[cur] = []
        i = 0
        while i + 1 < len(toks):
            nm, v = toks[i], toks[i + 1]
            if re.fullmatch(r"\d+", v) and not re.fullmatch(r"\d+", nm) or (re.fullmatch(r"\d+", nm) and re.fullmatch(r"\d+", v) and cur == "PENALTY"):
                out[cur].append([nm, int(v)])
                i += 2
            else:
                i += 1
    return out


def parse_F(text):
    out = []
    for m in re.finditer(r"([\w.]+) ([ef]) ([\w.]+)", section(text, "F")):
        path = m.group(1).split(".")
        out.append({"kind": path[0], "path": path[1:], "k": m.group(2), "table": m.group(3)})
    return out


def parse_G(text):
    al = {"fields": {}, "enumerants": {}, "flags": {}}
    cur = None
    for ln in section(text, "G").split("\n"):
        toks = ln.split()
        if not toks:
            continue
        if toks[0] in al:
            cur = toks[0]
            toks = toks[1:]
        for t in toks:
            a, b = t.split("=")
            al[cur][a] = b
    return al


def lean_bytes(s):
    return "[" + ", ".join(str(b) for b in s.encode()) + "]"


def translate():
    return main()


def main():
    text = open(APPENDIX).read()
    kinds, structs = parse_A(text, None)
    enums = parse_tables(text, "B")
    flags = parse_tables(text, "C")
    fmap = parse_F(text)
    alias = parse_G(text)
    # RACELAPS / FUEL lines of section B are prose, not tables
    for k in ("RACELAPS", "FUEL"):
        enums.pop(k, None)
    # attach tables to fields
    bykind = {k["name"]: k for k in kinds}
    for m in fmap:
        k = bykind.get(m["kind"])
        if not k:
            raise SystemExit("spec: section F names unknown kind " + m["kind"])
        table = (enums if m["k"] == "e" else flags).get(m["table"])
        if table is None:
            raise SystemExit("spec: section F names unknown table " + m["table"])
        hit = 0
        if len(m["path"]) == 1:
            for f in k["fields"]:
                if f["name"] == m["path"][0]:
                    f["cls"] = "enum" if m["k"] == "e" else "flags"
                    f["table"] = m["table"]
                    hit += 1
        else:
            t = k["tail"]
            if t and t["k"] == "vec" and t["name"] == m["path"][0]:
                for f in t["elt"]:
                    if f["name"] == m["path"][1]:
                        f["cls"] = "enum" if m["k"] == "e" else "flags"
                        f["table"] = m["table"]
                        hit += 1
        if not hit:
            raise SystemExit("spec: section F: no field %s in %s" % (".".join(m["path"]), m["kind"]))

    def code_name(kind, f):
        """normalised name the crate is expected to use for this field"""
        key = "%s.%s" % (kind, f["name"])
        base = alias["fields"].get(key, f["name"])
        parts = [norm(base)]
        if "idx" in f:
            parts[0] += "[%d]" % f["idx"]
        if f.get("sub") is not None and f["sub"] != "":
            sk = "%s.%s" % (f.get("of", kind), f["sub"])
            parts.append(norm(alias["fields"].get(sk, f["sub"])))
        return ".".join(parts)

    def table_rows(kind_letter, name):
        t = (enums if kind_letter == "enum" else flags)[name]
        al = alias["enumerants" if kind_letter == "enum" else "flags"]
        rows = []
        for nm, v in t:
            cn = norm(al.get("%s.%s" % (name, nm), nm))
            rows.append([cn, v if kind_letter == "enum" else (1 << v)])
        return rows

    for k in kinds:
        for f in k["fields"]:
            if f["cls"] != "spare":
                f["code"] = code_name(k["name"], f)
            if f.get("table"):
                f["rows"] = table_rows(f["cls"], f["table"])
        t = k["tail"]
        if t and t["k"] == "vec":
            for f in t["elt"]:
                if f["cls"] != "spare":
                    sk = "%s.%s" % (f.get("of", k["name"]), f["name"])
                    f["code"] = norm(alias["fields"].get(sk, f["name"]))
                if f.get("table"):
                    f["rows"] = table_rows(f["cls"], f["table"])
            t["code"] = norm(alias["fields"].get("%s.%s" % (k["name"], t["name"]), t["name"]))
        if t and t["k"] == "text":
            t["code"] = norm(alias["fields"].get("%s.%s" % (k["name"], t["name"]), t["name"]))

    # section H: sub-typed payloads
    sub = {"SMALL": [], "CIM": []}
    for ln in section(text, "H").split("\n") + re.search(r"^IS_CIM:.*?```\n(.*?)```", text, re.S | re.M).group(1).split("\n"):
        toks = ln.split()
        if len(toks) < 3 or toks[0] not in sub:
            continue
        ent = {"sub": toks[1], "k": toks[2]}
        if toks[2] in ("e", "f"):
            t = (enums if toks[2] == "e" else flags)[toks[3]]
            al = alias["enumerants" if toks[2] == "e" else "flags"]
            ent["table"] = toks[3]
            ent["rows"] = [[norm(al.get("%s.%s" % (toks[3], nm), nm)), v if toks[2] == "e" else (1 << v)] for nm, v in t]
        elif toks[2] == "dur":
            ent["unit"] = int(toks[3])
        elif toks[2] == "v":
            ent["rows"] = [[norm(x.split("=")[0]), int(x.split("=")[1], 16)] for x in toks[3:]]
        sub[toks[0]].append(ent)
    os.makedirs(GEN, exist_ok=True)
    json.dump({"kinds": kinds, "enums": enums, "flags": flags, "alias": alias, "sub": sub}, open(os.path.join(GEN, "spec.json"), "w"), indent=1)

    # ---- Lean ----
    CLS = {"uint": 0, "sint": 1, "f32": 2, "text": 3, "car": 4, "dur": 5, "spclose": 6, "enum": 7, "flags": 8, "bytes": 9, "spare": 10}

    def cell(f):
        rows = "[" + ", ".join("(%s, %d)" % (lean_bytes(r[0]), r[1]) for r in f.get("rows", [])) + "]"
        return "⟨%s, %d, %d, %d, %d, %s⟩" % (lean_bytes(f.get("code", "")), f.get("off", f.get("rel", 0)), f["width"], CLS[f["cls"]], f.get("unit", 0), rows)

    out = ["-- GENERATED by translate/spec.py from DESIGN-appendix-spec.md (the independent transcription; nothing under /repo is read). Do not edit.",
           "import Insim.Model.Spec", "namespace Insim.Gen.Spec", "open Insim Insim.Spec", ""]
    names = []
    for k in kinds:
        nm = "k%d" % k["no"]
        names.append(nm)
        cells = ",\n    ".join(cell(f) for f in k["fields"] if f["cls"] != "spare")
        t = k["tail"]
        if t is None:
            tail = ".none"
        elif t["k"] == "text":
            tail = ".text %s %d %d %d" % (lean_bytes(t["code"]), t["off"], t.get("min", 0), t.get("max", 0))
        else:
            ecells = ", ".join(cell(f) for f in t["elt"] if f["cls"] != "spare")
            tail = ".vec %s %d %d %d [%s]" % (lean_bytes(t["code"]), t["off"], t["elt_size"], t["odd_pad"], ecells)
        out.append("def %s : SKind := {\n  typeNo := %d, name := %s, size := %d,\n  cells := [\n    %s],\n  tail := %s }" % (
            nm, k["no"], lean_bytes(k["name"]), k["size"], cells, tail))
    out.append("def all : List SKind := [%s]" % ", ".join(names))
    out.append("/-- IS_SMALL: named values of `UVal` per sub-type (sub-type name, rows) -/")
    out.append("def smallRows : List (Bytes × List (Bytes × Nat)) := [" + ", ".join(
        "(%s, [%s])" % (lean_bytes(norm(e["sub"])), ", ".join("(%s, %d)" % (lean_bytes(r[0]), r[1]) for r in e.get("rows", [])))
        for e in sub["SMALL"] if e.get("rows")) + "]")
    out.append("end Insim.Gen.Spec")
    content = "\n".join(out) + "\n"
    path = os.path.join(GEN, "Spec.lean")
    changed = True
    try:
        changed = open(path).read() != content
    except FileNotFoundError:
        pass
    if changed:
        open(path, "w").write(content)
    return {"file": "Insim/Gen/Spec.lean", "changed": changed,
            "items": {"kinds": len(kinds), "enumerant_tables": len(enums), "flag_tables": len(flags),
                      "fields_with_tables": sum(1 for k in kinds for f in k["fields"] if f.get("table"))}}


if __name__ == "__main__":
    print(json.dumps(translate()["items"]))
