"""Shared helpers for the source -> Lean translators.

Every translator reads files under the repository working tree (REPO) and writes Lean *data*
definitions under lean/Insim/Gen. A declaration that cannot be read is not guessed: it is recorded
as a broken obligation `translate:<file>:<item>` in the status dictionary returned to bin/check.
"""
import os, re, json

REPO = os.environ.get("VERIF_REPO", "/repo")
VERIF = os.path.dirname(os.path.dirname(os.path.abspath(__file__)))
GEN = os.path.join(VERIF, "lean", "Insim", "Gen")


class TranslateError(Exception):
    def __init__(self, where, what):
        super().__init__(f"translate:{where}: {what}")
        self.where = where
        self.what = what


def read(rel):
    with open(os.path.join(REPO, rel), encoding="utf-8") as f:
        return f.read()


def write_if_changed(path, content):
    os.makedirs(os.path.dirname(path), exist_ok=True)
    try:
        with open(path, encoding="utf-8") as f:
            if f.read() == content:
                return False
    except FileNotFoundError:
        pass
    with open(path, "w", encoding="utf-8") as f:
        f.write(content)
    return True


def strip_comments(src):
    """Remove // line comments (incl. doc comments) and /* */ blocks; keeps string/char literals."""
    out = []
    i, n = 0, len(src)
    while i < n:
        c = src[i]
        if c == '"':
            j = i + 1
            while j < n and src[j] != '"':
                j += 2 if src[j] == '\\' else 1
            out.append(src[i:j + 1]); i = j + 1
        elif c == "'" and i + 2 < n and (src[i + 2] == "'" or (src[i + 1] == '\\' and "'" in src[i+2:i+6])):
            j = src.index("'", i + 2 if src[i+1] != '\\' else i + 3)
            out.append(src[i:j + 1]); i = j + 1
        elif src.startswith("//", i):
            j = src.find("\n", i)
            i = n if j < 0 else j
        elif src.startswith("/*", i):
            j = src.find("*/", i)
            i = n if j < 0 else j + 2
        else:
            out.append(c); i += 1
    return "".join(out)


def balanced(src, start, open_ch="{", close_ch="}"):
    """src[start] == open_ch; returns index just past the matching close."""
    assert src[start] == open_ch, (src[start:start+20], open_ch)
    depth = 0
    i = start
    n = len(src)
    while i < n:
        c = src[i]
        if c == '"':
            j = i + 1
            while j < n and src[j] != '"':
                j += 2 if src[j] == '\\' else 1
            i = j + 1
            continue
        if c == "'" and i + 2 < n and src[i + 2] == "'":
            i += 3
            continue
        if c == open_ch:
            depth += 1
        elif c == close_ch:
            depth -= 1
            if depth == 0:
                return i + 1
        i += 1
    raise ValueError("unbalanced")


def block_after(src, pattern, where):
    """Body (without braces) of the first `{...}` block following regex `pattern`."""
    m = re.search(pattern, src)
    if not m:
        raise TranslateError(where, f"pattern not found: {pattern}")
    i = src.index("{", m.end() - 1) if src[m.end() - 1] != "{" else m.end() - 1
    j = balanced(src, i)
    return src[i + 1:j - 1]


def byte_lit(tok, where):
    tok = tok.strip()
    m = re.fullmatch(r"b'(\\?.)'", tok)
    if m:
        s = m.group(1)
        if s.startswith("\\"):
            esc = {"\\0": 0, "\\n": 10, "\\\\": 92, "\\'": 39}
            if s in esc:
                return esc[s]
            raise TranslateError(where, f"unknown escape {tok}")
        return ord(s)
    m = re.fullmatch(r"(\d+)(_?u8)?", tok)
    if m:
        return int(m.group(1))
    m = re.fullmatch(r"0x([0-9a-fA-F]+)(_?u8)?", tok)
    if m:
        return int(m.group(1), 16)
    raise TranslateError(where, f"not a byte literal: {tok!r}")


def lean_nat_list(xs):
    return "[" + ", ".join(str(x) for x in xs) + "]"


def lean_name(s):
    """ASCII code list for an identifier/string."""
    return lean_nat_list([ord(c) for c in s])


def lean_str(s):
    return '"' + s.replace("\\", "\\\\").replace('"', '\\"') + '"'


def bytestr_to_arrays(src):
    """`b"XFG\\0"` and `*b"XFG\\0"` are the array `[b'X', b'F', b'G', 0]` spelled differently: bring them to the array form"""
    def conv(m):
        body = m.group(1)
        out, i = [], 0
        while i < len(body):
            c = body[i]
            if c == "\\":
                n = body[i + 1]
                if n == "0": out.append("0"); i += 2
                elif n == "x": out.append(str(int(body[i + 2:i + 4], 16))); i += 4
                elif n == "n": out.append("10"); i += 2
                elif n == "\\": out.append("92"); i += 2
                else: out.append("b'\\%s'" % n); i += 2
            else:
                out.append("b'%s'" % c); i += 1
        return "[" + ", ".join(out) + "]"
    return re.sub(r'\*?b"((?:[^"\\]|\\.)*)"', conv, src)


def subst_usize_consts(src):
    """`const N: usize = 4;` used as an array length or repeat count"""
    vals = {}
    for m in re.finditer(r"const\s+(\w+)\s*:\s*usize\s*=\s*(\d+)\s*;", src):
        vals[m.group(1)] = m.group(2)
    for name in sorted(vals, key=len, reverse=True):
        src = re.sub(r"(?<!const )\b%s\b(?!\s*:)" % re.escape(name), vals[name], src)
    return src


def expand_repeat_arrays(src):
    """`[0_u8; 4]` is `[0_u8, 0_u8, 0_u8, 0_u8]`"""
    return re.sub(r"\[\s*([^\[\];,]+?)\s*;\s*(\d+)\s*\](?!\s*>)", lambda m: "[" + ", ".join([m.group(1)] * int(m.group(2))) + "]" if int(m.group(2)) <= 16 and not re.fullmatch(r"u8|char|\w+::\w+", m.group(1)) else m.group(0), src)
