"""insim_core/src/vehicle.rs -> lean/Insim/Gen/Vehicle.lean (read arms, write arms, Display arms)."""
import re
from common import *

SRC = "insim_core/src/vehicle.rs"


def translate():
    src = expand_repeat_arrays(subst_usize_consts(bytestr_to_arrays(strip_comments(read(SRC)))))
    enum_body = block_after(src, r"pub\s+enum\s+Vehicle\s*\{", SRC + ":enum Vehicle")
    variants = []
    for m in re.finditer(r"(?:#\[[^\]]*\]\s*)*([A-Z]\w*)\s*(\([^)]*\))?\s*,", enum_body):
        variants.append((m.group(1), m.group(2)))
    builtins = [v for v, payload in variants if payload is None and v != "Unknown"]
    if ("Mod", "(u32)") not in variants or ("Unknown", None) not in variants:
        raise TranslateError(SRC + ":enum Vehicle", "expected variants Mod(u32) and Unknown")

    # --- reader ---------------------------------------------------------------------------
    rd = block_after(src, r"impl\s+BinRead\s+for\s+Vehicle\s*\{", SRC + ":BinRead")
    mt = block_after(rd, r"match\s*\(\s*&?bytes\s*,\s*is_builtin\s*\)\s*\{", SRC + ":BinRead:match")
    arms = re.findall(r"\(\s*(\[[^\]]*\]|_)\s*,\s*(true|false|_)\s*\)\s*=>\s*([^\n]+?),\s*\n", mt + "\n")
    if not arms:
        raise TranslateError(SRC + ":BinRead:match", "no arms read")
    rows = []
    where = SRC + ":BinRead:match"
    # required shape: first arm all-zero -> Unknown; literal arms gated by `true`; then the two fallbacks
    first = arms[0]
    if not (first[0] != "_" and [byte_lit(t, where) for t in first[0][1:-1].split(",")] == [0, 0, 0, 0]
            and first[1] == "_" and re.fullmatch(r"Ok\(Vehicle::Unknown\)", first[2])):
        raise TranslateError(where, "first arm is not ([0,0,0,0], _) => Ok(Vehicle::Unknown)")
    tail = arms[-2:]
    if not (tail[0][0] == "_" and tail[0][1] == "true" and tail[0][2].startswith("Err(")
            and tail[1][0] == "_" and tail[1][1] == "false"
            and re.fullmatch(r"Ok\(Vehicle::Mod\(u32::from_le_bytes\(bytes\)\)\)", tail[1][2])):
        raise TranslateError(where, "fallback arms are not (_, true) => Err(..), (_, false) => Ok(Mod(from_le_bytes))")
    for pat, flag, res in arms[1:-2]:
        m = re.fullmatch(r"Ok\(Vehicle::(\w+)\)", res)
        if pat == "_" or flag != "true" or not m:
            raise TranslateError(where, f"unexpected arm ({pat}, {flag}) => {res}")
        bs = [byte_lit(t, where) for t in pat[1:-1].split(",")]
        if len(bs) != 4:
            raise TranslateError(where, f"pattern {pat} is not 4 bytes")
        rows.append((bs, m.group(1)))
    if not re.search(r"bytes\[0\.\.=2\]\.iter\(\)\.all\(\|c\|\s*c\.is_ascii_alphanumeric\(\)\)\s*&&\s*bytes\[3\]\s*==\s*0", rd):
        # the shape test is hand-modelled (Insim.Vehicle.isBuiltinShape); a different text is left to the correspondence run
        shape_note = "changed"
    else:
        shape_note = "verbatim"

    # --- writer ---------------------------------------------------------------------------
    wr = block_after(src, r"impl\s+BinWrite\s+for\s+Vehicle\s*\{", SRC + ":BinWrite")
    wm = block_after(wr, r"match\s+self\s*\{", SRC + ":BinWrite:match")
    wrows = []
    seen_mod = seen_unknown = False
    where = SRC + ":BinWrite:match"
    arms_w = list(re.finditer(r"Vehicle::(\w+)\s*(\(\s*(\w+)\s*\))?\s*=>\s*([^\n]+?)\.write_options\(writer,\s*endian,\s*args\),", wm))
    hoisted = re.search(r"let\s+(\w+)(?:\s*:\s*\[u8;\s*\w+\])?\s*=\s*match\s+self\s*\{", wr) and re.search(r"\}\s*;\s*(\w+)\.write_options\(writer,\s*endian,\s*args\)", wr)
    if hoisted:
        # `let code = match self { V => [..], Mod(m) => return m.write_options(..), .. }; code.write_options(..)`
        arms_w = list(re.finditer(r"Vehicle::(\w+)\s*(\(\s*(\w+)\s*\))?\s*=>\s*(?:return\s+)?([^\n]+?)(?:\.write_options\(writer,\s*endian,\s*args\))?,\s*\n", wm + "\n"))
    for m in arms_w:
        name, _, bind, expr = m.groups()
        if name == "Mod":
            if expr.strip() != bind:
                raise TranslateError(where, f"Mod arm writes {expr!r}, expected the u32 itself")
            seen_mod = True
            continue
        lm = re.fullmatch(r"\[([^\]]*)\]", re.sub(r"_u8\b", "", expr.strip()))
        if not lm:
            raise TranslateError(where, f"arm {name}: not an array literal: {expr!r}")
        bs = [byte_lit(t, where) for t in lm.group(1).split(",")]
        if name == "Unknown":
            if bs != [0, 0, 0, 0]:
                raise TranslateError(where, "Unknown is not written as four zero bytes")
            seen_unknown = True
            continue
        wrows.append((name, bs))
    if not (seen_mod and seen_unknown):
        raise TranslateError(where, "Mod / Unknown arm not found")
    if sorted(n for n, _ in wrows) != sorted(builtins):
        raise TranslateError(where, "writer arms do not cover exactly the built-in variants")

    # --- Display --------------------------------------------------------------------------
    dp = block_after(src, r"impl\s+std::fmt::Display\s+for\s+Vehicle\s*\{", SRC + ":Display")
    drows = []
    for m in re.finditer(r'Vehicle::(\w+)\s*=>\s*(?:write!\(f,\s*|f\.write_str\()"([^"{}]*)"\)', dp):
        if m.group(1) != "Unknown":
            drows.append((m.group(1), m.group(2)))
    if sorted(n for n, _ in drows) != sorted(builtins):
        raise TranslateError(SRC + ":Display", "Display arms do not cover exactly the built-in variants")

    L = []
    L.append("-- GENERATED by translate/vehicle.py from insim_core/src/vehicle.rs on every run. Do not edit.")
    L.append("import Insim.Model.Vehicle")
    L.append("namespace Insim.Gen.Vehicle")
    L.append("open Insim Insim.Vehicle")
    L.append("/-- built-in variants, in declaration order -/")
    L.append("def builtins : List Name := [" + ", ".join(lean_name(b) for b in builtins) + "]")
    L.append("/-- `BinRead` literal arms: 4-byte pattern -> variant -/")
    L.append("def readRows : List (Bytes × Name) := [\n  " +
             ",\n  ".join(f"({lean_nat_list(bs)}, {lean_name(n)})  -- {n}" for bs, n in rows).replace("),  --", "),  --") + "\n  ]")
    L.append("/-- `BinWrite` arms: variant -> 4 bytes -/")
    L.append("def writeRows : List (Name × Bytes) := [\n  " +
             ",\n  ".join(f"({lean_name(n)}, {lean_nat_list(bs)})" for n, bs in wrows) + "\n  ]")
    L.append("/-- `Display` arms: variant -> printed name -/")
    L.append("def displayRows : List (Name × Bytes) := [\n  " +
             ",\n  ".join(f"({lean_name(n)}, {lean_name(s)})" for n, s in drows) + "\n  ]")
    L.append("end Insim.Gen.Vehicle")
    text = "\n".join(L) + "\n"
    # Lean does not allow a trailing comment before `,`: drop the row comments
    text = re.sub(r"\)  -- \w+", ")", text)
    changed = write_if_changed(os.path.join(GEN, "Vehicle.lean"), text)
    return {"file": "Insim/Gen/Vehicle.lean", "changed": changed,
            "items": {"builtins": len(builtins), "read_rows": len(rows), "write_rows": len(wrows),
                      "display_rows": len(drows), "shape_test": shape_note},
            "rust": {"builtins": builtins}}


if __name__ == "__main__":
    print(json.dumps(translate(), indent=1))
