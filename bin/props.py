"""Registry: which translators exist, and per property the trusted base / rule / assumptions that go
into the evidence file. The checks themselves live in lean/Insim/Props/<ID>.lean (theorems),
harness/src/<id>.rs (correspondence streams + implementation-side oracle) and translate/*.py."""

TRANSLATORS = ["vehicle", "durations"]

TRUSTED_COMMON = [
    "Lean 4.33.0 kernel; axioms allowed: propext, Classical.choice, Quot.sound (audited with #print axioms on every run); no sorry/admit/native_decide/bv_decide/own axioms (grep on every run)",
    "the correspondence harness (/verif/harness) and bin/check: canonicalisation of results, line diff, oracle code",
]

NOT_YET = {}

PROPS = {
    "C13": {
        "level_text": "Lean theorems over the hand model of Vehicle's reader/writer instantiated with the read/write/Display tables regenerated from vehicle.rs on every run: the reader equals the InSim v9 classification for every byte string, every successful decode re-encodes to the identical 4 bytes (all 2^32 words, by proof), mods and built-ins are never confused, unknown built-in-style names are errors, printed name = wire name. Control flow tied by a correspondence run (232k words quick; thorough adds all 2^32 words through the real code).",
        "level_note": "Trusted: Lean kernel; translate/vehicle.py; the harness. Modelled not verified: binrw's [u8;4]/u32 primitives. The spec's list of 20 car names is a transcription from memory.",
        "technique": "Lean 4 proof (table lemmas + decide on regenerated tables) + translator + differential correspondence",
        "translators": ["vehicle"],
        "trusted": [
            "translate/vehicle.py: reads the match arms of Vehicle's BinRead/BinWrite/Display impls (shape of the first and the two fallback arms is checked, literal arms become table rows)",
            "hand-modelled, tied by the correspondence run only: the control flow of Vehicle::read_options (zero test, is_ascii_alphanumeric shape test, from_le_bytes fallback), binrw's [u8;4] reader and u32 writer",
        ],
        "rule": "one line per 4-byte word: class-representative bytes^3 x 7 last bytes, every spec name and all its alphanumeric one-letter neighbours, short inputs, random words; thorough adds all 2^32 words through the real reader/writer (oracle only). distinct = distinct words; every word is non-trivial (each exercises the classifier)",
        "assumptions": [
            "specNames (Lean) / SPEC_NAMES (Rust oracle) transcribe the 20 built-in cars of LFS 0.7 from memory of InSim.txt; no copy of the specification exists in the sandbox",
        ],
    },
    "C15": {
        "level_text": "Lean theorems, unbounded: every wire value of a scaled time field re-encodes to itself for any width/scale (instantiated on every duration field regenerated from the packet declarations: read/write width and scale agree, scale is 1 or 10 ms); encoding rounds down exactly and refuses out-of-range durations; race-length bytes 0..238 round-trip, 239..255 fall back to practice, in-range race lengths decode back to their rounded-down value, out-of-range ones become practice; Small's time sub-types round-trip every u32 and refuse overflow; Fuel bytes round-trip. Hand model tied by correspondence (all 65536 values of the 16-bit fields, all 256 race-length bytes, lap/hour counts 0..2000, boundary-biased 32-bit values).",
        "level_note": "Trusted: Lean kernel; translate/durations.py (reads the parse_with/write_with attributes); the harness. Modelled not verified: std::time::Duration arithmetic (as_millis/from_millis), binrw integer primitives, TryFrom<u128> for uN.",
        "technique": "Lean 4 proof (arithmetic lemmas with omega, decide on regenerated field table) + translator + differential correspondence",
        "translators": ["durations"],
        "trusted": [
            "translate/durations.py: every field carrying binrw_parse_duration/binrw_write_duration, its integer type and SCALE on both sides",
            "hand-modelled, tied by the correspondence run only: duration.rs helpers, RaceLaps From<u8>/From<RaceLaps>, SmallType read/write of the time sub-types, Duration::as_millis / from_millis",
        ],
        "rule": "one line per conversion: dur.rd/dur.wr for the four (width, scale) combinations in use, laps.rd for all 256 bytes, laps.wr for lap/hour counts 0..2000 and extremes, small.rd/small.wr for discriminants 1,2,5,6,7; distinct = distinct op text; each line exercises a conversion so all are non-trivial",
        "assumptions": [
            "race-length bytes 239..255 are outside the specification's table; mapping them to practice is the documented fallback (DESIGN.md section 8, reading of the statements)",
            "lap counts 100..1000 not divisible by 10 round down to the field's resolution",
        ],
    },
}
