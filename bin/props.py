"""Registry: which translators exist, and per property the trusted base / rule / assumptions that go
into the evidence file. The checks themselves live in lean/Insim/Props/<ID>.lean (theorems),
harness/src/<id>.rs (correspondence streams + implementation-side oracle) and translate/*.py."""

TRANSLATORS = ["vehicle", "durations", "track", "codepages", "builder", "packets", "files"]

TRUSTED_COMMON = [
    "Lean 4.33.0 kernel; axioms allowed: propext, Classical.choice, Quot.sound (audited with #print axioms on every run); no sorry/admit/native_decide/bv_decide/own axioms (grep on every run)",
    "the correspondence harness (/verif/harness) and bin/check: canonicalisation of results, line diff, oracle code",
]

NOT_YET = {}

PROPS = {
    "C13": {
        "level_text": "Lean theorems over the hand model of Vehicle's reader/writer instantiated with the read/write/Display tables regenerated from vehicle.rs on every run: the reader equals the InSim v9 classification for every byte string, every successful decode re-encodes to the identical 4 bytes (all 2^32 words, by proof), mods and built-ins are never confused, unknown built-in-style names are errors, printed name = wire name. Control flow tied by a correspondence run (232k words quick; thorough adds all 2^32 words through the real code).",
        "level_note": "Trusted: Lean kernel; translate/vehicle.py; the harness. Modelled not verified: binrw's [u8;4]/u32 primitives. The spec's list of 20 car names is a transcription from memory.",
        "technique": "Lean 4 proof (table lemmas + decide on regenerated tables) + translator + differential correspondence",
        "translators": ["vehicle"],
        "trusted": [
            "translate/vehicle.py: reads the match arms of Vehicle's BinRead/BinWrite/Display impls (shape of the first and the two fallback arms is checked, literal arms become table rows)",
            "hand-modelled, tied by the correspondence run only: the control flow of Vehicle::read_options (zero test, is_ascii_alphanumeric shape test, from_le_bytes fallback), binrw's [u8;4] reader and u32 writer",
        ],
        "rule": "one line per 4-byte word: class-representative bytes^3 x 7 last bytes, every spec name and all its alphanumeric one-letter neighbours, short inputs, random words; thorough adds all 2^32 words through the real reader/writer (oracle only). distinct = distinct words; every word is non-trivial (each exercises the classifier)",
        "assumptions": [
            "specNames (Lean) / SPEC_NAMES (Rust oracle) transcribe the 20 built-in cars of LFS 0.7 from memory of InSim.txt; no copy of the specification exists in the sandbox",
        ],
    },
    "C15": {
        "level_text": "Lean theorems, unbounded: every wire value of a scaled time field re-encodes to itself for any width/scale (instantiated on every duration field regenerated from the packet declarations: read/write width and scale agree, scale is 1 or 10 ms); encoding rounds down exactly and refuses out-of-range durations; race-length bytes 0..238 round-trip, 239..255 fall back to practice, in-range race lengths decode back to their rounded-down value, out-of-range ones become practice; Small's time sub-types round-trip every u32 and refuse overflow; Fuel bytes round-trip. Hand model tied by correspondence (all 65536 values of the 16-bit fields, all 256 race-length bytes, lap/hour counts 0..2000, boundary-biased 32-bit values).",
        "level_note": "Trusted: Lean kernel; translate/durations.py (reads the parse_with/write_with attributes); the harness. Modelled not verified: std::time::Duration arithmetic (as_millis/from_millis), binrw integer primitives, TryFrom<u128> for uN.",
        "technique": "Lean 4 proof (arithmetic lemmas with omega, decide on regenerated field table) + translator + differential correspondence",
        "translators": ["durations"],
        "trusted": [
            "translate/durations.py: every field carrying binrw_parse_duration/binrw_write_duration, its integer type and SCALE on both sides",
            "hand-modelled, tied by the correspondence run only: duration.rs helpers, RaceLaps From<u8>/From<RaceLaps>, SmallType read/write of the time sub-types, Duration::as_millis / from_millis",
        ],
        "rule": "one line per conversion: dur.rd/dur.wr for the four (width, scale) combinations in use, laps.rd for all 256 bytes, laps.wr for lap/hour counts 0..2000 and extremes, small.rd/small.wr for discriminants 1,2,5,6,7; distinct = distinct op text; each line exercises a conversion so all are non-trivial",
        "assumptions": [
            "race-length bytes 239..255 are outside the specification's table; mapping them to practice is the documented fallback (DESIGN.md section 8, reading of the statements)",
            "lap counts 100..1000 not divisible by 10 round down to the field's resolution",
        ],
    },
    "C05": {
        "level_text": "Lean refinement theorem on the hand model of the Framed read loop (one definition for the blocking and the tokio connection): for every list of valid frames, every partition of their bytes into read events, any number of Pending / transient I/O error / timeout events and any carried-over buffer, the read results with the transient faults left aside are exactly each frame's own result in order followed by disconnected, and each fault surfaces as exactly one error result (proved by functional induction over the loop with the invariant buffer ++ remaining script bytes = remaining frames). Tied to both real connections by scripted in-memory transports: exhaustive segmentations of short streams, random histories of all decodable kinds incl. undecodable frames, long sessions beyond the 6120-byte buffer, injected faults.",
        "level_note": "Trusted: Lean kernel; the harness (scripted transports, trace canonicalisation). Memory safety of the unsafe read_buf and BytesMut's reallocation are outside the model. The blocking/tokio equivalence is by construction in the model (one definition) and checked on the code by running identical scripts through both.",
        "technique": "Lean 4 proof (refinement by functional induction over the read loop) + differential correspondence on scripted transports",
        "trusted": [
            "hand-modelled, tied by the correspondence run only: both Framed::read loops, Framed::write, Codec::decode, Mode::decode_length/encode_length, Packet::maybe_pong, Packet::maybe_verify_version",
            "the packet parser is a parameter of the model (any function from frame bodies to {tiny reqi subt, ver n, other, error, panic}); in the correspondence run it is the real decoder's classification of each distinct frame",
            "modelled not verified: bytes::BytesMut (split_to, advance, chunk_mut, advance_mut abstracted to list operations; the two unsafe blocks in read_buf are outside the model), tokio's AsyncReadExt::read / write_all_buf / time::timeout, std::io::Write::write_all",
        ],
        "rule": "one line per scripted session: frames x partition x fault events x {blocking,tokio} x {compressed,uncompressed} x gate on/off; the op is the script actually returned by the transport, the result is the interleaved trace of read results and outgoing writes; distinct = distinct op text",
        "assumptions": ["a transport returns between 1 and the offered number of bytes per successful read (whatever the offered slice size), so every session is some partition of the byte stream"],
        "timeout": {"quick": 900, "thorough": 7200},
    },
    "C06": {
        "level_text": "Lean theorems on the model of write_all / write_all_buf: a successful write put exactly the frame on the wire for every acceptance pattern; a sequence of successful writes delivers the concatenation of the frames in call order; after a failure the wire holds a prefix of it; on a transport that never fails and never accepts 0 bytes every write completes however few bytes each call takes and however often it reports not-ready. Tied to both real connections by a scripted write half (every decodable kind x acceptance sizes, random patterns with Pending, I/O errors and zero-length accepts).",
        "level_note": "Trusted: Lean kernel; the harness. std::io::Write::write_all and tokio's write_all_buf are modelled (loop until empty, WriteZero on 0, stop at the first error), not verified.",
        "technique": "Lean 4 proof (functional induction over the write loop) + differential correspondence on scripted transports",
        "trusted": [
            "hand-modelled, tied by the correspondence run only: both Framed::read loops, Framed::write, Codec::decode, Mode::decode_length/encode_length, Packet::maybe_pong, Packet::maybe_verify_version",
            "the packet parser is a parameter of the model (any function from frame bodies to {tiny reqi subt, ver n, other, error, panic}); in the correspondence run it is the real decoder's classification of each distinct frame",
            "modelled not verified: bytes::BytesMut (split_to, advance, chunk_mut, advance_mut abstracted to list operations; the two unsafe blocks in read_buf are outside the model), tokio's AsyncReadExt::read / write_all_buf / time::timeout, std::io::Write::write_all",
        ],
        "rule": "one line per write session: 1..4 packets (decoded from pool frames of every kind, re-encoded by the real encoder) x acceptance script; result = per-call results and all bytes accepted by the transport",
        "assumptions": [],
    },
    "C07": {
        "level_text": "Lean theorems: only TINY/NONE/reqi 0 is a keep-alive (all sub-types, all request ids, by case analysis, not sampling); the reply is the encoder's image of TINY_NONE in the connection's mode; over any history, segmentation and faults the outgoing bytes are exactly one reply per received keep-alive in order and nothing else, and each reply immediately precedes the delivery of its keep-alive (corollaries of the C05 refinement). Tied by scripted sessions: TINY sub-types 0..31 x request ids, one frame of every decodable kind in every position of a keep-alive history, both flavours and modes.",
        "level_note": "Trusted: as C05. The write half is assumed healthy here (a failing or short-writing write half is C06's subject).",
        "technique": "Lean 4 proof (corollary of the read-loop refinement) + differential correspondence on scripted transports",
        "trusted": [
            "hand-modelled, tied by the correspondence run only: both Framed::read loops, Framed::write, Codec::decode, Mode::decode_length/encode_length, Packet::maybe_pong, Packet::maybe_verify_version",
            "the packet parser is a parameter of the model (any function from frame bodies to {tiny reqi subt, ver n, other, error, panic}); in the correspondence run it is the real decoder's classification of each distinct frame",
            "modelled not verified: bytes::BytesMut (split_to, advance, chunk_mut, advance_mut abstracted to list operations; the two unsafe blocks in read_buf are outside the model), tokio's AsyncReadExt::read / write_all_buf / time::timeout, std::io::Write::write_all",
        ],
        "rule": "as C05; the oracle decides keep-alive from the frame bytes (type 3, request id 0, sub-type 0), independently of Packet::maybe_pong",
        "assumptions": ["the write half accepts every reply (short or failing writes are covered by C06)"],
        "timeout": {"quick": 900, "thorough": 7200},
    },
    "C09": {
        "level_text": "Lean theorems: with the gate on a version packet is delivered iff it reports 9 and otherwise surfaces IncompatibleVersion(n) for every n; with the gate off every version packet is delivered; no other packet kind is ever rejected; lifted through the C05 refinement to any position in any history (the rejected frame is removed, successors undisturbed). Tied by scripted sessions over all 256 version values x gate on/off x both flavours x positions 0..3 and every decodable kind.",
        "level_note": "Trusted: as C05.",
        "technique": "Lean 4 proof (decision table + corollary of the read-loop refinement) + differential correspondence on scripted transports",
        "trusted": [
            "hand-modelled, tied by the correspondence run only: both Framed::read loops, Framed::write, Codec::decode, Mode::decode_length/encode_length, Packet::maybe_pong, Packet::maybe_verify_version",
            "the packet parser is a parameter of the model (any function from frame bodies to {tiny reqi subt, ver n, other, error, panic}); in the correspondence run it is the real decoder's classification of each distinct frame",
            "modelled not verified: bytes::BytesMut (split_to, advance, chunk_mut, advance_mut abstracted to list operations; the two unsafe blocks in read_buf are outside the model), tokio's AsyncReadExt::read / write_all_buf / time::timeout, std::io::Write::write_all",
        ],
        "rule": "as C05; the oracle reads the reported version from byte 18 of the frame, independently of Packet::maybe_verify_version",
        "assumptions": [],
        "timeout": {"quick": 900, "thorough": 7200},
    },
    "C14": {
        "level_text": "Lean theorems over the seven tables regenerated from track.rs on every run (variant list, licence, distance, code, is_reverse, is_open, BinRead arms, BinWrite arms): for all 154 configurations the wire form is the code NUL-padded to 6 bytes and decodes back to the same configuration (decide +kernel row by row); for EVERY byte string a successful decode re-encodes to exactly that string, hence no other 6-byte value decodes to a configuration (table lemma, not enumeration); reversed iff the code ends in R/Y, open iff X/Y, open implies no distance, one area one licence. The syntactic extraction is cross-checked against behavioural extraction through the public accessors of every variant, and the reader is driven over the whole shaped space (2.0 M strings) plus mutations and random values.",
        "level_note": "Trusted: Lean kernel; translate/track.py (reads the eight match/matches! blocks; checks every block covers exactly the declared variants); the harness. The reader's control flow (6-byte array, first matching literal arm, else error) is hand-modelled and tied by the correspondence run.",
        "technique": "Lean 4 proof (decide +kernel on regenerated tables + table lemmas) + translator + differential correspondence",
        "translators": ["track"],
        "trusted": [
            "translate/track.py: the variant list from the enum declaration and the eight blocks of track.rs (license, distance_mile, code, is_reverse, is_open, BinRead, BinWrite, Display = code())",
            "hand-modelled, tied by the correspondence run only: Track::read_options control flow, binrw [u8;6] primitives",
        ],
        "rule": "trk.info for every declared variant (taken from the enum declaration at build time), trk.dec for every shaped string whose area exists plus 1 in 97 of the others (all 2.0 M go through the oracle), every 1-byte mutation of every wire form over 9 values, lower-cased and truncated forms, random 6-byte values; distinct = distinct op text",
        "assumptions": ["'track area' = the two letters in front of the configuration number"],
    },
    "C16": {
        "level_text": "Lean theorems on the hand model of GameVersion's FromStr/Display/Eq/Ord: the parser is a closed composition of structurally recursive list functions (accepted without fuel: it terminates on every string and has no panic value); parse results carry an upper-cased ASCII letter; letter case never changes the result; the printed form of every well-formed version with a finite number parses back to an equal version (over abstract float print/parse and char::is_numeric with four recorded laws); cmp is exactly lexicographic on (number, letter, revision with missing = 0), reflexive, antisymmetric, transitive, total, equal iff ==, and congruent with ==. Tied by correspondence: all strings over an 8-character class alphabet up to length 5 (quick) / 7 (thorough), LFS-shaped and random Unicode strings, all pairs of parsed versions for cmp/eq.",
        "level_note": "Trusted: Lean kernel; the harness. Abstracted with laws (checked by running the dependency, not proved): f32 Display/FromStr, char::is_numeric, usize Display/FromStr. The order of non-negative non-NaN floats is modelled as the order of their bit patterns; the parser cannot produce NaN or negative numbers (checked by the oracle on every parsed value).",
        "technique": "Lean 4 proof (structural definitions, list lemmas, omega) over an abstract float/Unicode environment + differential correspondence",
        "trusted": [
            "hand-modelled, tied by the correspondence run only: GameVersion::from_str (three-phase loop), Display, PartialEq, Ord",
            "parameters with laws: char::is_numeric is supplied per character by the harness from the real function; f32 parsing is re-implemented exactly in the model (decimal -> nearest f32, ties to even) and compared on every line; f32 printing is supplied by the harness and its round-trip law is swept over the non-negative finite bit patterns",
        ],
        "rule": "gv.parse per string (characters given as code points with the real is_numeric flag), gv.print per successfully parsed finite version, gv.cmp per ordered pair of a pool of parsed versions; distinct = distinct op text",
        "assumptions": ["versions compared by Ord were obtained by parsing (non-negative, non-NaN numbers)", "revision numbers fit usize (anything larger is a parse error)"],
    },
    "C17": {
        "level_text": "Lean theorems over the hand model of the PTH/SMX containers (magic, header with calc'ed i32 counts, counted vectors, negative count = error) instantiated with the leaf layouts (file headers, Node, Object header, ObjectPoint, Triangle, checkpoint count) regenerated from insim_pth/src/lib.rs and insim_smx/src/lib.rs on every run. For every byte string, any number of nodes/objects/points/triangles/checkpoints: the parsers have no panic outcome; parsing is insensitive to trailing bytes, hence every strict prefix of the declared content of any file that parses is rejected (both formats, including cuts inside the padding after a triangle); a count with the top bit set is an error; a successful parse never yields more elements than the input has bytes (huge counts need the bytes to be there); write->parse returns the value for every in-domain file; whatever parses can be written and parsing that gives the equal structure (NaN bit patterns included: floats are carried as their 32 bits); every PTH file, and every SMX file whose skipped pad bytes are zero and whose track name is cleanly NUL-padded, is reproduced byte for byte. The side conditions on the regenerated layouts (symmetric reader/writer pads, positive widths, one/two count fields, pad-free PTH) are decided by kernel evaluation on every run. Tied by correspondence on generated files with 0..n elements, every truncation point of valid files, hostile counts (negative, 2^31-1), flipped bytes and random byte strings; the oracle evaluates the statement on the real code, including from_pathbuf on temporary files and a counting allocator for the allocation clause.",
        "level_note": "Trusted: Lean kernel; translate/files.py; the harness. Modelled not verified: binrw's primitive readers/writers, Cursor seek semantics for pad_after (seeking past the end succeeds and the next read fails — the model's drop-on-short-input), the allocator. The allocation clause is proved only in the form 'decoded element count <= input length'; how much binrw reserves while reading is measured by the harness (peak bytes <= 64*len + 64 KiB), not proved.",
        "technique": "Lean 4 proof (induction over field lists, element vectors and object lists; extension lemma => prefix rejection; decide on regenerated layouts) + translator + differential correspondence with allocation-counting oracle",
        "translators": ["files"],
        "resolve": True,
        "trusted": [
            "translate/files.py: reads the #[binrw] structs Pth, Node, Limit, Smx, Object, ObjectPoint, Triangle, Argb, Rgb and core Point<T> (field order, types, pad_before/pad_after, magic, count/calc attributes); anything it cannot read becomes a translate: obligation",
            "hand-modelled, tied by the correspondence run only: the container shape (which count governs which vector, counts read as i32 and rejected when negative, checkpoint indices as raw i32 words), binrw's count handling",
            "floats are modelled as their 32-bit patterns (no float arithmetic is involved in reading or writing)",
        ],
        "rule": "pth <hex> / smx <hex> lines: the model prints the parsed structure, the unread byte count and the re-encoded bytes; the harness prints the same from insim_pth / insim_smx; distinct = distinct op text. Oracle per line: no panic, peak allocation bound, valid files accepted, truncations rejected, write->parse equal, canonical bytes identical; from_pathbuf on temporary files per generated file",
        "assumptions": ["'allocating beyond what the input can justify' is judged as peak heap growth during the parse <= 64 x input length + 64 KiB", "a canonical SMX file has zero pad bytes and a track name padded with NULs only"],
    },
    "C10": {
        "level_text": "Lean theorems on the hand model of to_lossy_bytes / to_lossy_string over an abstract family of ten codecs with four recorded laws (decNil, ascii, decEnc, noCaret): caret-free text whose characters each exist in some codepage survives encode-then-decode for every length and every order of codepage switches, for every search order listing all ten codepages; ASCII passes through byte for byte; a character in no codepage behaves exactly like a literal '?' (neighbours unchanged); bytes after ^X are decoded with X's codec until the next marker and ^8 selects Latin-1 and is kept; both functions are total by construction. The marker -> encoding table, marker set, propagated marker, default and search order are regenerated from codepages.rs on every run and proved equal to LFS's table (L G C E T B J H S K = 1252 1253 1251 1250 1254 1257 932 950 936 949). Tied by correspondence: encoder driven with the real per-character encodability, decoder plan resolved through encoding_rs; oracle against the specification's encodings over every repertoire character, every byte after every marker, BOM-looking prefixes, random text and bytes.",
        "level_note": "Trusted: Lean kernel; translate/codepages.py; the harness incl. its second pass that runs encoding_rs on the model's decode plan. encoding_rs's ten tables are abstracted to the four laws; the harness enumerates, on every run, every (codepage, character) at which a law fails in the real tables (trail byte 0x5E in Shift_JIS/GBK/Big5/EUC-KR, WHATWG Shift_JIS's non-inverting characters) — texts avoiding those pairs are in the proved domain, and failures at those pairs are the recorded findings.",
        "technique": "Lean 4 proof (induction with a decoder-state invariant over an abstract codec family; decide on the regenerated table) + translator + differential correspondence with a plan-resolution pass",
        "translators": ["codepages"],
        "resolve": True,
        "trusted": [
            "translate/codepages.py: as_lfs_codepage arms, is_lfs_codepage set, propagate_lfs_codepage, VALID_CODEPAGES_FOR_ENCODING, DEFAULT_CODEPAGE; checks the marker scan is the tuple_windows test the model assumes",
            "hand-modelled, tied by the correspondence run only: the encoder's state machine and fallback, the decoder's marker scan and segment dispatch",
            "modelled not verified: encoding_rs 0.8 encoders/decoders (laws decNil, ascii, decEnc, noCaret; exceptions enumerated on every run and reported in the evidence under law-exceptions.*)",
            "the specification's table (marker letter -> Windows codepage) is a transcription from memory of LFS's documentation; Windows codepages 932/936/949/950 are identified with encoding_rs's Shift_JIS/GBK/EUC-KR/Big5",
        ],
        "rule": "cp.enc per string (with the real per-character encodability for the code's own table inline), cp.dec per byte string (model prints the decode plan, resolved by the harness through encoding_rs); distinct = distinct op text",
        "assumptions": ["'exists in at least one LFS codepage' is judged against the ten Windows codepages of the specification, not against the table the code selects"],
        "timeout": {"quick": 1200, "thorough": 14400},
    },
    "C12": {
        "level_text": "Lean theorems over all strings (lists of code points, any length), fast paths included: unescape(escape s) = s; escaped output contains none of | * : \\ / ? \" < > # ; strip equals 'tokenise into ^^, ^digit, plain characters and drop the ^digit tokens' (an independent statement of 'removes exactly the colour codes and leaves escaped carets untouched'); strip is idempotent. The end-to-end clause (escaped text of encodable characters survives the codepage path) is decided by the oracle on the real functions and is false on the pinned tree for four recorded ingredients (known findings); outside them it is checked exhaustively over class alphabets and on random Unicode text. Tied by correspondence on all strings over a 27-character class alphabet up to length 3 (thinned to length 4/5) and a 5-character alphabet up to length 7/9.",
        "level_note": "Trusted: Lean kernel; the harness. The wire clause composes C10's abstract codec family with escaping; its counter-examples are recorded as findings rather than proved impossible, so that clause is labelled partial: proved for the pure functions, observed (not proved) for the composition.",
        "technique": "Lean 4 proof (functional induction over escape/unescape/strip) + differential correspondence; oracle with finding-signature attribution for the wire clause",
        "trusted": [
            "hand-modelled, tied by the correspondence run only: escape, unescape (escaping.rs), strip (colours.rs), including their fast paths",
        ],
        "rule": "esc/unesc/strip lines per string; the oracle additionally evaluates the wire clause on the real escape -> to_lossy_bytes -> to_lossy_string -> unescape chain; distinct = distinct op text",
        "assumptions": ["'encodable characters' = characters that exist in at least one of the ten Windows codepages of the specification (and no NUL)"],
    },
    "C18": {
        "level_text": "Lean refinement theorem: for every sequence of builder calls the ISI's request id, prefix, interval, password, name, UDP port and every one of the 16 flag bits equal 'the last call that had an opinion about that field, else the documented default' (one generic last-writer-wins lemma instantiated per field; flag bits over BitVec 16 with insert/remove semantics of bitflags::set; wholesale replacement decides every bit); isi() is total, including UDP without a local address; the ten flag helpers set the bits the specification assigns (regenerated from builder.rs/isi.rs, decide). 'First and only frame, in the configured size mode' is decided by the oracle over real loopback TCP/UDP connections with both connection flavours.",
        "level_note": "Trusted: Lean kernel; translate/builder.py; the harness incl. its loopback listener. The sockets, connect timeouts and the relay path are outside the model; the handshake clause is observed at the peer, not proved.",
        "technique": "Lean 4 proof (refinement of a fold to a last-writer-wins specification, BitVec lemmas) + translator + differential correspondence + loopback oracle",
        "translators": ["builder"],
        "trusted": [
            "translate/builder.py: every isi_flag_* setter's body (IsiFlags::NAME it sets), the IsiFlags constants, Isi::DEFAULT_INAME, VERSION",
            "hand-modelled, tied by the correspondence run only: the other setters and Builder::isi()",
        ],
        "rule": "bld per op sequence (all 2^10 flag states from empty and full words, presence/absence grids, all sequences up to length 3/4 over a 10-op alphabet, random sequences up to 13 ops); loopback connections are oracle-only evaluations; distinct = distinct op text",
        "assumptions": ["for UDP without a local address the documented default of the UDP port is 0 (the socket is bound to an ephemeral port and LFS replies to the datagram's source)"],
    },
    "C08": {
        "level_text": "Lean theorems on the model of the UDP adaptors (receive into a full-size scratch array, serve reads from the adaptor's own buffer): for every datagram list with sizes up to 1020 and EVERY sequence of offered slice sizes, the chunks served, the buffered remainder and the datagrams still to arrive are exactly the original bytes in order (nothing dropped, duplicated or reordered); every read with a positive offer makes progress; composed with the C05 refinement: once all datagrams are served the connection's results are exactly one per frame, for any number of packets per datagram and any cumulative traffic; each write is one send of exactly the frame. Tied at adaptor level by correspondence over real loopback socket pairs with harness-chosen slice sizes, and at connection level by an oracle over real loopback sessions (every kind, several packets per datagram, sessions far beyond the 6120-byte buffer, replies observed at the peer).",
        "level_note": "Trusted: Lean kernel; the harness. The operating system's UDP stack is modelled (datagram boundaries preserved, a datagram longer than the receive array truncated) and observed over loopback only; loss and reordering on a real network are outside the model. The connection buffer's spare-capacity dynamics need no model: the theorem quantifies over every offered size.",
        "technique": "Lean 4 proof (stream-conservation invariant by induction over the reads, composed with the read-loop refinement) + differential correspondence and oracle over loopback UDP sockets",
        "trusted": [
            "hand-modelled, tied by the correspondence run only: both UdpStream adaptors (read path) and their one-send-per-write path",
            "modelled not verified: the operating system's datagram semantics; tokio's UdpSocket::poll_recv / std's UdpSocket::recv",
        ],
        "rule": "udp.adaptor lines: datagram list x offered sizes (harness-chosen, lock-step sends) for both adaptors; udp.session / udp.write are oracle-only evaluations over real Framed connections; distinct = distinct op text",
        "assumptions": ["datagrams are at most 1020 bytes (larger ones are truncated by recv, as the specification's maximum packet size implies)", "no datagram is empty"],
        "timeout": {"quick": 900, "thorough": 7200},
    },
    "C20": {
        "level_text": "Lean theorems on the model of WebsocketStream's poll_read / poll_write: for every message sequence (frames one per message, several per message, split across messages, messages of any size, text/ping/pong interleaved, empty binary messages) and every sequence of caller buffer sizes, the chunks served, the buffered remainder and the queued payloads are exactly all binary payloads in order; a non-binary message in front changes nothing about what a read serves; a served chunk is empty only when the stream is closed and nothing is left (the zero-byte read the connection reports as disconnected); each write is one binary message holding exactly the frame. The delivered byte stream then goes through the same read loop as TCP (C05). Tied at adaptor level by correspondence over a loopback tungstenite server with harness-chosen buffer sizes, and at connection level by an oracle comparing packets read over the WebSocket with the per-frame results of the same byte stream (every split of a short stream, random partitions incl. messages above 1020 bytes, undecodable frames, replies observed by the server).",
        "level_note": "Trusted: Lean kernel; the harness incl. its loopback server. tungstenite's Stream/Sink behaviour (one Message::Binary in = one out, ping/pong handled internally, flush timing: poll_write ignores a Pending flush) is run-time behaviour of the dependency: 'leaves as exactly one message' is proved for the adaptor's calls and observed at the peer.",
        "technique": "Lean 4 proof (stream-conservation invariant by functional induction over poll_read) + differential correspondence and oracle over a loopback WebSocket server",
        "trusted": [
            "hand-modelled, tied by the correspondence run only: WebsocketStream::poll_read / poll_write",
            "modelled not verified: tokio-tungstenite 0.24 (message framing, close handshake, flush), the loopback TCP stack",
        ],
        "rule": "ws.adaptor lines: message sequence x offered sizes x closed/open; ws.session / ws.write are oracle-only evaluations over real Framed connections; distinct = distinct op text",
        "assumptions": ["poll_ready of the sink is Ready when a packet is written (a busy sink makes poll_write return Pending, which write_all_buf retries)"],
        "timeout": {"quick": 900, "thorough": 7200},
    },
    "C19": {
        "level_text": "Lean small-step semantics of the tokio read future (one poll = decode from the buffer, else one transport event; a keep-alive's reply is written inside the same future while the decoded packet is held in the future's locals; drop discards the locals, the connection buffer and transport persist). Proved for every frame sequence, readiness script on both halves and drop schedule: dropping at any suspension point at which no decoded packet is in flight (everything except the pending reply write) gives exactly the uninterrupted session — same deliveries, same outgoing bytes, same remaining state (cancel_safe_partial). The full statement is kept visible next to a kernel-checked negation witness (drop during the reply write loses the keep-alive and leaves half a reply); that case is a recorded finding. Tied by polling the real future by hand under a paused clock and dropping it at scripted suspension indices: every single and pair of drop indices on short sessions, random sessions with random readiness and drop sets; model and code agree line for line including on the lossy case.",
        "level_note": "Trusted: Lean kernel; the harness (hand polling with a no-op waker, scripted transport). The proved theorem is the partial one; the missing part is exactly 'drop while the keep-alive reply write is pending', which is false on the current code. tokio's timeout wrapper and AsyncReadExt::read are modelled as: Pending leaves no state in the future.",
        "technique": "Lean 4 proof (small-step semantics with drop; induction over the schedule) with a kernel-checked negation witness for the unproved part + differential correspondence by hand-polled futures",
        "trusted": [
            "hand-modelled, tied by the correspondence run only: the tokio Framed::read future's suspension points and locals",
            "modelled not verified: tokio's AsyncReadExt::read / write_all_buf futures (cancel-safe: no bytes consumed on Pending; bytes accepted by poll_write are gone from the buffer), time::timeout",
        ],
        "rule": "cancel lines: frames x read script with Pending events x write script x set of suspension indices at which the future is dropped; result = delivered results and all outgoing bytes; distinct = distinct op text",
        "assumptions": ["suspension points are the Pending returns of the transport's poll_read / poll_write (the 90 s timeout adds none of its own before it fires)"],
    },
    "C01": {
        "level_text": "Lean theorems over a deep embedding of the binrw subset the crate uses (flat field lists with per-side pads / widths / scales, counted vectors, the hand-written field codecs): for EVERY field list whose reader and writer attributes agree and every in-domain value list, decoding the writer's bytes followed by anything returns the values and exactly the rest (induction over the fields); the same for counted vectors and whole bodies; lifted through Packet::write/read (type byte) and Codec::encode/decode in both size modes to 'encode then decode = identity, frame consumed completely' and 're-encode gives the identical bytes'. Eight of the nine hand-written field codecs (Vehicle, Track, RaceLaps, Fuel, Fuel200, ConInfo, SmallType, CimMode) are proved lawful on explicit in-domain predicates and plug into the generic proof. The 73 layouts are regenerated from the packet declarations on every run and re-checked well formed, with 73 distinct type numbers, by decide +kernel. Not covered by a theorem (correspondence + oracle only): the set-valued MAL/IPB, the until-end-of-frame texts of III/MTC/BTN/ACR, the hand-written MSO body, VER's 8-byte GameVersion text; text fields are proved at the byte level (NUL-free bytes up to the width), their Unicode meaning is C10's subject. Tied by correspondence over all 73 kinds x both modes: type-directed generated frames, every enumerant, every flag constant, boundary integers, all race-length/fuel bytes, all values of the packed ConInfo bytes: model and real codec agree on the decoded field values (via serde) and on the re-encoded bytes.",
        "level_note": "Trusted: Lean kernel; translate/packets.py (its reading of binrw's attribute subset is itself validated on every run: the generated layouts, executed by the model's generic codec, must agree with real binrw on every generated frame of every kind); the harness incl. its JSON canonicaliser and second pass (text tokens resolved through the real to_lossy_string). binrw 0.14's derive semantics are modelled, not verified.",
        "technique": "Lean 4 proof (generic codec over a deep embedding of layouts; induction over field lists; decide +kernel on the regenerated layouts) + translator + differential correspondence with a resolution pass",
        "translators": ["packets", "vehicle", "track"],
        "resolve": True,
        "trusted": [
            "translate/packets.py: the Packet enum (variant, magic, body type), every #[binrw] struct reachable from it (field order, pads per side, widths, arrays, nested structs, calc/count), repr(u8) enums, bitflags blocks, newtypes, duration and codepage-string helper attributes, bw(assert) bounds, PlcAllowedCarsSet's bit table",
            "hand-modelled, tied by the correspondence run only: the hand-written BinRead/BinWrite impls (ConInfo, SmallType, CimMode, Mso, RaceLaps, Fuel, Fuel200, Vehicle, Track), parse/write_game_version, the string writer/reader, spclose, the MAL/IPB set helpers",
            "modelled not verified: binrw 0.14 derive semantics (field order, pad = zeros on write / seek on read with no end check, count, calc, repr, magic, variant fallback), serde's view of the typed packet (used to read field values)",
        ],
        "rule": "pkt.rt per generated valid frame (decode, field values, re-encode) and pkt.dec per frame with codepage text; per kind and mode: random in-domain frames plus single-field sweeps (every enumerant / flag constant / boundary integer / custom byte); distinct = distinct op text",
        "assumptions": ["equality of packets is field-wise via the serde view: integers and enumerants by value, floats by bit pattern (non-finite floats only as 'non-finite'), text by code points, sets in insertion order", "'in-domain' = RepBody: integers in range, defined enumerants, only defined flag bits, nibbles <= 15, durations a multiple of the field resolution and in range, NUL-free text up to the width, element counts fitting the count byte"],
        "timeout": {"quick": 900, "thorough": 7200},
    },
    "C04": {
        "level_text": "Lean theorems: the packet parser over the 73 regenerated layouts (generic field codec, vectors, sets, until-end texts, the hand-written codecs, MSO) never yields the panic outcome for any byte string (structural induction over the layout), hence Codec::decode is total in both modes; for every buffer exactly one of three outcomes holds — need-more with the buffer untouched; a packet or decode error after removing exactly the announced frame, with 4 <= announced <= limit and announced <= buffer length; a framing error with the buffer untouched, only when the announced length is below 4 or above the mode's limit; the parser is handed only the announced frame, so whatever follows a complete frame neither influences the result nor is consumed, and after a decode error the buffer holds exactly the successors. Tied by correspondence over all 65536 (size, type) headers, truncations, shortened announcements, bit flips, every byte value in every enum/bool/count/custom position of every kind, CIM mode x sub-mode, random buffers; the oracle checks the three-way statement and frame locality on the real decoder under catch_unwind.",
        "level_note": "Trusted: as C01. Panics that originate inside dependencies (binrw, bytes) are outside the model and would be seen by the harness only. The totality theorem is about the model; the correspondence run (zero disagreements incl. on hostile input) is what transfers it to the code.",
        "technique": "Lean 4 proof (structural induction: no panic outcome reachable; case analysis of decode_length) + translator + differential correspondence on hostile inputs",
        "translators": ["packets", "vehicle", "track"],
        "resolve": True,
        "trusted": [
            "translate/packets.py (as C01)",
            "hand-modelled, tied by the correspondence run only: Mode::decode_length, Codec::decode (split_to, advance), the hand-written readers",
        ],
        "rule": "pkt.dec per buffer; classes: header pairs, valid frames with wild fields, truncations at every length, shortened announcements, bit flips, enum-position sweeps, random; locality cases are oracle-only; distinct = distinct op text",
        "assumptions": ["'impossible announced length' includes lengths below 4 (DESIGN.md section 8, reading of the statements)"],
        "timeout": {"quick": 900, "thorough": 7200},
    },
    "C03": {
        "level_text": "Lean theorems: whenever encode_length answers, the length is within 4..limit, the size byte announces exactly it, fits a byte, and (compressed) the length is a multiple of 4; any other length is refused (the model's panic outcome), never given a wrapped size byte; for EVERY one of the 73 regenerated layouts and EVERY value the writer accepts — in-domain or not — size byte + type byte + body is a multiple of 4 (static size table re-checked by decide +kernel on every run: fixed parts 2 mod 4, vector elements 0 mod 4 or 2 mod 4 with a 2-byte spare after odd counts, aligned variable texts, MSO), so alignment holds in uncompressed mode too, where the encoder has no guard; hence every successfully encoded frame is a ValidFrame with length % 4 = 0; element counts cannot wrap inside an accepted frame (elements are at least 4 bytes); decoding an in-domain packet's frame consumes it completely and returns the same kind and value (C01.frame_roundtrip). Tied by correspondence (every length 0..1300/5000 through the real encode_length; round trips of decoded packets incl. wild values and LFS-style padded frames) and an oracle over hand-built typed packets: element counts 0..257 for the seven counted kinds, text lengths 0..270/500 incl. multi-byte text for the eleven text builders, both modes.",
        "level_note": "Trusted: as C01. 'Never makes the encoder abort for a packet obtained by decoding' is checked by the oracle on generated decodes (no theorem: it depends on which values the decoder can produce for every kind; the recorded MSO case below is a finding).",
        "technique": "Lean 4 proof (arithmetic of encode_length; size lemmas by induction over layouts; decide +kernel on the regenerated size table) + translator + differential correspondence + typed-builder oracle",
        "translators": ["packets", "vehicle", "track"],
        "resolve": True,
        "trusted": [
            "translate/packets.py (as C01)",
            "hand-modelled, tied by the correspondence run only: Mode::encode_length (incl. its three panic sites), Codec::encode",
            "the typed-packet builders in harness/src/c03.rs use the crate's public fields and insert() APIs",
        ],
        "rule": "enc.len per length and mode; pkt.rt per decoded frame; c03.build evaluations are oracle-only (typed packets the decoder cannot produce); distinct = distinct op text",
        "assumptions": ["'refused loudly' = an error or a panic, anything but Ok with wrong bytes; for a packet obtained by decoding only an error is acceptable"],
        "timeout": {"quick": 900, "thorough": 7200},
    },
    "C11": {
        "level_text": "Lean theorems on the model of binrw_write_codepage_string / strip_trailing_nul, for every width and every byte string: a fixed-width field is exactly N bytes, namely the encoded text truncated to N followed by NUL bytes only; a variable-width field is NUL-padded to a multiple of 4 and never exceeds its maximum; the reader returns the bytes up to the first NUL, never a NUL, and write-then-read gives the text cut to the width; the regenerated layouts are re-checked (decide): every fixed text reads and writes the same width without alignment, every variable text is 4-aligned with a maximum divisible by 4. The terminator clause is proved in its partial form (the field ends in NUL whenever the encoded text is shorter than the field) next to kernel-checked negation witnesses for the full statement, which is false on the current code for MST/MSX/MSL/MTC (recorded findings). Tied by correspondence on the real writer helper for every width x text lengths 0..2N x alignment, and an oracle over every text field of every text-bearing kind (29 fields, located through the regenerated layouts) x lengths 0..2N incl. multi-byte and multi-codepage text x both modes, with NUL bytes planted inside fields for the read side.",
        "level_note": "Trusted: as C01. The encoded bytes of a text (to_lossy_bytes) are C10's subject; C11 is about what happens to those bytes inside a field. The oracle also fails if a text field appears in the source without a builder in the harness, so a new field cannot go untested silently.",
        "technique": "Lean 4 proof (list lemmas on truncate/pad/strip; decide on regenerated layouts) with kernel-checked negation witnesses + translator + differential correspondence + typed-builder oracle",
        "translators": ["packets"],
        "trusted": [
            "translate/packets.py: which field uses which width, raw flag and alignment",
            "hand-modelled, tied by the correspondence run only: binrw_write_codepage_string, strip_trailing_nul, the three text readers",
        ],
        "rule": "str.write / str.read lines on the real helper; c11.field evaluations are oracle-only (typed packets with text of every length, byte range of the field inside the real frame); distinct = distinct op text",
        "assumptions": ["multi-codepage text is encoded by to_lossy_bytes before it reaches the field (C10)"],
        "timeout": {"quick": 900, "thorough": 7200},
    },
}
