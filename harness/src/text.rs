//! Shared text helpers: the specification's codepage table (independent of the code), repertoires, law exceptions.
use encoding_rs::Encoding;
use std::sync::OnceLock;

/// LFS's marker -> Windows codepage table, as encoding_rs statics (the oracle's reference; never read from /repo)
pub const SPEC: [(char, &str); 10] = [
    ('L', "WINDOWS_1252"), ('G', "WINDOWS_1253"), ('C', "WINDOWS_1251"), ('E', "WINDOWS_1250"), ('T', "WINDOWS_1254"),
    ('B', "WINDOWS_1257"), ('J', "SHIFT_JIS"), ('H', "BIG5"), ('S', "GBK"), ('K', "EUC_KR"),
];

pub fn enc_by_ident(id: &str) -> Option<&'static Encoding> {
    Some(match id {
        "WINDOWS_1250" => encoding_rs::WINDOWS_1250, "WINDOWS_1251" => encoding_rs::WINDOWS_1251, "WINDOWS_1252" => encoding_rs::WINDOWS_1252,
        "WINDOWS_1253" => encoding_rs::WINDOWS_1253, "WINDOWS_1254" => encoding_rs::WINDOWS_1254, "WINDOWS_1255" => encoding_rs::WINDOWS_1255,
        "WINDOWS_1256" => encoding_rs::WINDOWS_1256, "WINDOWS_1257" => encoding_rs::WINDOWS_1257, "WINDOWS_1258" => encoding_rs::WINDOWS_1258,
        "WINDOWS_874" => encoding_rs::WINDOWS_874,
        "ISO_8859_2" => encoding_rs::ISO_8859_2, "ISO_8859_3" => encoding_rs::ISO_8859_3, "ISO_8859_4" => encoding_rs::ISO_8859_4,
        "ISO_8859_5" => encoding_rs::ISO_8859_5, "ISO_8859_6" => encoding_rs::ISO_8859_6, "ISO_8859_7" => encoding_rs::ISO_8859_7,
        "ISO_8859_8" => encoding_rs::ISO_8859_8, "ISO_8859_10" => encoding_rs::ISO_8859_10, "ISO_8859_13" => encoding_rs::ISO_8859_13,
        "ISO_8859_14" => encoding_rs::ISO_8859_14, "ISO_8859_15" => encoding_rs::ISO_8859_15, "ISO_8859_16" => encoding_rs::ISO_8859_16,
        "SHIFT_JIS" => encoding_rs::SHIFT_JIS, "EUC_JP" => encoding_rs::EUC_JP, "ISO_2022_JP" => encoding_rs::ISO_2022_JP,
        "GBK" => encoding_rs::GBK, "GB18030" => encoding_rs::GB18030, "BIG5" => encoding_rs::BIG5, "EUC_KR" => encoding_rs::EUC_KR,
        "KOI8_R" => encoding_rs::KOI8_R, "KOI8_U" => encoding_rs::KOI8_U, "IBM866" => encoding_rs::IBM866, "MACINTOSH" => encoding_rs::MACINTOSH,
        "UTF_8" => encoding_rs::UTF_8, "UTF_16LE" => encoding_rs::UTF_16LE, "UTF_16BE" => encoding_rs::UTF_16BE,
        _ => return None,
    })
}

pub fn spec_enc(letter: char) -> Option<&'static Encoding> {
    let l = if letter == '8' { 'L' } else { letter };
    SPEC.iter().find(|(c, _)| *c == l).and_then(|(_, id)| enc_by_ident(id))
}

/// per-character encoder: `None` = unmappable
pub fn enc_char(e: &'static Encoding, c: char) -> Option<Vec<u8>> {
    let mut buf = [0u8; 4];
    let s = c.encode_utf8(&mut buf);
    let (cow, _, err) = e.encode(s);
    if err { None } else { Some(cow.to_vec()) }
}

pub fn dec_bytes(e: &'static Encoding, b: &[u8]) -> String {
    e.decode_without_bom_handling(b).0.to_string()
}

pub struct Repertoire {
    /// per spec letter: characters (non-ASCII) the codepage can encode
    pub by_letter: Vec<(char, Vec<char>)>,
    /// non-ASCII characters encodable somewhere, flagged with law exceptions
    pub trail_5e: Vec<(char, char)>,     // (letter, char): some encoded byte is 0x5E
    pub not_inverted: Vec<(char, char)>, // (letter, char): dec(enc(c)) != c
    pub with_nul: Vec<(char, char)>,
    /// (letter, char): the first encoded byte of a non-ASCII character is a codepage letter or '8' (law `LeadLaw`)
    pub lead_marker: Vec<(char, char)>,
}

pub fn repertoire() -> &'static Repertoire {
    static R: OnceLock<Repertoire> = OnceLock::new();
    R.get_or_init(|| {
        let mut by_letter = vec![];
        let mut trail_5e = vec![];
        let mut not_inverted = vec![];
        let mut with_nul = vec![];
        let mut lead_marker = vec![];
        for (l, id) in SPEC {
            let e = enc_by_ident(id).unwrap();
            let mut v = vec![];
            for cp in 0x80u32..=0x10FFFF {
                if let Some(c) = char::from_u32(cp) {
                    if let Some(bs) = enc_char(e, c) {
                        v.push(c);
                        if bs.contains(&0x5E) { trail_5e.push((l, c)); }
                        if bs.contains(&0) { with_nul.push((l, c)); }
                        if bs.first().map(|b| b"LGCETBJHSK8".contains(b)).unwrap_or(true) { lead_marker.push((l, c)); }
                        let mut probe = bs.clone();
                        probe.push(b'A');
                        let want: String = [c, 'A'].iter().collect();
                        if dec_bytes(e, &probe) != want { not_inverted.push((l, c)); }
                    }
                }
            }
            by_letter.push((l, v));
        }
        Repertoire { by_letter, trail_5e, not_inverted, with_nul, lead_marker }
    })
}

pub fn encodable_somewhere(c: char) -> bool {
    c.is_ascii() || SPEC.iter().any(|(_, id)| enc_char(enc_by_ident(id).unwrap(), c).is_some())
}

pub fn cps(s: &str) -> String {
    if s.is_empty() { return "-".into(); }
    s.chars().map(|c| (c as u32).to_string()).collect::<Vec<_>>().join(",")
}
pub fn from_cps(t: &str) -> String {
    if t == "-" { return String::new(); }
    t.split(',').filter_map(|x| x.parse::<u32>().ok().and_then(char::from_u32)).collect()
}

/// LFS's text encoding written down from its rules, with the specification's table (never the crate's): ASCII as is; a character
/// the current codepage holds as its bytes; otherwise a caret, the letter of the first codepage in the order L G C E T B J H S K
/// that holds it, and its bytes; a character no codepage holds as `?`
pub fn spec_encode(s: &str) -> Vec<u8> {
    let mut out = vec![];
    let mut cur = 'L';
    for c in s.chars() {
        if c.is_ascii() { out.push(c as u8); continue; }
        if let Some(b) = spec_enc(cur).and_then(|e| enc_char(e, c)) { out.extend_from_slice(&b); continue; }
        match SPEC.iter().filter(|(l, _)| *l != cur).find_map(|(l, id)| enc_char(enc_by_ident(id).unwrap(), c).map(|b| (*l, b))) {
            Some((l, b)) => { out.push(b'^'); out.push(l as u8); out.extend_from_slice(&b); cur = l; },
            None => out.push(b'?'),
        }
    }
    out
}
