//! C18 — the handshake carries exactly the configured connection options.
use crate::common::*;
use crate::text::cps;
use insim::builder::Builder;
use insim::identifiers::RequestId;
use insim::insim::{Isi, IsiFlags};
use insim::net::{Codec, Mode};
use insim::Packet;
use std::io::Read;
use std::net::SocketAddr;
use std::time::Duration;

#[derive(Clone, Debug)]
pub enum Op {
    Tcp,
    Udp(Option<u16>),
    Relay,
    Mode(bool),
    Flags(u16),
    Flag(&'static str, bool),
    Pfx(Option<char>),
    Interval(Option<u64>),
    Iname(Option<String>),
    Admin(Option<String>),
    Reqi(u8),
    Other(u8),
}

pub const FLAG_NAMES: [&str; 10] = ["local", "mso_cols", "nlp", "mci", "con", "obh", "hlv", "axm_load", "axm_edit", "req_join"];
/// specification: ISF_LOCAL 4, ISF_MSO_COLS 8, ISF_NLP 16, ISF_MCI 32, ISF_CON 64, ISF_OBH 128, ISF_HLV 256, ISF_AXM_LOAD 512, ISF_AXM_EDIT 1024, ISF_REQ_JOIN 2048
pub const SPEC_BITS: [u16; 10] = [4, 8, 16, 32, 64, 128, 256, 512, 1024, 2048];

fn tok(op: &Op) -> String {
    let o = |x: &Option<String>| x.as_ref().map(|s| if s.is_empty() { "e".to_string() } else { cps(s).replace(',', ".") }).unwrap_or("-".into());
    match op {
        Op::Tcp => "tcp".into(),
        Op::Udp(p) => format!("udp:{}", p.map(|x| x.to_string()).unwrap_or("-".into())),
        Op::Relay => "relay".into(),
        Op::Mode(c) => format!("mode:{}", if *c { "c" } else { "u" }),
        Op::Flags(n) => format!("flags:{}", n),
        Op::Flag(n, b) => format!("flag:{}:{}", n, *b as u8),
        Op::Pfx(c) => format!("pfx:{}", c.map(|x| (x as u32).to_string()).unwrap_or("-".into())),
        Op::Interval(i) => format!("interval:{}", i.map(|x| x.to_string()).unwrap_or("-".into())),
        Op::Iname(s) => format!("iname:{}", o(s)),
        Op::Admin(s) => format!("admin:{}", o(s)),
        Op::Reqi(r) => format!("reqi:{}", r),
        Op::Other(k) => format!("other:{}", k),
    }
}

fn parse_tok(t: &str) -> Option<Op> {
    let p: Vec<&str> = t.split(':').collect();
    let os = |x: &str| if x == "-" { None } else if x == "e" { Some(String::new()) } else { Some(x.split('.').filter_map(|c| c.parse::<u32>().ok().and_then(char::from_u32)).collect()) };
    Some(match p.as_slice() {
        ["tcp"] => Op::Tcp,
        ["udp", x] => Op::Udp(x.parse().ok()),
        ["relay"] => Op::Relay,
        ["mode", m] => Op::Mode(*m == "c"),
        ["flags", n] => Op::Flags(n.parse().ok()?),
        ["flag", n, b] => Op::Flag(FLAG_NAMES.iter().find(|x| *x == n)?, *b == "1"),
        ["pfx", x] => Op::Pfx(x.parse::<u32>().ok().and_then(char::from_u32)),
        ["interval", x] => Op::Interval(x.parse().ok()),
        ["iname", x] => Op::Iname(os(x)),
        ["admin", x] => Op::Admin(os(x)),
        ["reqi", r] => Op::Reqi(r.parse().ok()?),
        ["other", k] => Op::Other(k.parse().ok()?),
        _ => return None,
    })
}

fn remote() -> SocketAddr { "127.0.0.1:29999".parse().unwrap() }

fn apply(b: Builder, op: &Op, remote: SocketAddr) -> Builder {
    match op {
        Op::Tcp => b.tcp(remote),
        Op::Udp(p) => b.udp(remote, p.map(|port| SocketAddr::from(([127, 0, 0, 1], port)))),
        Op::Relay => b.relay(),
        Op::Mode(c) => b.mode(if *c { Mode::Compressed } else { Mode::Uncompressed }),
        Op::Flags(n) => b.isi_flags(IsiFlags::from_bits_retain(*n)),
        Op::Flag(n, on) => match *n {
            "local" => b.isi_flag_local(*on), "mso_cols" => b.isi_flag_mso_cols(*on), "nlp" => b.isi_flag_nlp(*on), "mci" => b.isi_flag_mci(*on),
            "con" => b.isi_flag_con(*on), "obh" => b.isi_flag_obh(*on), "hlv" => b.isi_flag_hlv(*on), "axm_load" => b.isi_flag_axm_load(*on),
            "axm_edit" => b.isi_flag_axm_edit(*on), _ => b.isi_flag_req_join(*on),
        },
        Op::Pfx(c) => b.isi_prefix(*c),
        Op::Interval(i) => b.isi_interval(i.map(Duration::from_millis)),
        Op::Iname(s) => b.isi_iname(s.clone()),
        Op::Admin(s) => b.isi_admin_password(s.clone()),
        Op::Reqi(r) => b.isi_reqi(RequestId(*r)),
        Op::Other(k) => match k % 6 {
            0 => b.verify_version(false), 1 => b.tcp_nodelay(false), 2 => b.connect_timeout(Duration::from_secs(1)),
            3 => b.relay_select_host(Some("host".to_string())), 4 => b.relay_admin_password(Some("pw".to_string())), _ => b.relay_websocket(true),
        },
    }
}

fn build(ops: &[Op], remote: SocketAddr) -> Builder {
    ops.iter().fold(Builder::default(), |b, op| apply(b, op, remote))
}

fn isi_line(i: &Isi) -> String {
    format!("isi reqi={} udpport={} flags={} ver={} pfx={} interval={} admin={} iname={}", i.reqi.0, i.udpport, i.flags.bits(), i.version, i.prefix as u32, i.interval.as_millis(), cps(&i.admin), cps(&i.iname))
}

/// independent "last writer wins, documented defaults otherwise", with the specification's bit values
fn expected(ops: &[Op]) -> Isi {
    let mut proto = 0; let mut local: Option<u16> = None; let mut flags: u16 = 0;
    let mut pfx = None; let mut interval = None; let mut iname = None; let mut admin = None; let mut reqi = 0u8;
    for op in ops {
        match op {
            Op::Tcp => proto = 0, Op::Udp(p) => { proto = 1; local = *p; }, Op::Relay => proto = 2,
            Op::Flags(n) => flags = *n,
            Op::Flag(n, on) => { let bit = SPEC_BITS[FLAG_NAMES.iter().position(|x| x == n).unwrap()]; if *on { flags |= bit } else { flags &= !bit } },
            Op::Pfx(c) => pfx = *c, Op::Interval(i) => interval = *i, Op::Iname(s) => iname = s.clone(), Op::Admin(s) => admin = s.clone(), Op::Reqi(r) => reqi = *r,
            Op::Mode(_) | Op::Other(_) => {},
        }
    }
    Isi {
        reqi: RequestId(reqi), udpport: if proto == 1 { local.unwrap_or(0) } else { 0 }, flags: IsiFlags::from_bits_retain(flags), version: 9,
        prefix: pfx.unwrap_or(0 as char), interval: Duration::from_millis(interval.unwrap_or(0)), admin: admin.unwrap_or_default(), iname: iname.unwrap_or("insim.rs".into()),
    }
}

pub fn do_ops(ctx: &mut Ctx, ops: &[Op]) {
    let line = format!("bld {}", if ops.is_empty() { "-".to_string() } else { ops.iter().map(tok).collect::<Vec<_>>().join(",") });
    let ops2 = ops.to_vec();
    let r = guard(move || build(&ops2, remote()).isi());
    ctx.case(&line, &r.as_ref().map(isi_line).unwrap_or("panic".into()));
    match r {
        None => {
            let udp_nolocal = matches!(ops.iter().rev().find(|o| matches!(o, Op::Tcp | Op::Udp(_) | Op::Relay)), Some(Op::Udp(None)));
            ctx.violation(if udp_nolocal { "c18/isi/panic/udp-without-local-address" } else { "c18/isi/panic/other" }, "Builder::isi() panicked", &line, &isi_line(&expected(ops)), "panic");
        },
        Some(i) => {
            let e = expected(ops);
            if isi_line(&i) != isi_line(&e) {
                let a = isi_line(&i); let b = isi_line(&e);
                let field = a.split(' ').zip(b.split(' ')).find(|(x, y)| x != y).map(|(x, _)| x.split('=').next().unwrap_or("?").to_string()).unwrap_or("?".into());
                ctx.violation(&format!("c18/isi/field/{}", field), "the ISI does not carry exactly the configured option (last setter wins, documented default otherwise)", &line, &b, &a);
            }
            // … and so does the frame the connection writes for it (both size modes)
            for compressed in [true, false] {
                let got = encode(compressed, &i);
                let want = isi_wire(compressed, &e);
                if !got.is_empty() && got != want {
                    let at = got.iter().zip(want.iter()).position(|(x, y)| x != y).unwrap_or(got.len().min(want.len()));
                    let field = match at { 0..=3 => "header", 4..=5 => "udpport", 6..=7 => "flags", 8 => "insimver", 9 => "prefix", 10..=11 => "interval", 12..=27 => "admin", _ => "iname" };
                    ctx.violation(&format!("c18/wire/{}", field), "the handshake frame does not carry exactly the configured option", &line, &hex(&want), &hex(&got));
                }
            }
        },
    }
}

/// the IS_ISI frame written out by hand from the specification's layout (size, type 1, ReqI, zero, UDPPort, Flags, InSimVer,
/// Prefix, Interval, Admin[16] as the raw bytes of the password, IName[16]); independent of the crate's writer
fn isi_wire(compressed: bool, e: &Isi) -> Vec<u8> {
    let mut f = vec![if compressed { 11 } else { 44 }, 1, e.reqi.0, 0];
    f.extend_from_slice(&e.udpport.to_le_bytes());
    f.extend_from_slice(&e.flags.bits().to_le_bytes());
    f.push(e.version);
    f.push(e.prefix as u32 as u8);
    f.extend_from_slice(&(e.interval.as_millis() as u16).to_le_bytes());
    let mut admin = e.admin.as_bytes().to_vec(); admin.truncate(16); admin.resize(16, 0);
    f.extend_from_slice(&admin);
    let mut iname = insim_core::string::codepages::to_lossy_bytes(&e.iname).to_vec(); iname.truncate(16); iname.resize(16, 0);
    f.extend_from_slice(&iname);
    f
}

fn encode(compressed: bool, i: &Isi) -> Vec<u8> {
    Codec::new(if compressed { Mode::Compressed } else { Mode::Uncompressed }).encode(&Packet::Isi(i.clone())).map(|b| b.to_vec()).unwrap_or_default()
}

/// connect over loopback and compare what the peer receives with the encoded expected ISI
pub fn do_connect(ctx: &mut Ctx, ops: &[Op], asynchronous: bool) {
    let last_proto = ops.iter().rev().find(|o| matches!(o, Op::Tcp | Op::Udp(_) | Op::Relay)).cloned().unwrap_or(Op::Tcp);
    let compressed = ops.iter().rev().find_map(|o| if let Op::Mode(c) = o { Some(*c) } else { None }).unwrap_or(true);
    let line = format!("connect {} {}", if asynchronous { "tokio" } else { "blocking" }, ops.iter().map(tok).collect::<Vec<_>>().join(","));
    ctx.oracle_eval(if asynchronous { "connect-tokio" } else { "connect-blocking" });
    let want = encode(compressed, &expected(ops));
    let got: Result<Vec<u8>, String> = match last_proto {
        Op::Tcp => {
            let listener = std::net::TcpListener::bind("127.0.0.1:0").unwrap();
            let addr = listener.local_addr().unwrap();
            let ops2 = ops.to_vec();
            let h = std::thread::spawn(move || {
                let (mut s, _) = listener.accept().unwrap();
                s.set_read_timeout(Some(Duration::from_millis(300))).unwrap();
                let mut all = vec![];
                let mut buf = [0u8; 4096];
                loop { match s.read(&mut buf) { Ok(0) => break, Ok(n) => all.extend_from_slice(&buf[..n]), Err(_) => break } }
                all
            });
            let r = guard(std::panic::AssertUnwindSafe(move || {
                let b = build(&ops2, addr);
                if asynchronous {
                    let rt = tokio::runtime::Builder::new_current_thread().enable_all().build().unwrap();
                    rt.block_on(async { b.connect_async().await.map(|f| { std::mem::forget(f); }).map_err(|e| e.to_string()) })
                } else {
                    b.connect_blocking().map(|f| { std::thread::sleep(Duration::from_millis(350)); drop(f); }).map_err(|e| e.to_string())
                }
            }));
            let bytes = h.join().unwrap();
            match r { None => Err("panic".into()), Some(Err(e)) => Err(e), Some(Ok(())) => Ok(bytes) }
        },
        Op::Udp(_) => {
            let server = std::net::UdpSocket::bind("127.0.0.1:0").unwrap();
            server.set_read_timeout(Some(Duration::from_millis(300))).unwrap();
            let addr = server.local_addr().unwrap();
            // a free local port for the configurations that ask for one
            let ops2: Vec<Op> = ops.iter().map(|o| if let Op::Udp(Some(_)) = o { let p = std::net::UdpSocket::bind("127.0.0.1:0").unwrap().local_addr().unwrap().port(); Op::Udp(Some(p)) } else { o.clone() }).collect();
            let want2 = encode(compressed, &expected(&ops2));
            let ops3 = ops2.clone();
            let r = guard(std::panic::AssertUnwindSafe(move || {
                let b = build(&ops3, addr);
                if asynchronous {
                    let rt = tokio::runtime::Builder::new_current_thread().enable_all().build().unwrap();
                    rt.block_on(async { b.connect_async().await.map(|f| { std::mem::forget(f); }).map_err(|e| e.to_string()) })
                } else {
                    b.connect_blocking().map(|f| { std::mem::forget(f); }).map_err(|e| e.to_string())
                }
            }));
            let mut datagrams = vec![];
            let mut buf = [0u8; 2048];
            while let Ok(n) = server.recv(&mut buf) { datagrams.push(buf[..n].to_vec()); }
            match r {
                None => Err("panic".into()),
                Some(Err(e)) => Err(e),
                Some(Ok(())) => {
                    if datagrams.len() == 1 && datagrams[0] == want2 { Ok(want.clone()) } else { Ok(datagrams.concat().into_iter().chain(std::iter::once(datagrams.len() as u8)).collect()) }
                },
            }
        },
        _ => return,
    };
    match got {
        Ok(b) if b == want => {},
        Ok(b) => ctx.violation(&format!("c18/connect/{}/frames", if asynchronous { "tokio" } else { "blocking" }), "connecting did not send exactly the configured ISI as the first and only frame", &line, &hex(&want), &hex(&b)),
        Err(e) => {
            let udp_nolocal = matches!(last_proto, Op::Udp(None));
            ctx.violation(&format!("c18/connect/{}/{}", if asynchronous { "tokio" } else { "blocking" }, if e == "panic" && udp_nolocal { "panic-udp-without-local-address" } else { "failed" }), "connecting failed or panicked", &line, &hex(&want), &e);
        },
    }
}

/// the handshake over a transport that accepts only a few bytes per write call (or is not ready at first): the whole IS_ISI
/// still reaches the transport, and nothing else
pub fn do_handshake_wire(ctx: &mut Ctx, ops: &[Op], asynchronous: bool, accept: usize) {
    use crate::transport::{Script, Transport, WEv};
    let compressed = ops.iter().rev().find_map(|o| if let Op::Mode(c) = o { Some(*c) } else { None }).unwrap_or(true);
    let line = format!("hs.wire {} {} {}", if asynchronous { "tokio" } else { "blocking" }, accept, if ops.is_empty() { "-".to_string() } else { ops.iter().map(tok).collect::<Vec<_>>().join(",") });
    ctx.oracle_eval("handshake-wire");
    let ops2 = ops.to_vec();
    let isi = match guard(move || build(&ops2, remote()).isi()) { Some(i) => i, None => return };
    let want = isi_wire(compressed, &expected(ops));
    // accept == 0: not ready twice, then everything; otherwise `accept` bytes per call
    let ws: Vec<WEv> = if accept == 0 { vec![WEv::Pending, WEv::Pending] } else { vec![WEv::Accept(accept); 64] };
    let script = Script::new(vec![], ws);
    let tr = Transport(script.clone());
    let codec = Codec::new(if compressed { Mode::Compressed } else { Mode::Uncompressed });
    let ok = guard(std::panic::AssertUnwindSafe(move || {
        if asynchronous {
            let rt = tokio::runtime::Builder::new_current_thread().enable_time().build().unwrap();
            rt.block_on(async { let mut f = insim::net::tokio_impl::Framed::new(Box::new(tr), codec); f.handshake(isi, Duration::from_secs(5)).await.is_ok() })
        } else {
            let mut f = insim::net::blocking_impl::Framed::new(Box::new(tr), codec);
            f.handshake(isi).is_ok()
        }
    }));
    let out = script.lock().unwrap().out.clone();
    if ok != Some(true) || out != want {
        ctx.violation(&format!("c18/handshake-wire/{}", if asynchronous { "tokio" } else { "blocking" }), "over a transport that takes a few bytes per write call the handshake did not put exactly the configured IS_ISI on the wire", &line, &hex(&want), &format!("{:?} {}", ok, hex(&out)));
    }
}

fn random_op(rng: &mut Rng) -> Op {
    let names = ["", "a", "insim.rs", "0123456789abcdef", "exactly16chars!!", "héllo wörld", "0123456789abcdefg", "пароль", "pw \u{11b}"];
    match rng.below(14) {
        0 => Op::Tcp,
        1 => Op::Udp(if rng.chance(1, 2) { None } else { Some(1024 + rng.below(60000) as u16) }),
        2 => Op::Relay,
        3 => Op::Mode(rng.chance(1, 2)),
        4 => Op::Flags(rng.below(65536) as u16),
        5 | 6 | 7 => Op::Flag(FLAG_NAMES[rng.below(10) as usize], rng.chance(1, 2)),
        8 => Op::Pfx(if rng.chance(1, 3) { None } else { Some(*rng.pick(&['!', '$', 'A', '\u{0}', '~', 'é'])) }),
        9 => Op::Interval(if rng.chance(1, 3) { None } else { Some(*rng.pick(&[0u64, 1, 50, 1000, 65535, 65536, 100000])) }),
        10 => Op::Iname(if rng.chance(1, 3) { None } else { Some(rng.pick(&names).to_string()) }),
        11 => Op::Admin(if rng.chance(1, 3) { None } else { Some(rng.pick(&names).to_string()) }),
        12 => Op::Reqi(rng.byte()),
        _ => Op::Other(rng.byte()),
    }
}

pub fn run(ctx: &mut Ctx) {
    if let Some(lines) = ctx.replay.clone() {
        for l in lines {
            let w: Vec<&str> = l.split_whitespace().collect();
            match w.as_slice() {
                ["bld", "-"] => do_ops(ctx, &[]),
                ["bld", ops] => { let v: Vec<Op> = ops.split(',').filter_map(parse_tok).collect(); do_ops(ctx, &v) },
                ["hs.wire", fl, a, ops] => { let v: Vec<Op> = if *ops == "-" { vec![] } else { ops.split(',').filter_map(parse_tok).collect() }; do_handshake_wire(ctx, &v, *fl == "tokio", a.parse().unwrap_or(1)) },
                ["connect", fl, ops] => { let v: Vec<Op> = ops.split(',').filter_map(parse_tok).collect(); do_connect(ctx, &v, *fl == "tokio") },
                _ => {},
            }
        }
        return;
    }
    do_ops(ctx, &[]);
    // all 2^10 flag states reached by the helpers, from empty and from full
    for start in [0u16, 0xffff] {
        for mask in 0..1024u32 {
            let mut ops = vec![Op::Flags(start)];
            for (i, n) in FLAG_NAMES.iter().enumerate() {
                ops.push(Op::Flag(n, (mask >> i) & 1 == 1));
            }
            do_ops(ctx, &ops);
        }
    }
    ctx.exhaustive_domains.push("all 2^10 on/off combinations of the ten flag helpers, from an empty and from a full flag word".into());
    // presence / absence of each option x protocol x local address
    for proto in [Op::Tcp, Op::Udp(None), Op::Udp(Some(29998)), Op::Relay] {
        for m in 0..64u32 {
            let mut ops = vec![proto.clone()];
            if m & 1 != 0 { ops.push(Op::Pfx(Some('!'))); }
            if m & 2 != 0 { ops.push(Op::Interval(Some(500))); }
            if m & 4 != 0 { ops.push(Op::Iname(Some("verif".into()))); }
            if m & 8 != 0 { ops.push(Op::Admin(Some("secret".into()))); }
            if m & 16 != 0 { ops.push(Op::Reqi(7)); }
            if m & 32 != 0 { ops.push(Op::Mode(false)); }
            do_ops(ctx, &ops);
            // the same options set and then unset again
            let mut ops2 = ops.clone();
            ops2.extend([Op::Pfx(None), Op::Interval(None), Op::Iname(None), Op::Admin(None)]);
            do_ops(ctx, &ops2);
        }
    }
    ctx.exhaustive_domains.push("presence/absence of prefix, interval, name, password, request id, mode x {tcp, udp without / with local address, relay}".into());
    // all short sequences over a small op alphabet (order matters: later calls override earlier ones)
    let small = [Op::Tcp, Op::Udp(None), Op::Udp(Some(4000)), Op::Flags(0x0ff0), Op::Flag("obh", true), Op::Flag("obh", false), Op::Flag("hlv", true), Op::Pfx(Some('$')), Op::Pfx(None), Op::Other(0)];
    let maxlen = if ctx.quick() { 3 } else { 4 };
    for len in 1..=maxlen {
        let n = (small.len() as u64).pow(len);
        for idx in 0..n {
            let mut x = idx;
            let mut ops = vec![];
            for _ in 0..len { ops.push(small[(x % small.len() as u64) as usize].clone()); x /= small.len() as u64; }
            do_ops(ctx, &ops);
        }
    }
    ctx.exhaustive_domains.push(format!("all op sequences of length 1..{} over a 10-op alphabet", maxlen));
    for _ in 0..(if ctx.quick() { 3000 } else { 200_000 }) {
        let k = ctx.rng.below(14) as usize;
        let ops: Vec<Op> = (0..k).map(|_| random_op(&mut ctx.rng)).collect();
        do_ops(ctx, &ops);
    }
    // the handshake's bytes on a transport that takes them in pieces
    for asynchronous in [false, true] {
        for accept in [0usize, 1, 3, 7, 16, 43, 44] {
            for ops in [vec![], vec![Op::Mode(false)], vec![Op::Flag("mci", true), Op::Pfx(Some('!')), Op::Interval(Some(250)), Op::Iname(Some("verif".into())), Op::Admin(Some("pw".into())), Op::Reqi(9), Op::Mode(false)]] {
                do_handshake_wire(ctx, &ops, asynchronous, accept);
            }
        }
    }
    ctx.exhaustive_domains.push("handshake over a scripted transport accepting 1, 3, 7, 16, 43, 44 bytes per call or not ready at first x 3 configurations x both flavours".into());
    // connecting over loopback: tcp / udp with and without local address, both modes, both flavours
    let mut n = 0;
    for asynchronous in [false, true] {
        for proto in [Op::Tcp, Op::Udp(None), Op::Udp(Some(1))] {
            for compressed in [true, false] {
                let sets: Vec<Vec<Op>> = vec![
                    vec![],
                    vec![Op::Flag("mci", true), Op::Flag("con", true), Op::Pfx(Some('!')), Op::Interval(Some(250)), Op::Iname(Some("verif".into())), Op::Admin(Some("pw".into())), Op::Reqi(9)],
                    (0..6).map(|_| random_op(&mut ctx.rng)).filter(|o| !matches!(o, Op::Tcp | Op::Udp(_) | Op::Relay | Op::Mode(_) | Op::Interval(Some(_)))).collect(),
                ];
                for extra in sets {
                    let mut ops = extra.clone();
                    ops.push(proto.clone());
                    ops.push(Op::Mode(compressed));
                    do_connect(ctx, &ops, asynchronous);
                    n += 1;
                }
            }
        }
    }
    // the size mode is whatever the last mode setter said (compressed when none was called) — wherever that call stands
    // relative to the protocol choice, and whatever other protocol was chosen first
    let mut n2 = 0;
    for asynchronous in [false, true] {
        let mut seqs: Vec<Vec<Op>> = vec![
            vec![Op::Relay, Op::Tcp], vec![Op::Relay, Op::Udp(Some(1))], vec![Op::Mode(true), Op::Relay, Op::Tcp], vec![Op::Mode(false), Op::Relay, Op::Tcp],
            vec![Op::Mode(false), Op::Tcp], vec![Op::Mode(false), Op::Udp(Some(1))], vec![Op::Udp(Some(1)), Op::Tcp], vec![Op::Tcp, Op::Udp(Some(1))],
            vec![Op::Mode(false), Op::Mode(true), Op::Tcp], vec![Op::Tcp, Op::Relay, Op::Mode(false), Op::Tcp],
        ];
        for k in 0..6u8 { seqs.push(vec![Op::Other(k), Op::Tcp]); seqs.push(vec![Op::Mode(false), Op::Other(k), Op::Tcp]); }
        for ops in seqs { do_connect(ctx, &ops, asynchronous); n2 += 1; }
    }
    ctx.exhaustive_domains.push(format!("{} loopback connections: {{blocking, tokio}} x {{tcp, udp without / with local address}} x both modes x 3 option sets; {} more where the mode setter is absent or precedes the protocol choice, another protocol was chosen first, or one of the six other setters was called", n, n2));
}
