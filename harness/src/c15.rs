//! C15 — time and race-length conversions.
use crate::common::*;
use insim::insim::{RaceLaps, SmallType};
use insim_core::binrw::{BinRead, BinWrite, Endian};
use insim_core::duration::{binrw_parse_duration, binrw_write_duration};
use std::io::Cursor;
use std::time::Duration;

fn rd(w: u32, scale: u32, x: u64) -> Option<Result<u128, ()>> {
    guard(move || {
        let bytes = x.to_le_bytes();
        let mut c = Cursor::new(&bytes[..w as usize]);
        let r = match (w, scale) {
            (2, 1) => binrw_parse_duration::<u16, 1, _>(&mut c, Endian::Little, ()),
            (2, 10) => binrw_parse_duration::<u16, 10, _>(&mut c, Endian::Little, ()),
            (4, 1) => binrw_parse_duration::<u32, 1, _>(&mut c, Endian::Little, ()),
            (4, 10) => binrw_parse_duration::<u32, 10, _>(&mut c, Endian::Little, ()),
            _ => unreachable!(),
        };
        r.map(|d| d.as_millis()).map_err(|_| ())
    })
}

fn wr(w: u32, scale: u32, ms: u128) -> Option<Result<u64, ()>> {
    guard(move || {
        // any duration a `Duration` can hold (up to u64::MAX seconds, far beyond 2^64 ms)
        let d = Duration::new((ms / 1000) as u64, ((ms % 1000) as u32) * 1_000_000);
        let mut c = Cursor::new(Vec::new());
        let r = match (w, scale) {
            (2, 1) => binrw_write_duration::<u16, 1, _>(&d, &mut c, Endian::Little, ()),
            (2, 10) => binrw_write_duration::<u16, 10, _>(&d, &mut c, Endian::Little, ()),
            (4, 1) => binrw_write_duration::<u32, 1, _>(&d, &mut c, Endian::Little, ()),
            (4, 10) => binrw_write_duration::<u32, 10, _>(&d, &mut c, Endian::Little, ()),
            _ => unreachable!(),
        };
        r.map(|_| {
            let v = c.into_inner();
            let mut b = [0u8; 8];
            b[..v.len()].copy_from_slice(&v);
            u64::from_le_bytes(b)
        })
        .map_err(|_| ())
    })
}

fn res<T: std::fmt::Display>(r: Option<Result<T, ()>>) -> String {
    match r {
        None => "panic".into(),
        Some(Err(())) => "err encode".into(),
        Some(Ok(v)) => format!("ok {}", v),
    }
}

fn laps_token(r: &RaceLaps) -> String {
    match r {
        RaceLaps::Practice => "practice".into(),
        RaceLaps::Laps(n) => format!("laps {}", n),
        RaceLaps::Hours(n) => format!("hours {}", n),
        #[allow(unreachable_patterns)]
        _ => "other".into(),
    }
}

fn laps_rd(b: u8) -> Option<RaceLaps> {
    guard(move || RaceLaps::read_le(&mut Cursor::new([b])).unwrap())
}
fn laps_wr(r: RaceLaps) -> Option<u8> {
    guard(move || {
        let mut c = Cursor::new(Vec::new());
        r.write_le(&mut c).unwrap();
        c.into_inner()[0]
    })
}

fn small_rd(d: u8, u: u32) -> Option<Result<SmallType, ()>> {
    guard(move || {
        let mut v = vec![d];
        v.extend_from_slice(&u.to_le_bytes());
        SmallType::read_le(&mut Cursor::new(v)).map_err(|_| ())
    })
}
fn small_wr(s: SmallType) -> Option<Result<(u8, u32), ()>> {
    guard(move || {
        let mut c = Cursor::new(Vec::new());
        s.write_le(&mut c).map_err(|_| ())?;
        let v = c.into_inner();
        Ok((v[0], u32::from_le_bytes([v[1], v[2], v[3], v[4]])))
    })
}
fn small_time(d: u8, ms: u64) -> SmallType {
    let t = Duration::from_millis(ms);
    match d {
        1 => SmallType::Ssp(t),
        2 => SmallType::Ssg(t),
        5 => SmallType::Stp(t),
        6 => SmallType::Rtp(t),
        _ => SmallType::Nli(t),
    }
}
fn small_ms(s: &SmallType) -> Option<u128> {
    match s {
        SmallType::Ssp(t) | SmallType::Ssg(t) | SmallType::Stp(t) | SmallType::Rtp(t) | SmallType::Nli(t) => Some(t.as_millis()),
        _ => None,
    }
}

const COMBOS: [(u32, u32); 4] = [(2, 1), (2, 10), (4, 1), (4, 10)];

fn do_rd(ctx: &mut Ctx, w: u32, s: u32, x: u64, model_line: bool) {
    let r = rd(w, s, x);
    if model_line {
        ctx.case(&format!("dur.rd {} {} {}", w, s, x), &res(r.clone()));
    } else {
        ctx.oracle_eval("dur.roundtrip");
    }
    // oracle: every wire value re-encodes to itself
    let input = format!("dur.rd {} {} {}", w, s, x);
    match r {
        Some(Ok(ms)) => {
            if ms != (x as u128) * (s as u128) {
                ctx.violation(&format!("c15/dur/read/w{}s{}", w, s), "wire value decodes to the wrong duration", &input, &format!("{}", x as u128 * s as u128), &format!("{}", ms));
            }
            let back = wr(w, s, ms as u64 as u128);
            if back != Some(Ok(x)) {
                ctx.violation(&format!("c15/dur/reencode/w{}s{}", w, s), "decoded time does not re-encode to the same wire value", &input, &format!("{}", x), &format!("{:?}", back));
            }
        },
        other => ctx.violation(&format!("c15/dur/read-fails/w{}s{}", w, s), "a wire value failed to decode", &input, "ok", &format!("{:?}", other)),
    }
}

fn do_wr(ctx: &mut Ctx, w: u32, s: u32, ms: u64) { do_wr128(ctx, w, s, ms as u128) }

fn do_wr128(ctx: &mut Ctx, w: u32, s: u32, ms: u128) {
    let r = wr(w, s, ms);
    let input = format!("dur.wr {} {} {}", w, s, ms);
    ctx.case(&input, &res(r.clone()));
    let q = ms / s as u128;
    let fits = q < (1u128 << (8 * w));
    match r {
        Some(Ok(x)) if fits && x as u128 == q => {},
        Some(Err(())) if !fits => {},
        other => ctx.violation(&format!("c15/dur/write/w{}s{}", w, s), "duration not rounded down exactly / not refused when out of range", &input, &(if fits { format!("ok {}", q) } else { "err".into() }), &format!("{:?}", other)),
    }
}

fn do_laps_rd(ctx: &mut Ctx, b: u8) {
    let input = format!("laps.rd {}", b);
    let r = laps_rd(b);
    let tok = r.as_ref().map(laps_token).unwrap_or("panic".into());
    ctx.case(&input, &tok);
    match r {
        Some(v) => {
            let back = laps_wr(v);
            if b <= 238 {
                if back != Some(b) {
                    ctx.violation("c15/laps/reencode", "race-length byte does not re-encode to itself", &input, &b.to_string(), &format!("{:?}", back));
                }
            } else if tok != "practice" {
                ctx.violation("c15/laps/unspecified", "byte 239..255 is not mapped to practice", &input, "practice", &tok);
            }
        },
        None => ctx.violation("c15/laps/panic", "race-length read panicked", &input, "value", "panic"),
    }
}

fn do_laps_wr(ctx: &mut Ctx, r: RaceLaps) {
    let input = format!("laps.wr {}", laps_token(&r));
    let b = laps_wr(r);
    ctx.case(&input, &b.map(|b| b.to_string()).unwrap_or("panic".into()));
    let (in_range, rounded) = match r {
        RaceLaps::Practice => (true, "practice".to_string()),
        RaceLaps::Laps(n) => (n >= 1 && n <= 1000, format!("laps {}", if n >= 100 { n / 10 * 10 } else { n })),
        RaceLaps::Hours(n) => (n >= 1 && n <= 48, format!("hours {}", n)),
        #[allow(unreachable_patterns)]
        _ => (true, "other".into()),
    };
    let kind = match r { RaceLaps::Laps(_) => "laps", RaceLaps::Hours(_) => "hours", _ => "practice" };
    match b {
        None => ctx.violation(&format!("c15/laps/write-panic/{}", kind), "race-length write panicked", &input, "byte", "panic"),
        Some(b) => {
            if in_range {
                let back = laps_rd(b).map(|v| laps_token(&v)).unwrap_or("panic".into());
                if back != rounded {
                    ctx.violation(&format!("c15/laps/write-wrong/{}", kind), "in-range race length encodes to a byte that decodes to a different value", &input, &rounded, &back);
                }
            } else if b != 0 {
                let back = laps_rd(b).map(|v| laps_token(&v)).unwrap_or("panic".into());
                ctx.violation(&format!("c15/laps/out-of-range/{}", kind), "out-of-range race length silently becomes a different valid value instead of practice", &input, "0 (practice)", &format!("{} = {}", b, back));
            }
        },
    }
}

fn do_small_rd(ctx: &mut Ctx, d: u8, u: u32) {
    let input = format!("small.rd {} {}", d, u);
    let r = small_rd(d, u);
    let scale: u128 = if d == 7 { 1 } else { 10 };
    let tok = match &r {
        None => "panic".into(),
        Some(Err(())) => "err decode".into(),
        Some(Ok(s)) => match small_ms(s) { Some(ms) => format!("ok ms {}", ms), None => "ok other".into() },
    };
    ctx.case(&input, &tok);
    if let Some(Ok(s)) = r {
        if small_ms(&s) != Some(u as u128 * scale) {
            ctx.violation(&format!("c15/small/read/d{}", d), "Small time sub-type decodes to the wrong duration", &input, &format!("{}", u as u128 * scale), &tok);
        }
        let back = small_wr(s);
        if back != Some(Ok((d, u))) {
            ctx.violation(&format!("c15/small/reencode/d{}", d), "Small time value does not re-encode to the same wire value (narrowed before scaling)", &input, &format!("({}, {})", d, u), &format!("{:?}", back));
        }
    } else {
        ctx.violation(&format!("c15/small/read-fails/d{}", d), "Small time sub-type failed to decode", &input, "ok", &tok);
    }
}

fn do_small_wr(ctx: &mut Ctx, d: u8, ms: u64) {
    let input = format!("small.wr {} {}", d, ms);
    let r = small_wr(small_time(d, ms));
    let tok = match &r {
        None => "panic".into(),
        Some(Err(())) => "err encode".into(),
        Some(Ok((dd, u))) => format!("ok {} {}", dd, u),
    };
    ctx.case(&input, &tok);
    let scale: u64 = if d == 7 { 1 } else { 10 };
    let q = ms / scale;
    let fits = q <= u32::MAX as u64;
    match r {
        Some(Ok((dd, u))) if fits && dd == d && u as u64 == q => {},
        Some(Err(())) if !fits => {},
        other => ctx.violation(&format!("c15/small/write/d{}", d), "Small time value out of range is neither refused nor exact", &input, &(if fits { format!("ok {} {}", d, q) } else { "err".into() }), &format!("{:?}", other)),
    }
}

/// every scaled time field of a frame, at its place in its packet: decoding the frame and encoding the result leaves the
/// field's wire bytes as they were (the helper functions are covered above; this covers how each *field* is wired to them)
pub fn dur_fields_case(ctx: &mut Ctx, ls: &crate::pkt::Layouts, compressed: bool, frame: &[u8]) {
    use crate::pkt::*;
    let l = match ls.kinds.iter().find(|l| l["type_no"].as_u64() == frame.get(1).map(|b| *b as u64)) { Some(l) => l.clone(), None => return };
    let kind = l["kind"].as_str().unwrap_or("?").to_string();
    let op = format!("pkt.rt {}", frame_text(compressed, frame));
    ctx.oracle_eval("time-field");
    let p = match real_decode(compressed, frame) { Dec::Pkt(p, _) => p, Dec::Panic => { ctx.violation(&format!("c15/field/{}/decode-abort", kind), "decoding a frame with an in-range time field aborted", &op, "a packet", "panic"); return; }, _ => return };
    let e = match real_encode(compressed, &p) { Some(Ok(b)) => b, _ => return };
    let mut off = 2usize;
    for f in l["fields"].as_array().cloned().unwrap_or_default() {
        off += f["rb"].as_u64().unwrap_or(0) as usize;
        let w = ty_size(&f["ty"]);
        if f["ty"]["k"] == "dur" && off + w <= frame.len() && off + w <= e.len() && frame[off..off + w] != e[off..off + w] {
            ctx.violation(&format!("c15/field/{}.{}/reencode", kind, f["path"].as_str().unwrap_or("?")), "a time field's wire value does not survive decoding and re-encoding", &op, &hex(&frame[off..off + w]), &hex(&e[off..off + w]));
        }
        off += w + f["ra"].as_u64().unwrap_or(0) as usize;
    }
}

/// the one duration a user hands to the library through the connection builder (the interval between MCI/NLP updates,
/// a 16-bit millisecond field): in range it reaches the wire as given; out of range it is refused (the ISI cannot be
/// encoded) — never a different interval, never "0 = no updates"
pub fn builder_interval_case(ctx: &mut Ctx, ms: u64) {
    let op = format!("bld.interval {}", ms);
    ctx.oracle_eval("builder-interval");
    let r = guard(move || {
        let isi = insim::Builder::default().isi_interval(std::time::Duration::from_millis(ms)).isi();
        let held = isi.interval.as_millis();
        let enc = insim::net::Codec::new(insim::net::Mode::Compressed).encode(&insim::Packet::Isi(isi)).ok().map(|b| b.to_vec());
        (held, enc)
    });
    match r {
        None => ctx.violation("c15/builder-interval/panic", "configuring an interval panicked", &op, "an ISI or an error", "panic"),
        Some((held, enc)) => {
            let in_range = ms <= 65535;
            let wire = enc.as_ref().map(|f| u16::from_le_bytes([f[10], f[11]]) as u64);
            match (in_range, wire) {
                (true, Some(w)) if w == ms => {},
                (false, None) => {},
                _ => ctx.violation(&format!("c15/builder-interval/{}", if in_range { "in-range" } else { "out-of-range" }), "an interval configured through the builder reaches the wire as a different value (or a valid one is refused)", &op, &if in_range { format!("wire {}", ms) } else { "refused".to_string() }, &format!("ISI holds {} ms, wire {:?}", held, wire)),
            }
        },
    }
}

pub fn run(ctx: &mut Ctx) {
    if let Some(lines) = ctx.replay.clone() {
        let ls = crate::pkt::load_layouts();
        for l in lines {
            let w: Vec<&str> = l.split_whitespace().collect();
            match w.as_slice() {
                ["bld.interval", ms] => builder_interval_case(ctx, ms.parse().unwrap_or(0)),
                ["pkt.rt", m, h] => dur_fields_case(ctx, &ls, *m == "c", &unhex(h)),
                ["dur.rd", a, b, c] => do_rd(ctx, a.parse().unwrap(), b.parse().unwrap(), c.parse().unwrap(), true),
                ["dur.wr", a, b, c] => do_wr128(ctx, a.parse().unwrap(), b.parse().unwrap(), c.parse().unwrap()),
                ["laps.rd", b] => do_laps_rd(ctx, b.parse().unwrap()),
                ["laps.wr", "practice"] => do_laps_wr(ctx, RaceLaps::Practice),
                ["laps.wr", "laps", n] => do_laps_wr(ctx, RaceLaps::Laps(n.parse().unwrap())),
                ["laps.wr", "hours", n] => do_laps_wr(ctx, RaceLaps::Hours(n.parse().unwrap())),
                ["small.rd", d, u] => do_small_rd(ctx, d.parse().unwrap(), u.parse().unwrap()),
                ["small.wr", d, ms] => do_small_wr(ctx, d.parse().unwrap(), ms.parse().unwrap()),
                _ => {},
            }
        }
        return;
    }
    // every time field of every packet kind, in place: boundary wire values (all 65536 for the 16-bit fields in thorough)
    {
        use crate::pkt::*;
        let ls = load_layouts();
        let mut nf = 0u64;
        for compressed in [true, false] {
            for l in ls.kinds.clone().iter() {
                let fields = l["fields"].as_array().cloned().unwrap_or_default();
                if !fields.iter().any(|f| f["ty"]["k"] == "dur") { continue; }
                let base = gen_frame(&mut Rng::new(11), l, compressed, &GenOpts { wild: 0, text: 0, count: Some(1) });
                let mut off = 2usize;
                for f in &fields {
                    off += f["rb"].as_u64().unwrap_or(0) as usize;
                    let w = ty_size(&f["ty"]);
                    if f["ty"]["k"] == "dur" {
                        nf += 1;
                        let mut vals: Vec<u64> = vec![0, 1, 2, 9, 10, 11, 99, 100, 255, 256, 1000, 6553, 6554, 32767, 32768, 65534, 65535];
                        if w == 4 { vals.extend_from_slice(&[65536, 0x19999999, 0x1999999a, 0x7fffffff, 0x80000000, 0xfffffffe, 0xffffffff]); }
                        if w == 2 && !ctx.quick() { vals = (0..=65535u64).collect(); }
                        for v in vals {
                            if off + w > base.len() { break; }
                            let mut fr = base.clone();
                            fr[off..off + w].copy_from_slice(&v.to_le_bytes()[..w]);
                            dur_fields_case(ctx, &ls, compressed, &fr);
                        }
                    }
                    off += w + f["ra"].as_u64().unwrap_or(0) as usize;
                }
            }
        }
        *ctx.distribution.entry("time fields swept in place (both modes)".into()).or_insert(0) = nf;
        ctx.exhaustive_domains.push("every scaled time field of every packet kind in place x boundary wire values x both size modes".into());
    }
    // … and laid out by the specification rather than by the crate's own declarations
    crate::c02::time_fields_for_c15(ctx);
    for ms in [0u64, 1, 10, 999, 65534, 65535, 65536, 65537, 70000, 131071, 131072, 655350, 1 << 32, u64::MAX / 1000] { builder_interval_case(ctx, ms); }
    // all 65536 values of 16-bit time fields
    for &(w, s) in &COMBOS[..2] {
        for x in 0..=0xffffu64 {
            do_rd(ctx, w, s, x, x % 17 == 0 || x < 300 || x > 0xff00);
        }
    }
    ctx.exhaustive_domains.push("all 65536 wire values of the 16-bit time fields (scale 1 and 10): decode, re-encode".into());
    // boundary-biased 32-bit values
    let mut b32: Vec<u64> = vec![0, 1, 9, 10, 11, 99, 100, 255, 256, 65535, 65536, 0x19999998, 0x19999999, 0x1999999a, 0x7fffffff, 0x80000000, 0xfffffffe, 0xffffffff];
    let nr = if ctx.quick() { 4000 } else { 400_000 };
    for _ in 0..nr {
        let v = ctx.rng.next();
        b32.push(match v % 4 { 0 => (v >> 32) & 0xffffffff, 1 => (v >> 40) & 0xffffff, 2 => 0xffffffff - ((v >> 50) & 0x3fff), _ => (v >> 48) & 0xffff });
    }
    for &(w, s) in &COMBOS[2..] {
        for &x in &b32 {
            do_rd(ctx, w, s, x, true);
        }
    }
    // encode side: durations up to and beyond each field's range
    for &(w, s) in &COMBOS {
        let max = ((1u128 << (8 * w)) - 1) as u64;
        let edge = max * s as u64;
        let mut ms: Vec<u64> = vec![0, 1, 5, 9, 10, 11, 15, 19, 20, 999, 1000, 1001];
        for d in 0..40u64 {
            ms.push(edge.saturating_sub(20) + d);
        }
        ms.extend_from_slice(&[edge * 2, edge * 10 + 7, u32::MAX as u64, u32::MAX as u64 + 1, (u32::MAX as u64) * 10 + 9, (u32::MAX as u64 + 1) * 10, u64::MAX / 2, u64::MAX]);
        for _ in 0..(if ctx.quick() { 500 } else { 50_000 }) {
            let v = ctx.rng.next();
            ms.push(match v % 3 { 0 => v >> 32, 1 => (v >> 20) % (edge * 2 + 1), _ => v >> 8 });
        }
        for m in ms {
            do_wr(ctx, w, s, m);
        }
        // durations of 2^64 ms and far more (a Duration holds up to u64::MAX seconds): whatever their low bits say, refused
        for secs in [18_446_744_073_709_551u128, 18_446_744_073_709_552, 18_446_744_073_709_553, 1 << 61, 1 << 62, 1 << 63, (1 << 63) + 65, u64::MAX as u128] {
            for extra in [0u128, 1, 384, 999] { do_wr128(ctx, w, s, secs * 1000 + extra); }
        }
        for m in [(u64::MAX as u128) + 1, (u64::MAX as u128) + 65_536, (u64::MAX as u128) + 1 + (1u128 << (8 * w)) * s as u128 - 1, (1u128 << 64) * 10, (1u128 << 64) * 10 + 70, 1u128 << 70] { do_wr128(ctx, w, s, m); }
    }
    // race lengths: all 256 bytes; lap / hour counts 0..2000 and beyond
    for b in 0..=255u8 {
        do_laps_rd(ctx, b);
    }
    ctx.exhaustive_domains.push("all 256 race-length bytes".into());
    do_laps_wr(ctx, RaceLaps::Practice);
    for n in (0..=2000usize).chain([65535, 65536, 1 << 31, usize::MAX - 190, usize::MAX - 189, usize::MAX].into_iter()) {
        do_laps_wr(ctx, RaceLaps::Laps(n));
        do_laps_wr(ctx, RaceLaps::Hours(n));
    }
    ctx.exhaustive_domains.push("lap and hour counts 0..=2000 plus extreme values".into());
    // Small time sub-types
    for d in [1u8, 2, 5, 6, 7] {
        for &u in &b32 {
            do_small_rd(ctx, d, u as u32);
        }
        let scale: u64 = if d == 7 { 1 } else { 10 };
        let edge = u32::MAX as u64 * scale;
        let mut ms: Vec<u64> = vec![0, 1, 9, 10, 11, 19, 4294967295, 4294967296, 4294967305, 42949672950, 42949672959, 42949672960, u64::MAX / 2, u64::MAX];
        for dlt in 0..30u64 {
            ms.push(edge - 10 + dlt);
        }
        for _ in 0..(if ctx.quick() { 300 } else { 30_000 }) {
            let v = ctx.rng.next();
            ms.push(match v % 3 { 0 => v >> 30, 1 => v >> 28, _ => v >> 16 });
        }
        for m in ms {
            do_small_wr(ctx, d, m);
        }
    }
}
