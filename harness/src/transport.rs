//! Scripted in-memory transports for the blocking (`Read + Write`) and tokio (`AsyncRead + AsyncWrite`)
//! connections. One shared `Script` records what the transport actually returned (the model's input)
//! and everything the connection wrote, interleaved with the read results the harness appends.
use std::collections::VecDeque;
use std::io::{self, Read, Write};
use std::pin::Pin;
use std::sync::{Arc, Mutex};
use std::task::{Context, Poll};

use tokio::io::{AsyncRead, AsyncWrite, ReadBuf};

use crate::common::hex;

#[derive(Clone, Debug, PartialEq, Eq)]
pub enum Ev {
    Data(Vec<u8>),
    Pending,
    IoErr,
    Timeout,
    Eof,
}

#[derive(Clone, Debug, PartialEq, Eq)]
pub enum WEv {
    Accept(usize),
    Pending,
    IoErr,
}

thread_local! {
    /// when > 0, every scripted "not ready" of the tokio transport (read half and write half) lasts this many seconds of the
    /// runtime's *virtual* clock (the runtimes used here are paused: time advances only when everything is waiting) instead of
    /// waking at once. Each wait stays far below the connection's 90 s idle limit; what is being asked is that only a single
    /// silence — never the sum of several — can run into a time limit. The blocking transport ignores it (it has no clock).
    pub static SLOW: std::cell::Cell<u64> = const { std::cell::Cell::new(0) };
}

#[derive(Debug, Default)]
pub struct Script {
    /// the virtual-time wait in progress on the read half / the write half (see `SLOW`)
    pub rsleep: Option<Pin<Box<tokio::time::Sleep>>>,
    pub wsleep: Option<Pin<Box<tokio::time::Sleep>>>,
    pub events: VecDeque<Ev>,
    pub wscript: VecDeque<WEv>,
    /// what the read half actually returned, in order (the model's script)
    pub log: Vec<Ev>,
    /// what the write half actually did, in order
    pub wlog: Vec<WEv>,
    /// interleaved trace: `w=<hex>` chunks from the write half; the harness appends read results
    pub trace: Vec<String>,
    /// all bytes accepted by the write half
    pub out: Vec<u8>,
    /// sizes of the buffers passed to each write call
    pub write_calls: Vec<usize>,
    pub injected: usize,
    pub stalled: bool,
    pub offered: Vec<usize>,
    /// which half returned the most recent Pending: 1 = read, 2 = write (or flush)
    pub last_pending: u8,
    /// readiness of `poll_flush`, one entry per call (`true` = not ready once); exhausted = ready
    pub fscript: VecDeque<bool>,
    /// how many of the accepted bytes had been flushed by the last completed `poll_flush` (async write half only): a
    /// transport that queues what it accepts — a WebSocket sink, a buffered writer — delivers nothing beyond this point
    pub flushed_len: usize,
}

impl Script {
    pub fn new(events: Vec<Ev>, wscript: Vec<WEv>) -> Arc<Mutex<Script>> {
        Arc::new(Mutex::new(Script { events: events.into(), wscript: wscript.into(), ..Default::default() }))
    }
    fn push_write(&mut self, bs: &[u8]) {
        self.out.extend_from_slice(bs);
        // coalesce adjacent writes
        if let Some(last) = self.trace.last_mut() {
            if last.starts_with("w=") {
                last.push_str(&hex(bs));
                return;
            }
        }
        self.trace.push(format!("w={}", hex(bs)));
    }
}

pub fn ev_token(e: &Ev) -> String {
    match e {
        Ev::Data(b) => format!("d:{}", hex(b)),
        Ev::Pending => "p".into(),
        Ev::IoErr => "e".into(),
        Ev::Timeout => "t".into(),
        Ev::Eof => "z".into(),
    }
}
pub fn script_text(evs: &[Ev]) -> String {
    if evs.is_empty() { "-".into() } else { evs.iter().map(ev_token).collect::<Vec<_>>().join(",") }
}
pub fn wev_token(e: &WEv) -> String {
    match e {
        WEv::Accept(k) => format!("a{}", k),
        WEv::Pending => "p".into(),
        WEv::IoErr => "e".into(),
    }
}
pub fn wscript_text(evs: &[WEv]) -> String {
    if evs.is_empty() { "-".into() } else { evs.iter().map(wev_token).collect::<Vec<_>>().join(",") }
}

#[derive(Debug, Clone)]
pub struct Transport(pub Arc<Mutex<Script>>);

enum RStep {
    Got(usize),
    Err,
    Pending { wake: bool },
}

impl Transport {
    fn read_step(&self, buf: &mut [u8]) -> RStep {
        let mut s = self.0.lock().unwrap();
        s.offered.push(buf.len());
        match s.events.pop_front() {
            None => {
                s.log.push(Ev::Eof);
                RStep::Got(0)
            },
            Some(Ev::Eof) => {
                s.events.push_front(Ev::Eof);
                s.log.push(Ev::Eof);
                RStep::Got(0)
            },
            Some(Ev::Data(bs)) => {
                let n = bs.len().min(buf.len());
                buf[..n].copy_from_slice(&bs[..n]);
                if n < bs.len() {
                    s.events.push_front(Ev::Data(bs[n..].to_vec()));
                }
                if n > 0 {
                    s.log.push(Ev::Data(bs[..n].to_vec()));
                }
                RStep::Got(n)
            },
            Some(Ev::IoErr) => {
                s.log.push(Ev::IoErr);
                s.injected += 1;
                RStep::Err
            },
            Some(Ev::Pending) => {
                s.log.push(Ev::Pending);
                s.last_pending = 1;
                RStep::Pending { wake: true }
            },
            Some(Ev::Timeout) => {
                // stays at the front until the harness clears the stall (after the read timed out)
                s.events.push_front(Ev::Timeout);
                if !s.stalled {
                    s.stalled = true;
                    s.log.push(Ev::Timeout);
                }
                RStep::Pending { wake: false }
            },
        }
    }
    /// called by the harness after a read returned the timeout error
    pub fn clear_stall(&self) {
        let mut s = self.0.lock().unwrap();
        if s.stalled {
            s.stalled = false;
            if s.events.front() == Some(&Ev::Timeout) {
                let _ = s.events.pop_front();
            }
        }
    }
    fn write_step(&self, buf: &[u8]) -> RStep {
        let mut s = self.0.lock().unwrap();
        s.write_calls.push(buf.len());
        match s.wscript.pop_front() {
            None => {
                s.wlog.push(WEv::Accept(buf.len()));
                s.push_write(buf);
                RStep::Got(buf.len())
            },
            Some(WEv::Accept(k)) => {
                let n = k.min(buf.len());
                s.wlog.push(WEv::Accept(k));
                s.push_write(&buf[..n]);
                RStep::Got(n)
            },
            Some(WEv::IoErr) => {
                s.wlog.push(WEv::IoErr);
                s.injected += 1;
                RStep::Err
            },
            Some(WEv::Pending) => {
                s.wlog.push(WEv::Pending);
                s.last_pending = 2;
                RStep::Pending { wake: true }
            },
        }
    }
}

/// a transient failure of the *read* half: the kind rotates with the number of errors injected so far (a connection must
/// treat every kind alike: one error result, nothing lost, nothing ended) — `Interrupted`, `WouldBlock`, `TimedOut` included
fn injected_read_error(nth: usize) -> io::Error {
    const KINDS: [io::ErrorKind; 7] = [io::ErrorKind::ConnectionReset, io::ErrorKind::Interrupted, io::ErrorKind::WouldBlock, io::ErrorKind::TimedOut,
        io::ErrorKind::BrokenPipe, io::ErrorKind::UnexpectedEof, io::ErrorKind::Other];
    io::Error::new(KINDS[nth % KINDS.len()], "injected transport error")
}

fn injected_error() -> io::Error {
    io::Error::new(io::ErrorKind::ConnectionReset, "injected transport error")
}

impl Read for Transport {
    fn read(&mut self, buf: &mut [u8]) -> io::Result<usize> {
        loop {
            match self.read_step(buf) {
                RStep::Got(n) => return Ok(n),
                RStep::Err => { let nth = self.0.lock().unwrap().injected; return Err(injected_read_error(nth)); },
                // a blocking transport has no Pending: the call simply blocks, i.e. the event has no visible effect
                RStep::Pending { wake: true } => continue,
                RStep::Pending { wake: false } => {
                    self.clear_stall();
                    return Err(io::Error::new(io::ErrorKind::TimedOut, "scripted stall on a blocking transport"));
                },
            }
        }
    }
}

impl Write for Transport {
    fn write(&mut self, buf: &[u8]) -> io::Result<usize> {
        loop {
            match self.write_step(buf) {
                RStep::Got(n) => return Ok(n),
                RStep::Err => return Err(injected_error()),
                RStep::Pending { .. } => continue,
            }
        }
    }
    fn flush(&mut self) -> io::Result<()> {
        Ok(())
    }
}

impl AsyncRead for Transport {
    fn poll_read(self: Pin<&mut Self>, cx: &mut Context<'_>, buf: &mut ReadBuf<'_>) -> Poll<io::Result<()>> {
        {
            let mut s = self.0.lock().unwrap();
            if let Some(sl) = s.rsleep.as_mut() {
                if std::future::Future::poll(sl.as_mut(), cx).is_pending() { return Poll::Pending; }
                s.rsleep = None;
            }
        }
        let mut tmp = vec![0u8; buf.remaining()];
        match self.read_step(&mut tmp) {
            RStep::Got(n) => {
                buf.put_slice(&tmp[..n]);
                Poll::Ready(Ok(()))
            },
            RStep::Err => { let nth = self.0.lock().unwrap().injected; Poll::Ready(Err(injected_read_error(nth))) },
            RStep::Pending { wake } => {
                let slow = SLOW.with(|x| x.get());
                if wake && slow > 0 {
                    let mut sl = Box::pin(tokio::time::sleep(std::time::Duration::from_secs(slow)));
                    let _ = std::future::Future::poll(sl.as_mut(), cx);
                    self.0.lock().unwrap().rsleep = Some(sl);
                } else if wake {
                    cx.waker().wake_by_ref();
                }
                Poll::Pending
            },
        }
    }
}

impl AsyncWrite for Transport {
    fn poll_write(self: Pin<&mut Self>, cx: &mut Context<'_>, buf: &[u8]) -> Poll<io::Result<usize>> {
        {
            let mut s = self.0.lock().unwrap();
            if let Some(sl) = s.wsleep.as_mut() {
                if std::future::Future::poll(sl.as_mut(), cx).is_pending() { return Poll::Pending; }
                s.wsleep = None;
            }
        }
        match self.write_step(buf) {
            RStep::Got(n) => Poll::Ready(Ok(n)),
            RStep::Err => Poll::Ready(Err(injected_error())),
            RStep::Pending { .. } => {
                let slow = SLOW.with(|x| x.get());
                if slow > 0 {
                    let mut sl = Box::pin(tokio::time::sleep(std::time::Duration::from_secs(slow)));
                    let _ = std::future::Future::poll(sl.as_mut(), cx);
                    self.0.lock().unwrap().wsleep = Some(sl);
                } else {
                    cx.waker().wake_by_ref();
                }
                Poll::Pending
            },
        }
    }
    fn poll_flush(self: Pin<&mut Self>, cx: &mut Context<'_>) -> Poll<io::Result<()>> {
        let mut s = self.0.lock().unwrap();
        match s.fscript.pop_front() {
            Some(true) => { s.last_pending = 2; cx.waker().wake_by_ref(); Poll::Pending },
            _ => { s.flushed_len = s.out.len(); Poll::Ready(Ok(())) },
        }
    }
    fn poll_shutdown(self: Pin<&mut Self>, _cx: &mut Context<'_>) -> Poll<io::Result<()>> {
        Poll::Ready(Ok(()))
    }
}
