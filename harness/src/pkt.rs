//! Packet-level machinery shared by C01 / C02 / C03 / C04 / C11: layouts regenerated from the source
//! (lean/Insim/Gen/layouts.json), a JSON canonicaliser for decoded packets guided by those layouts,
//! type-directed frame generators, and the round-trip / decode cases.
use crate::common::*;
use crate::conn::{mode_of, mode_tok, size_byte};
use bytes::BytesMut;
use insim::net::Codec;
use insim::Packet;
use serde_json::Value;
use std::collections::BTreeMap;

pub struct Layouts {
    pub kinds: Vec<Value>,
    pub enums: BTreeMap<String, Vec<(String, u64)>>,
    pub flags: BTreeMap<String, Vec<(String, u64)>>,
    pub plc_write: Vec<(String, u64)>,
}

pub fn load_layouts() -> Layouts {
    let p = concat!(env!("CARGO_MANIFEST_DIR"), "/../lean/Insim/Gen/layouts.json");
    let v: Value = serde_json::from_str(&std::fs::read_to_string(p).expect("layouts.json (run the translator first)")).unwrap();
    let mut enums = BTreeMap::new();
    for (k, vs) in v["enums"].as_object().unwrap() {
        let _ = enums.insert(k.clone(), vs.as_array().unwrap().iter().map(|x| (x[0].as_str().unwrap().to_string(), x[1].as_u64().unwrap())).collect());
    }
    let mut flags = BTreeMap::new();
    for (k, f) in v["flags"].as_object().unwrap() {
        let _ = flags.insert(k.clone(), f["consts"].as_array().unwrap().iter().map(|x| (x[0].as_str().unwrap().to_string(), x[1].as_u64().unwrap())).collect());
    }
    let plc_write = v["plc_write"].as_array().unwrap().iter().map(|x| (x[0].as_str().unwrap().to_string(), x[1].as_u64().unwrap())).collect();
    Layouts { kinds: v["kinds"].as_array().unwrap().clone(), enums, flags, plc_write }
}

pub fn layout_of<'a>(ls: &'a Layouts, kind: &str) -> Option<&'a Value> {
    ls.kinds.iter().find(|k| k["kind"] == kind)
}

// ------------------------------------------------------------------------------------------------
// canonical tokens of a decoded packet (from its serde JSON), in the same vocabulary as the model's driver

fn get_path<'a>(v: &'a Value, path: &str) -> Option<&'a Value> {
    let mut cur = v;
    for part in path.split('.') {
        if part.is_empty() { continue; }
        let (name, idx) = match part.find('[') {
            Some(i) => (&part[..i], part[i + 1..part.len() - 1].parse::<usize>().ok()),
            None => (part, None),
        };
        cur = cur.get(name)?;
        if let Some(i) = idx { cur = cur.get(i)?; }
    }
    Some(cur)
}

pub fn str_tok(s: &str) -> String {
    format!("s{}", s.chars().map(|c| (c as u32).to_string()).collect::<Vec<_>>().join("."))
}

fn dur_ms(v: &Value) -> Option<u128> {
    Some(v.get("secs")?.as_u64()? as u128 * 1000 + (v.get("nanos")?.as_u64()? / 1_000_000) as u128)
}

fn flags_bits(consts: &[(String, u64)], v: &Value) -> Option<u64> {
    let s = v.as_str()?;
    let mut bits = 0u64;
    for part in s.split('|').map(|p| p.trim()).filter(|p| !p.is_empty()) {
        if let Some(h) = part.strip_prefix("0x") {
            bits |= u64::from_str_radix(h, 16).ok()?;
        } else {
            bits |= consts.iter().find(|(n, _)| n == part)?.1;
        }
    }
    Some(bits)
}

fn veh_tok(v: &Value) -> String {
    match v {
        Value::String(s) if s == "Unknown" => "veh:unknown".into(),
        Value::String(s) => format!("veh:builtin:{}", s),
        Value::Object(m) => format!("veh:mod:{}", m.get("Mod").cloned().unwrap_or(Value::Null)),
        _ => "veh:?".into(),
    }
}

fn vehset_bits(ls: &Layouts, v: &Value) -> Option<u64> {
    let arr = v.get("inner")?.as_array()?;
    let mut bits = 0;
    for x in arr {
        let name = x.as_str()?;
        bits |= ls.plc_write.iter().find(|(n, _)| n == name).map(|(_, b)| *b).unwrap_or(0);
    }
    Some(bits)
}

fn enum_disc(ls: &Layouts, name: &str, v: &Value) -> Option<u64> {
    let s = v.as_str()?;
    ls.enums.get(name)?.iter().find(|(n, _)| n == s).map(|(_, d)| *d)
}

const CIM_NORMAL: [&str; 5] = ["Normal", "WheelTemps", "WheelDamage", "LiveSettings", "PitInstructions"];
const CIM_GARAGE: [&str; 9] = ["Info", "Colours", "BrakeTC", "Susp", "Steer", "Drive", "Tyres", "Aero", "Pass"];
const CIM_SHIFTU: [&str; 3] = ["Plain", "Buttons", "Edit"];

fn field_toks(ls: &Layouts, ty: &Value, v: Option<&Value>, out: &mut Vec<String>) {
    let k = ty["k"].as_str().unwrap_or("");
    if k == "count" { return; }
    let v = match v { Some(v) => v, None => { out.push("MISSING".into()); return; } };
    let bad = || "BAD".to_string();
    match k {
        "uint" => out.push(v.as_u64().map(|x| x.to_string()).unwrap_or_else(bad)),
        "sint" => out.push(v.as_i64().map(|x| x.to_string()).unwrap_or_else(bad)),
        "f32" => out.push(match v.as_f64() { Some(f) => format!("f{}", (f as f32).to_bits()), None => "fnull".into() }),
        "bool8" => out.push(v.as_bool().map(|b| (b as u8).to_string()).unwrap_or_else(bad)),
        "char8" => out.push(v.as_str().and_then(|s| s.chars().next()).map(|c| (c as u32).to_string()).unwrap_or_else(bad)),
        "spclose" => out.push(v.as_u64().map(|x| x.to_string()).unwrap_or_else(bad)),
        "ipv4" => out.push(v.as_str().and_then(|s| { let p: Vec<u64> = s.split('.').filter_map(|x| x.parse().ok()).collect(); if p.len() == 4 { Some(((p[0] << 24) | (p[1] << 16) | (p[2] << 8) | p[3]).to_string()) } else { None } }).unwrap_or_else(bad)),
        "enum" => out.push(enum_disc(ls, ty["name"].as_str().unwrap_or(""), v).map(|d| d.to_string()).unwrap_or_else(bad)),
        "flags" => {
            if ty.get("set_of_vehicles").is_some() {
                out.push(vehset_bits(ls, v).map(|b| b.to_string()).unwrap_or_else(bad));
            } else {
                let consts: Vec<(String, u64)> = ty["consts"].as_array().unwrap().iter().map(|x| (x[0].as_str().unwrap().to_string(), x[1].as_u64().unwrap())).collect();
                out.push(flags_bits(&consts, v).map(|b| b.to_string()).unwrap_or_else(bad));
            }
        },
        "dur" => out.push(dur_ms(v).map(|x| x.to_string()).unwrap_or_else(bad)),
        "str" => out.push(v.as_str().map(str_tok).unwrap_or_else(bad)),
        "custom" => match ty["id"].as_str().unwrap_or("") {
            "Vehicle" => out.push(veh_tok(v)),
            "Track" => out.push(format!("trk:{}", v.as_str().unwrap_or("?"))),
            "RaceLaps" => out.push(match v { Value::String(_) => "laps:practice".into(), Value::Object(m) => if let Some(n) = m.get("Laps") { format!("laps:laps:{}", n) } else { format!("laps:hours:{}", m.get("Hours").cloned().unwrap_or(Value::Null)) }, _ => bad() }),
            "Fuel" | "Fuel200" => out.push(match v { Value::String(_) => "fuel:no".into(), Value::Object(m) => format!("fuel:{}", m.get("Percentage").cloned().unwrap_or(Value::Null)), _ => bad() }),
            "ConInfo" => {
                for f in ["plid", "info", "steer", "thr", "brk", "clu", "han", "gearsp", "speed", "direction", "heading", "accelf", "accelr", "x", "y"] {
                    let x = v.get(f);
                    if f == "info" {
                        out.push(x.and_then(|x| ls.flags.get("CompCarInfo").and_then(|c| flags_bits(c, x))).map(|b| b.to_string()).unwrap_or_else(bad));
                    } else {
                        out.push(x.and_then(|x| x.as_i64()).map(|b| b.to_string()).unwrap_or_else(bad));
                    }
                }
            },
            "SmallType" => out.push(match v {
                Value::String(_) => "small:0:0".into(),
                Value::Object(m) => {
                    let (name, x) = m.iter().next().unwrap();
                    let t = |d: u32, val: Option<String>| val.map(|s| format!("small:{}:{}", d, s)).unwrap_or_else(bad);
                    match name.as_str() {
                        "Ssp" => t(1, dur_ms(x).map(|v| v.to_string())), "Ssg" => t(2, dur_ms(x).map(|v| v.to_string())),
                        "Vta" => t(3, enum_disc(ls, "VtnAction", x).map(|v| v.to_string())),
                        "Tms" => t(4, x.as_bool().map(|b| (b as u8).to_string())),
                        "Stp" => t(5, dur_ms(x).map(|v| v.to_string())), "Rtp" => t(6, dur_ms(x).map(|v| v.to_string())),
                        "Nli" => t(7, dur_ms(x).map(|v| v.to_string())),
                        "Alc" => t(8, vehset_bits(ls, x).map(|v| v.to_string())),
                        "Lcs" => t(9, ls.flags.get("LcsFlags").and_then(|c| flags_bits(c, x)).map(|v| v.to_string())),
                        "Lcl" => t(10, ls.flags.get("LclFlags").and_then(|c| flags_bits(c, x)).map(|v| v.to_string())),
                        _ => bad(),
                    }
                },
                _ => bad(),
            }),
            "CimMode" => out.push(match v {
                Value::String(s) => match s.as_str() { "Options" => "cim:1:0:0".into(), "HostOptions" => "cim:2:0:0".into(), "CarSelect" => "cim:4:0:0".into(), "TrackSelect" => "cim:5:0:0".into(), _ => bad() },
                Value::Object(m) => {
                    let (name, x) = m.iter().next().unwrap();
                    let idx = |tbl: &[&str], x: &Value| x.as_str().and_then(|s| tbl.iter().position(|t| *t == s));
                    match name.as_str() {
                        "Normal" => idx(&CIM_NORMAL, x).map(|i| format!("cim:0:{}:0", i)).unwrap_or_else(bad),
                        "Garage" => idx(&CIM_GARAGE, x).map(|i| format!("cim:3:{}:0", i)).unwrap_or_else(bad),
                        "ShiftU" => idx(&CIM_SHIFTU, &x["submode"]).map(|i| format!("cim:6:{}:{}", i, x["seltype"])).unwrap_or_else(bad),
                        _ => bad(),
                    }
                },
                _ => bad(),
            }),
            "GameVersion" => {
                let major = v.get("major").and_then(|m| m.as_f64()).map(|f| format!("{}", f as f32)).unwrap_or("null".into());
                let minor = v.get("minor").and_then(|m| m.as_str()).and_then(|s| s.chars().next()).map(|c| (c as u32).to_string()).unwrap_or_else(bad);
                let patch = match v.get("patch") { Some(Value::Null) | None => "-".to_string(), Some(p) => p.to_string() };
                out.push(format!("gv:{}:{}:{}", major, minor, patch));
            },
            _ => out.push(bad()),
        },
        _ => out.push(bad()),
    }
}

fn fields_toks(ls: &Layouts, fields: &[Value], root: &Value, out: &mut Vec<String>) {
    for f in fields {
        let path = f["path"].as_str().unwrap_or("");
        let v = if path.is_empty() { Some(root) } else { get_path(root, path) };
        field_toks(ls, &f["ty"], v, out);
    }
}

/// `Kind tok,tok,…` for a decoded packet
pub fn canon_packet(ls: &Layouts, p: &Packet) -> String {
    let root = serde_json::to_value(p).unwrap();
    let kind = root["type"].as_str().unwrap_or("?").to_string();
    let l = match layout_of(ls, &kind) { Some(l) => l, None => return format!("{} NOLAYOUT", kind) };
    let mut out = vec![];
    if l["custom_body"].as_bool() == Some(true) {
        // Mso
        for f in ["reqi", "ucid", "plid"] { out.push(root[f].as_u64().map(|x| x.to_string()).unwrap_or("BAD".into())); }
        out.push(enum_disc(ls, "MsoUserType", &root["usertype"]).map(|d| d.to_string()).unwrap_or("BAD".into()));
        out.push(root["textstart"].as_u64().map(|x| x.to_string()).unwrap_or("BAD".into()));
        out.push(root["msg"].as_str().map(str_tok).unwrap_or("BAD".into()));
    } else {
        fields_toks(ls, l["fields"].as_array().unwrap(), &root, &mut out);
        let t = &l["tail"];
        match t["k"].as_str() {
            Some("vec") => {
                let arr = get_path(&root, t["path"].as_str().unwrap()).and_then(|a| a.as_array()).cloned().unwrap_or_default();
                let elt = t["elt"].as_array().unwrap();
                let es: Vec<String> = arr.iter().map(|e| { let mut o = vec![]; fields_toks(ls, elt, e, &mut o); o.join(",") }).collect();
                out.push(format!("[{}]", es.join(";")));
            },
            Some("set") => {
                let arr = get_path(&root, t["path"].as_str().unwrap()).and_then(|a| a.as_array()).cloned().unwrap_or_default();
                let es: Vec<String> = arr.iter().map(|e| if t["id"] == "mal" { veh_tok(e) } else { e.as_str().unwrap_or("?").to_string() }).collect();
                out.push(format!("{{{}}}", es.join(";")));
            },
            Some("streof") => out.push(get_path(&root, t["path"].as_str().unwrap()).and_then(|s| s.as_str()).map(str_tok).unwrap_or("BAD".into())),
            _ => {},
        }
    }
    format!("{} {}", kind, if out.is_empty() { "-".to_string() } else { out.join(",") })
}

// ------------------------------------------------------------------------------------------------
// real codec under catch_unwind

pub enum Dec {
    None(usize),
    Pkt(Packet, usize),
    ErrDecode(usize),
    ErrFraming(usize),
    Panic,
}

pub fn real_decode(compressed: bool, frame: &[u8]) -> Dec {
    let f = frame.to_vec();
    let r = guard(move || {
        #[allow(unused_mut)] let mut c = Codec::new(mode_of(compressed));
        let mut buf = BytesMut::from(&f[..]);
        let r = c.decode(&mut buf);
        (r, buf.len())
    });
    match r {
        None => Dec::Panic,
        Some((Ok(None), n)) => Dec::None(n),
        Some((Ok(Some(p)), n)) => Dec::Pkt(p, n),
        Some((Err(insim::Error::BinRw(_)), n)) => Dec::ErrDecode(n),
        Some((Err(_), n)) => Dec::ErrFraming(n),
    }
}

pub fn real_encode(compressed: bool, p: &Packet) -> Option<Result<Vec<u8>, ()>> {
    let p = p.clone();
    guard(std::panic::AssertUnwindSafe(move || Codec::new(mode_of(compressed)).encode(&p).map(|b| b.to_vec()).map_err(|_| ())))
}

pub fn dec_line(ls: &Layouts, compressed: bool, frame: &[u8], reenc: bool) -> (String, Dec) {
    let d = real_decode(compressed, frame);
    let s = match &d {
        Dec::Panic => "panic".to_string(),
        Dec::None(n) => format!("none rem={}", n),
        Dec::ErrDecode(n) => format!("err decode rem={}", n),
        Dec::ErrFraming(n) => format!("err framing rem={}", n),
        Dec::Pkt(p, n) => {
            let mut s = format!("ok {} rem={}", canon_packet(ls, p), n);
            if reenc {
                s.push_str(" | re=");
                s.push_str(&match real_encode(compressed, p) { None => "panic".to_string(), Some(Err(())) => "err".to_string(), Some(Ok(b)) => hex(&b) });
            }
            s
        },
    };
    (s, d)
}

// ------------------------------------------------------------------------------------------------
// type-directed frame generator

pub fn ty_size(ty: &Value) -> usize {
    match ty["k"].as_str().unwrap_or("") {
        "uint" | "sint" | "flags" | "count" => ty["w"].as_u64().unwrap_or(1) as usize,
        "f32" | "ipv4" => 4,
        "bool8" | "char8" | "enum" => 1,
        "spclose" => 2,
        "dur" => ty["rw"].as_u64().unwrap() as usize,
        "str" => ty["rn"].as_u64().unwrap() as usize,
        "custom" => ty["size"].as_u64().unwrap() as usize,
        _ => 0,
    }
}

pub struct GenOpts {
    /// probability (percent) of an out-of-domain value in a field (undefined enumerant, undefined flag bits, odd bool)
    pub wild: u64,
    /// text repertoire: 0 = ASCII only (stable under re-encoding), 1 = also codepage text
    pub text: u8,
    /// element count for vector / set tails (None = random small)
    pub count: Option<usize>,
}

/// frames of every kind that has a track or car field, one per row of the two name tables (every declared track
/// configuration, every built-in car, unknown, a few mod ids)
pub fn name_table_frames(ls: &Layouts, compressed: bool) -> Vec<Vec<u8>> {
    let mut out = vec![];
    for l in ls.kinds.iter() {
        let fields = l["fields"].as_array().cloned().unwrap_or_default();
        if !fields.iter().any(|f| f["ty"]["id"] == "Track" || f["ty"]["id"] == "Vehicle") { continue; }
        let base = gen_frame(&mut Rng::new(7), l, compressed, &GenOpts { wild: 0, text: 0, count: Some(1) });
        let mut off = 2usize;
        for f in &fields {
            off += f["rb"].as_u64().unwrap_or(0) as usize;
            let w = ty_size(&f["ty"]);
            let mut variants: Vec<Vec<u8>> = vec![];
            if f["ty"]["id"] == "Track" { for c in all_track_codes() { let mut b = c.as_bytes().to_vec(); b.resize(6, 0); variants.push(b); } }
            if f["ty"]["id"] == "Vehicle" {
                for n in ["XFG", "XRG", "XRT", "RB4", "FXO", "LX4", "LX6", "MRT", "UF1", "RAC", "FZ5", "FOX", "XFR", "UFR", "FO8", "FXR", "XRR", "FZR", "BF1", "FBM"] { variants.push(vec![n.as_bytes()[0], n.as_bytes()[1], n.as_bytes()[2], 0]); }
                for v in [0u32, 1, 0x00AB_CDEF, 0x00FF_FFFF, 0x0100_0000, 0x8047_4658, 0xFFFF_FFFF] { variants.push(v.to_le_bytes().to_vec()); }
            }
            for v in variants {
                if off + w > base.len() { break; }
                let mut fr = base.clone();
                fr[off..off + v.len()].copy_from_slice(&v);
                out.push(fr);
            }
            off += w + f["ra"].as_u64().unwrap_or(0) as usize;
        }
    }
    out
}

/// the short code of every declared track configuration, from the enum's variant names (generated list), in capitals
pub fn all_track_codes() -> &'static Vec<String> {
    use std::sync::OnceLock;
    static V: OnceLock<Vec<String>> = OnceLock::new();
    V.get_or_init(|| crate::gen_tracks::tracks().iter().map(|t| format!("{:?}", t).to_uppercase()).collect())
}
const TRACK_CODES: [&str; 8] = ["BL1", "BL2R", "SO1X", "FE4Y", "AS7", "KY3R", "RO11X", "LA2"];
const VEH_NAMES: [&str; 6] = ["XFG", "XRT", "FZ5", "BF1", "UF1", "FBM"];

fn gen_text(rng: &mut Rng, n: usize, text: u8) -> Vec<u8> {
    let len = match rng.below(6) { 0 => 0, 1 => n, 2 => n.saturating_sub(1), _ => rng.below(n as u64 + 1) as usize };
    let mut v = vec![];
    while v.len() < len {
        if text > 0 && rng.chance(1, 8) && v.len() + 4 <= len {
            v.extend_from_slice(&[b'^', b'E', 0xEC, 0x9A]); // ^E ěš in cp1250
        } else {
            v.push(*rng.pick(b"abcXYZ 0189_-!"));
        }
    }
    v.truncate(n);
    v.resize(n, 0);
    v
}

pub fn gen_field(rng: &mut Rng, ty: &Value, o: &GenOpts, count: usize, out: &mut Vec<u8>) {
    let k = ty["k"].as_str().unwrap_or("");
    let wild = rng.below(100) < o.wild;
    match k {
        "uint" | "sint" | "ipv4" | "f32" | "spclose" | "dur" => {
            let w = ty_size(ty);
            let v: u64 = match rng.below(6) { 0 => 0, 1 => 1, 2 => u64::MAX, 3 => (1u64 << (8 * w.min(7) as u32 - 1)) - 1, 4 => 1u64 << (8 * w.min(7) as u32 - 1), _ => rng.next() };
            let mut b = v.to_le_bytes()[..w].to_vec();
            if k == "f32" { let f = [0.0f32, 1.0, -2.5, 70.0, 0.7, 3.4e38][rng.below(6) as usize]; b = f.to_bits().to_le_bytes().to_vec(); }
            out.extend_from_slice(&b);
        },
        "count" => out.extend_from_slice(&(count as u64).to_le_bytes()[..ty_size(ty)]),
        "bool8" => out.push(if wild { rng.byte() } else { rng.below(2) as u8 }),
        "char8" => out.push(if wild { rng.byte() } else { *rng.pick(b"!$aZ0\0") }),
        "enum" => {
            let vals: Vec<u64> = ty["vals"].as_array().unwrap().iter().map(|x| x[1].as_u64().unwrap()).collect();
            out.push(if wild { rng.byte() } else { *rng.pick(&vals) as u8 });
        },
        "flags" => {
            let w = ty_size(ty);
            let mask = ty["consts"].as_array().unwrap().iter().fold(0u64, |m, x| m | x[1].as_u64().unwrap());
            let v = if wild { rng.next() } else { rng.next() & mask };
            out.extend_from_slice(&v.to_le_bytes()[..w]);
        },
        // raw (UTF-8) fields get ASCII only: codepage bytes are not valid UTF-8 and would not be representable text there
        "str" => if ty["rraw"].as_bool() == Some(true) && o.text != 0 {
            // a raw field carries the string's own (UTF-8) bytes: non-ASCII text, cut at a character boundary, NUL-padded
            let w = ty_size(ty);
            let t = *rng.pick(&["p\u{e4}ssw\u{f6}rd", "\u{43f}\u{430}\u{440}\u{43e}\u{43b}\u{44c}", "\u{30d1}\u{30b9}", "caf\u{e9}", "\u{11b}\u{161}\u{10d} x", "\u{20ac}"]);
            let mut b = t.as_bytes().to_vec();
            while b.len() > w || std::str::from_utf8(&b).is_err() { let _ = b.pop(); }
            b.resize(w, 0);
            out.extend_from_slice(&b);
        } else {
            out.extend_from_slice(&gen_text(rng, ty_size(ty), if ty["rraw"].as_bool() == Some(true) { 0 } else { o.text }))
        },
        "custom" => match ty["id"].as_str().unwrap_or("") {
            "Vehicle" => match rng.below(4) {
                0 => { let n = rng.pick(&VEH_NAMES).as_bytes(); out.extend_from_slice(&[n[0], n[1], n[2], 0]); },
                1 => out.extend_from_slice(&[0, 0, 0, 0]),
                2 if wild => out.extend_from_slice(b"ZZZ\0"),
                // mod ids of every shape: high first byte, a non-alphanumeric byte in each position, a fourth byte, small numbers
                _ => match rng.below(6) {
                    0 => out.extend_from_slice(&[rng.byte() | 0x80, rng.byte(), rng.byte(), 0]),
                    1 => { let mut b = [*rng.pick(b"AZaz09"), *rng.pick(b"AZaz09"), *rng.pick(b"AZaz09"), 0]; b[rng.below(3) as usize] = *rng.pick(&[0xF3u8, b' ', b'_', 0x7f, 0]); if b == [0, 0, 0, 0] { b[0] = 1; } out.extend_from_slice(&b); },
                    2 => { let n = rng.pick(&VEH_NAMES).as_bytes(); out.extend_from_slice(&[n[0], n[1], n[2], 1 + rng.below(255) as u8]); },
                    3 => out.extend_from_slice(&(1 + rng.below(300) as u32).to_le_bytes()),
                    4 => out.extend_from_slice(&[0xff, 0xff, 0xff, *rng.pick(&[0u8, 0xff])]),
                    _ => out.extend_from_slice(&(rng.next() as u32 | 0x0100_0000).to_le_bytes()),
                },
            },
            // every declared configuration (the short code is the variant's name in capitals), not a favourite few
            "Track" => { let mut t = if wild { b"ZZ9".to_vec() } else if rng.chance(1, 4) { rng.pick(&TRACK_CODES).as_bytes().to_vec() } else { all_track_codes()[rng.below(all_track_codes().len() as u64) as usize].as_bytes().to_vec() }; t.resize(6, 0); out.extend_from_slice(&t); },
            "RaceLaps" | "Fuel" | "Fuel200" => out.push(*rng.pick(&[0u8, 1, 50, 99, 100, 150, 190, 191, 238, 239, 254, 255])),
            "ConInfo" => { for i in 0..16 { out.push(if i == 2 { 0 } else { rng.byte() }); } },
            "SmallType" => { out.push(if wild { rng.byte() } else { rng.below(11) as u8 }); let v = match rng.below(4) { 0 => 0u32, 1 => u32::MAX, 2 => rng.below(4) as u32, _ => rng.next() as u32 }; out.extend_from_slice(&v.to_le_bytes()); },
            "CimMode" => { out.push(if wild { rng.byte() } else { rng.below(7) as u8 }); out.push(if wild { rng.byte() } else { rng.below(5) as u8 }); out.push(rng.byte()); },
            "GameVersion" => { let mut v = if wild { vec![rng.byte(), b'.', b'7'] } else { rng.pick(&["0.7E", "0.6V3", "0.7D64", "0.7D0", "0.6A0", "0.70A", "1", "0.04k", "0.000001", "12345678", "0.7D1234", "1234567", "0.00001", "9999.999"]).as_bytes().to_vec() }; v.resize(8, 0); out.extend_from_slice(&v); },
            _ => {},
        },
        _ => {},
    }
}

fn gen_fields(rng: &mut Rng, fields: &[Value], o: &GenOpts, count: usize, out: &mut Vec<u8>) {
    for f in fields {
        for _ in 0..f["rb"].as_u64().unwrap_or(0) { out.push(0); }
        gen_field(rng, &f["ty"], o, count, out);
        for _ in 0..f["ra"].as_u64().unwrap_or(0) { out.push(0); }
    }
}

/// a frame of the given kind (size byte, type, body), padded to a multiple of 4
pub fn gen_frame(rng: &mut Rng, l: &Value, compressed: bool, o: &GenOpts) -> Vec<u8> {
    let mut f = vec![0u8, l["type_no"].as_u64().unwrap() as u8];
    if l["custom_body"].as_bool() == Some(true) {
        // Mso: reqi pad ucid plid usertype textstart text
        // the name part may need codepage markers too: `textstart` counts *wire* bytes, not characters
        let name = gen_text(rng, 8, o.text).into_iter().filter(|b| *b != 0).collect::<Vec<u8>>();
        let msg = gen_text(rng, 24, o.text).into_iter().filter(|b| *b != 0).collect::<Vec<u8>>();
        let with_name = rng.chance(1, 2);
        f.extend_from_slice(&[rng.byte(), 0, rng.byte(), rng.byte(), rng.below(4) as u8, if with_name { name.len() as u8 } else { 0 }]);
        if with_name { f.extend_from_slice(&name); }
        f.extend_from_slice(&msg);
        f.push(0);
    } else {
        let t = &l["tail"];
        let cnt = o.count.unwrap_or_else(|| match rng.below(5) { 0 => 0, 1 => 1, 2 => 2, _ => rng.below(7) as usize });
        gen_fields(rng, l["fields"].as_array().unwrap(), o, cnt, &mut f);
        match t["k"].as_str() {
            Some("vec") => { for _ in 0..cnt { gen_fields(rng, t["elt"].as_array().unwrap(), o, 0, &mut f); } },
            // set elements are plain 32-bit values (mod ids, addresses): any value is one, including those whose bytes
            // spell a built-in car name, three alphanumerics, or nothing at all
            Some("set") => { for _ in 0..cnt {
                let v: u32 = match rng.below(8) {
                    0 => 0,
                    1 => u32::from_le_bytes(*rng.pick(&[*b"XFG\0", *b"UF1\0", *b"ABC\0", *b"xfg\0", *b"A1B\0", *b"XFGX"])),
                    2 => *rng.pick(&[1u32, 2, 0x00ff_ffff, 0x0100_0000, 0x7fff_ffff, u32::MAX]),
                    3 => rng.next() as u32,
                    _ => (rng.next() as u32) | 0x8000_0000,
                };
                f.extend_from_slice(&v.to_le_bytes());
            } },
            Some("streof") => { let n = [0usize, 1, 3, 4, 7, 8, 30, 63, 64][rng.below(9) as usize]; let t = gen_text(rng, n, o.text); f.extend_from_slice(&t.into_iter().filter(|b| *b != 0).collect::<Vec<u8>>()); f.push(0); },
            _ => {},
        }
    }
    while f.len() % 4 != 0 { f.push(0); }
    let max = if compressed { 1020 } else { 252 };
    f.truncate(max);
    f[0] = size_byte(compressed, f.len());
    f
}

// ------------------------------------------------------------------------------------------------
// second pass over the model's output: text tokens S<hex>/R<hex> -> s<code points>, non-finite floats

pub fn resolve(outdir: &std::path::Path) {
    // the decoder under test is also what turns the model's text tokens into code points: if it aborts, the token says so
    // (the line then differs from the implementation's and is reported as a disagreement, not as a crashed pass)
    let to_lossy_string = |b: &[u8]| -> String { let v = b.to_vec(); guard(move || insim_core::string::codepages::to_lossy_string(&v).to_string()).unwrap_or_else(|| "\u{1}decoder-abort".to_string()) };
    let text = std::fs::read_to_string(outdir.join("model.txt")).unwrap_or_default();
    let mut out = String::with_capacity(text.len());
    let conv = |tok: &str| -> String {
        if tok.len() >= 1 && (tok.starts_with('S') || tok.starts_with('R')) && (tok.len() == 1 || tok[1..].chars().all(|c| c.is_ascii_hexdigit() || c == '-')) {
            let b = unhex(&tok[1..]);
            let s = if tok.starts_with('S') { to_lossy_string(&b).to_string() } else { String::from_utf8_lossy(&b).to_string() };
            return str_tok(&s);
        }
        // the model keeps a version's number as its text; the crate holds it as an f32, which cannot tell "52345678" from
        // "52345680". Both sides are compared as the f32 the standard library parses from the text (C16's recorded assumption)
        if let Some(rest) = tok.strip_prefix("gv:") {
            let parts: Vec<&str> = rest.splitn(3, ':').collect();
            if parts.len() == 3 {
                if let Ok(f) = parts[0].parse::<f32>() { return format!("gv:{}:{}:{}", f, parts[1], parts[2]); }
            }
        }
        if let Some(bits) = tok.strip_prefix('f').and_then(|b| b.parse::<u32>().ok()) {
            if !f32::from_bits(bits).is_finite() { return "fnull".into(); }
        }
        tok.to_string()
    };
    for line in text.lines() {
        if let Some(rest) = line.strip_prefix("ok ").filter(|r| r.contains(" rem=")) {
            // ok Kind toks rem=n [| re=..]
            let (head, re) = match rest.find(" | re=") { Some(i) => (&rest[..i], &rest[i..]), None => (rest, "") };
            let mut parts = head.splitn(2, ' ');
            let kind = parts.next().unwrap_or("");
            let rest2 = parts.next().unwrap_or("");
            let (toks, rem) = match rest2.rfind(" rem=") { Some(i) => (&rest2[..i], &rest2[i..]), None => (rest2, "") };
            let mut vals: Vec<String> = vec![];
            // split on commas outside [] and {}
            let mut depth = 0; let mut cur = String::new();
            for ch in toks.chars() {
                match ch { '[' | '{' => { depth += 1; cur.push(ch); }, ']' | '}' => { depth -= 1; cur.push(ch); }, ',' if depth == 0 => { vals.push(std::mem::take(&mut cur)); }, _ => cur.push(ch) }
            }
            vals.push(cur);
            let conv_group = |g: &str| -> String {
                if (g.starts_with('[') && g.ends_with(']')) || (g.starts_with('{') && g.ends_with('}')) {
                    let (o, c) = (&g[..1], &g[g.len() - 1..]);
                    let inner = &g[1..g.len() - 1];
                    let es: Vec<String> = if inner.is_empty() { vec![] } else { inner.split(';').map(|e| e.split(',').map(|t| conv(t)).collect::<Vec<_>>().join(",")).collect() };
                    format!("{}{}{}", o, es.join(";"), c)
                } else { conv(g) }
            };
            let raw_vals = vals.clone();
            let mut vals: Vec<String> = vals.iter().map(|v| conv_group(v)).collect();
            if kind == "Mso" && vals.len() == 6 {
                // the model keeps the name part and the message part as bytes (each cut at its first NUL). IS_MSO's
                // text is ONE string: a codepage selected inside the name stays selected after it, so the joined bytes
                // are decoded in one go; textstart = UTF-8 length of the decoded name (as u8)
                let bytes_of = |t: &str| -> Vec<u8> { if t.starts_with('S') { unhex(&t[1..]) } else { vec![] } };
                let (nb, mb) = (bytes_of(&raw_vals[4]), bytes_of(&raw_vals[5]));
                let name = to_lossy_string(&nb).to_string();
                let joined = to_lossy_string(&[nb.clone(), mb].concat()).to_string();
                vals[4] = ((name.len() as u8) as u64).to_string();
                vals[5] = str_tok(&joined);
            }
            out.push_str(&format!("ok {} {}{}{}", kind, vals.join(","), rem, re));
        } else if let Some(rest) = line.strip_prefix("msoplan ") {
            // IS_MSO's typed reader (mso.rd): the model names which codec decodes which bytes of the name part and of the whole
            // text; encoding_rs does the decoding; textstart = UTF-8 length of the decoded name, as the u8 it is stored in
            let (pn, pw) = rest.split_once(" # ").unwrap_or((rest, "-"));
            match (crate::c10::resolve_plan(pn), crate::c10::resolve_plan(pw)) {
                (Some(n), Some(w)) => out.push_str(&format!("{} {}", n.len() as u8, crate::text::cps(&w))),
                _ => out.push_str(&format!("unresolved {}", rest)),
            }
        } else {
            out.push_str(line);
        }
        out.push('\n');
    }
    std::fs::write(outdir.join("model.txt"), out).unwrap();
}

pub fn frame_text(compressed: bool, frame: &[u8]) -> String {
    format!("{} {}", mode_tok(compressed), hex(frame))
}
