//! C16 — game versions: parse, print, order.
use crate::common::*;
use insim_core::game_version::{GameVersion, GameVersionParseError};
use std::cmp::Ordering;
use std::str::FromStr;

fn tokens(s: &str) -> String {
    if s.is_empty() { return "-".into(); }
    s.chars().map(|c| format!("{}{}", c as u32, if c.is_numeric() { "n" } else { "" })).collect::<Vec<_>>().join(",")
}
fn cps(s: &str) -> String {
    if s.is_empty() { return "-".into(); }
    s.chars().map(|c| (c as u32).to_string()).collect::<Vec<_>>().join(",")
}
fn from_tokens(t: &str) -> String {
    if t == "-" { return String::new(); }
    t.split(',').map(|x| char::from_u32(x.trim_end_matches('n').parse::<u32>().unwrap()).unwrap()).collect()
}
fn gv_tok(v: &GameVersion) -> String {
    format!("{} {} {}", v.major.to_bits(), v.minor as u32, v.patch.map(|p| p.to_string()).unwrap_or("-".into()))
}
type Parsed = Option<Result<GameVersion, GameVersionParseError>>;
struct Worker { tx: std::sync::mpsc::Sender<String>, rx: std::sync::mpsc::Receiver<Parsed> }
thread_local! {
    /// the parser runs on a worker thread: a call that does not return within the deadline is reported (the property says
    /// "never loops") and the stuck worker is abandoned for a fresh one
    static WORKER: std::cell::RefCell<Option<Worker>> = const { std::cell::RefCell::new(None) };
    static HUNG: std::cell::RefCell<Vec<String>> = const { std::cell::RefCell::new(Vec::new()) };
}
fn spawn_worker() -> Worker {
    let (tx, wrx) = std::sync::mpsc::channel::<String>();
    let (wtx, rx) = std::sync::mpsc::channel::<Parsed>();
    let _ = std::thread::Builder::new().name("gv-parse".into()).spawn(move || {
        while let Ok(s) = wrx.recv() {
            let r = guard(move || GameVersion::from_str(&s));
            if wtx.send(r).is_err() { break; }
        }
    });
    Worker { tx, rx }
}
fn parse(s: &str) -> Parsed {
    if HUNG.with(|h| h.borrow().iter().any(|x| x == s)) { return None; }
    WORKER.with(|w| {
        let mut w = w.borrow_mut();
        if w.is_none() { *w = Some(spawn_worker()); }
        let wk = w.as_ref().unwrap();
        if wk.tx.send(s.to_string()).is_err() { *w = None; return None; }
        match wk.rx.recv_timeout(std::time::Duration::from_secs(3)) {
            Ok(r) => r,
            Err(_) => { HUNG.with(|h| h.borrow_mut().push(s.to_string())); *w = None; None },
        }
    })
}
fn hung(s: &str) -> bool { HUNG.with(|h| h.borrow().iter().any(|x| x == s)) }
fn parse_tok(r: &Option<Result<GameVersion, GameVersionParseError>>) -> String {
    match r {
        None => "panic".into(),
        Some(Ok(v)) => format!("ok {}", gv_tok(v)),
        Some(Err(GameVersionParseError::Major(_))) => "err major".into(),
        Some(Err(GameVersionParseError::Minor(_))) => "err minor".into(),
        Some(Err(GameVersionParseError::Patch(_))) => "err patch".into(),
    }
}
fn ord_tok(o: Ordering) -> &'static str {
    match o { Ordering::Less => "lt", Ordering::Equal => "eq", Ordering::Greater => "gt" }
}

fn do_parse(ctx: &mut Ctx, s: &str, pool: &mut Vec<GameVersion>) {
    // every call that does not return costs its deadline and leaves a spinning thread behind: after five of them the point is made
    if HUNG.with(|h| h.borrow().len()) >= 5 { ctx.count("gv.parse cases skipped after five calls that did not return"); return; }
    let op = format!("gv.parse {}", tokens(s));
    let r = parse(s);
    ctx.case(&op, &parse_tok(&r));
    match r {
        None if hung(s) => ctx.violation("c16/parse/loop", "FromStr did not return within 3 seconds", &op, "value or error", "no answer"),
        None => ctx.violation("c16/parse/panic", "FromStr panicked", &op, "value or error", "panic"),
        Some(Ok(v)) => {
            // printed form parses back to an equal version (finite numbers)
            if v.major.is_finite() {
                let printed = v.to_string();
                match parse(&printed) {
                    Some(Ok(v2)) if v2 == v => {},
                    other => ctx.violation("c16/print-parse", "printed form does not parse back to an equal version", &op, &printed, &parse_tok(&other)),
                }
                let op2 = format!("gv.print {} {}", gv_tok(&v), cps(&v.major.to_string()));
                ctx.case(&op2, &cps(&printed));
            }
            // case-insensitive in the letter
            let lower: String = s.chars().map(|c| if c.is_ascii_alphabetic() { c.to_ascii_lowercase() } else { c }).collect();
            let upper: String = s.chars().map(|c| if c.is_ascii_alphabetic() { c.to_ascii_uppercase() } else { c }).collect();
            match (parse(&lower), parse(&upper)) {
                (Some(Ok(a)), Some(Ok(b))) if a == v && b == v && a.minor == b.minor => {},
                (a, b) => ctx.violation("c16/case", "letter case changes the parsed version", &op, &parse_tok(&Some(Ok(v.clone()))), &format!("{} / {}", parse_tok(&a), parse_tok(&b))),
            }
            if v.major.is_nan() || v.major.is_sign_negative() {
                ctx.violation("c16/parse/nan-or-negative", "parser produced a NaN or negative number", &op, "non-negative number", &gv_tok(&v));
            }
            if pool.len() < 400 { pool.push(v); }
        },
        Some(Err(_)) => {},
    }
}

fn do_cmp(ctx: &mut Ctx, a: &GameVersion, b: &GameVersion) {
    let op = format!("gv.cmp {} {}", gv_tok(a), gv_tok(b));
    let (a2, b2) = (a.clone(), b.clone());
    let r = guard(move || (a2.cmp(&b2), a2 == b2));
    match r {
        None => { ctx.case(&op, "panic"); ctx.violation("c16/cmp/panic", "cmp panicked", &op, "ordering", "panic"); },
        Some((o, e)) => {
            ctx.case(&op, &format!("{} {}", ord_tok(o), e as u8));
            if (o == Ordering::Equal) != e {
                ctx.violation("c16/order/eq-consistency", "cmp == Equal disagrees with ==", &op, &format!("{}", e), ord_tok(o));
            }
            // the comparison operators are the same order: partial_cmp, <, <=, >, >= all agree with cmp
            let pc = a.partial_cmp(b);
            let ops_ok = (a < b) == (o == Ordering::Less) && (a <= b) == (o != Ordering::Greater) && (a > b) == (o == Ordering::Greater) && (a >= b) == (o != Ordering::Less);
            if pc != Some(o) || !ops_ok {
                ctx.violation("c16/order/operators", "partial_cmp or a comparison operator disagrees with cmp", &op, ord_tok(o), &format!("partial_cmp {:?}; < {} <= {} > {} >= {}", pc, a < b, a <= b, a > b, a >= b));
            }
            let rev = b.cmp(a);
            if rev != o.reverse() {
                ctx.violation("c16/order/antisymmetry", "cmp(a,b) is not the reverse of cmp(b,a)", &op, ord_tok(o.reverse()), ord_tok(rev));
            }
            // number, then letter, then revision (missing = 0)
            let expect = a.major.partial_cmp(&b.major).unwrap_or(Ordering::Equal)
                .then(a.minor.cmp(&b.minor)).then(a.patch.unwrap_or(0).cmp(&b.patch.unwrap_or(0)));
            if expect != o {
                ctx.violation("c16/order/lexicographic", "order is not number, then letter, then revision", &op, ord_tok(expect), ord_tok(o));
            }
        },
    }
}

/// one 8-byte wire form through the IS_VER reader and writer
fn wire_case(ctx: &mut Ctx, text: &str, compressed: bool) {
    use crate::pkt::{real_decode, real_encode, Dec};
    let op = format!("gv.wire {} {}", if compressed { "c" } else { "u" }, if text.is_empty() { "-".to_string() } else { hex(text.as_bytes()) });
    ctx.oracle_eval("wire");
    let mut f = vec![if compressed { 5u8 } else { 20 }, 2, 1, 0];
    let mut v = text.as_bytes().to_vec(); v.resize(8, 0);
    f.extend_from_slice(&v);
    f.extend_from_slice(b"S3\0\0\0\0");
    f.extend_from_slice(&[9, 0]);
    let parsed = { let t = text.to_string(); guard(move || GameVersion::from_str(&t).ok()) };
    match (parsed, real_decode(compressed, &f)) {
        (Some(Some(want)), Dec::Pkt(insim::Packet::Ver(ver), _)) => {
            if ver.version != want || ver.version.cmp(&want) != std::cmp::Ordering::Equal {
                ctx.violation("c16/wire/read", "the 8-byte wire field does not decode to the version its text parses to", &op, &format!("{}", want), &format!("{}", ver.version));
            }
            // written back: the printed form, cut to the field, NUL-padded
            let printed = format!("{}", ver.version);
            let mut expect = printed.as_bytes().to_vec(); expect.truncate(8); expect.resize(8, 0);
            match real_encode(compressed, &insim::Packet::Ver(ver)) {
                Some(Ok(e)) if e.len() == 20 && e[4..12] == expect[..] => {},
                Some(Ok(e)) => ctx.violation("c16/wire/write", "the 8-byte wire field written for a version is not its printed form cut to 8 bytes and NUL-padded", &op, &hex(&expect), &hex(&e[4.min(e.len())..12.min(e.len())])),
                other => ctx.violation("c16/wire/write", "an IS_VER decoded from the wire cannot be written", &op, &hex(&expect), &format!("{:?}", other.map(|r| r.is_ok()))),
            }
        },
        (Some(None), Dec::Pkt(insim::Packet::Ver(ver), _)) => ctx.violation("c16/wire/read", "a text that does not parse as a version is accepted on the wire", &op, "a decode error", &format!("{}", ver.version)),
        (Some(Some(want)), Dec::ErrDecode(_)) => ctx.violation("c16/wire/read", "a text that parses as a version is rejected on the wire", &op, &format!("{}", want), "decode error"),
        (None, _) | (_, Dec::Panic) => ctx.violation("c16/wire/panic", "parsing the wire text panicked", &op, "value or error", "panic"),
        _ => {},
    }
}

pub fn run(ctx: &mut Ctx) {
    let mut pool: Vec<GameVersion> = vec![];
    if let Some(lines) = ctx.replay.clone() {
        for l in lines {
            let w: Vec<&str> = l.split_whitespace().collect();
            match w.as_slice() {
                ["gv.parse", t] => do_parse(ctx, &from_tokens(t), &mut pool),
                ["gv.wire", m, h] => wire_case(ctx, &String::from_utf8_lossy(&if *h == "-" { vec![] } else { unhex(h) }), *m == "c"),
                ["gv.cmp", a1, a2, a3, b1, b2, b3] => {
                    let mk = |x: &str, y: &str, z: &str| GameVersion { major: f32::from_bits(x.parse().unwrap()), minor: char::from_u32(y.parse().unwrap()).unwrap(), patch: if z == "-" { None } else { Some(z.parse().unwrap()) } };
                    do_cmp(ctx, &mk(a1, a2, a3), &mk(b1, b2, b3));
                },
                _ => {},
            }
        }
        return;
    }
    // exhaustive strings over a small alphabet of class representatives
    let alpha: Vec<char> = vec!['0', '7', '.', 'A', 'z', '-', '\u{b2}', '\u{663}'];
    let maxlen = if ctx.quick() { 5 } else { 7 };
    let mut total = 0u64;
    for len in 0..=maxlen {
        let n = (alpha.len() as u64).pow(len as u32);
        for idx in 0..n {
            let mut s = String::new();
            let mut x = idx;
            for _ in 0..len { s.push(alpha[(x % alpha.len() as u64) as usize]); x /= alpha.len() as u64; }
            do_parse(ctx, &s, &mut pool);
            total += 1;
        }
    }
    ctx.exhaustive_domains.push(format!("all {} strings over {{0 7 . A z - ² ٣}} up to length {}", total, maxlen));
    // the shape LFS emits, incl. 8-byte wire forms (NUL-trimmed by the Ver reader), and known versions
    let known = ["0.7F", "0.7E15", "0.7D64", "0.6W60", "0.6V", "0.04k", "0.3H", "0.5X10", "0.7", "1", "1.", ".5", "0.7A0", "0.7A00", "0.7a12",
        "0.70D", "00.7D", "0.7D18446744073709551615", "0.7D18446744073709551616", "340282350000000000000000000000000000000A",
        "3402823700000000000000000000000000000000A", "0.000000000000000000000000000000000000000000001B", "16777217C2", "0.1Z9", "9.9z99"];
    for k in known { do_parse(ctx, k, &mut pool); }
    for maj in ["0.1", "0.2", "0.3", "0.5", "0.6", "0.7", "0.04", "1.0", "12.5"] {
        for letter in ['A', 'D', 'k', 'Z'] {
            for rev in ["", "1", "9", "10", "64", "255"] {
                let s = format!("{}{}{}", maj, letter, rev);
                if s.len() <= 8 { do_parse(ctx, &s, &mut pool); }
            }
        }
    }
    // every ASCII letter in both cases, and the characters just outside the two ranges
    for c in ('@'..='[').chain('`'..='{') {
        for t in [format!("0.7{}", c), format!("0.7{}12", c), format!("{}", c), format!("1{}0", c)] { do_parse(ctx, &t, &mut pool); }
    }
    // the 8-byte wire field: an IS_VER frame carrying the text decodes to the version the text parses to, and written back
    // it carries the version's printed form (cut to 8 bytes, NUL-padded) — which parses to an equal version when it fits
    {
        let mut texts: Vec<String> = vec![];
        for maj in ["0.1", "0.6", "0.7", "0.04", "1", "12.5", "0.125", "7"] {
            for letter in ['A', 'E', 'k', 'Z', 'z'] {
                for rev in ["", "1", "9", "12", "123", "1234", "12345"] { let t = format!("{}{}{}", maj, letter, rev); if t.len() <= 8 { texts.push(t); } }
            }
        }
        for t in ["0.7", "1", "12345678", "0.000001", ""] { texts.push(t.to_string()); }
        for t in texts { for compressed in [true, false] { wire_case(ctx, &t, compressed); } }
    }
    // random unicode / longer strings
    let n = if ctx.quick() { 3000 } else { 300_000 };
    let classes: Vec<char> = "0123456789..ABCDEFXYZabcxyz -+eE_\u{0}\u{b2}\u{bc}\u{663}\u{e9}\u{3b1}\u{4e00}\u{1f600}\u{2167}\u{ff11}".chars().collect();
    for _ in 0..n {
        let len = ctx.rng.below(12) as usize;
        let mut s = String::new();
        let shaped = ctx.rng.chance(1, 2);
        for i in 0..len {
            let c = if shaped && i < 3 { *ctx.rng.pick(&classes[..12]) } else { *ctx.rng.pick(&classes) };
            s.push(c);
        }
        do_parse(ctx, &s, &mut pool);
    }
    // the order at the ends of the revision's range: the letter outranks any revision, a missing revision is revision 0
    {
        let revs: Vec<Option<usize>> = vec![None, Some(0), Some(1), Some(255), Some(65535), Some(65536), Some(u32::MAX as usize - 1), Some(u32::MAX as usize), Some(u32::MAX as usize + 1),
            Some(9_999_999_999), Some(1usize << 40), Some(1usize << 63), Some(usize::MAX - 1), Some(usize::MAX)];
        let mut ext: Vec<GameVersion> = vec![];
        for major in [0.6f32, 0.7] { for minor in ['A', 'B', 'Z'] { for r in &revs { ext.push(GameVersion { major, minor, patch: *r }); } } }
        for a in &ext { for b in &ext { do_cmp(ctx, a, b); } }
        ctx.exhaustive_domains.push(format!("order on all pairs of {} versions: 2 numbers x 3 letters x 14 revisions from none to usize::MAX", ext.len()));
    }
    // order axioms over all pairs and triples of the parsed pool
    pool.sort_by(|a, b| gv_tok(a).cmp(&gv_tok(b)));
    pool.dedup_by(|a, b| gv_tok(a) == gv_tok(b));
    let m = pool.len().min(if ctx.quick() { 60 } else { 200 });
    for i in 0..m {
        for j in 0..m {
            do_cmp(ctx, &pool[i].clone(), &pool[j].clone());
        }
    }
    let mt = m.min(if ctx.quick() { 40 } else { 120 });
    for i in 0..mt {
        for j in 0..mt {
            for k in 0..mt {
                ctx.oracle_eval("order-triples");
                let (a, b, c) = (&pool[i], &pool[j], &pool[k]);
                if a.cmp(b) != Ordering::Greater && b.cmp(c) != Ordering::Greater && a.cmp(c) == Ordering::Greater {
                    ctx.violation("c16/order/transitivity", "a <= b and b <= c but a > c", &format!("gv.cmp {} {}", gv_tok(a), gv_tok(c)), "le", "gt");
                }
                if a == b && a.cmp(c) != b.cmp(c) {
                    ctx.violation("c16/order/congruence", "equal versions compare differently against a third", &format!("gv.cmp {} {}", gv_tok(a), gv_tok(c)), ord_tok(b.cmp(c)), ord_tok(a.cmp(c)));
                }
            }
        }
    }
    ctx.exhaustive_domains.push(format!("order axioms on all pairs of {} and all triples of {} parsed versions", m, mt));
    // law of the abstracted float functions: printing a finite non-negative f32 gives digits/dots that parse back (sample; thorough: stride over all bit patterns)
    let stride: u32 = if ctx.quick() { 1 << 17 } else { 1 << 7 };
    let mut bits = 0u32;
    while bits < 0x7f80_0000 {
        let f = f32::from_bits(bits);
        let p = f.to_string();
        ctx.oracle_eval("float-law");
        if !(p.chars().all(|c| c.is_ascii_digit() || c == '.') && p.parse::<f32>().map(|g| g.to_bits()) == Ok(bits)) {
            ctx.violation("c16/law/float-print-parse", "assumed law of f32 Display/FromStr fails", &format!("bits {}", bits), "digits/dots that parse back", &p);
        }
        // and the model's own decimal->f32 on the same string (checked via a gv.parse line)
        if bits % (stride * 64) == 0 {
            do_parse(ctx, &format!("{}A", p), &mut vec![]);
        }
        bits = bits.saturating_add(stride + (bits % 7));
    }
}
