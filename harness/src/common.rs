use std::collections::{BTreeMap, BTreeSet};
use std::fs::File;
use std::io::{BufWriter, Write};
use std::path::PathBuf;

#[derive(Clone, Copy, PartialEq, Eq, Debug)]
pub enum Tier {
    Quick,
    Thorough,
}

/// xorshift64* — every random choice of a run derives from this one state
pub struct Rng(pub u64);
impl Rng {
    pub fn new(seed: u64) -> Self {
        Rng(seed.wrapping_mul(0x9E3779B97F4A7C15) | 1)
    }
    pub fn next(&mut self) -> u64 {
        let mut x = self.0;
        x ^= x >> 12;
        x ^= x << 25;
        x ^= x >> 27;
        self.0 = x;
        x.wrapping_mul(0x2545F4914F6CDD1D)
    }
    pub fn below(&mut self, n: u64) -> u64 {
        if n == 0 { 0 } else { self.next() % n }
    }
    pub fn byte(&mut self) -> u8 {
        (self.next() >> 32) as u8
    }
    pub fn pick<'a, T>(&mut self, xs: &'a [T]) -> &'a T {
        &xs[self.below(xs.len() as u64) as usize]
    }
    pub fn chance(&mut self, num: u64, den: u64) -> bool {
        self.below(den) < num
    }
}

pub fn hex(bs: &[u8]) -> String {
    if bs.is_empty() {
        return "-".into();
    }
    let mut s = String::with_capacity(bs.len() * 2);
    for b in bs {
        s.push_str(&format!("{:02x}", b));
    }
    s
}

pub fn unhex(s: &str) -> Vec<u8> {
    if s == "-" {
        return vec![];
    }
    (0..s.len() / 2).map(|i| u8::from_str_radix(&s[2 * i..2 * i + 2], 16).unwrap()).collect()
}

pub struct Ctx {
    pub id: String,
    pub tier: Tier,
    pub seed: u64,
    pub rng: Rng,
    pub out: PathBuf,
    ops: BufWriter<File>,
    imp: BufWriter<File>,
    oracle: BufWriter<File>,
    pub lines: u64,
    pub evaluations: u64,
    distinct: BTreeSet<u64>,
    pub distribution: BTreeMap<String, u64>,
    pub samples: Vec<String>,
    pub exhaustive_domains: Vec<String>,
    pub violations: u64,
    seen_sigs: BTreeMap<String, u64>,
    /// replay mode: the only op lines to run (from a replay file)
    pub replay: Option<Vec<String>>,
}

impl Ctx {
    pub fn new(id: &str, tier: Tier, seed: u64, out: PathBuf) -> Self {
        std::fs::create_dir_all(&out).unwrap();
        let f = |n: &str| BufWriter::new(File::create(out.join(n)).unwrap());
        Ctx {
            id: id.into(),
            tier,
            seed,
            rng: Rng::new(seed),
            ops: f("ops.txt"),
            imp: f("impl.txt"),
            oracle: f("oracle.jsonl"),
            out,
            lines: 0,
            evaluations: 0,
            distinct: BTreeSet::new(),
            distribution: BTreeMap::new(),
            samples: vec![],
            exhaustive_domains: vec![],
            violations: 0,
            seen_sigs: BTreeMap::new(),
            replay: None,
        }
    }
    pub fn quick(&self) -> bool {
        self.tier == Tier::Quick
    }
    /// one correspondence line: the op for the model and what the real code answered
    pub fn case(&mut self, op: &str, result: &str) {
        debug_assert!(!op.contains('\n') && !result.contains('\n'));
        writeln!(self.ops, "{}", op).unwrap();
        writeln!(self.imp, "{}", result).unwrap();
        self.lines += 1;
        self.evaluations += 1;
        // distinct & non-trivial: distinct op text; bucket by result class
        let h = fxhash(op.as_bytes());
        let _ = self.distinct.insert(h);
        // bucket = operation name x result class (a small vocabulary; anything else is just "value")
        let mut it = result.split(' ');
        let first = it.next().unwrap_or("");
        let class = match first {
            "ok" | "panic" | "abort" | "practice" | "laps" | "hours" | "-" => first.to_string(),
            "err" => format!("err {}", it.next().unwrap_or("").split('(').next().unwrap_or("")),
            _ => "value".to_string(),
        };
        let key = format!("{} -> {}", op.split(' ').next().unwrap_or(""), class);
        if self.distribution.len() < 400 || self.distribution.contains_key(&key) {
            *self.distribution.entry(key).or_insert(0) += 1;
        }
        if self.samples.len() < 12 && (self.lines < 4 || self.rng.chance(1, 1 + self.lines / 8)) {
            self.samples.push(format!("{} => {}", truncate(op, 160), truncate(result, 160)));
        }
    }
    /// an evaluation by the implementation-side oracle only (no model line)
    pub fn oracle_eval(&mut self, bucket: &str) {
        self.evaluations += 1;
        *self.distribution.entry(format!("oracle:{}", bucket)).or_insert(0) += 1;
    }
    pub fn oracle_eval_n(&mut self, bucket: &str, n: u64) {
        self.evaluations += n;
        *self.distribution.entry(format!("oracle:{}", bucket)).or_insert(0) += n;
    }
    pub fn count(&mut self, bucket: &str) {
        *self.distribution.entry(bucket.to_string()).or_insert(0) += 1;
    }
    /// the real code violates the property's observable statement on `input`
    pub fn violation(&mut self, sig: &str, what: &str, input: &str, expected: &str, observed: &str) {
        let n = self.seen_sigs.entry(sig.to_string()).or_insert(0);
        *n += 1;
        self.violations += 1;
        if *n > 5 {
            return; // keep the first few examples per signature
        }
        let v = serde_json::json!({"sig": sig, "what": what, "input": input, "expected": expected, "observed": observed});
        writeln!(self.oracle, "{}", v).unwrap();
    }
    pub fn finish(mut self) {
        self.ops.flush().unwrap();
        self.imp.flush().unwrap();
        self.oracle.flush().unwrap();
        let sig_counts: BTreeMap<String, u64> = self.seen_sigs.clone();
        let stats = serde_json::json!({
            "id": self.id, "seed": self.seed, "tier": format!("{:?}", self.tier).to_lowercase(),
            "lines": self.lines, "evaluations": self.evaluations,
            "distinct_nontrivial": self.distinct.len(),
            "distribution": self.distribution, "samples": self.samples,
            "exhaustive_domains": self.exhaustive_domains,
            "oracle_violations": self.violations, "oracle_signatures": sig_counts,
        });
        std::fs::write(self.out.join("stats.json"), serde_json::to_string_pretty(&stats).unwrap()).unwrap();
    }
}

pub fn truncate(s: &str, n: usize) -> String {
    if s.len() <= n { s.to_string() } else {
        let mut e = n;
        while !s.is_char_boundary(e) { e -= 1; }
        format!("{}…", &s[..e])
    }
}

pub fn fxhash(bs: &[u8]) -> u64 {
    let mut h: u64 = 0xcbf29ce484222325;
    for b in bs {
        h ^= *b as u64;
        h = h.wrapping_mul(0x100000001b3);
    }
    h
}

/// run `f`, mapping a panic to `None` (the model's `panic` token)
pub fn guard<T>(f: impl FnOnce() -> T + std::panic::UnwindSafe) -> Option<T> {
    std::panic::catch_unwind(f).ok()
}

pub fn silence_panics() {
    std::panic::set_hook(Box::new(|_| {}));
}

/// a `Read + Seek` that hands over at most `per` bytes per `read` call — legal for any reader, and what a small
/// `BufReader` or a socket does; decoders that call `read` where they mean `read_exact` show up here
pub struct Dribble { pub inner: std::io::Cursor<Vec<u8>>, pub per: usize }
impl Dribble { pub fn new(b: &[u8], per: usize) -> Self { Dribble { inner: std::io::Cursor::new(b.to_vec()), per } } }
impl std::io::Read for Dribble { fn read(&mut self, buf: &mut [u8]) -> std::io::Result<usize> { let n = buf.len().min(self.per); self.inner.read(&mut buf[..n]) } }
impl std::io::Seek for Dribble { fn seek(&mut self, p: std::io::SeekFrom) -> std::io::Result<u64> { self.inner.seek(p) } }

/// a `Write + Seek` that accepts at most `per` bytes per `write` call — legal for any writer; encoders that call
/// `write` where they mean `write_all` show up here
pub struct DribbleW { pub inner: std::io::Cursor<Vec<u8>>, pub per: usize }
impl DribbleW { pub fn new(per: usize) -> Self { DribbleW { inner: std::io::Cursor::new(vec![]), per } } }
impl std::io::Write for DribbleW {
    fn write(&mut self, buf: &[u8]) -> std::io::Result<usize> { let n = buf.len().min(self.per); self.inner.write(&buf[..n]) }
    fn flush(&mut self) -> std::io::Result<()> { Ok(()) }
}
impl std::io::Seek for DribbleW { fn seek(&mut self, p: std::io::SeekFrom) -> std::io::Result<u64> { self.inner.seek(p) } }
