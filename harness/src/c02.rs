//! C02 — the wire layout conforms to the InSim v9 / relay specification.
//!
//! A table-driven reference codec builds frames from the *specification* table (lean/Insim/Gen/spec.json,
//! generated from DESIGN-appendix-spec.md; nothing under /repo is read to produce it). Every frame is
//! decoded by the real codec and read back through the public struct fields (their serde image), field by
//! field, and re-encoded: the bytes must be identical. Model lines (`pkt.rt`) run the same frames through
//! the Lean generic codec over the layouts regenerated from the source.
use crate::c01::rt_case;
use crate::common::*;
use crate::pkt::*;
use serde_json::Value;

fn load_spec() -> Value {
    let p = concat!(env!("CARGO_MANIFEST_DIR"), "/../lean/Insim/Gen/spec.json");
    serde_json::from_str(&std::fs::read_to_string(p).expect("spec.json (run translate/spec.py first)")).unwrap()
}

fn norm(s: &str) -> String {
    s.chars().filter(|c| c.is_ascii_alphanumeric()).map(|c| c.to_ascii_lowercase()).collect()
}

/// look a normalised path (`info[0].hmass`) up in a serde image whose keys are Rust field names
fn get_norm<'a>(v: &'a Value, path: &str) -> Option<&'a Value> {
    let mut cur = v;
    for part in path.split('.') {
        if part.is_empty() { continue; }
        let (name, idx) = match part.find('[') {
            Some(i) => (&part[..i], part[i + 1..part.len() - 1].parse::<usize>().ok()),
            None => (part, None),
        };
        let obj = cur.as_object()?;
        cur = obj.iter().find(|(k, _)| norm(k) == name).map(|(_, v)| v)?;
        if let Some(i) = idx { cur = cur.get(i)?; }
    }
    Some(cur)
}

#[derive(Clone, Debug, PartialEq)]
enum FV {
    Num(u64),
    Text(Vec<u8>),
}

fn put(buf: &mut [u8], off: usize, width: usize, v: &FV) {
    match v {
        FV::Num(n) => for i in 0..width { if off + i < buf.len() { buf[off + i] = (n >> (8 * i)) as u8; } },
        FV::Text(t) => for (i, b) in t.iter().take(width).enumerate() { if off + i < buf.len() { buf[off + i] = *b; } },
    }
}

fn fname<'a>(f: &'a Value) -> &'a str { match f["sub"].as_str() { Some(s) if !s.is_empty() => s, _ => f["name"].as_str().unwrap_or("") } }
fn cls<'a>(f: &'a Value) -> &'a str { f["cls"].as_str().unwrap_or("") }
fn width(f: &Value) -> usize { f["width"].as_u64().unwrap_or(1) as usize }

/// a harmless in-range value for a field, distinct per position where possible
fn baseline(kind: &str, f: &Value, salt: u64) -> FV {
    let w = width(f);
    match cls(f) {
        "spare" => FV::Num(0),
        "enum" => FV::Num(f["rows"][0][1].as_u64().unwrap_or(0)),
        "flags" => FV::Num(0),
        "text" => match (kind, fname(f)) {
            ("VER", "Version") => FV::Text(b"0.7F".to_vec()),
            (_, "Track") => FV::Text(b"BL1".to_vec()),
            _ => FV::Text(vec![b'a' + (salt % 26) as u8, b'b']),
        },
        "car" => FV::Text(b"XFG\0".to_vec()),
        "f32" => FV::Num(1.5f32.to_bits() as u64),
        "dur" => FV::Num(1 + salt % 50),
        "spclose" => FV::Num(1 + salt % 100),
        "sint" => FV::Num(1 + salt % 100),
        "bytes" => FV::Num(0x0100007f + (salt << 8)),
        _ => match (kind, fname(f)) {
            ("CON", "Info") => FV::Num(0),
            ("CON", "GearSp") => FV::Num(0x30),
            ("CON", "ThrBrk") | ("CON", "CluHan") => FV::Num(0x21),
            // values with a restricted range in the crate's types
            (_, "RaceLaps") => FV::Num(5),
            (_, "Fuel") | (_, "FuelAdd") | (_, "Fuel200") => FV::Num(50),
            (_, "H_Mass") => FV::Num(salt % 100),
            (_, "H_TRes") => FV::Num(salt % 50),
            ("SMALL", "UVal") => FV::Num(0),
            ("MSO", "TextStart") => FV::Num(0),
            ("CIM", _) | ("TTC", _) => FV::Num(0),
            _ => FV::Num(if w == 1 { 1 + salt % 100 } else { 1 + salt % 1000 }),
        },
    }
}

/// the test values of a field: every enumerant, every flag bit and all together, boundary integers, texts
fn test_values(kind: &str, f: &Value) -> Vec<FV> {
    let w = width(f);
    let max = if w >= 8 { u64::MAX } else { (1u64 << (8 * w)) - 1 };
    match cls(f) {
        "spare" => vec![],
        "enum" => f["rows"].as_array().unwrap().iter().map(|r| FV::Num(r[1].as_u64().unwrap())).collect(),
        "flags" => {
            let rows: Vec<u64> = f["rows"].as_array().unwrap().iter().map(|r| r[1].as_u64().unwrap()).collect();
            let mut v: Vec<FV> = rows.iter().map(|b| FV::Num(*b)).collect();
            v.push(FV::Num(rows.iter().fold(0, |a, b| a | b)));
            v.push(FV::Num(0));
            v
        },
        "text" => match (kind, fname(f)) {
            ("VER", "Version") => vec![FV::Text(b"0.7F".to_vec()), FV::Text(b"0.6U12".to_vec())],
            (_, "Track") => crate::pkt::all_track_codes().iter().map(|c| FV::Text(c.as_bytes().to_vec())).collect(),
            // every text field carries LFS codepage text (appendix section D) — a Latin-1 byte reads as that character;
            // the one exception is the admin password of IS_ISI, which the crate documents as the string's own bytes
            (k, n) => {
                let mut v = vec![FV::Text(b"x".to_vec()), FV::Text((0..w).map(|i| b'A' + (i % 26) as u8).collect()), FV::Text(vec![])];
                if w >= 4 && !(k == "ISI" && n == "Admin") { v.push(FV::Text(b"caf\xe9".to_vec())); }
                v
            },
        },
        // … and mod ids on every side of the "three alphanumerics + NUL" boundary: one non-alphanumeric byte in each
        // position, three alphanumerics with a non-zero fourth byte
        "car" => vec![FV::Text(b"XRT\0".to_vec()), FV::Text(b"FBM\0".to_vec()), FV::Num(0), FV::Num(0x00ABCDEF), FV::Num(0xDEADBEEF),
                      FV::Text(b"AB\xF3\0".to_vec()), FV::Text(b"A\xF3B\0".to_vec()), FV::Text(b"\xF3AB\0".to_vec()), FV::Text(b"X1 \0".to_vec()),
                      FV::Text(b"XFG\x01".to_vec()), FV::Text(b"a_b\0".to_vec()), FV::Num(1), FV::Num(0x00FFFFFF), FV::Num(0x01000000)],
        "f32" => vec![FV::Num(0), FV::Num(1.0f32.to_bits() as u64), FV::Num((-2.5f32).to_bits() as u64), FV::Num(f32::MAX.to_bits() as u64)],
        "dur" => vec![FV::Num(0), FV::Num(1), FV::Num(max), FV::Num(max / 2 + 1), FV::Num(6000)],
        // the four high bits are reserved ("high 4 bits : reserved / low 12 bits : closing speed"): a reader keeps the low twelve
        "spclose" => vec![FV::Num(0), FV::Num(1), FV::Num(4095), FV::Num(0x0800), FV::Num(0x107b), FV::Num(0xb07b), FV::Num(0xf000), FV::Num(0xffff)],
        "sint" => vec![FV::Num(0), FV::Num(1), FV::Num(max), FV::Num(max / 2), FV::Num(max / 2 + 1)],
        "bytes" => vec![FV::Num(0x04030201)],
        _ => match (kind, fname(f)) {
            ("CON", "Info") => vec![FV::Num(0), FV::Num(1), FV::Num(2), FV::Num(32)],
            ("CON", "GearSp") => vec![FV::Num(0x00), FV::Num(0x10), FV::Num(0x70), FV::Num(0xF0)],
            ("CON", "ThrBrk") | ("CON", "CluHan") => vec![FV::Num(0x00), FV::Num(0x0F), FV::Num(0xF0), FV::Num(0xA5)],
            (_, "RaceLaps") => (0..=238u64).map(FV::Num).collect(),
            (_, "Fuel") | (_, "FuelAdd") => vec![FV::Num(0), FV::Num(100), FV::Num(255)],
            (_, "Fuel200") => vec![FV::Num(0), FV::Num(200), FV::Num(255)],
            (_, "H_Mass") => vec![FV::Num(0), FV::Num(200)],
            (_, "H_TRes") => vec![FV::Num(0), FV::Num(50)],
            ("SMALL", "UVal") => vec![FV::Num(0), FV::Num(1), FV::Num(0x01020304)],
            ("MSO", "TextStart") => vec![FV::Num(0), FV::Num(2)],
            ("CIM", _) => vec![FV::Num(0)],
            _ => vec![FV::Num(0), FV::Num(1), FV::Num(max), FV::Num(0xA5A5A5A5A5A5A5A5 & max)],
        },
    }
}

struct Case {
    frame: Vec<u8>,
    /// (normalised json path, class, expected value, spec field json, label)
    expect: Vec<(String, FV, Value)>,
}

fn size_byte_of(compressed: bool, len: usize) -> u8 {
    if compressed { (len / 4) as u8 } else { len as u8 }
}

/// build the frame of `kind` with `vals[i]` in fixed field i, `elems` in a vector tail (values per element field), `text` in a text tail
fn image(k: &Value, compressed: bool, vals: &[FV], elems: &[Vec<FV>], text: &[u8]) -> Case {
    let size = k["size"].as_u64().unwrap() as usize;
    let fields = k["fields"].as_array().unwrap();
    let tail = &k["tail"];
    let mut len = size;
    let mut expect = vec![];
    if tail["k"] == "vec" {
        let es = tail["elt_size"].as_u64().unwrap() as usize;
        len += elems.len() * es;
        if elems.len() % 2 == 1 { len += tail["odd_pad"].as_u64().unwrap_or(0) as usize; }
    } else if tail["k"] == "text" {
        len += text.len();
    }
    let mut buf = vec![0u8; len];
    buf[1] = k["no"].as_u64().unwrap() as u8;
    for (i, f) in fields.iter().enumerate() {
        let off = f["off"].as_u64().unwrap() as usize;
        let mut v = vals[i].clone();
        if tail["k"] == "vec" && off == 3 { v = FV::Num(elems.len() as u64); }
        put(&mut buf, off, width(f), &v);
        if cls(f) != "spare" {
            expect.push((f["code"].as_str().unwrap_or("").to_string(), v, f.clone()));
        }
    }
    if tail["k"] == "vec" {
        let es = tail["elt_size"].as_u64().unwrap() as usize;
        let tcode = tail["code"].as_str().unwrap_or("");
        for (n, e) in elems.iter().enumerate() {
            for (j, f) in tail["elt"].as_array().unwrap().iter().enumerate() {
                let off = size + n * es + f["rel"].as_u64().unwrap() as usize;
                put(&mut buf, off, width(f), &e[j]);
                if cls(f) != "spare" {
                    let code = f["code"].as_str().unwrap_or("");
                    let path = if code.is_empty() { format!("{}[{}]", tcode, n) } else { format!("{}[{}].{}", tcode, n, code) };
                    expect.push((path, e[j].clone(), f.clone()));
                }
            }
        }
    } else if tail["k"] == "text" {
        buf[size..size + text.len()].copy_from_slice(text);
        let t: Vec<u8> = text.iter().copied().take_while(|b| *b != 0).collect();
        expect.push((tail["code"].as_str().unwrap_or("").to_string(), FV::Text(t), serde_json::json!({"cls": "text", "name": tail["name"], "width": text.len()})));
    }
    buf[0] = size_byte_of(compressed, len);
    Case { frame: buf, expect }
}

fn dur_ms_of(v: &Value) -> Option<u128> {
    Some(v.get("secs")?.as_u64()? as u128 * 1000 + (v.get("nanos")?.as_u64()? / 1_000_000) as u128)
}

fn signed(v: u64, w: usize) -> i64 {
    let bits = 8 * w as u32;
    if bits >= 64 { v as i64 } else if v >> (bits - 1) & 1 == 1 { (v as i64) - (1i64 << bits) } else { v as i64 }
}

enum Cmp { Ok, Untyped, Bad(String) }

/// compare what the public field holds with what the specification says the bytes mean
fn compare(f: &Value, want: &FV, got: &Value) -> Cmp {
    let w = width(f);
    let bad = |e: String| Cmp::Bad(format!("{} (field holds {})", e, truncate(&got.to_string(), 80)));
    match (cls(f), want) {
        ("enum", FV::Num(v)) => {
            let name = f["rows"].as_array().unwrap().iter().find(|r| r[1].as_u64() == Some(*v)).map(|r| r[0].as_str().unwrap_or("").to_string()).unwrap_or_default();
            let name = norm(&name);
            match got {
                Value::String(s) => if norm(s) == name { Cmp::Ok } else { bad(format!("enumerant {} should be {}", v, name)) },
                Value::Object(m) if m.len() == 1 => { let k = m.keys().next().unwrap(); if norm(k) == name { Cmp::Ok } else { bad(format!("enumerant {} should be {}", v, name)) } },
                Value::Number(n) => if n.as_u64() == Some(*v) { Cmp::Ok } else { bad(format!("value {}", v)) },
                _ => Cmp::Untyped,
            }
        },
        ("flags", FV::Num(v)) => {
            let mut names: Vec<String> = f["rows"].as_array().unwrap().iter().filter(|r| r[1].as_u64().unwrap_or(0) & v != 0 && r[1].as_u64().unwrap_or(0) != 0).map(|r| norm(r[0].as_str().unwrap_or(""))).collect();
            names.sort();
            let mut have: Vec<String> = match got {
                Value::String(s) => s.split('|').map(|p| norm(p.trim())).filter(|p| !p.is_empty()).collect(),
                Value::Object(m) if m.contains_key("inner") => m["inner"].as_array().map(|a| a.iter().filter_map(|x| x.as_str()).map(norm).collect()).unwrap_or_default(),
                Value::Number(n) => return if n.as_u64() == Some(*v) { Cmp::Ok } else { bad(format!("bits {:#x}", v)) },
                _ => return Cmp::Untyped,
            };
            have.sort();
            if have == names { Cmp::Ok } else { bad(format!("bits {:#x} should read as {:?}", v, names)) }
        },
        ("text", FV::Text(t)) => match got {
            Value::String(s) => {
                let want_s = if t.is_ascii() { String::from_utf8_lossy(t).to_string() } else { insim_core::string::codepages::to_lossy_string(t).to_string() };
                if *s == want_s || (fname(f) == "Track" && s.eq_ignore_ascii_case(&want_s)) { Cmp::Ok } else { bad(format!("text {:?}", want_s)) }
            },
            _ => Cmp::Untyped,
        },
        ("car", v) => {
            let bytes: Vec<u8> = match v { FV::Text(t) => { let mut b = t.clone(); b.resize(4, 0); b }, FV::Num(n) => (0..4).map(|i| (n >> (8 * i)) as u8).collect() };
            let builtin = bytes[3] == 0 && bytes[..3].iter().all(|b| b.is_ascii_alphanumeric());
            let id = u32::from_le_bytes([bytes[0], bytes[1], bytes[2], bytes[3]]);
            match got {
                Value::String(s) if builtin => if s.eq_ignore_ascii_case(std::str::from_utf8(&bytes[..3]).unwrap_or("")) { Cmp::Ok } else { bad("built-in car".into()) },
                Value::String(s) if id == 0 => if s == "Unknown" { Cmp::Ok } else { bad("all-zero car is unknown".into()) },
                Value::Object(m) if !builtin && id != 0 => if m.get("Mod").and_then(|x| x.as_u64()) == Some(id as u64) { Cmp::Ok } else { bad(format!("mod id {}", id)) },
                _ => bad("car class".into()),
            }
        },
        ("dur", FV::Num(v)) => match dur_ms_of(got) {
            Some(ms) => { let unit = f["unit"].as_u64().unwrap_or(1) as u128; if ms == *v as u128 * unit { Cmp::Ok } else { bad(format!("{} wire units of {} ms = {} ms, field holds {} ms", v, unit, *v as u128 * unit, ms)) } },
            None => Cmp::Untyped,
        },
        ("f32", FV::Num(v)) => match got.as_f64() {
            Some(x) => if (x as f32).to_bits() as u64 == *v { Cmp::Ok } else { bad(format!("float bits {:#x}", v)) },
            None => Cmp::Untyped,
        },
        ("sint", FV::Num(v)) => match got.as_i64() {
            Some(x) => if x == signed(*v, w) { Cmp::Ok } else { bad(format!("signed {}", signed(*v, w))) },
            None => Cmp::Untyped,
        },
        ("spclose", FV::Num(v)) => match got {
            Value::Number(n) => if n.as_u64() == Some(*v & 0xfff) { Cmp::Ok } else { bad(format!("closing speed {}", v & 0xfff)) },
            Value::Object(m) if m.len() == 1 => if m.values().next().and_then(|x| x.as_u64()) == Some(*v & 0xfff) { Cmp::Ok } else { Cmp::Untyped },
            _ => Cmp::Untyped,
        },
        ("uint", FV::Num(v)) if fname(f) == "GearSp" => match got.as_u64() {
            Some(x) => if x == *v >> 4 { Cmp::Ok } else { bad(format!("gear {} (high nibble)", v >> 4)) },
            None => Cmp::Untyped,
        },
        ("uint", FV::Num(v)) => match got {
            Value::Number(n) => if n.as_u64() == Some(*v) { Cmp::Ok } else { bad(format!("value {}", v)) },
            Value::Bool(b) => if *v <= 1 { if *b == (*v == 1) { Cmp::Ok } else { bad(format!("boolean {}", v)) } } else { Cmp::Untyped },
            _ => Cmp::Untyped,
        },
        _ => Cmp::Untyped,
    }
}

/// fields that exist on the wire but not as public struct fields (derived on write)
fn derived(kind: &str, f: &Value, is_vec: bool) -> bool {
    (is_vec && f["off"] == 3) || (kind == "MSO" && fname(f) == "TextStart")
}

/// set while C01 borrows this module's frames (see `canonical_frames_for_c01`)
static C01_MODE: std::sync::atomic::AtomicBool = std::sync::atomic::AtomicBool::new(false);

/// C01's second clause on frames that are canonical by construction: every frame this module builds from the
/// specification table with `canonical = true` is one the encoder can produce (spare bytes zero, defined enumerants and
/// flag bits, 0/1 booleans, NUL-padded text), so decoding it and encoding the result must give the identical bytes — a
/// reader that drops part of a field cannot hide behind its own projection here
pub fn canonical_frames_for_c01(ctx: &mut Ctx) {
    C01_MODE.store(true, std::sync::atomic::Ordering::Relaxed);
    run(ctx);
    C01_MODE.store(false, std::sync::atomic::Ordering::Relaxed);
}

fn run_case(ctx: &mut Ctx, ls: &Layouts, k: &Value, compressed: bool, c: &Case, label: &str, model_line: bool, canonical: bool) {
    let kind = k["name"].as_str().unwrap_or("?");
    let input = format!("pkt.rt {}", frame_text(compressed, &c.frame));
    if C01_MODE.load(std::sync::atomic::Ordering::Relaxed) {
        if !canonical { return; }
        ctx.oracle_eval("canonical-frame");
        if let Dec::Pkt(p, 0) = real_decode(compressed, &c.frame) {
            match real_encode(compressed, &p) {
                Some(Ok(b)) if b == c.frame => {},
                Some(Ok(b)) => {
                    let at = b.iter().zip(c.frame.iter()).position(|(x, y)| x != y).unwrap_or(b.len().min(c.frame.len()));
                    ctx.violation(&format!("c01/canonical-reencode/{}@{}", kind, at), &format!("decoding a frame the encoder can produce and re-encoding it does not give the identical bytes ({}; first difference at offset {})", label, at), &input, &hex(&c.frame), &hex(&b));
                },
                _ => {},
            }
        }
        return;
    }
    ctx.oracle_eval(&format!("spec-frame {}", kind));
    if model_line { rt_case(ctx, ls, compressed, &c.frame, true); }
    match real_decode(compressed, &c.frame) {
        Dec::Pkt(p, rem) => {
            if rem != 0 { ctx.violation(&format!("c02/{}/leftover", kind), "a specification-conformant frame is not consumed whole", &input, "rem=0", &rem.to_string()); }
            let v = serde_json::to_value(&p).unwrap();
            let inner = v.clone();
            let is_vec = k["tail"]["k"] == "vec";
            for (path, want, f) in &c.expect {
                if derived(kind, f, is_vec) { continue; }
                // codepage text: what it decodes to is C10's subject; here only where TextStart points (re-encoded bytes)
                if kind == "MSO" && label.starts_with("name=") && cls(f) == "text" { continue; }
                match get_norm(&inner, path) {
                    None => {
                        // hand-written values (IS_SMALL, CIM, CarContact, MSO): compared through the re-encoded bytes only
                        ctx.count(&format!("untyped (no public field of that name) {}.{}", kind, path));
                    },
                    Some(got) => match compare(f, want, got) {
                        Cmp::Ok => {},
                        Cmp::Untyped => ctx.count(&format!("untyped (shape) {}.{}", kind, path)),
                        Cmp::Bad(e) => ctx.violation(&format!("c02/{}/{}", kind, path), &format!("decoding a specification-conformant frame does not recover the value the specification assigns to {}.{}: {}", kind, fname(f), e), &input, &format!("{:?}", want), &truncate(&got.to_string(), 120)),
                    },
                }
            }
            if canonical {
                match real_encode(compressed, &p) {
                    Some(Ok(b)) if b == c.frame => {},
                    Some(Ok(b)) => {
                        let at = b.iter().zip(c.frame.iter()).position(|(x, y)| x != y).unwrap_or(b.len().min(c.frame.len()));
                        ctx.violation(&format!("c02/{}/encode@{}", kind, at), &format!("encoding the packet does not place the bytes where the specification puts them ({}; first difference at offset {})", label, at), &input, &hex(&c.frame), &hex(&b));
                    },
                    other => ctx.violation(&format!("c02/{}/encode-fails", kind), "a packet decoded from a specification-conformant frame cannot be encoded", &input, "bytes", &format!("{:?}", other.map(|r| r.is_ok()))),
                }
            }
        },
        Dec::Panic => ctx.violation(&format!("c02/{}/panic", kind), "decoding a specification-conformant frame panicked", &input, "packet", "panic"),
        _ => ctx.violation(&format!("c02/{}/rejected/{}", kind, label.split('=').next().unwrap_or("")), &format!("a specification-conformant frame is rejected ({})", label), &input, "packet", "error"),
    }
}

/// C15's clause on every time field, laid out by the *specification* (offset, width and unit from the transcription, not
/// from the crate's declarations): the wire value decodes to value x unit and re-encodes to the same bytes
pub fn time_fields_for_c15(ctx: &mut Ctx) {
    let ls = load_layouts();
    let spec = load_spec();
    let mut n = 0u64;
    for k in spec["kinds"].as_array().unwrap() {
        let kind = k["name"].as_str().unwrap_or("?").to_string();
        let fields = k["fields"].as_array().unwrap();
        let tail = &k["tail"];
        if !fields.iter().any(|f| cls(f) == "dur") { continue; }
        let base: Vec<FV> = fields.iter().enumerate().map(|(i, f)| if cls(f) == "uint" && is_bool_field(&ls, k, f) { FV::Num(1) } else { baseline(&kind, f, i as u64) }).collect();
        let base_elems: Vec<Vec<FV>> = if tail["k"] == "vec" { vec![elem_baseline(&kind, tail, 0)] } else { vec![] };
        let base_text: Vec<u8> = if tail["k"] == "text" { b"hi\0\0".to_vec() } else { vec![] };
        for (i, f) in fields.iter().enumerate() {
            if cls(f) != "dur" { continue; }
            n += 1;
            let w = width(f);
            let mut vals: Vec<u64> = vec![0, 1, 9, 10, 255, 256, 65534, 65535];
            if w == 4 { vals.extend_from_slice(&[65536, 65537, 75000, 0x0100_0000, 0x1999_9999, 0x7fff_ffff, 0xffff_ffff]); }
            for v in vals {
                for compressed in [true, false] {
                    let mut a = base.clone();
                    a[i] = FV::Num(v);
                    let c = image(k, compressed, &a, &base_elems, &base_text);
                    let input = format!("pkt.rt {}", frame_text(compressed, &c.frame));
                    ctx.oracle_eval("spec-time-field");
                    match real_decode(compressed, &c.frame) {
                        Dec::Pkt(p, _) => {
                            let json = serde_json::to_value(&p).unwrap();
                            let unit = f["unit"].as_u64().unwrap_or(1) as u128;
                            let got = get_norm(&json, f["code"].as_str().unwrap_or("")).and_then(dur_ms_of);
                            if got != Some(v as u128 * unit) {
                                ctx.violation(&format!("c15/spec-field/{}.{}/read", kind, fname(f)), "a time field does not decode to its wire value times the field's unit", &input, &format!("{} ms", v as u128 * unit), &format!("{:?} ms", got));
                            }
                            match real_encode(compressed, &p) {
                                Some(Ok(b)) if b == c.frame => {},
                                Some(Ok(b)) => ctx.violation(&format!("c15/spec-field/{}.{}/reencode", kind, fname(f)), "a time field's wire value does not survive decoding and re-encoding", &input, &hex(&c.frame), &hex(&b)),
                                _ => {},   // refusal of a decoded value: C03's subject
                            }
                        },
                        Dec::Panic => ctx.violation(&format!("c15/spec-field/{}.{}/panic", kind, fname(f)), "decoding a frame with an in-range time field aborted", &input, "a packet", "panic"),
                        _ => ctx.violation(&format!("c15/spec-field/{}.{}/rejected", kind, fname(f)), "a frame with an in-range time field is rejected", &input, "a packet", "error"),
                    }
                }
            }
        }
    }
    *ctx.distribution.entry("time fields of the specification table".into()).or_insert(0) = n;
}

fn elem_baseline(kind: &str, tail: &Value, n: u64) -> Vec<FV> {
    tail["elt"].as_array().unwrap().iter().enumerate().map(|(j, f)| baseline(kind, f, 7 * n + j as u64)).collect()
}

pub fn run(ctx: &mut Ctx) {
    let ls = load_layouts();
    if let Some(lines) = ctx.replay.clone() {
        for l in lines { if l.starts_with("c02.edit") { collection_edit_cases(ctx); continue; } let _ = crate::c01::replay(ctx, &ls, &l); }
        // the oracle side of a replayed frame: find the kind by type number and re-run the typed comparison is not
        // possible without the assignment; the replayed line shows decode + re-encode, which is what differs
        return;
    }
    let spec = load_spec();
    let quick = ctx.quick();
    let mut n_fields = 0u64;
    for k in spec["kinds"].as_array().unwrap() {
        let kind = k["name"].as_str().unwrap_or("?").to_string();
        let fields = k["fields"].as_array().unwrap();
        let tail = &k["tail"];
        let base: Vec<FV> = fields.iter().enumerate().map(|(i, f)| if cls(f) == "uint" && is_bool_field(&ls, k, f) { FV::Num(1) } else { baseline(&kind, f, i as u64) }).collect();
        let base_elems: Vec<Vec<FV>> = if tail["k"] == "vec" { vec![elem_baseline(&kind, tail, 0)] } else { vec![] };
        let base_text: Vec<u8> = if tail["k"] == "text" { b"hi\0\0".to_vec() } else { vec![] };
        for compressed in [true, false] {
            let c = image(k, compressed, &base, &base_elems, &base_text);
            run_case(ctx, &ls, k, compressed, &c, "baseline", true, true);
            // every field x every test value
            for (i, f) in fields.iter().enumerate() {
                if tail["k"] == "vec" && f["off"] == 3 { continue; }
                let tv = test_values(&kind, f);
                for (j, v) in tv.iter().enumerate() {
                    if quick && !compressed && j % 3 != 0 { continue; }
                    let mut vals = base.clone();
                    vals[i] = v.clone();
                    let mut text = base_text.clone();
                    if kind == "MSO" && fname(f) == "TextStart" { text = b"abcdefg\0".to_vec(); }
                    // IS_SMALL's value only has a meaning together with a sub-type that carries a number: SMALL_SSP (1/100 s)
                    if kind == "SMALL" && fname(f) == "UVal" { for (q, g) in fields.iter().enumerate() { if fname(g) == "SubT" { vals[q] = FV::Num(1); } } }
                    let c = image(k, compressed, &vals, &base_elems, &text);
                    // a boolean field holding more than 0/1, or a text filling its field, still decodes; only 0/1 re-encode identically
                    let canonical = !(matches!(v, FV::Num(n) if *n > 1) && cls(f) == "uint" && is_bool_field(&ls, k, f)) && !(cls(f) == "spclose" && matches!(v, FV::Num(n) if *n > 0xfff));
                    run_case(ctx, &ls, k, compressed, &c, &format!("{}={:?}", fname(f), v), j < 4 || j % 16 == 0, canonical);
                    n_fields += 1;
                }
            }
            // random assignments: every field takes one of its test values at the same time
            for _ in 0..(if quick { 4 } else { 300 }) {
                let mut vals = base.clone();
                let mut canonical = true;
                for (i, f) in fields.iter().enumerate() {
                    if tail["k"] == "vec" && f["off"] == 3 { continue; }
                    if kind == "MSO" && fname(f) == "TextStart" { continue; }
                    let tv = test_values(&kind, f);
                    if tv.is_empty() { continue; }
                    let v = ctx.rng.pick(&tv).clone();
                    if matches!(&v, FV::Num(n) if *n > 1) && cls(f) == "uint" && is_bool_field(&ls, k, f) { canonical = false; }
                    if cls(f) == "spclose" && matches!(&v, FV::Num(n) if *n > 0xfff) { canonical = false; }
                    vals[i] = v;
                }
                if kind == "SMALL" { continue; }   // value and sub-type are not independent: see sub_typed
                let c = image(k, compressed, &vals, &base_elems, &base_text);
                run_case(ctx, &ls, k, compressed, &c, "random assignment", false, canonical);
            }
            // tails
            if tail["k"] == "vec" {
                // up to the specification's maximum (or what the size mode's frame limit leaves room for)
                let limit: u64 = if compressed { 1020 } else { 255 };
                let per = tail["elt_size"].as_u64().unwrap_or(4).max(1);
                let fit = (limit - tail["off"].as_u64().unwrap_or(4)) / per;
                let maxn = tail["max"].as_u64().unwrap_or(16).min(fit);
                let mut counts = vec![0u64, 1, 2, 3, maxn / 2, (maxn / 2) + 1, maxn.saturating_sub(1), maxn];
                counts.sort(); counts.dedup();
                for n in counts {
                    let elems: Vec<Vec<FV>> = (0..n).map(|e| elem_baseline(&kind, tail, e)).collect();
                    let c = image(k, compressed, &base, &elems, &[]);
                    if c.frame.len() > if compressed { 1020 } else { 255 } { continue; }
                    run_case(ctx, &ls, k, compressed, &c, &format!("elements={}", n), true, true);
                }
                for (j, f) in tail["elt"].as_array().unwrap().iter().enumerate() {
                    for (q, v) in test_values(&kind, f).iter().enumerate() {
                        if quick && !compressed && q % 3 != 0 { continue; }
                        let mut e0 = elem_baseline(&kind, tail, 0);
                        e0[j] = v.clone();
                        let elems = vec![e0, elem_baseline(&kind, tail, 1)];
                        let c = image(k, compressed, &base, &elems, &[]);
                        run_case(ctx, &ls, k, compressed, &c, &format!("{}[0].{}={:?}", tail["name"].as_str().unwrap_or(""), fname(f), v), q < 3, true);
                    }
                }
            } else if tail["k"] == "text" {
                // IS_MSO: TextStart is the offset of the user's text in the *wire* bytes of Msg, also when the name before it
                // needs a codepage marker (bytes as the encoder writes them: marker, then the codepage's bytes)
                if kind == "MSO" {
                    for name in [&b"^E\xec "[..], &b"^C\xef\xf0\xe8 : "[..], &b"^J\x93\xfa\x96\x7b "[..], &b"caf\xe9 "[..]] {
                        let mut vals = base.clone();
                        for (q, g) in fields.iter().enumerate() { if fname(g) == "TextStart" { vals[q] = FV::Num(name.len() as u64); } }
                        let mut text = name.to_vec();
                        text.extend_from_slice(b"hi");
                        text.push(0);
                        while text.len() % 4 != 0 { text.push(0); }
                        let c = image(k, compressed, &vals, &[], &text);
                        run_case(ctx, &ls, k, compressed, &c, &format!("name={}", hex(name)), true, true);
                    }
                }
                let (mn, mx) = (tail["min"].as_u64().unwrap_or(4) as usize, tail["max"].as_u64().unwrap_or(64) as usize);
                for t in [mn, 8, mx] {
                    if t == 0 || t > mx { continue; }
                    let mut text: Vec<u8> = (0..t - 1).map(|i| b'a' + (i % 26) as u8).collect();
                    text.push(0);
                    let c = image(k, compressed, &base, &[], &text);
                    if c.frame.len() > if compressed { 1020 } else { 255 } { continue; }
                    run_case(ctx, &ls, k, compressed, &c, &format!("text={}", t), true, true);
                }
            }
        }
    }
    if C01_MODE.load(std::sync::atomic::Ordering::Relaxed) {
        ctx.exhaustive_domains.push("canonical frames built from the specification table (every kind x every field x every test value, vectors, texts, both size modes): decode then encode gives the identical bytes".into());
        return;
    }
    sub_typed(ctx, &ls, &spec);
    collection_edit_cases(ctx);
    *ctx.distribution.entry("field x value cases".into()).or_insert(0) = n_fields;
    ctx.exhaustive_domains.push("every kind of the specification table x every field x {every enumerant, every single flag bit and all bits, boundary integers, texts, cars} x both size modes; vectors of 0,1,2,3,max elements; texts of min, 8, max bytes".into());
}

/// IS_MAL / IS_IPB built and *edited* through their public set API (insert, remove, clear) before being written: NumM / NumB is
/// the number of entries that follow, Size is 8 + 4 x that number, whatever the history of the value
fn collection_edit_cases(ctx: &mut Ctx) {
    use insim::insim::{Ipb, Mal};
    use insim_core::vehicle::Vehicle;
    use std::net::Ipv4Addr;
    // histories: (inserts, removes of the i-th inserted, clear first?, inserts after)
    let histories: Vec<(usize, Vec<usize>, bool, usize)> = vec![(3, vec![1], false, 0), (3, vec![0, 2], false, 0), (1, vec![0], false, 0), (4, vec![3], false, 2), (2, vec![], true, 1), (5, vec![0, 1, 2, 3, 4], false, 0), (3, vec![1], true, 2)];
    for (hi, (ins, rem, clear, after)) in histories.iter().enumerate() {
        for compressed in [true, false] {
            for which in ["Mal", "Ipb"] {
                ctx.oracle_eval("collection-edit");
                let op = format!("c02.edit {} {} {}", which, if compressed { "c" } else { "u" }, hi);
                let (frame, n): (Option<Vec<u8>>, usize) = if which == "Mal" {
                    let mut m = Mal::default();
                    for i in 0..*ins { let _ = m.insert(Vehicle::Mod(0x0010_0000 + i as u32)); }
                    for r in rem { let _ = m.remove(&Vehicle::Mod(0x0010_0000 + *r as u32)); }
                    if *clear { m.clear(); }
                    for i in 0..*after { let _ = m.insert(Vehicle::Mod(0x0020_0000 + i as u32)); }
                    let n = m.len();
                    (real_encode(compressed, &insim::Packet::Mal(m)).and_then(|r| r.ok()), n)
                } else {
                    let mut m = Ipb::default();
                    for i in 0..*ins { let _ = m.insert(Ipv4Addr::from(0x0a00_0001 + i as u32)); }
                    for r in rem { let _ = m.remove(&Ipv4Addr::from(0x0a00_0001 + *r as u32)); }
                    if *clear { m.clear(); }
                    for i in 0..*after { let _ = m.insert(Ipv4Addr::from(0x0b00_0001 + i as u32)); }
                    let n = m.len();
                    (real_encode(compressed, &insim::Packet::Ipb(m)).and_then(|r| r.ok()), n)
                };
                match frame {
                    None => ctx.violation(&format!("c02/{}/edit/encode-fails", which.to_uppercase()), "a set built through its public API cannot be encoded", &op, "a frame", "error"),
                    Some(f) => {
                        let want_len = 8 + 4 * n;
                        let announced = if compressed { f[0] as usize * 4 } else { f[0] as usize };
                        if f.len() != want_len || announced != want_len || f[3] as usize != n {
                            ctx.violation(&format!("c02/{}/edit/count", which.to_uppercase()), "after editing the set the count byte / size no longer describe the entries that follow", &op, &format!("count {} and {} bytes", n, want_len), &format!("count {} and {} bytes (size byte announces {}): {}", f[3], f.len(), announced, hex(&f)));
                        }
                    },
                }
            }
        }
    }
}

/// is the crate's field at this offset a boolean? (decided from the regenerated layout, only to know which non-0/1 bytes cannot re-encode identically)
fn is_bool_field(ls: &Layouts, k: &Value, f: &Value) -> bool {
    let no = k["no"].as_u64().unwrap_or(0);
    let code = f["code"].as_str().unwrap_or("");
    ls.kinds.iter().filter(|l| l["type_no"].as_u64() == Some(no)).any(|l| l["fields"].as_array().map(|fs| fs.iter().any(|g| norm(g["path"].as_str().unwrap_or("")) == norm(code) && g["ty"]["k"] == "bool8")).unwrap_or(false))
}

/// IS_SMALL (value per sub-type) and IS_CIM (sub-mode per mode): hand-written codecs in the crate, so the layout
/// theorems do not reach inside them; here every named value of the specification goes through the real code
fn sub_typed(ctx: &mut Ctx, ls: &Layouts, spec: &Value) {
    let kinds = spec["kinds"].as_array().unwrap();
    let small = kinds.iter().find(|k| k["name"] == "SMALL").unwrap();
    let subt_rows = small["fields"].as_array().unwrap().iter().find(|f| f["name"] == "SubT").unwrap()["rows"].as_array().unwrap().clone();
    for ent in spec["sub"]["SMALL"].as_array().unwrap() {
        let sub = ent["sub"].as_str().unwrap();
        let st = match subt_rows.iter().find(|r| r[0].as_str() == Some(&norm(sub))) { Some(r) => r[1].as_u64().unwrap(), None => continue };
        let values: Vec<(String, u64)> = match ent["k"].as_str().unwrap() {
            "number" => vec![("0".into(), 0), ("1".into(), 1), ("max".into(), 0xffff_ffff), ("pattern".into(), 0x0102_0304)],
            "bool" => vec![("0".into(), 0), ("1".into(), 1)],
            "dur" => vec![("0".into(), 0), ("1".into(), 1), ("max".into(), 0xffff_ffff), ("6000".into(), 6000)],
            _ => {
                let mut v: Vec<(String, u64)> = ent["rows"].as_array().unwrap().iter().map(|r| (r[0].as_str().unwrap().to_string(), r[1].as_u64().unwrap())).collect();
                if ent["k"] != "e" { let all = v.iter().fold(0, |a, (_, b)| a | b); v.push(("all".into(), all)); }
                v
            },
        };
        for compressed in [true, false] {
            for (name, val) in &values {
                let mut frame = vec![0u8; 8];
                frame[0] = size_byte_of(compressed, 8); frame[1] = 4; frame[2] = 1; frame[3] = st as u8;
                frame[4..8].copy_from_slice(&(*val as u32).to_le_bytes());
                let input = format!("pkt.rt {}", frame_text(compressed, &frame));
                ctx.oracle_eval("spec-frame SMALL sub-typed");
                rt_case(ctx, ls, compressed, &frame, true);
                match real_decode(compressed, &frame) {
                    Dec::Pkt(p, _) => {
                        let v = serde_json::to_value(&p).unwrap();
                        let (variant, payload) = match &v["subt"] { Value::Object(m) if m.len() == 1 => { let (k, x) = m.iter().next().unwrap(); (k.clone(), x.clone()) }, Value::String(s) => (s.clone(), Value::Null), _ => ("?".into(), Value::Null) };
                        if norm(&variant) != norm(sub) {
                            ctx.violation(&format!("c02/SMALL/subt/{}", sub), &format!("IS_SMALL with SubT {} ({}) decodes as a different sub-type", st, sub), &input, sub, &variant);
                        }
                        let typed_ok = match ent["k"].as_str().unwrap() {
                            "dur" => dur_ms_of(&payload).map(|ms| ms == *val as u128 * ent["unit"].as_u64().unwrap() as u128),
                            "bool" => payload.as_bool().map(|b| b == (*val == 1)),
                            "number" => payload.as_u64().map(|x| x == *val).or_else(|| payload.as_bool().map(|b| *val > 1 || b == (*val == 1))).or_else(|| dur_ms_of(&payload).map(|_| true)),
                            "e" => payload.as_str().map(|s| norm(s) == *name),
                            "f" if payload.get("inner").is_some() && name != "all" => payload["inner"].as_array().map(|a| a.len() == 1 && a[0].as_str().map(norm).as_deref() == Some(name.as_str())),
                            _ => None,
                        };
                        match typed_ok {
                            Some(false) => ctx.violation(&format!("c02/SMALL/{}/{}", sub, name), &format!("IS_SMALL {}: the value {:#x} ({}) is not what the public field holds", sub, val, name), &input, name, &truncate(&payload.to_string(), 100)),
                            Some(true) => {},
                            None => ctx.count(&format!("untyped (shape) SMALL.{}", sub)),
                        }
                        match real_encode(compressed, &p) {
                            Some(Ok(b)) if b == frame => {},
                            other => ctx.violation(&format!("c02/SMALL/{}/encode/{}", sub, name), &format!("IS_SMALL {}: the value {:#x} ({}) does not survive decode and re-encode", sub, val, name), &input, &hex(&frame), &format!("{:?}", other.map(|r| r.map(|b| hex(&b))))),
                        }
                    },
                    _ => ctx.violation(&format!("c02/SMALL/{}/rejected", sub), "a specification-conformant IS_SMALL is rejected", &input, "packet", "error"),
                }
            }
        }
    }
    let cim = kinds.iter().find(|k| k["name"] == "CIM").unwrap();
    let mode_rows = cim["fields"].as_array().unwrap().iter().find(|f| f["name"] == "Mode").unwrap()["rows"].as_array().unwrap().clone();
    for mr in &mode_rows {
        let (mname, mval) = (mr[0].as_str().unwrap(), mr[1].as_u64().unwrap());
        let subs: Vec<(String, u64)> = match spec["sub"]["CIM"].as_array().unwrap().iter().find(|e| norm(e["sub"].as_str().unwrap()) == mname) {
            Some(e) => e["rows"].as_array().unwrap().iter().map(|r| (r[0].as_str().unwrap().to_string(), r[1].as_u64().unwrap())).collect(),
            None => vec![("".into(), 0)],
        };
        for compressed in [true, false] {
            for (sname, sval) in &subs {
                let mut frame = vec![0u8; 8];
                frame[0] = size_byte_of(compressed, 8); frame[1] = 64; frame[2] = 1; frame[3] = 3; frame[4] = mval as u8; frame[5] = *sval as u8;
                let input = format!("pkt.rt {}", frame_text(compressed, &frame));
                ctx.oracle_eval("spec-frame CIM sub-typed");
                rt_case(ctx, ls, compressed, &frame, true);
                match real_decode(compressed, &frame) {
                    Dec::Pkt(p, _) => {
                        let v = serde_json::to_value(&p).unwrap();
                        let (variant, payload) = match &v["mode"] { Value::Object(m) if m.len() == 1 => { let (k, x) = m.iter().next().unwrap(); (k.clone(), x.clone()) }, Value::String(s) => (s.clone(), Value::Null), _ => ("?".into(), Value::Null) };
                        if norm(&variant) != mname {
                            ctx.violation(&format!("c02/CIM/mode/{}", mname), &format!("IS_CIM with Mode {} decodes as a different mode", mval), &input, mname, &variant);
                        }
                        if !sname.is_empty() {
                            if let Some(s) = payload.as_str() { if norm(s) != *sname {
                                ctx.violation(&format!("c02/CIM/{}/{}", mname, sname), &format!("IS_CIM {}: sub-mode {} should read as {}", mname, sval, sname), &input, sname, s);
                            } }
                        }
                        match real_encode(compressed, &p) {
                            Some(Ok(b)) if b == frame => {},
                            other => ctx.violation(&format!("c02/CIM/{}/encode/{}", mname, sname), &format!("IS_CIM {} sub-mode {} ({}) does not survive decode and re-encode", mname, sval, sname), &input, &hex(&frame), &format!("{:?}", other.map(|r| r.map(|b| hex(&b))))),
                        }
                    },
                    _ => ctx.violation(&format!("c02/CIM/{}/rejected", mname), "a specification-conformant IS_CIM is rejected", &input, "packet", "error"),
                }
            }
        }
    }
}
