//! C01 — lossless packet round trip in both directions (and the shared packet-level replay).
use crate::common::*;
use crate::pkt::*;
use insim::Packet;

/// first position at which two canonical packet strings differ
fn first_diff(a: &str, b: &str) -> String {
    let (ta, tb): (Vec<&str>, Vec<&str>) = (a.split(',').collect(), b.split(',').collect());
    for i in 0..ta.len().max(tb.len()) {
        if ta.get(i) != tb.get(i) { return format!("field{}", i); }
    }
    "same".into()
}

pub fn rt_case(ctx: &mut Ctx, ls: &Layouts, compressed: bool, frame: &[u8], model_line: bool) {
    let op = format!("pkt.rt {}", frame_text(compressed, frame));
    let (line, d) = dec_line(ls, compressed, frame, true);
    if model_line { ctx.case(&op, &line); } else { ctx.oracle_eval("rt"); }
    match d {
        Dec::Pkt(p, _) => roundtrip_oracle(ctx, ls, compressed, &p, &op),
        // the frames of this property's streams carry in-domain field values only (frames the encoder can produce):
        // a decoder that aborts on one cannot return the packet that was sent
        Dec::Panic => {
            let kind = ls.kinds.iter().find(|l| l["type_no"].as_u64() == frame.get(1).map(|b| *b as u64)).and_then(|l| l["kind"].as_str()).unwrap_or("?").to_string();
            ctx.violation(&format!("c01/decode-abort/{}", kind), "decoding a frame with in-domain field values aborted instead of returning the packet", &op, "a packet", "panic");
        },
        _ => {},
    }
}

/// … for frames drawn by the in-domain generator (defined enumerants and flag bits, 0/1 booleans, well-formed cars and
/// tracks, counts that match): the encoder can produce every one of them, so the decoder refusing one is a packet that does
/// not survive encoding and decoding
pub fn rt_case_in_domain(ctx: &mut Ctx, ls: &Layouts, compressed: bool, frame: &[u8], model_line: bool) {
    rt_case(ctx, ls, compressed, frame, model_line);
    if let Dec::ErrDecode(_) | Dec::ErrFraming(_) | Dec::None(_) = real_decode(compressed, frame) {
        let kind = ls.kinds.iter().find(|l| l["type_no"].as_u64() == frame.get(1).map(|b| *b as u64)).and_then(|l| l["kind"].as_str()).unwrap_or("?").to_string();
        ctx.violation(&format!("c01/in-domain-rejected/{}", kind), "a frame with in-domain field values (one the encoder can produce) is refused by the decoder", &format!("pkt.rt {}", frame_text(compressed, frame)), "a packet", "error");
    }
}

pub fn roundtrip_oracle(ctx: &mut Ctx, ls: &Layouts, compressed: bool, p: &Packet, op: &str) {
    let c1 = canon_packet(ls, p);
    let kind = c1.split(' ').next().unwrap_or("?").to_string();
    let e1 = match real_encode(compressed, p) { Some(Ok(b)) => b, _ => return }; // refusal / abort on a decoded packet: C03's subject
    match real_decode(compressed, &e1) {
        Dec::Pkt(p2, 0) => {
            let c2 = canon_packet(ls, &p2);
            if c2 != c1 {
                ctx.violation(&format!("c01/encode-decode/{}/{}", kind, first_diff(&c1, &c2)), "encoding a packet and decoding the result does not yield an equal packet", op, &c1, &c2);
                return;
            }
            match real_encode(compressed, &p2) {
                Some(Ok(e2)) if e2 == e1 => {},
                other => ctx.violation(&format!("c01/reencode/{}", kind), "decoding a frame the encoder produced and re-encoding it does not yield the identical bytes", op, &hex(&e1), &format!("{:?}", other.map(|r| r.map(|b| hex(&b))))),
            }
            // the same frame with more of the stream already behind it in the receive buffer (coalesced reads, a backlog): the
            // packet is the packet of its own frame, and what follows is left alone
            let follower = vec![crate::conn::size_byte(compressed, 4), 3, 2, 3];
            let mut joint = e1.clone();
            joint.extend_from_slice(&follower);
            let r = guard(move || {
                #[allow(unused_mut)] let mut c = insim::net::Codec::new(crate::conn::mode_of(compressed));
                let mut buf = bytes::BytesMut::from(&joint[..]);
                let p = c.decode(&mut buf);
                (p.ok().flatten(), buf.to_vec())
            });
            match r {
                Some((Some(p3), rest)) => {
                    let c3 = canon_packet(ls, &p3);
                    if c3 != c1 || rest != follower {
                        ctx.violation(&format!("c01/encode-decode/{}/with-follower", kind), "with another frame behind it in the receive buffer, the encoder's frame does not decode to an equal packet (or the following frame is not left intact)", op, &format!("{} + rest {}", c1, hex(&follower)), &format!("{} + rest {}", c3, hex(&rest)));
                    }
                },
                other => ctx.violation(&format!("c01/encode-decode/{}/with-follower", kind), "with another frame behind it in the receive buffer, the encoder's frame does not decode", op, &c1, &format!("{:?}", other.map(|(_, rest)| hex(&rest)))),
            }
        },
        Dec::Pkt(_, n) => ctx.violation(&format!("c01/encode-decode/{}/leftover", kind), "decoding the encoder's frame left bytes behind", op, "rem=0", &format!("rem={}", n)),
        _ => ctx.violation(&format!("c01/encode-decode/{}/undecodable", kind), "the encoder's own frame does not decode", op, &c1, &hex(&e1)),
    }
}

pub fn dec_case(ctx: &mut Ctx, ls: &Layouts, compressed: bool, frame: &[u8]) -> Dec {
    let op = format!("pkt.dec {}", frame_text(compressed, frame));
    let (line, d) = dec_line(ls, compressed, frame, false);
    ctx.case(&op, &line);
    d
}

/// a packet built with `text` in one of its text fields, encoded and decoded, holds that text again
pub fn typed_text_case(ctx: &mut Ctx, ls: &Layouts, compressed: bool, kind: &str, path: &str, t: &str) {
    let build = match crate::c11::text_builders().into_iter().find(|(k, p, _)| *k == kind && *p == path) { Some((_, _, b)) => b, None => return };
    let (_, n, raw, _, _) = match crate::c11::locate(ls, kind, path) { Some(x) => x, None => return };
    let wire_len = if raw { t.len() } else { insim_core::string::codepages::to_lossy_bytes(t).len() };
    if wire_len > n { return; }
    ctx.oracle_eval("typed-text");
    let op = format!("txt.rt {} {}.{} {}", if compressed { "c" } else { "u" }, kind, path, crate::text::cps(t));
    let p = build(t.to_string());
    let f = match real_encode(compressed, &p) { Some(Ok(f)) => f, _ => return };
    match real_decode(compressed, &f) {
        Dec::Pkt(p2, _) => {
            let v = serde_json::to_value(&p2).unwrap();
            let field = path.split('.').fold(Some(&v), |cur, part| cur.and_then(|c| if c.is_array() { c.get(0).and_then(|x| x.get(part)) } else { c.get(part) }));
            let got = field.and_then(|x| x.as_str()).map(|x| x.to_string());
            if got.as_deref() != Some(t) {
                ctx.violation(&format!("c01/text-roundtrip/{}.{}", kind, path), "a packet built with this text, encoded and decoded, does not hold the text again", &op, &crate::text::cps(t), &format!("{:?} via {}", got.map(|g| crate::text::cps(&g)), hex(&f)));
            }
        },
        Dec::Panic => ctx.violation(&format!("c01/decode-abort/{}", kind), "decoding the encoder's own frame aborted", &op, "a packet", &hex(&f)),
        _ => ctx.violation(&format!("c01/encode-decode/{}/undecodable", kind), "the encoder's own frame does not decode", &op, "a packet", &hex(&f)),
    }
}

/// a version packet built from a typed version — number, letter, revision (absent, zero, or more) — holds exactly that
/// version again after encoding and decoding, and its frame re-encodes to itself (an absent revision and revision 0 are
/// equal versions but different frames)
pub fn typed_version_case(ctx: &mut Ctx, compressed: bool, major: f32, minor: char, patch: Option<usize>) {
    use insim_core::game_version::GameVersion;
    let v = GameVersion { major, minor, patch };
    if format!("{}", v).len() > 8 { return; }
    ctx.oracle_eval("typed-version");
    let op = format!("ver.rt {} {} {} {}", if compressed { "c" } else { "u" }, major.to_bits(), minor as u32, patch.map(|p| p.to_string()).unwrap_or("-".into()));
    let p: Packet = insim::insim::Ver { version: v.clone(), product: "S3".into(), ..Default::default() }.into();
    let f = match real_encode(compressed, &p) { Some(Ok(f)) => f, _ => return };
    match real_decode(compressed, &f) {
        Dec::Pkt(Packet::Ver(v2), _) => {
            let w = v2.version.clone();
            if w != v || w.major.to_bits() != major.to_bits() || w.minor != minor {
                ctx.violation("c01/version-roundtrip", "a version packet built from this version, encoded and decoded, does not hold an equal version", &op, &format!("{:?}", v), &format!("{:?}", w));
            } else {
                // … and the frame the encoder produced comes back byte for byte when the decoded packet is encoded again
                match real_encode(compressed, &Packet::Ver(v2)) {
                    Some(Ok(f2)) if f2 == f => {},
                    other => ctx.violation("c01/reencode/Ver", "decoding a frame the encoder produced and re-encoding it does not yield the identical bytes", &op, &hex(&f), &format!("{:?}", other.map(|r| r.map(|b| hex(&b))))),
                }
            }
        },
        Dec::Panic => ctx.violation("c01/decode-abort/Ver", "decoding the encoder's own frame aborted", &op, "a packet", &hex(&f)),
        _ => ctx.violation("c01/encode-decode/Ver/undecodable", "the encoder's own frame does not decode", &op, "a packet", &hex(&f)),
    }
}

/// IS_MSO as typed values, writer side: `Mso { msg, textstart }` -> the TextStart byte and the text bytes (model: Text.msoWrite)
pub fn mso_wr_case(ctx: &mut Ctx, ts: u8, msg: &str) {
    use insim_core::binrw::BinWrite;
    let op = format!("mso.wr {} {} {}", ts, crate::text::cps(msg), crate::c10::inline_table(msg));
    let m = insim::insim::Mso { msg: msg.to_string(), textstart: ts, ..Default::default() };
    let r = guard(std::panic::AssertUnwindSafe(move || { let mut c = std::io::Cursor::new(Vec::new()); m.write_le(&mut c).map(|_| c.into_inner()).map_err(|_| ()) }));
    let line = match &r {
        None => "panic".to_string(),
        Some(Err(())) => "refused".to_string(),
        Some(Ok(b)) if b.len() >= 6 => format!("{} {}", b[5], if b.len() == 6 { "-".to_string() } else { hex(&b[6..]) }),
        Some(Ok(b)) => format!("short {}", hex(b)),
    };
    ctx.case(&op, &line);
    if r.is_none() { ctx.violation("c01/mso-typed/write-panic", "writing an IS_MSO panicked", &op, "bytes or a refusal", "panic"); }
}

/// … reader side: TextStart byte + text bytes -> (textstart, msg) (model: Text.msoReadPlan, resolved with encoding_rs)
pub fn mso_rd_case(ctx: &mut Ctx, ts: u8, body: &[u8]) {
    use insim_core::binrw::BinRead;
    let op = format!("mso.rd {} {}", ts, if body.is_empty() { "-".to_string() } else { hex(body) });
    let mut b = vec![0u8, 0, 0, 0, 0, ts];
    b.extend_from_slice(body);
    let r = guard(move || insim::insim::Mso::read_le(&mut std::io::Cursor::new(b)).map_err(|_| ()));
    let line = match &r { None => "panic".to_string(), Some(Err(())) => "err".to_string(), Some(Ok(m)) => format!("{} {}", m.textstart, crate::text::cps(&m.msg)) };
    ctx.case(&op, &line);
    if r.is_none() { ctx.violation("c01/mso-typed/read-panic", "reading an IS_MSO panicked", &op, "a packet or an error", "panic"); }
}

/// … and the round trip the theorem `C01.mso_typed` states, on the real codec: name and text of encodable characters (none of
/// C10's recorded exceptions), carets that start no marker, no NUL, the encoded text within 128 bytes
pub fn mso_typed_case(ctx: &mut Ctx, name: &str, text: &str) {
    use insim_core::binrw::{BinRead, BinWrite};
    let msg = format!("{}{}", name, text);
    mso_wr_case(ctx, name.len().min(255) as u8, &msg);
    let rep = crate::text::repertoire();
    let exc = |c: char| rep.not_inverted.iter().any(|(_, x)| *x == c) || rep.trail_5e.iter().any(|(_, x)| *x == c);
    let caret_ok = |s: &str| { let cs: Vec<char> = s.chars().collect(); !cs.windows(2).any(|w| w[0] == '^' && "LGCETBJHSK8".contains(w[1])) };
    let in_domain = name.len() < 256 && msg.chars().all(|c| c != '\0' && crate::text::encodable_somewhere(c) && !exc(c)) && caret_ok(name) && caret_ok(&msg)
        && insim_core::string::codepages::to_lossy_bytes(&msg).len() <= 128;
    if !in_domain { return; }
    ctx.oracle_eval("mso-typed-roundtrip");
    let op = format!("mso.typed {} {}", crate::text::cps(name), crate::text::cps(text));
    let m = insim::insim::Mso { msg: msg.clone(), textstart: name.len() as u8, ..Default::default() };
    let r = guard(std::panic::AssertUnwindSafe(move || {
        let mut c = std::io::Cursor::new(Vec::new());
        m.write_le(&mut c).map_err(|_| "write refused".to_string())?;
        let b = c.into_inner();
        insim::insim::Mso::read_le(&mut std::io::Cursor::new(b)).map_err(|_| "read failed".to_string())
    }));
    match r {
        Some(Ok(m2)) if m2.msg == msg && m2.textstart as usize == name.len() => {},
        other => ctx.violation("c01/mso-typed/roundtrip", "an IS_MSO built from a name and a text, written and read back, does not hold the same message and text start", &op,
            &format!("{} {}", name.len(), crate::text::cps(&msg)), &format!("{:?}", other.map(|r| r.map(|m| format!("{} {}", m.textstart, crate::text::cps(&m.msg)))))),
    }
}

/// the two list kinds the crate holds as sets (allowed mods, banned addresses): a frame listing distinct entries in any order
/// decodes and re-encodes to the identical bytes — the entries stay in wire order (set equality would not notice a reshuffle)
pub fn set_order_case(ctx: &mut Ctx, compressed: bool, ty: u8, entries: &[u32]) {
    ctx.oracle_eval("set-order");
    let mut f = vec![0u8, ty, 1, entries.len() as u8, 0, 0, 0, 0];
    for e in entries { f.extend_from_slice(&e.to_le_bytes()); }
    f[0] = crate::conn::size_byte(compressed, f.len());
    let op = format!("pkt.rt {}", frame_text(compressed, &f));
    match real_decode(compressed, &f) {
        Dec::Pkt(p, 0) => match real_encode(compressed, &p) {
            Some(Ok(e)) if e == f => {},
            other => ctx.violation(&format!("c01/reencode/set-order/{}", ty), "a list of distinct entries does not come back in wire order when the decoded packet is encoded again", &op, &hex(&f), &format!("{:?}", other.map(|r| r.map(|b| hex(&b))))),
        },
        Dec::Panic => ctx.violation(&format!("c01/decode-abort/{}", ty), "decoding a frame with in-domain field values aborted instead of returning the packet", &op, "a packet", "panic"),
        _ => ctx.violation(&format!("c01/in-domain-rejected/{}", ty), "a frame with in-domain field values (one the encoder can produce) is refused by the decoder", &op, "a packet", "error"),
    }
}

pub fn replay(ctx: &mut Ctx, ls: &Layouts, l: &str) -> bool {
    let w: Vec<&str> = l.split_whitespace().collect();
    match w.as_slice() {
        ["mso.wr", ts, t, ..] => { mso_wr_case(ctx, ts.parse().unwrap_or(0), &crate::text::from_cps(t)); true },
        ["mso.rd", ts, h] => { mso_rd_case(ctx, ts.parse().unwrap_or(0), &if *h == "-" { vec![] } else { unhex(h) }); true },
        ["mso.typed", n, t] => { mso_typed_case(ctx, &crate::text::from_cps(n), &crate::text::from_cps(t)); true },
        ["ver.rt", m, maj, min, pat] => { typed_version_case(ctx, *m == "c", f32::from_bits(maj.parse().unwrap_or(0)), char::from_u32(min.parse().unwrap_or(65)).unwrap_or('A'), pat.parse().ok()); true },
        ["txt.rt", m, kp, t] => { let (k, p) = kp.split_once('.').unwrap_or((kp, "")); typed_text_case(ctx, ls, *m == "c", k, p, &crate::text::from_cps(t)); true },
        ["pkt.rt", m, h] => {
            let f = unhex(h);
            rt_case(ctx, ls, *m == "c", &f, true);
            if f.len() >= 8 && (f[1] == 65 || f[1] == 67) && (f.len() - 8) / 4 == f[3] as usize {
                let es: Vec<u32> = f[8..].chunks(4).filter(|c| c.len() == 4).map(|c| u32::from_le_bytes([c[0], c[1], c[2], c[3]])).collect();
                let mut d = es.clone(); d.sort(); d.dedup();
                if d.len() == es.len() { set_order_case(ctx, *m == "c", f[1], &es); }
            }
            true
        },
        ["pkt.dec", m, h] => { let _ = dec_case(ctx, ls, *m == "c", &unhex(h)); true },
        _ => false,
    }
}

pub fn run(ctx: &mut Ctx) {
    let ls = load_layouts();
    if let Some(lines) = ctx.replay.clone() {
        for l in lines { let _ = replay(ctx, &ls, &l); }
        return;
    }
    let quick = ctx.quick();
    let per_kind = if quick { 60 } else { 3000 };
    for compressed in [true, false] {
        for l in ls.kinds.clone().iter() {
            let kind = l["kind"].as_str().unwrap_or("?").to_string();
            for i in 0..per_kind {
                let o = GenOpts { wild: 0, text: if i % 4 == 3 { 1 } else { 0 }, count: None };
                let f = gen_frame(&mut ctx.rng, l, compressed, &o);
                if o.text == 0 { rt_case_in_domain(ctx, &ls, compressed, &f, true); } else {
                    // codepage text: the model cannot predict re-encoding of lossy text; decode line + oracle only
                    if let Dec::Pkt(p, _) = dec_case(ctx, &ls, compressed, &f) {
                        roundtrip_oracle(ctx, &ls, compressed, &p, &format!("pkt.rt {}", frame_text(compressed, &f)));
                    }
                }
            }
            // counted kinds: element counts up to the protocol maximum (and whatever the size mode still has room for)
            if matches!(l["tail"]["k"].as_str(), Some("vec") | Some("set")) {
                let room = if compressed { 1020 } else { 252 };
                for n in [8usize, 15, 16, 17, 30, 31, 32, 33, 40, 48, 60, 61, 62, 63, 64, 100, 120, 121, 127, 128, 169, 200, 254, 255] {
                    let o = GenOpts { wild: 0, text: 0, count: Some(n) };
                    // gen_frame cuts at the size limit: only frames that fit whole are round-trip inputs
                    let probe = gen_frame(&mut Rng::new(n as u64), l, true, &o);
                    if probe.len() >= 1020 || probe.len() > room { continue; }
                    let f = gen_frame(&mut ctx.rng, l, compressed, &o);
                    rt_case_in_domain(ctx, &ls, compressed, &f, true);
                }
            }
            // exhaustive single-field sweeps: every enumerant, every single flag bit, all nibble pairs, boundary integers
            let fields = l["fields"].as_array().cloned().unwrap_or_default();
            let base = gen_frame(&mut Rng::new(7), l, compressed, &GenOpts { wild: 0, text: 0, count: Some(1) });
            let mut off = 2usize;
            for f in &fields {
                off += f["rb"].as_u64().unwrap_or(0) as usize;
                let w = ty_size(&f["ty"]);
                let k = f["ty"]["k"].as_str().unwrap_or("");
                let mut variants: Vec<Vec<u8>> = vec![];
                match k {
                    "enum" => for v in f["ty"]["vals"].as_array().unwrap() { variants.push(vec![v[1].as_u64().unwrap() as u8]); },
                    "flags" => for c in f["ty"]["consts"].as_array().unwrap() { variants.push(c[1].as_u64().unwrap().to_le_bytes()[..w].to_vec()); },
                    "uint" | "sint" | "dur" | "spclose" | "ipv4" => for v in [0u64, 1, 0x7f, 0x80, 0xff, 0x100, 0x7fff, 0x8000, 0xffff, 0x10000, 0x7fffffff, 0x80000000, 0xffffffff] { variants.push(v.to_le_bytes()[..w].to_vec()); },
                    "custom" if f["ty"]["id"] == "ConInfo" => {
                        for byte in 4..7usize { for v in 0..=255u8 { if quick && v % 5 != 0 && v % 16 != 15 { continue; } let mut b = base[off..off + 16].to_vec(); b[byte] = v; variants.push(b); } }
                    },
                    // the two sub-typed hand-written codecs: every (mode, sub-mode, selection type) / (sub-type, small values and bit patterns)
                    "custom" if f["ty"]["id"] == "CimMode" => {
                        for m in 0..=8u8 { for sm in 0..=12u8 { for sel in [0u8, 1, 2, 255] { variants.push(vec![m, sm, sel]); } } }
                    },
                    "custom" if f["ty"]["id"] == "SmallType" => {
                        for st in 0..=12u8 {
                            for uv in [0u32, 1, 2, 3, 4, 0x40, 0x44, 0x301, 0x10001, 0x400040, 0x7f0075, 0x0fff, 0x7fffffff, 0xffffffff] {
                                let mut b = vec![st]; b.extend_from_slice(&uv.to_le_bytes()); variants.push(b);
                            }
                            for bit in 0..32u32 { let mut b = vec![st]; b.extend_from_slice(&(1u32 << bit).to_le_bytes()); variants.push(b); }
                        }
                    },
                    "custom" if f["ty"]["id"] == "RaceLaps" || f["ty"]["id"] == "Fuel" || f["ty"]["id"] == "Fuel200" => for v in 0..=255u8 { variants.push(vec![v]); },
                    // the two name tables, row by row: every declared track configuration, every built-in car, unknown, mods
                    "custom" if f["ty"]["id"] == "Track" => for c in all_track_codes() { let mut b = c.as_bytes().to_vec(); b.resize(6, 0); variants.push(b); },
                    "custom" if f["ty"]["id"] == "Vehicle" => {
                        for n in ["XFG", "XRG", "XRT", "RB4", "FXO", "LX4", "LX6", "MRT", "UF1", "RAC", "FZ5", "FOX", "XFR", "UFR", "FO8", "FXR", "XRR", "FZR", "BF1", "FBM"] { variants.push(vec![n.as_bytes()[0], n.as_bytes()[1], n.as_bytes()[2], 0]); }
                        for v in [0u32, 1, 0x00AB_CDEF, 0x00FF_FFFF, 0x0100_0000, 0x8047_4658, 0xFFFF_FFFF] { variants.push(v.to_le_bytes().to_vec()); }
                    },
                    _ => {},
                }
                for v in variants {
                    if off + w > base.len() { break; }
                    let mut fr = base.clone();
                    fr[off..off + v.len()].copy_from_slice(&v);
                    rt_case(ctx, &ls, compressed, &fr, true);
                }
                off += w + f["ra"].as_u64().unwrap_or(0) as usize;
            }
            ctx.count(&format!("kind {} swept", kind));
        }
    }
    // typed values, not frames: a packet built with a given text in each of its text fields, encoded and decoded, holds that
    // text again (texts chosen to fit the narrowest field after encoding and to avoid C10's recorded exceptions)
    {
        let texts = ["abc", "a\u{448}\u{44e}", "\u{e9}\u{448}", "1\u{7f8e}", "X\u{3ce}", "\u{11b}\u{161}", "\u{448}a", "a b", "\u{e9}", "\u{20ac}\u{448}", "x^1y", "\u{ff}\u{fe}", "Z\u{11b}"];
        for (kind, path, _) in crate::c11::text_builders() {
            for t in texts { for compressed in [true, false] { typed_text_case(ctx, &ls, compressed, kind, path, t); } }
        }
    }
    // IS_MSO as typed values (message + text start): the writer, the reader and the round trip, against the typed model
    {
        let names = ["", "Player", "P", "\u{11b}", "^7Player \u{11b} ^7: ", "\u{418}\u{432}\u{430}\u{43d} : ", "\u{65e5}\u{672c} ", "a\u{e9}\u{3b1}\u{436}", "host^1x : ", "\u{e9}", "^", "x^"];
        let texts = ["", "hi", "cr\u{161}\u{10d}", "^8cr\u{161}\u{10d}", "\u{43f}\u{440}\u{438}\u{432}\u{435}\u{442}", "Lap ^1\u{3b1}\u{3b2}", "a", "E", "8x", "\u{7f8e}\u{4e3d}", "caf\u{e9} | ok?"];
        for n in names { for t in texts { mso_typed_case(ctx, n, t); } }
        // text starts that are not the name's length: inside a character, beyond the message, wrapped
        for (ts, msg) in [(1u8, "\u{11b}x"), (3, "ab"), (255, "abc"), (2, "a\u{e9}b"), (1, ""), (4, "\u{1f600}!"), (2, "\u{1f600}!")] { mso_wr_case(ctx, ts, msg); }
        // long messages: name and text together beyond the 128-byte field
        for k in [120usize, 126, 127, 128, 129, 140, 200, 300] {
            let long: String = "ab\u{11b}".chars().cycle().take(k).collect();
            mso_wr_case(ctx, 0, &long);
            mso_wr_case(ctx, 3, &long);
            if k <= 255 { mso_wr_case(ctx, k as u8, &format!("{}tail", "n".repeat(k))); }
        }
        // the reader on wire forms the writer does not produce: a text start inside a character or a marker, beyond the text,
        // NULs in the name part, markers on both sides
        let bodies: Vec<Vec<u8>> = vec![
            b"abc : hi\0\0\0\0".to_vec(), b"^Eab\xec : ^8c\x9a\0\0".to_vec(), b"^J\x93\xfa\x96\x7b : x\0\0".to_vec(), b"na\0me : text\0\0\0".to_vec(), b"\0\0\0\0".to_vec(),
            b"^".to_vec(), b"a^".to_vec(), b"^C\xef\xf0\xe8^c \xec\xe8\xf0\0".to_vec(), vec![], b"^G\xe1^L\xe9^K\xb0\xa1 : \xb0\xa1".to_vec(), b"x^Ey\xec".to_vec(),
        ];
        for b in &bodies { for ts in 0..=(b.len() as u8 + 2) { mso_rd_case(ctx, ts, b); } mso_rd_case(ctx, 255, b); }
        for _ in 0..(if quick { 300 } else { 30_000 }) {
            let k = ctx.rng.below(24) as usize;
            let b: Vec<u8> = (0..k).map(|_| { let r = ctx.rng.below(12); if r < 2 { b'^' } else if r < 4 { *ctx.rng.pick(b"LGCETBJHSK8c") } else if r < 5 { 0 } else if r < 8 { 0x80 + ctx.rng.below(0x7f) as u8 } else { b'a' + ctx.rng.below(26) as u8 } }).collect();
            let ts = ctx.rng.below(k as u64 + 3) as u8;
            mso_rd_case(ctx, ts, &b);
        }
        ctx.exhaustive_domains.push("IS_MSO typed: 12 names x 11 texts through writer, reader and round trip; text starts off the character grid; 8 over-long messages; 11 wire forms x every text start; random wire forms".into());
    }
    // MAL / IPB: distinct entries in descending, mixed and ascending order
    for compressed in [true, false] {
        for ty in [65u8, 67] {
            for entries in [vec![0xC0A8_0014u32, 0x0A00_0007, 0xAC10_0501], vec![3, 2, 1], vec![1, 2, 3], vec![0x0100_0000, 0x0000_0001, 0x0001_0000, 0x0000_0100], vec![0xFFFF_FFFF, 0, 0x8000_0000, 1],
                            (0..40u32).rev().map(|i| 0x00AB_0000 + i * 7).collect::<Vec<_>>()] {
                set_order_case(ctx, compressed, ty, &entries);
            }
        }
    }
    // … and a version packet built from a typed version
    for major in [0.7f32, 0.6, 0.5, 1.0, 0.04, 12.5] {
        for minor in ['A', 'D', 'Z'] {
            for patch in [None, Some(0usize), Some(1), Some(9), Some(10), Some(64), Some(100), Some(1234)] {
                for compressed in [true, false] { typed_version_case(ctx, compressed, major, minor, patch); }
            }
        }
    }
    // frames that are canonical by construction (built from the specification table by C02's reference codec)
    crate::c02::canonical_frames_for_c01(ctx);
    ctx.exhaustive_domains.push("per kind and mode: every enumerant, every single flag constant, boundary integers of every integer field, every race-length / fuel byte, every IS_CIM (mode, sub-mode, selection) up to 8/12, every IS_SMALL sub-type x {small values, each single bit}, all 256 values of each packed ConInfo byte (thinned in quick)".into());
}
