//! C14 — track table coherence.
use crate::common::*;
use crate::gen_tracks::tracks;
use insim_core::binrw::{BinRead, BinWrite};
use insim_core::track::Track;
use std::io::Cursor;

fn name(t: &Track) -> String {
    serde_json::to_value(t).unwrap().as_str().unwrap_or("?").to_string()
}
fn read_trk(b: &[u8]) -> Option<Result<Track, ()>> {
    let b = b.to_vec();
    guard(move || Track::read_le(&mut Cursor::new(&b)).map_err(|_| ()))
}
fn write_trk(t: &Track) -> Option<Result<Vec<u8>, ()>> {
    let t = t.clone();
    guard(move || {
        let mut c = Cursor::new(Vec::new());
        t.write_le(&mut c).map(|_| c.into_inner()).map_err(|_| ())
    })
}
fn dec_line(b: &[u8]) -> String {
    match read_trk(b) {
        None => "panic".into(),
        Some(Err(())) => "err decode".into(),
        Some(Ok(t)) => format!("ok {}", name(&t)),
    }
}
fn lic_no(t: &Track) -> u8 {
    match format!("{}", t.license()).as_str() { "Demo" => 0, "S1" => 1, "S2" => 2, _ => 3 }
}
fn info_line(t: &Track) -> String {
    let wire = match write_trk(t) { Some(Ok(b)) => hex(&b), _ => "err".into() };
    format!("name={} wire={} code={} rev={} open={} dist={} lic={}", name(t), wire, t.code(), t.is_reverse() as u8, t.is_open() as u8, t.distance_mile().is_some() as u8, lic_no(t))
}

fn oracle_bytes(ctx: &mut Ctx, b: &[u8; 6], all: &[Track]) {
    // no other 6-byte value decodes to a configuration: a successful decode re-encodes to the same bytes
    if let Some(Ok(t)) = read_trk(b) {
        match write_trk(&t) {
            Some(Ok(w)) if w == b => {},
            other => ctx.violation("c14/not-injective", "a 6-byte value decodes to a configuration whose wire form is different", &format!("trk.dec {}", hex(b)), &hex(b), &format!("{:?}", other.map(|r| r.map(|w| hex(&w))))),
        }
        if !all.contains(&t) {
            ctx.violation("c14/undeclared", "decoded to a value outside the declared variants", &format!("trk.dec {}", hex(b)), "declared", &name(&t));
        }
    }
}

/// (a base frame, the offset of the 6-byte track field) for every packet kind that has one
fn track_fields(ls: &crate::pkt::Layouts, compressed: bool) -> Vec<(Vec<u8>, usize)> {
    use crate::pkt::*;
    let mut out = vec![];
    for l in ls.kinds.iter() {
        let fields = l["fields"].as_array().cloned().unwrap_or_default();
        if !fields.iter().any(|f| f["ty"]["id"] == "Track") { continue; }
        let base = gen_frame(&mut Rng::new(7), l, compressed, &GenOpts { wild: 0, text: 0, count: Some(1) });
        let mut off = 2usize;
        for f in &fields {
            off += f["rb"].as_u64().unwrap_or(0) as usize;
            if f["ty"]["id"] == "Track" && off + 6 <= base.len() { out.push((base.clone(), off)); }
            off += ty_size(&f["ty"]) + f["ra"].as_u64().unwrap_or(0) as usize;
        }
    }
    out
}

/// the same rules where a track name actually travels: whatever the bare codec says about the six bytes (a configuration
/// or an error) is what the packet says, and the bytes come back unchanged
fn in_packet_case(ctx: &mut Ctx, compressed: bool, frame: &[u8], off: usize) {
    use crate::pkt::*;
    let w = frame[off..off + 6].to_vec();
    let op = format!("pkt.rt {}", frame_text(compressed, frame));
    ctx.oracle_eval("track-in-packet");
    match (read_trk(&w), real_decode(compressed, frame)) {
        (Some(Err(())), Dec::Pkt(p, _)) => ctx.violation("c14/in-packet/error-swallowed", "six bytes that are no configuration's wire form are accepted inside a packet", &op, "a decode error", &truncate(&serde_json::to_string(&p).unwrap_or_default(), 160)),
        (Some(Ok(t)), Dec::Pkt(p, _)) => {
            let want = serde_json::to_value(&t).unwrap();
            fn find(x: &serde_json::Value, want: &serde_json::Value) -> bool {
                if x == want { return true; }
                match x { serde_json::Value::Object(m) => m.values().any(|y| find(y, want)), serde_json::Value::Array(a) => a.iter().any(|y| find(y, want)), _ => false }
            }
            let got = serde_json::to_value(&p).unwrap();
            if !find(&got, &want) { ctx.violation("c14/in-packet/different-track", "inside a packet the six bytes decode to another configuration", &op, &want.to_string(), &truncate(&got.to_string(), 160)); }
            match real_encode(compressed, &p) {
                Some(Ok(e)) if e.len() >= off + 6 && e[off..off + 6] == w[..] => {},
                Some(Ok(e)) => ctx.violation("c14/in-packet/reencode", "the track name does not re-encode to the identical 6 bytes inside its packet", &op, &hex(&w), &hex(&e[off.min(e.len())..(off + 6).min(e.len())])),
                _ => {},
            }
        },
        (Some(Ok(_)), Dec::ErrDecode(_)) => ctx.violation("c14/in-packet/rejected", "a configuration's wire form is rejected inside a packet", &op, "a packet", "decode error"),
        (_, Dec::Panic) | (None, _) => ctx.violation("c14/in-packet/panic", "decoding the track name panicked", &op, "value or error", "panic"),
        _ => {},
    }
}

/// the field is six bytes however the reader cuts them up, and the reader is left right behind them
fn segmented_case(ctx: &mut Ctx, b: &[u8], per: usize) {
    let whole = read_trk(&b[..b.len().min(6)]).map(|r| r.map(|t| name(&t)));
    let b2 = b.to_vec();
    let piecewise = guard(move || { let mut r = Dribble::new(&b2, per); let t = Track::read_le(&mut r).map(|t| name(&t)).map_err(|_| ()); (t, r.inner.position()) });
    // model line: Reader.decodeFrom 6 over the same pieces (theorem C14.segmented_read says what that is)
    ctx.case(&format!("trk.seg {} {}", hex(b), per), &match &piecewise { Some((Ok(n), pos)) => format!("ok {} at {}", n, pos), Some((Err(()), _)) => "err decode".to_string(), None => "panic".to_string() });
    match piecewise {
        Some((t, pos)) if Some(t.clone()) == whole && (t.is_err() || pos == 6) => {},
        other => ctx.violation("c14/segmented-read", "the same six bytes decode differently (or leave the reader elsewhere) when the reader hands them over in pieces", &format!("trk.seg {} {}", hex(b), per), &format!("{:?} at 6", whole), &format!("{:?}", other)),
    }
}

/// the writer puts the six bytes into any sink, also one that accepts a few bytes per call; a sink with less room than six
/// bytes is an error, not a shorter field
fn segmented_write_case(ctx: &mut Ctx, t: &Track, per: usize) {
    ctx.oracle_eval("dribbling-writer");
    let want = write_trk(t);
    let (t2, t3) = (t.clone(), t.clone());
    let piece = guard(move || { let mut w = DribbleW::new(per); t2.write_le(&mut w).map(|_| w.inner.into_inner()).map_err(|_| ()) });
    let input = format!("trk.wseg {} {}", name(t), per);
    if piece != want {
        ctx.violation("c14/segmented-write", "written through a sink that accepts a few bytes per call, the wire form is not the six bytes written into memory", &input, &format!("{:?}", want.map(|r| r.map(|b| hex(&b)))), &format!("{:?}", piece.map(|r| r.map(|b| hex(&b)))));
    }
    // a fixed buffer with room for `per` < 6 bytes only
    if per < 6 {
        let small = guard(move || { let mut buf = vec![0u8; per]; let mut c = Cursor::new(&mut buf[..]); t3.write_le(&mut c).is_ok() });
        if small != Some(false) {
            ctx.violation("c14/segmented-write/full-buffer", "writing the six-byte field into a buffer with less room reported success", &input, "an error", &format!("{:?}", small));
        }
    }
}

/// fewer than six bytes are no track name
fn short_case(ctx: &mut Ctx, b: &[u8]) {
    ctx.oracle_eval("short-input");
    match read_trk(b) {
        Some(Err(())) => {},
        other => ctx.violation("c14/short-input", "an input shorter than the six-byte field decodes to a configuration", &format!("trk.dec {}", if b.is_empty() { "-".to_string() } else { hex(b) }), "a decode error", &format!("{:?}", other.map(|r| r.map(|t| name(&t)))))
    }
}

pub fn run(ctx: &mut Ctx) {
    let all = tracks();
    if let Some(lines) = ctx.replay.clone() {
        let ls = crate::pkt::load_layouts();
        for l in lines {
            let w: Vec<&str> = l.split_whitespace().collect();
            match w.as_slice() {
                ["pkt.rt", m, h] => { let f = unhex(h); for (b, off) in track_fields(&ls, *m == "c") { if b.get(1) == f.get(1) && off + 6 <= f.len() { in_packet_case(ctx, *m == "c", &f, off); } } },
                ["trk.wseg", n, per] => { if let Some(t) = all.iter().find(|t| name(t) == *n) { segmented_write_case(ctx, t, per.parse().unwrap_or(1).max(1)); } },
                ["trk.seg", h, per] => segmented_case(ctx, &unhex(h), per.parse().unwrap_or(1).max(1)),
                ["trk.dec", h] => {
                    let b = if *h == "-" { vec![] } else { unhex(h) };
                    if b.len() < 6 { short_case(ctx, &b); }
                    ctx.case(&l, &dec_line(&b));
                    if b.len() == 6 { oracle_bytes(ctx, &[b[0], b[1], b[2], b[3], b[4], b[5]], &all); }
                },
                ["trk.info", i] => {
                    if let Some(t) = all.get(i.parse::<usize>().unwrap_or(9999)) { ctx.case(&l, &info_line(t)); row_oracle(ctx, t, &all); }
                },
                _ => {},
            }
        }
        return;
    }
    for (i, t) in all.iter().enumerate() {
        ctx.case(&format!("trk.info {}", i), &info_line(t));
        row_oracle(ctx, t, &all);
    }
    ctx.exhaustive_domains.push(format!("all {} declared configurations: wire, decode(wire), code, flags, distance, licence", all.len()));
    // the same six bytes from a reader that hands them over in pieces, and inputs shorter than the field
    for t in all.iter() { let w = t.code(); let mut b = w.as_bytes().to_vec(); b.resize(6, 0); for per in 1..=6usize { segmented_case(ctx, &b, per); } }
    for u in [&b"ZZ9\0\0\0"[..], b"\0\0\0\0\0\0", b"BL1\0\0\x01", b"RO10XX"] { for per in [1usize, 3, 5] { segmented_case(ctx, u, per); } }
    for u in [&b"BL1\0\0\0BL2\0\0\0"[..], b"RO10X\0tail", b"AS1\0\0\0\x01", b"BL1\0\0"] { for per in [1usize, 2, 4, 7, 64] { segmented_case(ctx, u, per); } }
    for t in all.iter() { let mut b = t.code().as_bytes().to_vec(); b.resize(6, 0); for cut in 1..6usize { short_case(ctx, &b[..cut]); } }
    for t in all.iter() { for per in [1usize, 2, 4, 5, 6, 64] { segmented_write_case(ctx, t, per); } }
    ctx.exhaustive_domains.push(format!("every configuration's writer into sinks taking 1..64 bytes per call and into buffers too small; all {} wire forms from a reader that gives 1..6 bytes per call; every proper prefix of every wire form", all.len()));
    // inside packets: every kind with a track field x {every configuration, near misses, unknown names}
    {
        let ls = crate::pkt::load_layouts();
        for compressed in [true, false] {
            for (base, off) in track_fields(&ls, compressed) {
                let mut names: Vec<Vec<u8>> = crate::pkt::all_track_codes().iter().map(|c| c.as_bytes().to_vec()).collect();
                for u in ["ZZ9", "BL9", "AS1Z", "bl1", "RO10XX", "RO12", "KY3Z", "WE3Y", ""] { names.push(u.as_bytes().to_vec()); }
                names.push(b"BL1\0\0\x01".to_vec());
                for n in names {
                    let mut w = n.clone(); w.resize(6, 0);
                    let mut f = base.clone();
                    f[off..off + 6].copy_from_slice(&w);
                    in_packet_case(ctx, compressed, &f, off);
                }
            }
        }
        ctx.exhaustive_domains.push("every packet kind with a track field x {every declared configuration, 10 near misses} x both size modes".into());
    }
    // shaped space [A-Z]{2}[0-9]{1,2}[A-Z]? NUL-padded, plus near misses
    let letters: Vec<u8> = (b'A'..=b'Z').collect();
    let digits: Vec<u8> = (b'0'..=b'9').collect();
    let mut n_shaped = 0u64;
    for &a in &letters {
        for &b in &letters {
            for &d1 in &digits {
                for d2 in std::iter::once(0u8).chain(digits.iter().copied()) {
                    for s in std::iter::once(0u8).chain(letters.iter().copied()) {
                        let mut w = vec![a, b, d1];
                        if d2 != 0 { w.push(d2); }
                        if s != 0 { w.push(s); }
                        while w.len() < 6 { w.push(0); }
                        let arr = [w[0], w[1], w[2], w[3], w[4], w[5]];
                        n_shaped += 1;
                        // a model line for a thinned subset (every string whose area is a real one, and 1 in 97 of the rest)
                        let known_area = matches!(&[a, b], b"BL" | b"SO" | b"FE" | b"AU" | b"KY" | b"WE" | b"AS" | b"RO" | b"LA");
                        if known_area || n_shaped % 97 == 0 {
                            ctx.case(&format!("trk.dec {}", hex(&arr)), &dec_line(&arr));
                        } else {
                            ctx.oracle_eval("shaped");
                        }
                        oracle_bytes(ctx, &arr, &all);
                    }
                }
            }
        }
    }
    ctx.exhaustive_domains.push(format!("all {} strings of the shape letter letter digit[digit][letter], NUL-padded", n_shaped));
    // mutations of real wire forms: every single-byte change to a few values, wrong padding, lower case
    for t in all.iter() {
        if let Some(Ok(w)) = write_trk(t) {
            for pos in 0..6 {
                for v in [0u8, 1, b' ', b'0', b'R', b'X', b'Y', b'r', 0xff] {
                    let mut m = w.clone();
                    if m[pos] == v { continue; }
                    m[pos] = v;
                    let arr = [m[0], m[1], m[2], m[3], m[4], m[5]];
                    ctx.case(&format!("trk.dec {}", hex(&arr)), &dec_line(&arr));
                    oracle_bytes(ctx, &arr, &all);
                }
            }
            let lower: Vec<u8> = w.iter().map(|c| c.to_ascii_lowercase()).collect();
            ctx.case(&format!("trk.dec {}", hex(&lower)), &dec_line(&lower));
            ctx.case(&format!("trk.dec {}", hex(&w[..5])), &dec_line(&w[..5]));
        }
    }
    let n = if ctx.quick() { 20_000 } else { 2_000_000 };
    for _ in 0..n {
        let arr = [ctx.rng.byte(), ctx.rng.byte(), ctx.rng.byte(), ctx.rng.byte(), ctx.rng.byte(), ctx.rng.byte()];
        ctx.case(&format!("trk.dec {}", hex(&arr)), &dec_line(&arr));
        oracle_bytes(ctx, &arr, &all);
    }
}

fn row_oracle(ctx: &mut Ctx, t: &Track, all: &[Track]) {
    let input = format!("trk.info {}", all.iter().position(|x| x == t).unwrap_or(0));
    let code = t.code();
    let mut padded = code.as_bytes().to_vec();
    while padded.len() < 6 { padded.push(0); }
    let wire = write_trk(t);
    if wire != Some(Ok(padded.clone())) || code.len() > 6 {
        ctx.violation("c14/wire-not-padded-code", "wire form is not the short code NUL-padded to 6 bytes", &input, &hex(&padded), &format!("{:?}", wire.map(|r| r.map(|w| hex(&w)))));
    }
    match read_trk(&padded) {
        Some(Ok(back)) if &back == t => {},
        other => ctx.violation("c14/decode-wire", "decoding the wire form does not return the same configuration", &input, &name(t), &format!("{:?}", other.map(|r| r.map(|x| name(&x))))),
    }
    let last = code.chars().last().unwrap_or(' ');
    if t.is_reverse() != (last == 'R' || last == 'Y') {
        ctx.violation("c14/reverse-flag", "is_reverse disagrees with the code's last letter (R or Y)", &input, &code, &t.is_reverse().to_string());
    }
    if t.is_open() != (last == 'X' || last == 'Y') {
        ctx.violation("c14/open-flag", "is_open disagrees with the code's last letter (X or Y)", &input, &code, &t.is_open().to_string());
    }
    if t.is_open() && t.distance_mile().is_some() {
        ctx.violation("c14/open-distance", "an open configuration reports a lap distance", &input, "None", &format!("{:?}", t.distance_mile()));
    }
    // … in either unit: the kilometre accessor has a distance exactly when the mile accessor has one, and it is that distance
    match (t.distance_mile(), t.distance_km()) {
        (None, None) => {},
        (Some(mi), Some(km)) if ((km / mi) - 1.60934).abs() < 1e-3 => {},
        (mi, km) => {
            let sig = if t.is_open() { "c14/open-distance" } else { "c14/distance-units" };
            ctx.violation(sig, "the lap distance in kilometres disagrees with the one in miles (present for one, absent for the other, or not the same distance)", &input, &format!("{:?} mi", mi), &format!("{:?} km", km));
        },
    }
    for u in all {
        if u.code().as_bytes()[..2] == code.as_bytes()[..2] && u.license() != t.license() {
            ctx.violation("c14/area-licence", "two configurations of one track area require different licences", &input, &format!("{}", t.license()), &format!("{} has {}", u.code(), u.license()));
            break;
        }
    }
    if format!("{}", t) != code {
        ctx.violation("c14/display", "Display differs from code()", &input, &code, &format!("{}", t));
    }
}
