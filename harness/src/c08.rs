//! C08 — UDP adaptors over real loopback sockets.
use crate::common::*;
use crate::conn::*;
use insim::net::Codec;
use std::io::Read;
use std::net::UdpSocket;
use std::time::Duration;

fn pair() -> (UdpSocket, UdpSocket) {
    let a = UdpSocket::bind("127.0.0.1:0").unwrap();
    let b = UdpSocket::bind("127.0.0.1:0").unwrap();
    a.connect(b.local_addr().unwrap()).unwrap();
    b.connect(a.local_addr().unwrap()).unwrap();
    (a, b)
}

/// a write that fails (the peer's port is closed: the send after the one that drew the ICMP error is refused) and then writes
/// that succeed again: each successful write is one datagram holding exactly its frame — nothing of the refused one rides along
pub fn refused_send_case(ctx: &mut Ctx, fl: Flavour, compressed: bool) {
    ctx.oracle_eval("write-after-refused-send");
    let input = format!("udp.refused {} {}", fl.tok(), mode_tok(compressed));
    let sb = size_byte(compressed, 4);
    let tiny = |r: u8| -> insim::Packet { insim::insim::Tiny { reqi: insim::identifiers::RequestId(r), subt: insim::insim::TinyType::Ping }.into() };
    let got: Option<(Vec<bool>, Vec<Vec<u8>>)> = guard(std::panic::AssertUnwindSafe(move || {
        let a = UdpSocket::bind("127.0.0.1:0").unwrap();
        let peer = UdpSocket::bind("127.0.0.1:0").unwrap();
        let peer_addr = peer.local_addr().unwrap();
        a.connect(peer_addr).unwrap();
        drop(peer);     // nobody listens: the first send draws an ICMP "port unreachable", reported on a later call
        match fl {
            Flavour::Blocking => {
                let mut f = insim::net::blocking_impl::Framed::new(Box::new(insim::net::blocking_impl::UdpStream::from(a)), Codec::new(mode_of(compressed)));
                let mut oks = vec![];
                for r in 1..=3u8 { oks.push(f.write(tiny(r)).is_ok()); }
                let p2 = UdpSocket::bind(peer_addr).unwrap();
                p2.set_read_timeout(Some(Duration::from_millis(100))).unwrap();
                for r in 4..=5u8 { oks.push(f.write(tiny(r)).is_ok()); }
                let mut got = vec![]; let mut buf = [0u8; 2048];
                while let Ok(n) = p2.recv(&mut buf) { got.push(buf[..n].to_vec()); }
                (oks, got)
            },
            Flavour::Tokio => {
                let rt = tokio::runtime::Builder::new_current_thread().enable_all().build().unwrap();
                rt.block_on(async move {
                    a.set_nonblocking(true).unwrap();
                    let s = insim::net::tokio_impl::UdpStream::from(tokio::net::UdpSocket::from_std(a).unwrap());
                    let mut f = insim::net::tokio_impl::Framed::new(Box::new(s), Codec::new(mode_of(compressed)));
                    let mut oks = vec![];
                    for r in 1..=3u8 { oks.push(matches!(tokio::time::timeout(Duration::from_millis(300), f.write(tiny(r))).await, Ok(Ok(())))); }
                    let p2 = UdpSocket::bind(peer_addr).unwrap();
                    p2.set_read_timeout(Some(Duration::from_millis(100))).unwrap();
                    for r in 4..=5u8 { oks.push(matches!(tokio::time::timeout(Duration::from_millis(300), f.write(tiny(r))).await, Ok(Ok(())))); }
                    let mut got = vec![]; let mut buf = [0u8; 2048];
                    while let Ok(n) = p2.recv(&mut buf) { got.push(buf[..n].to_vec()); }
                    (oks, got)
                })
            },
        }
    }));
    match got {
        None => ctx.violation(&format!("c08/refused-send/{}/panic", fl.tok()), "writing to a peer whose port is closed panicked", &input, "results", "panic"),
        Some((oks, dgrams)) => {
            ctx.count(&format!("refused-send {}: {} of the first three writes were refused", fl.tok(), oks.iter().take(3).filter(|o| !**o).count()));
            // what the re-opened peer receives: one datagram per write that succeeded after it re-opened, each exactly its frame
            let want: Vec<Vec<u8>> = (4..=5u8).zip(oks.iter().skip(3)).filter(|(_, ok)| **ok).map(|(r, _)| vec![sb, 3, r, 3]).collect();
            if dgrams != want {
                ctx.violation(&format!("c08/refused-send/{}", fl.tok()), "after a refused send, a successful write did not leave as one datagram holding exactly its own frame", &input, &join_hex(&want), &format!("{:?} {}", oks, join_hex(&dgrams)));
            }
        },
    }
}

fn join_hex(v: &[Vec<u8>]) -> String {
    if v.is_empty() { "-".into() } else { v.iter().map(|b| hex(b)).collect::<Vec<_>>().join("+") }
}

/// adaptor level: offered slice sizes are chosen by the harness, datagrams are sent lock-step
pub fn adaptor_case(ctx: &mut Ctx, fl: Flavour, offers: &[usize], dgrams: &[Vec<u8>]) {
    let op = format!("udp.adaptor {} {} {}", fl.tok(), if offers.is_empty() { "-".to_string() } else { offers.iter().map(|o| o.to_string()).collect::<Vec<_>>().join(",") }, join_hex(dgrams));
    let total: usize = dgrams.iter().map(|d| d.len().min(1020)).sum();
    let offers2 = offers.to_vec();
    let dg = dgrams.to_vec();
    let chunks: Option<Vec<Vec<u8>>> = match fl {
        Flavour::Blocking => guard(std::panic::AssertUnwindSafe(move || {
            let (a, peer) = pair();
            a.set_read_timeout(Some(Duration::from_millis(150))).unwrap();
            let mut s = insim::net::blocking_impl::UdpStream::from(a);
            let mut out = vec![];
            let mut sent = 0usize;
            let mut served = 0usize;
            let mut avail = 0usize;
            for o in offers2 {
                if served == avail {
                    if sent == dg.len() { break; }
                    peer.send(&dg[sent]).unwrap();
                    avail += dg[sent].len().min(1020);
                    sent += 1;
                }
                let mut buf = vec![0u8; o];
                match s.read(&mut buf) {
                    Ok(n) => { served += n; out.push(buf[..n].to_vec()); },
                    Err(_) => { out.push(b"BLOCKED".to_vec()); break; },
                }
                if served >= total && sent == dg.len() { break; }
            }
            out
        })),
        Flavour::Tokio => guard(std::panic::AssertUnwindSafe(move || {
            let rt = tokio::runtime::Builder::new_current_thread().enable_all().build().unwrap();
            rt.block_on(async move {
                use tokio::io::AsyncReadExt;
                let (a, peer) = pair();
                a.set_nonblocking(true).unwrap();
                let mut s = insim::net::tokio_impl::UdpStream::from(tokio::net::UdpSocket::from_std(a).unwrap());
                let mut out = vec![];
                let mut sent = 0usize;
                let mut served = 0usize;
                let mut avail = 0usize;
                for o in offers2 {
                    if served == avail {
                        if sent == dg.len() { break; }
                        peer.send(&dg[sent]).unwrap();
                        avail += dg[sent].len().min(1020);
                        sent += 1;
                    }
                    let mut buf = vec![0u8; o];
                    match tokio::time::timeout(Duration::from_millis(150), AsyncReadExt::read(&mut s, &mut buf)).await {
                        Ok(Ok(n)) => { served += n; out.push(buf[..n].to_vec()); },
                        _ => { out.push(b"BLOCKED".to_vec()); break; },
                    }
                    if served >= total && sent == dg.len() { break; }
                }
                out
            })
        })),
    };
    let res = match &chunks { None => "panic".to_string(), Some(c) => join_hex(c) };
    ctx.case(&op, &res);
    if let Some(c) = &chunks {
        let got: Vec<u8> = c.concat();
        let want: Vec<u8> = dgrams.concat();
        let enough: usize = offers.iter().sum::<usize>();
        let all_small = dgrams.iter().all(|d| d.len() <= 1020);
        if all_small && !want.starts_with(&got) {
            ctx.violation(&format!("c08/adaptor/{}/lost-bytes", fl.tok()), "the adaptor dropped, duplicated or reordered datagram bytes", &op, &hex(&want), &res);
        } else if all_small && enough >= want.len() + offers.len() && offers.iter().all(|o| *o >= 1) && got.len() < want.len() && c.len() < offers.len() {
            ctx.violation(&format!("c08/adaptor/{}/stalled", fl.tok()), "the adaptor stopped serving although datagram bytes were outstanding", &op, &hex(&want), &res);
        }
    }
}

/// the tokio adaptor also implements the synchronous `std::io::Read` (it can be boxed into the blocking connection): the same
/// stream of bytes comes out of it, whatever the slice sizes — small ones that leave a remainder, then roomy ones
pub fn adaptor_sync_case(ctx: &mut Ctx, offers: &[usize], dgrams: &[Vec<u8>]) {
    let op = format!("udp.adaptor tokio-sync {} {}", if offers.is_empty() { "-".to_string() } else { offers.iter().map(|o| o.to_string()).collect::<Vec<_>>().join(",") }, join_hex(dgrams));
    let total: usize = dgrams.iter().map(|d| d.len().min(1020)).sum();
    let offers2 = offers.to_vec();
    let dg = dgrams.to_vec();
    let chunks: Option<Vec<Vec<u8>>> = guard(std::panic::AssertUnwindSafe(move || {
        let rt = tokio::runtime::Builder::new_current_thread().enable_all().build().unwrap();
        rt.block_on(async move {
            let (a, peer) = pair();
            a.set_nonblocking(true).unwrap();
            let mut s = insim::net::tokio_impl::UdpStream::from(tokio::net::UdpSocket::from_std(a).unwrap());
            // everything is sent up front (the kernel queues the datagrams in order)
            for d in &dg { peer.send(d).unwrap(); }
            let mut out = vec![];
            let mut served = 0usize;
            for o in offers2 {
                let mut buf = vec![0u8; o];
                let mut tries = 0;
                loop {
                    match std::io::Read::read(&mut s, &mut buf) {
                        Ok(n) => { served += n; out.push(buf[..n].to_vec()); break; },
                        Err(e) if e.kind() == std::io::ErrorKind::WouldBlock && tries < 20 => { tries += 1; tokio::time::sleep(Duration::from_millis(5)).await; },
                        Err(_) => { out.push(b"BLOCKED".to_vec()); return out; },
                    }
                }
                if served >= total { break; }
            }
            out
        })
    }));
    let res = match &chunks { None => "panic".to_string(), Some(c) => join_hex(c) };
    ctx.case(&op, &res);
    if let Some(c) = &chunks {
        let got: Vec<u8> = c.iter().filter(|x| x.as_slice() != b"BLOCKED").flatten().copied().collect();
        let want: Vec<u8> = dgrams.concat();
        let all_small = dgrams.iter().all(|d| d.len() <= 1020);
        if all_small && !want.starts_with(&got) {
            ctx.violation("c08/adaptor/tokio-sync/lost-bytes", "the adaptor's synchronous read dropped, duplicated or reordered datagram bytes", &op, &hex(&want), &res);
        } else if all_small && offers.iter().sum::<usize>() >= want.len() + offers.len() && got.len() < want.len() && c.len() < offers.len() + 1 && c.last().map(|x| x.as_slice() == b"BLOCKED").unwrap_or(false) {
            ctx.violation("c08/adaptor/tokio-sync/stalled", "the adaptor's synchronous read stopped serving although datagram bytes were outstanding", &op, &hex(&want), &res);
        }
    }
}

#[derive(Clone, Debug)]
pub enum AOp { Rd(usize), Fl, Wr(Vec<u8>), Idle, Rx(usize) }
fn aop_tok(o: &AOp) -> String { match o { AOp::Rd(n) => n.to_string(), AOp::Fl => "f".into(), AOp::Wr(b) => format!("w{}", hex(b)), AOp::Idle => "t".into(), AOp::Rx(n) => format!("x{}", n) } }
fn aop_parse(t: &str) -> Option<AOp> {
    if t == "f" { Some(AOp::Fl) } else if t == "t" { Some(AOp::Idle) } else if let Some(n) = t.strip_prefix('x') { n.parse().ok().map(AOp::Rx) } else if let Some(h) = t.strip_prefix('w') { Some(AOp::Wr(unhex(h))) } else { t.parse().ok().map(AOp::Rd) }
}

/// adaptor level, both halves: reads with chosen slice sizes interleaved with flushes and writes on the same adaptor.
/// The hold-back buffer belongs to the receive side; nothing done on the write side may disturb it.
pub fn ops_case(ctx: &mut Ctx, fl: Flavour, ops: &[AOp], dgrams: &[Vec<u8>]) {
    let op = format!("udp.ops {} {} {}", fl.tok(), if ops.is_empty() { "-".to_string() } else { ops.iter().map(aop_tok).collect::<Vec<_>>().join(",") }, join_hex(dgrams));
    let ops2 = ops.to_vec();
    let dg = dgrams.to_vec();
    let res: Option<(Vec<Vec<u8>>, Vec<Vec<u8>>)> = match fl {
        Flavour::Blocking => guard(std::panic::AssertUnwindSafe(move || {
            use std::io::Write;
            let (a, peer) = pair();
            a.set_read_timeout(Some(Duration::from_millis(150))).unwrap();
            peer.set_read_timeout(Some(Duration::from_millis(30))).unwrap();
            let ctl = a.try_clone().unwrap(); // same socket: its receive time-out is shortened for the idle reads
            let mut s = insim::net::blocking_impl::UdpStream::from(a);
            let (mut out, mut sent, mut served, mut avail) = (vec![], 0usize, 0usize, 0usize);
            for o in ops2 {
                match o {
                    AOp::Rd(n) => {
                        if served == avail {
                            if sent == dg.len() { break; }
                            peer.send(&dg[sent]).unwrap();
                            avail += dg[sent].len().min(1020);
                            sent += 1;
                        }
                        let mut buf = vec![0u8; n];
                        match s.read(&mut buf) {
                            Ok(k) => { served += k; out.push(buf[..k].to_vec()); },
                            Err(_) => { out.push(b"BLOCKED".to_vec()); break; },
                        }
                    },
                    AOp::Fl => { let _ = s.flush(); },
                    AOp::Wr(b) => { let _ = s.write(&b); },
                    // read_exact: one caller buffer filled by as many reads as it takes (enough datagrams are sent first)
                    AOp::Rx(n) => {
                        while avail - served < n && sent < dg.len() { peer.send(&dg[sent]).unwrap(); avail += dg[sent].len().min(1020); sent += 1; }
                        if avail - served < n { break; }
                        let mut buf = vec![0u8; n];
                        match s.read_exact(&mut buf) {
                            Ok(()) => { served += n; out.push(buf); },
                            Err(_) => { out.push(b"BLOCKED".to_vec()); break; },
                        }
                    },
                    // a read while nothing is buffered and nothing has been sent: the receive call times out; whatever it
                    // does return instead is recorded
                    AOp::Idle => if served == avail {
                        ctl.set_read_timeout(Some(Duration::from_millis(15))).unwrap();
                        let mut buf = vec![0u8; 64];
                        if let Ok(k) = s.read(&mut buf) { served += k; out.push(buf[..k].to_vec()); }
                        ctl.set_read_timeout(Some(Duration::from_millis(150))).unwrap();
                    },
                }
            }
            let mut replies = vec![];
            let mut buf = [0u8; 2048];
            while let Ok(n) = peer.recv(&mut buf) { replies.push(buf[..n].to_vec()); }
            (out, replies)
        })),
        Flavour::Tokio => guard(std::panic::AssertUnwindSafe(move || {
            let rt = tokio::runtime::Builder::new_current_thread().enable_all().build().unwrap();
            rt.block_on(async move {
                use tokio::io::{AsyncReadExt, AsyncWriteExt};
                let (a, peer) = pair();
                a.set_nonblocking(true).unwrap();
                peer.set_read_timeout(Some(Duration::from_millis(30))).unwrap();
                let mut s = insim::net::tokio_impl::UdpStream::from(tokio::net::UdpSocket::from_std(a).unwrap());
                let (mut out, mut sent, mut served, mut avail) = (vec![], 0usize, 0usize, 0usize);
                for o in ops2 {
                    match o {
                        AOp::Rd(n) => {
                            if served == avail {
                                if sent == dg.len() { break; }
                                peer.send(&dg[sent]).unwrap();
                                avail += dg[sent].len().min(1020);
                                sent += 1;
                            }
                            let mut buf = vec![0u8; n];
                            match tokio::time::timeout(Duration::from_millis(150), AsyncReadExt::read(&mut s, &mut buf)).await {
                                Ok(Ok(k)) => { served += k; out.push(buf[..k].to_vec()); },
                                _ => { out.push(b"BLOCKED".to_vec()); break; },
                            }
                        },
                        AOp::Fl => { let _ = AsyncWriteExt::flush(&mut s).await; },
                        AOp::Wr(b) => { let _ = AsyncWriteExt::write(&mut s, &b).await; },
                        AOp::Rx(n) => {
                            while avail - served < n && sent < dg.len() { peer.send(&dg[sent]).unwrap(); avail += dg[sent].len().min(1020); sent += 1; }
                            if avail - served < n { break; }
                            let mut buf = vec![0u8; n];
                            match tokio::time::timeout(Duration::from_millis(300), AsyncReadExt::read_exact(&mut s, &mut buf)).await {
                                Ok(Ok(_)) => { served += n; out.push(buf); },
                                _ => { out.push(b"BLOCKED".to_vec()); break; },
                            }
                        },
                        AOp::Idle => if served == avail {
                            let mut buf = vec![0u8; 64];
                            if let Ok(Ok(k)) = tokio::time::timeout(Duration::from_millis(15), AsyncReadExt::read(&mut s, &mut buf)).await { served += k; out.push(buf[..k].to_vec()); }
                        },
                    }
                }
                let mut replies = vec![];
                let mut buf = [0u8; 2048];
                while let Ok(n) = peer.recv(&mut buf) { replies.push(buf[..n].to_vec()); }
                (out, replies)
            })
        })),
    };
    let line = match &res { None => "panic".to_string(), Some((c, r)) => format!("{} sent={}", join_hex(c), join_hex(r)) };
    ctx.case(&op, &line);
    if let Some((c, r)) = &res {
        let got: Vec<u8> = c.concat();
        let want: Vec<u8> = dgrams.concat();
        let all_small = dgrams.iter().all(|d| d.len() <= 1020);
        if all_small && !want.starts_with(&got) {
            ctx.violation(&format!("c08/adaptor/{}/lost-bytes", fl.tok()), "the adaptor dropped, duplicated or reordered datagram bytes", &op, &hex(&want), &line);
        }
        // every write performed left as exactly one datagram holding exactly its bytes
        let written: Vec<Vec<u8>> = ops.iter().filter_map(|o| if let AOp::Wr(b) = o { Some(b.clone()) } else { None }).collect();
        if !(r.len() <= written.len() && written[..r.len()] == r[..]) {
            ctx.violation(&format!("c08/write/{}/datagrams", fl.tok()), "a written packet did not leave as exactly one datagram holding exactly its frame", &op, &join_hex(&written), &join_hex(r));
        }
    }
}

/// when set, the connection re-sends its IS_ISI (handshake) after the first packet of every multi-packet datagram
static MID_HANDSHAKE: std::sync::atomic::AtomicBool = std::sync::atomic::AtomicBool::new(false);

/// connection level: packets over a real loopback socket pair, lock-step, arbitrarily long sessions
pub fn session_case(ctx: &mut Ctx, fl: Flavour, compressed: bool, dgrams: &[Vec<Vec<u8>>], label: &str) {
    let frames: Vec<Vec<u8>> = dgrams.iter().flatten().cloned().collect();
    let (_, tbl) = class_table(compressed, &frames);
    let want: Vec<String> = frames.iter().map(|f| match tbl[f].as_str() { "E" => "err decode".to_string(), c => format!("pkt {}", c) }).collect();
    let n_ka = frames.iter().filter(|f| f[1] == 3 && f[2] == 0 && f[3] == 0 && tbl[*f] != "E").count();
    let dg: Vec<Vec<u8>> = dgrams.iter().map(|d| d.concat()).collect();
    let total_bytes: usize = dg.iter().map(|d| d.len()).sum();
    ctx.oracle_eval(&format!("session-{}", fl.tok()));
    let per: Vec<usize> = dgrams.iter().map(|d| d.len()).collect();
    let dg2 = dg.clone();
    let got: Option<(Vec<String>, Vec<Vec<u8>>)> = match fl {
        Flavour::Blocking => guard(std::panic::AssertUnwindSafe(move || {
            let (a, peer) = pair();
            a.set_read_timeout(Some(Duration::from_millis(200))).unwrap();
            peer.set_read_timeout(Some(Duration::from_millis(50))).unwrap();
            let mut f = insim::net::blocking_impl::Framed::new(Box::new(insim::net::blocking_impl::UdpStream::from(a)), Codec::new(mode_of(compressed)));
            let mut out = vec![];
            let mut replies = vec![];
            let mut buf = [0u8; 2048];
            for (i, d) in dg2.iter().enumerate() {
                peer.send(d).unwrap();
                for k in 0..per[i] {
                    match f.read() {
                        Ok(p) => out.push(format!("pkt {}", cls_token(&p))),
                        Err(e) => out.push(err_token(&e, false)),
                    }
                    if k == 0 && per[i] > 1 && MID_HANDSHAKE.load(std::sync::atomic::Ordering::Relaxed) { let _ = f.handshake(insim::insim::Isi::default()); }
                }
                // collect the replies as they arrive: the peer's socket buffer is finite and the operating system
                // drops datagrams that do not fit, which would be the harness's loss, not the library's
                peer.set_nonblocking(true).unwrap();
                while let Ok(n) = peer.recv(&mut buf) { replies.push(buf[..n].to_vec()); }
                peer.set_nonblocking(false).unwrap();
            }
            while let Ok(n) = peer.recv(&mut buf) { replies.push(buf[..n].to_vec()); }
            (out, replies)
        })),
        Flavour::Tokio => guard(std::panic::AssertUnwindSafe(move || {
            let rt = tokio::runtime::Builder::new_current_thread().enable_all().build().unwrap();
            rt.block_on(async move {
                let (a, peer) = pair();
                a.set_nonblocking(true).unwrap();
                peer.set_read_timeout(Some(Duration::from_millis(50))).unwrap();
                let s = insim::net::tokio_impl::UdpStream::from(tokio::net::UdpSocket::from_std(a).unwrap());
                let mut f = insim::net::tokio_impl::Framed::new(Box::new(s), Codec::new(mode_of(compressed)));
                let mut out = vec![];
                let mut replies = vec![];
                let mut buf = [0u8; 2048];
                'outer: for (i, d) in dg2.iter().enumerate() {
                    peer.send(d).unwrap();
                    for k in 0..per[i] {
                        match tokio::time::timeout(Duration::from_millis(300), f.read()).await {
                            Ok(Ok(p)) => out.push(format!("pkt {}", cls_token(&p))),
                            Ok(Err(e)) => out.push(err_token(&e, false)),
                            Err(_) => { out.push("stalled".into()); break 'outer; },
                        }
                        if k == 0 && per[i] > 1 && MID_HANDSHAKE.load(std::sync::atomic::Ordering::Relaxed) { let _ = f.handshake(insim::insim::Isi::default(), Duration::from_secs(2)).await; }
                    }
                    peer.set_nonblocking(true).unwrap();
                    while let Ok(n) = peer.recv(&mut buf) { replies.push(buf[..n].to_vec()); }
                    peer.set_nonblocking(false).unwrap();
                }
                while let Ok(n) = peer.recv(&mut buf) { replies.push(buf[..n].to_vec()); }
                (out, replies)
            })
        })),
    };
    let input = format!("{} {} {} {}", if MID_HANDSHAKE.load(std::sync::atomic::Ordering::Relaxed) { "udp.session.rehs" } else { "udp.session" }, fl.tok(), mode_tok(compressed), dgrams.iter().map(|d| join_hex(d)).collect::<Vec<_>>().join("/"));
    match got {
        None => ctx.violation(&format!("c08/session/{}/panic", fl.tok()), "UDP session panicked", &input, "packets", "panic"),
        Some((out, replies)) => {
            if out != want {
                let first = out.iter().zip(want.iter()).position(|(a, b)| a != b).unwrap_or(out.len().min(want.len()));
                let bytes_before: usize = frames[..first.min(frames.len())].iter().map(|f| f.len()).sum();
                ctx.violation(&format!("c08/session/{}/{}", fl.tok(), label), "packets delivered over UDP differ from the packets sent", &input,
                    &format!("{} packets; first difference at packet {} after {} of {} bytes: {:?}", want.len(), first, bytes_before, total_bytes, want.get(first)),
                    &format!("{:?}", out.get(first)));
            }
            // the handshakes the session sent on purpose are not replies
            let replies: Vec<Vec<u8>> = replies.into_iter().filter(|r| !(MID_HANDSHAKE.load(std::sync::atomic::Ordering::Relaxed) && r.get(1) == Some(&1))).collect();
            let pong = vec![size_byte(compressed, 4), 3, 0, 0];
            if out == want && (replies.len() != n_ka || replies.iter().any(|r| *r != pong)) {
                ctx.violation(&format!("c08/write/{}/datagrams", fl.tok()), "a written packet did not leave as exactly one datagram holding exactly its frame", &input, &format!("{} x {}", n_ka, hex(&pong)), &join_hex(&replies));
            }
        },
    }
}

/// writes: each packet leaves as one datagram holding exactly its frame
pub fn write_case(ctx: &mut Ctx, fl: Flavour, compressed: bool, frames: &[Vec<u8>]) {
    let packets: Vec<insim::Packet> = frames.iter().filter_map(|f| packet_of(compressed, f)).collect();
    if packets.len() != frames.len() { return; }
    // a kind whose re-encoding fails or aborts is C03's subject, not C08's: leave it out here
    let want: Vec<Vec<u8>> = packets.iter().filter_map(|p| { let p = p.clone(); guard(std::panic::AssertUnwindSafe(move || Codec::new(mode_of(compressed)).encode(&p).ok().map(|b| b.to_vec()))).flatten() }).collect();
    if want.len() != packets.len() { ctx.count("udp.write skipped (packet does not re-encode: C03)"); return; }
    ctx.oracle_eval(&format!("write-{}", fl.tok()));
    let got: Option<Vec<Vec<u8>>> = match fl {
        Flavour::Blocking => guard(std::panic::AssertUnwindSafe(move || {
            let (a, peer) = pair();
            peer.set_read_timeout(Some(Duration::from_millis(60))).unwrap();
            let mut f = insim::net::blocking_impl::Framed::new(Box::new(insim::net::blocking_impl::UdpStream::from(a)), Codec::new(mode_of(compressed)));
            for p in packets { let _ = f.write(p); }
            let mut out = vec![];
            let mut buf = [0u8; 4096];
            while let Ok(n) = peer.recv(&mut buf) { out.push(buf[..n].to_vec()); }
            out
        })),
        Flavour::Tokio => guard(std::panic::AssertUnwindSafe(move || {
            let rt = tokio::runtime::Builder::new_current_thread().enable_all().build().unwrap();
            rt.block_on(async move {
                let (a, peer) = pair();
                a.set_nonblocking(true).unwrap();
                peer.set_read_timeout(Some(Duration::from_millis(60))).unwrap();
                let s = insim::net::tokio_impl::UdpStream::from(tokio::net::UdpSocket::from_std(a).unwrap());
                let mut f = insim::net::tokio_impl::Framed::new(Box::new(s), Codec::new(mode_of(compressed)));
                for p in packets { let _ = f.write(p).await; }
                let mut out = vec![];
                let mut buf = [0u8; 4096];
                while let Ok(n) = peer.recv(&mut buf) { out.push(buf[..n].to_vec()); }
                out
            })
        })),
    };
    let input = format!("udp.write {} {} {}", fl.tok(), mode_tok(compressed), join_hex(frames));
    // independent of the encoder's own idea of a frame: every datagram is as long as its size byte says, one per packet
    if let Some(g) = &got {
        let bad = g.iter().find(|d| d.len() < 4 || (if compressed { d[0] as usize * 4 } else { d[0] as usize }) != d.len());
        if bad.is_some() || g.len() != frames.len() {
            ctx.violation(&format!("c08/write/{}/not-one-frame", fl.tok()), "a datagram does not hold exactly one frame (its length differs from what its size byte announces), or the number of datagrams differs from the number of packets written", &input, &format!("{} datagrams, each as long as its size byte says", frames.len()), &join_hex(g));
        }
    }
    if got.as_ref() != Some(&want) {
        ctx.violation(&format!("c08/write/{}/datagrams", fl.tok()), "a written packet did not leave as exactly one datagram holding exactly its frame", &input, &join_hex(&want), &format!("{:?}", got.map(|g| join_hex(&g))));
    }
}

pub fn run(ctx: &mut Ctx) {
    if let Some(lines) = ctx.replay.clone() {
        for l in lines {
            let w: Vec<&str> = l.split_whitespace().collect();
            let fl = |s: &str| if s == "tokio" { Flavour::Tokio } else { Flavour::Blocking };
            match w.as_slice() {
                ["udp.adaptor", f, offers, dg] => {
                    let o: Vec<usize> = if *offers == "-" { vec![] } else { offers.split(',').filter_map(|x| x.parse().ok()).collect() };
                    let d: Vec<Vec<u8>> = if *dg == "-" { vec![] } else { dg.split('+').map(unhex).collect() };
                    if *f == "tokio-sync" { adaptor_sync_case(ctx, &o, &d); } else { adaptor_case(ctx, fl(f), &o, &d); }
                },
                ["udp.ops", f, ops, dg] => {
                    let o: Vec<AOp> = if *ops == "-" { vec![] } else { ops.split(',').filter_map(aop_parse).collect() };
                    let d: Vec<Vec<u8>> = if *dg == "-" { vec![] } else { dg.split('+').map(unhex).collect() };
                    ops_case(ctx, fl(f), &o, &d);
                },
                ["udp.session", f, m, dg] | ["udp.session.rehs", f, m, dg] => {
                    let d: Vec<Vec<Vec<u8>>> = dg.split('/').map(|x| x.split('+').map(unhex).collect()).collect();
                    MID_HANDSHAKE.store(w[0] == "udp.session.rehs", std::sync::atomic::Ordering::Relaxed);
                    session_case(ctx, fl(f), *m == "c", &d, "replay");
                    MID_HANDSHAKE.store(false, std::sync::atomic::Ordering::Relaxed);
                },
                ["udp.refused", f, m] => refused_send_case(ctx, if *f == "tokio" { Flavour::Tokio } else { Flavour::Blocking }, *m == "c"),
                ["udp.write", f, m, frames] => {
                    let d: Vec<Vec<u8>> = frames.split('+').map(unhex).collect();
                    write_case(ctx, fl(f), *m == "c", &d);
                },
                _ => {},
            }
        }
        return;
    }
    let quick = ctx.quick();
    // adaptor level: small datagrams x small offers exhaustively, then random incl. 1020-byte datagrams and > 1020
    for fl in [Flavour::Blocking, Flavour::Tokio] {
        for dlen in [1usize, 4, 5, 8, 13] {
            for o1 in 1..=6usize {
                for o2 in [1usize, 3, 64] {
                    let d: Vec<u8> = (0..dlen as u8).map(|i| i.wrapping_mul(7).wrapping_add(1)).collect();
                    let d2: Vec<u8> = (0..7u8).map(|i| 200 - i).collect();
                    let offers: Vec<usize> = std::iter::repeat([o1, o2]).take(16).flatten().collect();
                    adaptor_case(ctx, fl, &offers, &[d, d2]);
                }
            }
        }
        for _ in 0..(if quick { 60 } else { 3000 }) {
            let k = 1 + ctx.rng.below(5) as usize;
            let dg: Vec<Vec<u8>> = (0..k).map(|_| { let n = *ctx.rng.pick(&[4usize, 8, 12, 132, 264, 600, 1016, 1020, 1020, 1024, 1400]); (0..n).map(|_| ctx.rng.byte()).collect() }).collect();
            let style = ctx.rng.below(4);
            let offers: Vec<usize> = (0..400).map(|_| match style { 0 => 1 + ctx.rng.below(8) as usize, 1 => 1 + ctx.rng.below(300) as usize, 2 => 6120, _ => 1 + ctx.rng.below(2000) as usize }).collect();
            adaptor_case(ctx, fl, &offers, &dg);
        }
    }
    // the tokio adaptor through its synchronous Read: a short read that leaves a remainder, then roomy slices (>= 1020 bytes)
    for (offers, lens) in [(vec![4usize, 2048, 2048, 2048], vec![12usize, 12]), (vec![1, 1020, 1020, 1020], vec![8, 4, 16]), (vec![3, 6120, 6120], vec![20, 1020]), (vec![4, 4, 4, 4, 4, 4], vec![12, 12]),
                           (vec![1019, 1020, 1021, 1020], vec![1020, 1020]), (vec![7, 1500, 2, 1500, 1500], vec![9, 9, 9])] {
        let dg: Vec<Vec<u8>> = lens.iter().enumerate().map(|(i, n)| (0..*n).map(|k| (k as u8).wrapping_mul(3).wrapping_add(i as u8 * 50 + 1)).collect()).collect();
        adaptor_sync_case(ctx, &offers, &dg);
    }
    // both halves of one adaptor: flushes and writes between the reads of a datagram served in pieces
    for fl in [Flavour::Blocking, Flavour::Tokio] {
        for dlen in [4usize, 8, 13] {
            for o1 in 1..=5usize {
                for mid in 0..4u8 {
                    let d: Vec<u8> = (0..dlen as u8).map(|i| i.wrapping_mul(11).wrapping_add(3)).collect();
                    let d2: Vec<u8> = (0..6u8).map(|i| 100 + i).collect();
                    let mut ops = vec![];
                    for i in 0..12 {
                        ops.push(AOp::Rd(if i % 2 == 0 { o1 } else { 64 }));
                        match mid { 1 => ops.push(AOp::Fl), 2 => ops.push(AOp::Wr(vec![4, 3, 0, i as u8])), 3 => { ops.push(AOp::Wr(vec![i as u8; 5])); ops.push(AOp::Fl); }, _ => {} }
                    }
                    ops_case(ctx, fl, &ops, &[d, d2]);
                }
            }
        }
        for _ in 0..(if quick { 40 } else { 2000 }) {
            let k = 1 + ctx.rng.below(4) as usize;
            let dg: Vec<Vec<u8>> = (0..k).map(|_| { let n = *ctx.rng.pick(&[4usize, 8, 12, 132, 600, 1020]); (0..n).map(|_| ctx.rng.byte()).collect() }).collect();
            let style = ctx.rng.below(3);
            let ops: Vec<AOp> = (0..300).map(|_| match ctx.rng.below(6) {
                0 => if ctx.rng.chance(1, 4) { AOp::Idle } else if ctx.rng.chance(1, 3) { AOp::Rx(1 + ctx.rng.below(40) as usize) } else { AOp::Fl },
                1 => { let n = if ctx.rng.chance(1, 6) { *ctx.rng.pick(&[255usize, 256, 257, 488, 1020]) } else { 1 + ctx.rng.below(12) as usize }; AOp::Wr((0..n).map(|_| ctx.rng.byte()).collect()) },
                _ => AOp::Rd(match style { 0 => 1 + ctx.rng.below(8) as usize, 1 => 1 + ctx.rng.below(300) as usize, _ => 1 + ctx.rng.below(2000) as usize }),
            }).collect();
            ops_case(ctx, fl, &ops, &dg);
        }
    }
    // a caller that fills ONE buffer with several reads (read_exact): blocks across datagram boundaries, larger than a datagram,
    // mixed with ordinary reads that leave a datagram half served
    for fl in [Flavour::Blocking, Flavour::Tokio] {
        let dgs: Vec<Vec<u8>> = (0..6u8).map(|k| (0..(5 + 3 * k)).map(|i| k.wrapping_mul(40).wrapping_add(i)).collect()).collect();
        for ops in [vec![AOp::Rx(7), AOp::Rx(7), AOp::Rx(7)], vec![AOp::Rx(20), AOp::Rd(3), AOp::Rx(9)], vec![AOp::Rd(2), AOp::Rx(4), AOp::Rx(11), AOp::Rd(64)], vec![AOp::Rx(1), AOp::Rx(4), AOp::Rx(5), AOp::Rx(8), AOp::Rx(30)]] {
            ops_case(ctx, fl, &ops, &dgs);
        }
    }
    // a receive attempt that fails (time-out: nothing to receive) before, between and after datagrams served in pieces
    for fl in [Flavour::Blocking, Flavour::Tokio] {
        for dlen in [4usize, 13] {
            for o1 in [1usize, 3, 64] {
                let d: Vec<u8> = (0..dlen as u8).map(|i| i.wrapping_mul(5).wrapping_add(9)).collect();
                let d2: Vec<u8> = (0..6u8).map(|i| 50 + i).collect();
                let mut ops = vec![AOp::Idle];
                for i in 0..10 { ops.push(AOp::Rd(if i % 2 == 0 { o1 } else { 64 })); ops.push(AOp::Idle); }
                ops_case(ctx, fl, &ops, &[d, d2]);
            }
        }
    }
    ctx.exhaustive_domains.push("adaptor with flushes/writes between reads: datagram lengths {4,8,13} x first offer 1..5 x {nothing, flush, write, write+flush} between every two reads, both adaptors".into());
    ctx.exhaustive_domains.push("adaptor: datagram lengths {1,4,5,8,13} x first offer 1..6 x second offer {1,3,64}, both adaptors".into());
    // connection level
    for compressed in [true, false] {
        let pool = build_pool(compressed);
        let ka = vec![size_byte(compressed, 4), 3, 0, 0];
        let big: Vec<Vec<u8>> = pool.by_type.iter().map(|(_, f)| f.clone()).filter(|f| f.len() >= 100).collect();
        let mut any: Vec<Vec<u8>> = pool.by_type.iter().map(|(_, f)| f.clone()).collect();
        // texts that fill their frame exactly (no NUL inside the frame): what follows in the datagram must not leak into them
        let exact = exact_text_frames(compressed);
        any.extend(exact.iter().cloned());
        any.extend(exact.iter().cloned());
        for fl in [Flavour::Blocking, Flavour::Tokio] {
            let dg: Vec<Vec<Vec<u8>>> = exact.iter().map(|e| vec![e.clone(), vec![size_byte(compressed, 4), 3, 9, 3], e.clone()]).collect();
            session_case(ctx, fl, compressed, &dg, "text-to-end-of-frame");
            // one packet per datagram, every kind
            let dg: Vec<Vec<Vec<u8>>> = any.iter().map(|f| vec![f.clone()]).collect();
            session_case(ctx, fl, compressed, &dg, "every-kind");
            // several packets per datagram incl. keep-alives
            let mut dg = vec![];
            for _ in 0..(if quick { 30 } else { 300 }) {
                let k = 1 + ctx.rng.below(4) as usize;
                let mut d: Vec<Vec<u8>> = vec![];
                let mut len = 0;
                for _ in 0..k {
                    let f = if ctx.rng.chance(1, 5) { ka.clone() } else { ctx.rng.pick(&any).clone() };
                    if len + f.len() <= 1020 { len += f.len(); d.push(f); }
                }
                if !d.is_empty() { dg.push(d); }
            }
            session_case(ctx, fl, compressed, &dg, "several-per-datagram");
            // a handshake re-sent after the first packet of every datagram: the rest of that datagram is still delivered
            {
                let ping2 = vec![size_byte(compressed, 4), 3, 2, 3];
                let dg: Vec<Vec<Vec<u8>>> = (0..6).map(|i| vec![ping2.clone(), vec![size_byte(compressed, 4), 3, 10 + i as u8, 3], ka.clone(), ping2.clone()]).collect();
                MID_HANDSHAKE.store(true, std::sync::atomic::Ordering::Relaxed);
                session_case(ctx, fl, compressed, &dg, "handshake-mid-datagram");
                MID_HANDSHAKE.store(false, std::sync::atomic::Ordering::Relaxed);
            }
            // long session far beyond the 6120-byte receive buffer, large datagrams
            if !big.is_empty() {
                let n = if quick { 120 } else { 3000 };
                let dg: Vec<Vec<Vec<u8>>> = (0..n).map(|i| { let f = big[i % big.len()].clone(); if i % 3 == 0 && f.len() * 2 <= 1020 { vec![f.clone(), f] } else { vec![f] } }).collect();
                session_case(ctx, fl, compressed, &dg, "long-session");
            }
            // long session whose datagrams carry several packets with keep-alives in between (the connection answers a
            // keep-alive while the rest of that datagram may still be held back by the adaptor)
            {
                let n = if quick { 150 } else { 3000 };
                let mut dg: Vec<Vec<Vec<u8>>> = vec![];
                for _ in 0..n {
                    let mut d: Vec<Vec<u8>> = vec![];
                    let mut len = 0;
                    for _ in 0..(2 + ctx.rng.below(5)) {
                        let f = if ctx.rng.chance(2, 5) { ka.clone() } else { ctx.rng.pick(&any).clone() };
                        if len + f.len() <= 1020 { len += f.len(); d.push(f); }
                    }
                    if !d.is_empty() { dg.push(d); }
                }
                session_case(ctx, fl, compressed, &dg, "long-mixed-keepalives");
            }
            // writes
            for _ in 0..(if quick { 8 } else { 200 }) {
                let k = 1 + ctx.rng.below(5) as usize;
                let fr: Vec<Vec<u8>> = (0..k).map(|_| ctx.rng.pick(&any).clone()).collect();
                write_case(ctx, fl, compressed, &fr);
            }
            // a send that is refused (closed port), then sends that succeed
            refused_send_case(ctx, fl, compressed);
            // … including every large frame (well beyond 255 bytes in compressed mode), alone and between small ones
            let bigs = big_frames(compressed);
            for b in &bigs {
                write_case(ctx, fl, compressed, &[b.clone()]);
                write_case(ctx, fl, compressed, &[ka.clone(), b.clone(), ka.clone()]);
            }
        }
    }
}
