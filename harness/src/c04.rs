//! C04 — decoding untrusted bytes: total, bounded, always progresses.
use crate::c01::dec_case;
use crate::common::*;
use crate::conn::size_byte;
use crate::pkt::*;

fn announced(compressed: bool, b: u8) -> usize {
    if compressed { b as usize * 4 } else { b as usize }
}

/// the property's statement on one buffer
pub fn hostile_case(ctx: &mut Ctx, ls: &Layouts, compressed: bool, buf: &[u8], class: &str) {
    let d = dec_case(ctx, ls, compressed, buf);
    let op = format!("pkt.dec {}", frame_text(compressed, buf));
    let max = if compressed { 1020 } else { 255 };
    let kind = buf.get(1).copied().unwrap_or(0);
    match d {
        Dec::Panic => ctx.violation(&format!("c04/panic/{}/type{}", class, kind), "the decoder panicked on untrusted bytes", &op, "a result", "panic"),
        Dec::None(rem) => {
            if rem != buf.len() {
                ctx.violation("c04/need-more-touched-buffer", "'need more data' but the buffer was modified", &op, &buf.len().to_string(), &rem.to_string());
            }
            if buf.len() >= 4 {
                let n = announced(compressed, buf[0]);
                if n >= 4 && n <= max && n <= buf.len() {
                    ctx.violation("c04/need-more-but-complete", "a complete announced frame was available but the decoder asked for more data", &op, "frame removed", "none");
                }
            }
        },
        Dec::Pkt(_, rem) | Dec::ErrDecode(rem) => {
            let n = announced(compressed, buf[0]);
            let removed = buf.len() - rem;
            if removed != n || n < 4 || n > buf.len() {
                ctx.violation(&format!("c04/removed/{}", if removed < 4 { "less-than-4" } else { "not-announced" }), "the decoder did not remove exactly the announced frame (at least 4 bytes, never more than announced)", &op, &format!("removed {}", n), &format!("removed {}", removed));
            }
        },
        Dec::ErrFraming(rem) => {
            let n = if buf.is_empty() { 0 } else { announced(compressed, buf[0]) };
            if !(n > max || n < 4) {
                ctx.violation("c04/framing-for-possible-length", "a framing error for a possible announced length", &op, "packet / decode error / need more", "framing error");
            }
            if rem != buf.len() {
                ctx.violation("c04/framing-touched-buffer", "framing error but the buffer was modified", &op, &buf.len().to_string(), &rem.to_string());
            }
        },
    }
}

/// frame locality on the real decoder: what follows a complete frame never influences the result
pub fn locality_case(ctx: &mut Ctx, ls: &Layouts, compressed: bool, frame: &[u8], tail: &[u8]) {
    ctx.oracle_eval("locality");
    let a = dec_line(ls, compressed, frame, false).0;
    let mut both = frame.to_vec();
    both.extend_from_slice(tail);
    let b = dec_line(ls, compressed, &both, false).0;
    let strip = |s: &str| s.rsplit_once(" rem=").map(|(h, _)| h.to_string()).unwrap_or(s.to_string());
    let rem_b: usize = b.rsplit_once(" rem=").and_then(|(_, r)| r.parse().ok()).unwrap_or(usize::MAX);
    if strip(&a) != strip(&b) || (rem_b != tail.len() && !a.starts_with("none") && !a.starts_with("err framing")) {
        ctx.violation("c04/not-frame-local", "bytes after the announced frame influenced the result or were consumed", &format!("pkt.loc {} {}", frame_text(compressed, frame), if tail.is_empty() { "-".to_string() } else { hex(tail) }), &format!("{} rem={}", strip(&a), tail.len()), &b);
    }
}

pub fn run(ctx: &mut Ctx) {
    let ls = load_layouts();
    if let Some(lines) = ctx.replay.clone() {
        for l in lines {
            let w: Vec<&str> = l.split_whitespace().collect();
            if let ["pkt.dec", m, h] = w.as_slice() { hostile_case(ctx, &ls, *m == "c", &unhex(h), "replay"); }
            // a frame and what follows it in the buffer: `pkt.loc <mode> <frame> <tail>`
            if let ["pkt.loc", m, h, t] = w.as_slice() { locality_case(ctx, &ls, *m == "c", &unhex(h), &if *t == "-" { vec![] } else { unhex(t) }); }
        }
        return;
    }
    let quick = ctx.quick();
    for compressed in [true, false] {
        // every (size, type) header pair with several bodies
        for size in 0..=255u8 {
            for ty in 0..=255u8 {
                if quick && (ty as u32 + size as u32 * 7) % 5 != 0 && size > 12 && ty > 70 && ty < 249 { continue; }
                let n = announced(compressed, size).min(1100);
                for style in 0..(if quick { 1 } else { 3 }) {
                    let mut buf = vec![size, ty];
                    while buf.len() < n { buf.push(match style { 0 => 0, 1 => 0xff, _ => ctx.rng.byte() }); }
                    hostile_case(ctx, &ls, compressed, &buf, "header");
                }
            }
        }
        ctx.exhaustive_domains.push(format!("all 256 x 256 (size, type) header pairs{} with zero bodies, mode {}", if quick { " (thinned above size 12 in quick)" } else { " with zero, 0xff and random bodies" }, if compressed { "c" } else { "u" }));
        // mutations of valid frames of every kind
        for l in ls.kinds.clone().iter() {
            let n_base = if quick { 6 } else { 60 };
            for _ in 0..n_base {
                let o = GenOpts { wild: 10, text: 1, count: None };
                let f = gen_frame(&mut ctx.rng, l, compressed, &o);
                hostile_case(ctx, &ls, compressed, &f, "valid");
                // truncations at every length (the size byte still announces the full frame -> need more)
                for cut in 0..f.len() {
                    if quick && cut > 8 && cut % 7 != 0 { continue; }
                    hostile_case(ctx, &ls, compressed, &f[..cut], "truncated");
                }
                // shortened announcement: the frame claims to be shorter than the kind needs
                for k in 1..(f.len() / 4) {
                    let mut g = f[..k * 4].to_vec();
                    g[0] = size_byte(compressed, g.len());
                    hostile_case(ctx, &ls, compressed, &g, "short-announcement");
                    // … with the rest of the stream right behind it: a frame that is too short for its kind must not borrow
                    // what it lacks from the next frame
                    if k <= 3 || k % 5 == 0 { locality_case(ctx, &ls, compressed, &g, &f[k * 4..]); locality_case(ctx, &ls, compressed, &g, &[size_byte(compressed, 4), 3, 2, 3]); }
                }
                // extension + locality
                let tail: Vec<u8> = (0..ctx.rng.below(9)).map(|_| ctx.rng.byte()).collect();
                locality_case(ctx, &ls, compressed, &f, &tail);
                // bit flips
                for _ in 0..(if quick { 8 } else { 60 }) {
                    let mut g = f.clone();
                    let i = 1 + ctx.rng.below((g.len() - 1) as u64) as usize;
                    g[i] ^= 1 << ctx.rng.below(8);
                    hostile_case(ctx, &ls, compressed, &g, "bitflip");
                }
                // every byte value in every enum-typed / custom position (first base frame only)
            }
            let base = gen_frame(&mut Rng::new(11), l, compressed, &GenOpts { wild: 0, text: 0, count: Some(1) });
            let mut off = 2usize;
            for f in l["fields"].as_array().cloned().unwrap_or_default() {
                off += f["rb"].as_u64().unwrap_or(0) as usize;
                let w = ty_size(&f["ty"]);
                let k = f["ty"]["k"].as_str().unwrap_or("");
                if k == "enum" || k == "custom" || k == "bool8" || k == "count" {
                    for pos in off..(off + w).min(base.len()) {
                        for v in 0..=255u8 {
                            if quick && k == "custom" && w > 4 && v % 3 != 0 { continue; }
                            let mut g = base.clone();
                            g[pos] = v;
                            hostile_case(ctx, &ls, compressed, &g, "enum-position");
                        }
                    }
                }
                if f["ty"]["id"] == "CimMode" && off + 3 <= base.len() {
                    for mode in 0..=8u8 { for sub in 0..=12u8 { let mut g = base.clone(); g[off] = mode; g[off + 1] = sub; hostile_case(ctx, &ls, compressed, &g, "cim-mode-submode"); } }
                }
                off += w + f["ra"].as_u64().unwrap_or(0) as usize;
            }
        }
        // kinds with a hand-written body or an until-end-of-frame text: every byte value at every position of several short frames,
        // including bodies with NULs inside and NUL padding (text offsets pointing into the padding)
        for l in ls.kinds.clone().iter() {
            let custom = l["custom_body"].as_bool() == Some(true);
            if !custom && l["tail"]["k"] != "streof" { continue; }
            let ty = l["type_no"].as_u64().unwrap() as u8;
            let bodies: Vec<Vec<u8>> = vec![
                vec![0, 0, 3, 7, 1, 3, b'h', b'i', 0, 0],
                vec![1, 0, 0, 0, 2, 6, b'a', b'b', 0, b' ', b':', b' ', b'h', b'e', b'y', 0, 0, 0],
                vec![0, 0, 0, 0, 0, 0, 0, 0, 0, 0],
                vec![9, 0, 1, 2, 1, 4, b'n', b'a', b'm', b'e', b'm', b's', b'g', b'!', b'x', b'y', b'z', b'w'],
            ];
            for body in bodies {
                let mut f = vec![0u8, ty];
                f.extend_from_slice(&body);
                while f.len() % 4 != 0 { f.push(0); }
                f[0] = size_byte(compressed, f.len());
                for pos in 2..f.len() {
                    for v in 0..=255u8 {
                        if quick && pos > 9 && v > 8 && v % 16 != 0 { continue; }
                        let mut g = f.clone();
                        g[pos] = v;
                        hostile_case(ctx, &ls, compressed, &g, "text-body");
                    }
                }
            }
        }
        // counted kinds filled as far as the frame limit allows — well above what LFS sends (more than 40 players, 16 cars, 60
        // objects): arithmetic on the count byte (an odd-count pad, a size computed from it) must hold up to 255
        for l in ls.kinds.clone().iter() {
            if l["tail"]["k"] != "vec" && l["tail"]["k"] != "set" { continue; }
            for n in [31usize, 32, 41, 42, 43, 44, 62, 63, 64, 85, 86, 120, 127, 128, 169, 170, 200, 253, 254, 255] {
                let f = gen_frame(&mut ctx.rng, l, compressed, &GenOpts { wild: 0, text: 0, count: Some(n) });
                // gen_frame cuts at the mode's limit: only frames that really hold all n elements are interesting here, the
                // cut ones are ordinary truncations (covered above) — both are run
                hostile_case(ctx, &ls, compressed, &f, "many-elements");
            }
        }
        // texts that fill their frame to the last byte (no NUL behind them: the encoder's own output when the text is a
        // multiple of four long) followed by another frame: the text ends where the frame ends
        for l in ls.kinds.clone().iter() {
            let custom = l["custom_body"].as_bool() == Some(true);
            if !custom && l["tail"]["k"] != "streof" { continue; }
            let ty = l["type_no"].as_u64().unwrap() as u8;
            for text in [&b"abcd"[..], b"pit now!", b"^C\xef\xf0\xe8\xe2\xe5\xf2", b"abcdefghijkl"] {
                let mut f = vec![0u8, ty, 0, 0, 0, 0, 0, 0];
                f.extend_from_slice(text);
                f[0] = size_byte(compressed, f.len());
                for tail in [&[size_byte(compressed, 4), 3, 2, 3][..], b"more text\0\0\0", &[0x41u8][..]] { locality_case(ctx, &ls, compressed, &f, tail); }
            }
        }
        // the two kinds whose list is a *set* in the crate (allowed mods, banned addresses): the peer may well name one entry
        // twice, or send an all-zero list — the count byte then no longer equals the number of distinct entries
        for ty in [65u8, 67] {
            for n in [2usize, 3, 5, 16, 62] {
                if !compressed && 8 + 4 * n > 255 { continue; }
                let pats: Vec<Box<dyn Fn(usize) -> u32>> = vec![Box::new(|_| 0u32), Box::new(|_| 0x0a01_0203), Box::new(|i| if i % 2 == 0 { 0x0012_3456 } else { 0x00ab_cdef }), Box::new(|i| (i as u32 / 2) + 1), Box::new(|i| if i == 0 { 7 } else { i as u32 })];
                for pat in pats.iter() {
                    let mut f = vec![0u8, ty, 1, n as u8, 0, 0, 0, 0];
                    for i in 0..n { f.extend_from_slice(&pat(i).to_le_bytes()); }
                    f[0] = size_byte(compressed, f.len());
                    hostile_case(ctx, &ls, compressed, &f, "set-with-repeated-entries");
                }
            }
        }
        ctx.exhaustive_domains.push(format!("every byte value 0..255 in every enum-typed, bool, count and hand-written-codec position of every kind, mode {}", if compressed { "c" } else { "u" }));
        // text that is valid UTF-8 but not ASCII in every text position that is parsed further (the version text of IS_VER goes
        // through a number parser whose notion of "numeric" is Unicode's): multi-byte numerics, letters, symbols, at every offset
        {
            let utf8: Vec<&str> = vec!["\u{b2}", "\u{663}", "\u{bd}", "\u{ff15}", "\u{e9}", "\u{2167}", "\u{1f600}", "\u{3b1}"];
            for pre in ["", "0", "0.", "0.7", "7", ".", "0.7E", "0.7E1"] {
                for u in &utf8 {
                    for post in ["", "E", "1", ".5", "A1"] {
                        let t = format!("{}{}{}", pre, u, post);
                        if t.len() > 8 { continue; }
                        let mut v = t.as_bytes().to_vec(); v.resize(8, 0);
                        let mut f = vec![size_byte(compressed, 20), 2, 1, 0];
                        f.extend_from_slice(&v);
                        f.extend_from_slice(b"S3\0\0\0\0");
                        f.extend_from_slice(&[9, 0]);
                        hostile_case(ctx, &ls, compressed, &f, "utf8-text");
                    }
                }
            }
            // … and in the ordinary codepage text fields of a few kinds (MST, NCN, MSO name part)
            for u in &utf8 {
                let mut f = vec![size_byte(compressed, 68), 13, 0, 0];
                let mut m = format!("a{}b^C{}", u, u).into_bytes(); m.resize(64, 0);
                f.extend_from_slice(&m);
                hostile_case(ctx, &ls, compressed, &f, "utf8-text");
            }
        }
        // random buffers
        for _ in 0..(if quick { 4000 } else { 400_000 }) {
            let n = ctx.rng.below(40) as usize;
            let mut buf: Vec<u8> = (0..n).map(|_| ctx.rng.byte()).collect();
            if n > 1 && ctx.rng.chance(1, 2) { buf[0] = size_byte(compressed, (n / 4) * 4); buf[1] = 1 + ctx.rng.below(67) as u8; }
            hostile_case(ctx, &ls, compressed, &buf, "random");
        }
    }
}
