//! C12 — escaping, unescaping, colour stripping (and the end-to-end wire clause through the codepage functions).
use crate::common::*;
use insim_core::string::codepages::{to_lossy_bytes, to_lossy_string};
use insim_core::string::colours::strip;
use insim_core::string::escaping::{escape, unescape};

pub fn cps(s: &str) -> String {
    if s.is_empty() { return "-".into(); }
    s.chars().map(|c| (c as u32).to_string()).collect::<Vec<_>>().join(",")
}
pub fn from_cps(t: &str) -> String {
    if t == "-" { return String::new(); }
    t.split(',').filter_map(|x| x.parse::<u32>().ok().and_then(char::from_u32)).collect()
}
const RESERVED: &str = "|*:\\/?\"<>#";

fn g1(f: fn(&str) -> std::borrow::Cow<str>, s: &str) -> Option<String> {
    let s = s.to_string();
    guard(move || f(&s).to_string())
}

/// independent statement of "remove exactly the ^0..^9 codes, leave ^^ untouched"
fn strip_spec(s: &str) -> String {
    let cs: Vec<char> = s.chars().collect();
    let mut out = String::new();
    let mut i = 0;
    while i < cs.len() {
        if cs[i] == '^' && i + 1 < cs.len() && cs[i + 1] == '^' { out.push('^'); out.push('^'); i += 2; }
        else if cs[i] == '^' && i + 1 < cs.len() && cs[i + 1].is_ascii_digit() { i += 2; }
        else { out.push(cs[i]); i += 1; }
    }
    out
}

fn wire_ok(s: &str) -> bool {
    let es = match g1(escape, s) { Some(e) => e, None => return false };
    let r = guard(move || { let b = to_lossy_bytes(&es).to_vec(); to_lossy_string(&b).to_string() }).and_then(|d| g1(unescape, &d));
    r.as_deref() == Some(s)
}

/// attribute a failure of the wire clause to one of the recorded ingredients: the clause must hold once that
/// ingredient is taken out of the text, otherwise the failure is something else and stays unlisted
fn strip_caret_letters(a: &str) -> (String, bool) {
    let mut a: Vec<char> = a.chars().collect();
    let mut hit = false;
    loop {
        let mut changed = false;
        let mut out = vec![];
        let mut i = 0;
        while i < a.len() {
            if a[i] == '^' && i + 1 < a.len() && "LGCETBJHSK".contains(a[i + 1]) { hit = true; changed = true; i += 2; continue; }
            out.push(a[i]);
            i += 1;
        }
        a = out;
        if !changed { break; }
    }
    (a.into_iter().collect(), hit)
}

/// remove every literal `^8`, repeatedly (removing one can bring a caret and an 8 together)
fn strip_c8(a: &str) -> String {
    let mut a = a.to_string();
    while a.contains("^8") { a = a.replace("^8", ""); }
    a
}

fn wire_class(s: &str) -> &'static str {
    let rep = crate::text::repertoire();
    let is_ni = |ch: char| rep.not_inverted.iter().any(|(_, x)| *x == ch);
    let is_t5 = |ch: char| rep.trail_5e.iter().any(|(_, x)| *x == ch);
    // take the recorded ingredients out one class at a time, cumulatively; the clause must hold for what is left
    let (a, hit1) = strip_caret_letters(s);
    if hit1 && wire_ok(&a) { return "caret-then-codepage-letter"; }
    let b = strip_c8(&a);
    // the recorded ^8 finding needs bytes of a non-Latin codepage *after* a ^8 and before the next marker: in the encoded text, a
    // "^8" followed (before any further caret) by a byte above 0x7F. A ^8 at the end of the text, or directly in front of a
    // codepage switch, is harmless on the unchanged code
    let enc = g1(escape, &a).and_then(|es| guard(move || to_lossy_bytes(&es).to_vec())).unwrap_or_default();
    let mut desync = false;
    let mut i = 0;
    while i + 1 < enc.len() {
        if enc[i] == b'^' && enc[i + 1] == b'8' {
            let mut j = i + 2;
            // up to the next *marker* (a caret followed by a codepage letter or 8); other caret pairs (^^, colours, escapes) do not
            // change the codepage on either side
            while j < enc.len() {
                if enc[j] == b'^' && j + 1 < enc.len() { if b"LGCETBJHSK8".contains(&enc[j + 1]) { break; } j += 2; continue; }
                if enc[j] >= 0x80 { desync = true; }
                j += 1;
            }
        }
        i += 1;
    }
    let hit2 = b.len() != a.len() && desync;
    if hit2 && wire_ok(&b) { return if hit1 { "caret-then-codepage-letter" } else { "colour8-desync" }; }
    let c: String = b.chars().filter(|ch| !is_ni(*ch) && !is_t5(*ch)).collect();
    let hit3 = c.len() != b.len();
    let (d, hit4) = strip_caret_letters(&c);
    let d = strip_c8(&d);
    if (hit3 || hit4) && wire_ok(&d) {
        if hit1 || hit4 { return "caret-then-codepage-letter"; }
        if hit2 { return "colour8-desync"; }
        if b.chars().any(is_ni) { return "codec-not-inverting"; }
        // the recorded finding needs the trail byte 0x5E directly in front of a marker letter in the escaped text
        let es: Vec<char> = g1(escape, &b).unwrap_or_default().chars().collect();
        return if es.windows(2).any(|w| is_t5(w[0]) && "LGCETBJHSK8".contains(w[1])) { "trail-byte-5e" } else { "other" };
    }
    "other"
}

pub fn do_string(ctx: &mut Ctx, s: &str, model_lines: bool, wire: bool) {
    let t = cps(s);
    let e = g1(escape, s);
    let u = g1(unescape, s);
    let st = g1(strip, s);
    if model_lines {
        ctx.case(&format!("esc {}", t), &e.as_ref().map(|x| cps(x)).unwrap_or("panic".into()));
        ctx.case(&format!("unesc {}", t), &u.as_ref().map(|x| cps(x)).unwrap_or("panic".into()));
        ctx.case(&format!("strip {}", t), &st.as_ref().map(|x| cps(x)).unwrap_or("panic".into()));
    } else {
        ctx.oracle_eval("string");
    }
    let input = format!("esc {}", t);
    match &e {
        None => ctx.violation("c12/escape/panic", "escape panicked", &input, "string", "panic"),
        Some(es) => {
            match g1(unescape, es) {
                Some(back) if back == s => {},
                other => ctx.violation("c12/unescape-escape", "unescape(escape(s)) != s", &input, &t, &format!("{:?}", other.map(|x| cps(&x)))),
            }
            if es.chars().any(|c| RESERVED.contains(c)) {
                ctx.violation("c12/reserved-raw", "escaped output contains a reserved character in raw form", &input, "none of |*:\\/?\"<>#", &cps(es));
            }
            if wire && s.chars().all(crate::text::encodable_somewhere) && !s.contains('\u{0}') {
                // escaped text through the codepage encode/decode path, then unescape
                let es2 = es.clone();
                let r = guard(move || { let b = to_lossy_bytes(&es2).to_vec(); to_lossy_string(&b).to_string() }).and_then(|d| g1(unescape, &d));
                if r.as_deref() != Some(s) {
                    ctx.violation(&format!("c12/wire/{}", wire_class(s)), "unescape(decode(encode(escape(s)))) != s", &format!("wire {}", t), &t, &format!("{:?}", r.map(|x| cps(&x))));
                }
            }
        },
    }
    match &st {
        None => ctx.violation("c12/strip/panic", "strip panicked", &format!("strip {}", t), "string", "panic"),
        Some(x) => {
            if *x != strip_spec(s) {
                ctx.violation("c12/strip-exact", "strip does not remove exactly the ^0..^9 codes", &format!("strip {}", t), &cps(&strip_spec(s)), &cps(x));
            }
            if g1(strip, x).as_deref() != Some(x.as_str()) {
                ctx.violation("c12/strip-idempotent", "strip(strip(s)) != strip(s)", &format!("strip {}", t), &cps(x), "different");
            }
        },
    }
    if u.is_none() {
        ctx.violation("c12/unescape/panic", "unescape panicked", &format!("unesc {}", t), "string", "panic");
    }
}

pub fn run(ctx: &mut Ctx) {
    if let Some(lines) = ctx.replay.clone() {
        for l in lines {
            let w: Vec<&str> = l.split_whitespace().collect();
            match w.as_slice() {
                ["esc", t] | ["unesc", t] | ["strip", t] => do_string(ctx, &from_cps(t), true, false),
                ["wire", t] => do_string(ctx, &from_cps(t), true, true),
                _ => {},
            }
        }
        return;
    }
    // alphabet of class representatives: caret, digits, every escape letter, every reserved char, codepage letters, others
    // … plus a non-ASCII *numeric* character (a digit to `char::is_numeric`, not a colour) and a wrong-case escape letter
    // … plus characters outside Latin-1 whose code point ends in the byte of a significant ASCII character (U+015E ~ '^',
    // U+0131 ~ '1', U+0176 ~ 'v'): a scanner that narrows `char` to `u8` confuses them
    let alpha: Vec<char> = "^18vacdsqtlrh|*:\\/?\"<>#LK x\u{b2}V\u{15e}\u{131}\u{176}".chars().collect();
    let maxlen = if ctx.quick() { 4 } else { 5 };
    let mut total = 0u64;
    for len in 0..=maxlen {
        let n = (alpha.len() as u64).pow(len as u32);
        for idx in 0..n {
            let mut s = String::new();
            let mut x = idx;
            for _ in 0..len { s.push(alpha[(x % alpha.len() as u64) as usize]); x /= alpha.len() as u64; }
            // model lines for strings up to length 3 and a thinned subset above
            let ml = len <= 3 || idx % 23 == 0;
            do_string(ctx, &s, ml, false);
            total += 1;
        }
    }
    ctx.exhaustive_domains.push(format!("all {} strings over the {}-character class alphabet up to length {}", total, alpha.len(), maxlen));
    // smaller alphabet, longer strings (interaction of carets, digits, escapes)
    let small: Vec<char> = "^1v|L".chars().collect();
    let maxlen2 = if ctx.quick() { 7 } else { 9 };
    let mut total2 = 0u64;
    for len in 0..=maxlen2 {
        let n = (small.len() as u64).pow(len as u32);
        for idx in 0..n {
            let mut s = String::new();
            let mut x = idx;
            for _ in 0..len { s.push(small[(x % small.len() as u64) as usize]); x /= small.len() as u64; }
            do_string(ctx, &s, idx % 7 == 0, len <= 6);
            total2 += 1;
        }
    }
    ctx.exhaustive_domains.push(format!("all {} strings over {{^ 1 v | L}} up to length {} (wire clause up to length 6)", total2, maxlen2));
    // Latin-1 letters whose bytes look like a byte-order mark (FF FE / FE FF / EF BB BF), at the start and elsewhere, with and
    // without anything that needs escaping or a codepage switch after them
    for pre in ["\u{ff}\u{fe}", "\u{fe}\u{ff}", "\u{ef}\u{bb}\u{bf}", "\u{ff}", "\u{fe}", "\u{ef}\u{bb}"] {
        for suf in ["", "ab", "|x", "?", "^", " \u{11b}", "a\u{ff}\u{fe}", "\u{0436}"] {
            do_string(ctx, &format!("{}{}", pre, suf), true, true);
            do_string(ctx, &format!("a{}{}", pre, suf), true, true);
        }
    }
    // every encodable character below U+0250 — the C1 controls U+0080..U+009F (where Latin-1 and LFS's default CP1252 part
    // ways), the Latin-1 supplement and the Latin extensions — alone, between reserved characters, and after a codepage switch
    let mut low = 0u64;
    for cp in 0x80u32..0x250 {
        let c = match char::from_u32(cp) { Some(c) => c, None => continue };
        if !crate::text::encodable_somewhere(c) { continue; }
        low += 1;
        do_string(ctx, &c.to_string(), true, true);
        do_string(ctx, &format!("^ café <{}> ^1a|b", c), cp % 8 == 0, true);
        do_string(ctx, &format!("ж{}ж", c), cp % 8 == 0, true);
    }
    ctx.exhaustive_domains.push(format!("wire clause: each of the {} encodable characters in U+0080..U+024F alone, inside escaped Latin-1 text, and between Cyrillic letters", low));
    // ^8 (colour *and* codepage reset) in every position relative to codepage text: at the end, directly before a switch, alone
    for t in ["^8", "abc^8", "^1red^8", "\u{428}\u{443}\u{43c}^8", "^8\u{448}", "^1abc^8\u{11b}\u{161}", "\u{448}^8\u{7f8e}", "a^8b", "^8^8", "x^8\u{e9}"] {
        do_string(ctx, t, true, true);
    }
    // random longer Unicode strings
    let pool: Vec<char> = "^^^0189vacdsqtlrh|*:\\/?\"<>#LGCETBJHSK abcXYZ_-.,\u{b2}\u{bd}\u{ff15}\u{663}\u{ff}\u{fe}\u{ef}\u{bb}\u{bf}\u{15e}\u{45e}\u{305e}\u{4e5e}\u{131}\u{438}\u{176}é€ěšЖяαβğşąłıİ日本語한국어中文ﾏ¥訖\u{1f600}\u{fffd}\u{0}".chars().collect();
    let n = if ctx.quick() { 4000 } else { 400_000 };
    for _ in 0..n {
        let len = ctx.rng.below(40) as usize;
        let s: String = (0..len).map(|_| *ctx.rng.pick(&pool)).collect();
        do_string(ctx, &s, true, true);
    }
}
