//! C06 — writes reach the transport complete, contiguous and in order.
use crate::common::*;
use crate::conn::*;
use crate::transport::*;
use insim::net::Codec;
use insim::Packet;

fn encode(compressed: bool, p: &Packet) -> Option<Vec<u8>> {
    #[allow(unused_mut)] let mut c = Codec::new(mode_of(compressed));
    let p = p.clone();
    guard(std::panic::AssertUnwindSafe(move || c.encode(&p).ok().map(|b| b.to_vec()))).flatten()
}

pub fn write_case(ctx: &mut Ctx, fl: Flavour, compressed: bool, frames: &[Vec<u8>], wscript: Vec<WEv>) {
    // packets = what the real decoder makes of the frames; the frames the model works with = the real encoder's image
    let packets: Vec<Packet> = frames.iter().filter_map(|f| packet_of(compressed, f)).collect();
    let encoded: Vec<Vec<u8>> = packets.iter().filter_map(|p| encode(compressed, p)).collect();
    if packets.len() != frames.len() || encoded.len() != packets.len() {
        ctx.count("write cases skipped (frame not decodable/encodable)");
        return;
    }
    let packets_n = packets.len();
    let (r, results) = run_writes(fl, compressed, packets, wscript.clone());
    let fr = if encoded.is_empty() { "-".to_string() } else { encoded.iter().map(|f| hex(f)).collect::<Vec<_>>().join("+") };
    let slow = crate::transport::SLOW.with(|x| x.get());
    let op = format!("framed.write {} {} {} {}{}", fl.tok(), mode_tok(compressed), fr, wscript_text(&wscript), if slow > 0 { format!(" slow={}", slow) } else { String::new() });
    let res = format!("{} | out={}", if results.is_empty() { "-".to_string() } else { results.join(",") }, hex(&r.out));
    ctx.case(&op, &res);
    // oracle
    // independent of what the encoder thinks a frame is: cut the bytes that reached the transport by their size bytes —
    // after n successful writes they must be exactly n frames, nothing before, between or after them
    if results.iter().all(|r| r == "ok") && results.len() == packets_n {
        let mut pos = 0usize;
        let mut n = 0usize;
        while pos < r.out.len() {
            let len = if compressed { r.out[pos] as usize * 4 } else { r.out[pos] as usize };
            if len < 4 || pos + len > r.out.len() { break; }
            pos += len;
            n += 1;
        }
        if pos != r.out.len() || n != packets_n {
            ctx.violation(&format!("c06/stream-not-frames/{}", fl.tok()), "the bytes on the transport are not exactly one self-delimiting frame per written packet (stray bytes before, between or after frames)", &op, &format!("{} frames, {} bytes, all accounted for by their size bytes", packets_n, r.out.len()), &format!("{} frames cover {} of {} bytes: {}", n, pos, r.out.len(), truncate(&hex(&r.out), 160)));
        }
    }
    let all: Vec<u8> = encoded.concat();
    let healthy = !wscript.iter().any(|w| matches!(w, WEv::IoErr | WEv::Accept(0)));
    let all_ok = results.iter().all(|r| r == "ok") && results.len() == encoded.len();
    if healthy {
        if !(all_ok && r.out == all) {
            ctx.violation(&format!("c06/complete/{}", fl.tok()), "a packet did not reach the transport as its complete frame on a transport that accepts few bytes per call / reports not-ready", &op, &format!("ok.. | out={}", hex(&all)), &res);
        }
    } else if all_ok {
        if r.out != all {
            ctx.violation(&format!("c06/ok-but-short/{}", fl.tok()), "write returned Ok but the frame is not completely on the wire", &op, &hex(&all), &res);
        }
    } else if !all.starts_with(&r.out) {
        ctx.violation(&format!("c06/not-prefix/{}", fl.tok()), "after a failed write the wire holds bytes that are not a prefix of the frames", &op, &hex(&all), &res);
    }
}

/// a packet the encoder refuses (in the middle of serialising it) between packets it accepts: the refused one leaves nothing
/// on the transport — not then, and not attached to a later frame
pub fn refused_case(ctx: &mut Ctx, fl: Flavour, compressed: bool, which: usize, accept: usize) {
    let ws: Vec<WEv> = if accept == 0 { vec![] } else { vec![WEv::Accept(accept); 64] };
    ctx.oracle_eval("refused-packet");
    let op = format!("c06.refused {} {} {} {}", fl.tok(), mode_tok(compressed), which, accept);
    let sb = size_byte(compressed, 4);
    let want: Vec<u8> = [[sb, 3, 1, 3], [sb, 3, 2, 3], [sb, 3, 3, 3]].concat();
    let script = Script::new(vec![], ws);
    let tr = Transport(script.clone());
    let oks: Vec<bool> = match fl {
        Flavour::Blocking => guard(std::panic::AssertUnwindSafe(|| {
            let mut f = insim::net::blocking_impl::Framed::new(Box::new(tr.clone()), Codec::new(mode_of(compressed)));
            refused_seq(which).into_iter().map(|p| f.write(p).is_ok()).collect::<Vec<bool>>()
        })).unwrap_or_default(),
        Flavour::Tokio => guard(std::panic::AssertUnwindSafe(|| {
            let rt = tokio::runtime::Builder::new_current_thread().enable_time().build().unwrap();
            rt.block_on(async {
                let mut f = insim::net::tokio_impl::Framed::new(Box::new(tr.clone()), Codec::new(mode_of(compressed)));
                let mut out = vec![];
                for p in refused_seq(which) { out.push(f.write(p).await.is_ok()); }
                out
            })
        })).unwrap_or_default(),
    };
    let out = script.lock().unwrap().out.clone();
    if oks != vec![true, false, true, true] || out != want {
        ctx.violation(&format!("c06/refused-packet/{}", fl.tok()), "a packet the encoder refuses left bytes on the transport (then or attached to a later frame), or the packets around it did not arrive as their frames", &op, &format!("ok,err,ok,ok | out={}", hex(&want)), &format!("{:?} | out={}", oks, hex(&out)));
    }
}

/// the read half has reported the end of the stream (the peer half-closed); the write half still takes everything:
/// packets written afterwards reach the transport as their frames
pub fn write_after_eof_case(ctx: &mut Ctx, fl: Flavour, compressed: bool, accept: usize) {
    ctx.oracle_eval("write-after-end-of-stream");
    let op = format!("c06.aftereof {} {} {}", fl.tok(), mode_tok(compressed), accept);
    let sb = size_byte(compressed, 4);
    let ws: Vec<WEv> = if accept == 0 { vec![] } else { vec![WEv::Accept(accept); 64] };
    let script = Script::new(vec![Ev::Data(vec![sb, 3, 9, 3]), Ev::Eof], ws);
    let tr = Transport(script.clone());
    let tiny = |r: u8| -> Packet { insim::insim::Tiny { reqi: insim::identifiers::RequestId(r), subt: insim::insim::TinyType::Ping }.into() };
    let want: Vec<u8> = [[sb, 3, 1, 3], [sb, 3, 2, 3], [sb, 3, 3, 3]].concat();
    let res: Option<Vec<String>> = match fl {
        Flavour::Blocking => guard(std::panic::AssertUnwindSafe(|| {
            let mut f = insim::net::blocking_impl::Framed::new(Box::new(tr.clone()), Codec::new(mode_of(compressed)));
            let mut out = vec![format!("w{}", f.write(tiny(1)).is_ok() as u8)];
            for _ in 0..3 { match f.read() { Ok(_) => out.push("pkt".into()), Err(insim::Error::Disconnected) => { out.push("eof".into()); break; }, Err(_) => out.push("err".into()) } }
            out.push(format!("w{}", f.write(tiny(2)).is_ok() as u8));
            out.push(format!("w{}", f.write(tiny(3)).is_ok() as u8));
            out
        })),
        Flavour::Tokio => guard(std::panic::AssertUnwindSafe(|| {
            let rt = tokio::runtime::Builder::new_current_thread().enable_time().build().unwrap();
            rt.block_on(async {
                let mut f = insim::net::tokio_impl::Framed::new(Box::new(tr.clone()), Codec::new(mode_of(compressed)));
                let mut out = vec![format!("w{}", f.write(tiny(1)).await.is_ok() as u8)];
                for _ in 0..3 { match f.read().await { Ok(_) => out.push("pkt".into()), Err(insim::Error::Disconnected) => { out.push("eof".into()); break; }, Err(_) => out.push("err".into()) } }
                out.push(format!("w{}", f.write(tiny(2)).await.is_ok() as u8));
                out.push(format!("w{}", f.write(tiny(3)).await.is_ok() as u8));
                out
            })
        })),
    };
    let out = script.lock().unwrap().out.clone();
    let want_res: Vec<String> = ["w1", "pkt", "eof", "w1", "w1"].iter().map(|s| s.to_string()).collect();
    if res.as_ref() != Some(&want_res) || out != want {
        ctx.violation(&format!("c06/after-end-of-stream/{}", fl.tok()), "after the read half reported the end of the stream, a packet written to a healthy write half did not reach the transport as its frame", &op, &format!("{:?} {}", want_res, hex(&want)), &format!("{:?} {}", res, hex(&out)));
    }
}

pub fn refused_seq(which: usize) -> Vec<Packet> {
    use insim::insim::*;
    let tiny = |r: u8| -> Packet { Tiny { reqi: insim::identifiers::RequestId(r), subt: TinyType::Ping }.into() };
    let refused: Packet = match which {
        0 => { let mut h = Hcp::default(); h.info[20].h_mass = 250; h.into() },
        1 => { let mut h = Hcp::default(); h.info[31].h_tres = 99; h.into() },
        2 => Cpp { time: std::time::Duration::from_secs(70), ..Default::default() }.into(),
        _ => Mso { msg: "a\u{11b}b".into(), textstart: 2, ..Default::default() }.into(),
    };
    vec![tiny(1), refused, tiny(2), tiny(3)]
}

pub fn replay_line(ctx: &mut Ctx, l: &str) -> bool {
    let w: Vec<&str> = l.split_whitespace().collect();
    match w.as_slice() {
        ["c06.refused", fl, m, which, accept] => { refused_case(ctx, if *fl == "tokio" { Flavour::Tokio } else { Flavour::Blocking }, *m == "c", which.parse().unwrap_or(0), accept.parse().unwrap_or(0)); true },
        ["c06.aftereof", fl, m, a] => { write_after_eof_case(ctx, if *fl == "tokio" { Flavour::Tokio } else { Flavour::Blocking }, *m == "c", a.parse().unwrap_or(0)); true },
        ["ws.backpressure", n] => { crate::c20::backpressure_case_p(ctx, "c06", n.parse().unwrap_or(3000)); true },
        ["framed.write", fl, m, frames, ws] | ["framed.write", fl, m, frames, ws, _] => {
            let frames: Vec<Vec<u8>> = if *frames == "-" { vec![] } else { frames.split('+').map(unhex).collect() };
            let slow: u64 = w.get(5).and_then(|t| t.strip_prefix("slow=")).and_then(|n| n.parse().ok()).unwrap_or(0);
            crate::transport::SLOW.with(|c| c.set(slow));
            write_case(ctx, if *fl == "tokio" { Flavour::Tokio } else { Flavour::Blocking }, *m == "c", &frames, parse_wevents(ws));
            crate::transport::SLOW.with(|c| c.set(0));
            true
        },
        _ => false,
    }
}

pub fn generate(ctx: &mut Ctx) {
    let quick = ctx.quick();
    // writes after the read half has ended
    for compressed in [true, false] { for fl in [Flavour::Blocking, Flavour::Tokio] { for accept in [0usize, 1, 3] { write_after_eof_case(ctx, fl, compressed, accept); } } }
    // a slow peer: one byte accepted every two (virtual) seconds, for frames of 4 to 68 bytes — no single wait is long, the
    // frame as a whole takes minutes; it still arrives whole, and so does the next one
    for compressed in [true, false] {
        for fl in [Flavour::Blocking, Flavour::Tokio] {
            let mut mst = vec![0u8; 68]; mst[0] = size_byte(compressed, 68); mst[1] = 13; for (i, b) in b"slow but steady".iter().enumerate() { mst[4 + i] = *b; }
            let tiny = vec![size_byte(compressed, 4), 3, 1, 3];
            let mut ws = vec![];
            for _ in 0..80 { ws.push(WEv::Pending); ws.push(WEv::Accept(1)); }
            crate::transport::SLOW.with(|c| c.set(2));
            write_case(ctx, fl, compressed, &[mst.clone(), tiny.clone()], ws.clone());
            write_case(ctx, fl, compressed, &[tiny.clone(), mst.clone(), tiny.clone()], ws);
            crate::transport::SLOW.with(|c| c.set(0));
        }
    }
    // a transport that really is "not ready" for a while: the WebSocket adaptor over a loopback socket with small buffers and a
    // peer that does not read for 400 ms — every written packet arrives once, whole, in call order
    crate::c20::backpressure_case_p(ctx, "c06", if quick { 3000 } else { 20000 });
    ctx.exhaustive_domains.push("one session of thousands of writes through the WebSocket adaptor against a stalled peer (the transport reports not-ready many times)".into());
    for compressed in [true, false] {
        let pool = build_pool(compressed);
        let mut all_frames: Vec<Vec<u8>> = pool.by_type.iter().map(|(_, f)| f.clone()).collect();
        all_frames.push(vec![size_byte(compressed, 4), 3, 0, 0]);
        let big_frames = big_frames(compressed);
        *ctx.distribution.entry(format!("c06.big-frames.{}", mode_tok(compressed))).or_insert(0) = big_frames.len() as u64;
        all_frames.extend(big_frames.iter().cloned());
        for fl in [Flavour::Blocking, Flavour::Tokio] {
            // every kind, with every fixed acceptance size 1..=9 and a few larger
            for f in &all_frames {
                for k in [1usize, 2, 3, 4, 5, 7, 64, 100000] {
                    let ws = vec![WEv::Accept(k); f.len() / k + 2];
                    write_case(ctx, fl, compressed, &[f.clone()], ws);
                }
            }
            // random sequences and patterns
            let n = if quick { 300 } else { 20_000 };
            for _ in 0..n {
                let k = 1 + ctx.rng.below(4) as usize;
                let frames: Vec<Vec<u8>> = (0..k).map(|_| ctx.rng.pick(&all_frames).clone()).collect();
                let total: usize = frames.iter().map(|f| f.len()).sum();
                let mut ws = vec![];
                let style = ctx.rng.below(4);
                let mut budget = 0usize;
                while budget < total + 8 {
                    let r = ctx.rng.below(100);
                    if fl == Flavour::Tokio && r < 25 {
                        ws.push(WEv::Pending);
                    } else if style == 3 && r < 28 {
                        ws.push(if ctx.rng.chance(1, 4) { WEv::Accept(0) } else { WEv::IoErr });
                    } else {
                        let a = match style { 0 => 1 + ctx.rng.below(3), 1 => 1 + ctx.rng.below(40), _ => 1 + ctx.rng.below(600) } as usize;
                        ws.push(WEv::Accept(a));
                        budget += 1;
                    }
                }
                write_case(ctx, fl, compressed, &frames, ws);
            }
        }
    }
    for fl in [Flavour::Blocking, Flavour::Tokio] { for compressed in [true, false] { for which in 0..4usize { for accept in [0usize, 1, 3] { refused_case(ctx, fl, compressed, which, accept); } } } }
    ctx.exhaustive_domains.push("every decodable packet kind x acceptance sizes {1,2,3,4,5,7,64,all} x both flavours x both modes".into());
}
