//! C17 — PTH and SMX files: round trip, truncation, hostile input, allocation.
use crate::common::*;
use insim_core::binrw::{BinRead, BinWrite};
use insim_core::point::Point;
use insim_pth::{Limit, Node, Pth};
use insim_smx::{Argb, Object, ObjectPoint, Rgb, Smx, Triangle};
use std::alloc::{GlobalAlloc, Layout, System};
use std::io::Cursor;
use std::sync::atomic::{AtomicUsize, Ordering};

pub struct Counting;
static CUR: AtomicUsize = AtomicUsize::new(0);
static PEAK: AtomicUsize = AtomicUsize::new(0);
/// the probe child refuses single requests above this size (so a hostile count aborts it the same way on every machine)
pub static ALLOC_LIMIT: AtomicUsize = AtomicUsize::new(usize::MAX);
unsafe impl GlobalAlloc for Counting {
    unsafe fn alloc(&self, l: Layout) -> *mut u8 {
        if l.size() > ALLOC_LIMIT.load(Ordering::Relaxed) { return std::ptr::null_mut(); }
        let p = System.alloc(l);
        if !p.is_null() {
            let c = CUR.fetch_add(l.size(), Ordering::Relaxed) + l.size();
            let _ = PEAK.fetch_max(c, Ordering::Relaxed);
        }
        p
    }
    unsafe fn dealloc(&self, p: *mut u8, l: Layout) {
        let _ = CUR.fetch_sub(l.size(), Ordering::Relaxed);
        System.dealloc(p, l)
    }
}
fn peak_during<T>(f: impl FnOnce() -> T) -> (T, usize) {
    let base = CUR.load(Ordering::Relaxed);
    PEAK.store(base, Ordering::Relaxed);
    let r = f();
    (r, PEAK.load(Ordering::Relaxed).saturating_sub(base))
}

/// child process mode (`corr --c17-probe`): parse each line's bytes and answer `k`. A parser that sizes a buffer from a
/// count field of the input kills this process, not the harness; the parent then knows which input did it.
pub fn probe_main() {
    use std::io::{BufRead, Write};
    ALLOC_LIMIT.store(1 << 30, Ordering::Relaxed);
    let stdin = std::io::stdin();
    let mut out = std::io::stdout();
    for l in stdin.lock().lines() {
        let l = match l { Ok(l) => l, Err(_) => break };
        let w: Vec<&str> = l.split_whitespace().collect();
        match w.as_slice() {
            ["pth", h] => { let _ = read_pth(&unhex(h)); },
            ["smx", h] => { let _ = read_smx(&unhex(h)); },
            _ => {},
        }
        let _ = out.write_all(b"k\n");
        let _ = out.flush();
    }
}

struct Probe { child: std::process::Child, stdin: std::process::ChildStdin, stdout: std::io::BufReader<std::process::ChildStdout> }
static PROBE: std::sync::Mutex<Option<Probe>> = std::sync::Mutex::new(None);
pub static PROBED: AtomicUsize = AtomicUsize::new(0);

/// true = the probe child parsed the input and is still alive
fn probe_survives(fmt: &str, bytes: &[u8]) -> bool {
    use std::io::{BufRead, Write};
    use std::process::{Command, Stdio};
    let mut g = PROBE.lock().unwrap();
    if g.is_none() {
        let exe = std::env::current_exe().expect("own path");
        let mut child = Command::new(exe).arg("--c17-probe").stdin(Stdio::piped()).stdout(Stdio::piped()).stderr(Stdio::null()).spawn().expect("probe child");
        let stdin = child.stdin.take().unwrap();
        let stdout = std::io::BufReader::new(child.stdout.take().unwrap());
        *g = Some(Probe { child, stdin, stdout });
    }
    let p = g.as_mut().unwrap();
    let _ = PROBED.fetch_add(1, Ordering::Relaxed);
    let sent = p.stdin.write_all(format!("{} {}\n", fmt, hex(bytes)).as_bytes()).and_then(|_| p.stdin.flush()).is_ok();
    let mut reply = String::new();
    let alive = sent && matches!(p.stdout.read_line(&mut reply), Ok(n) if n > 0) && reply.trim() == "k";
    if !alive {
        let mut dead = g.take().unwrap();
        let _ = dead.child.kill();
        let _ = dead.child.wait();
    }
    alive
}
fn probe_shutdown() {
    if let Some(mut p) = PROBE.lock().unwrap().take() { drop(p.stdin); let _ = p.child.wait(); }
}

fn pth_tok(p: &Pth) -> String {
    let nodes: Vec<String> = p.nodes.iter().map(|n| {
        format!("{}:{}:{}:{}:{}:{}:{}:{}:{}:{}", n.center.x, n.center.y, n.center.z, n.direction.x.to_bits(), n.direction.y.to_bits(), n.direction.z.to_bits(),
            n.outer_limit.left.to_bits(), n.outer_limit.right.to_bits(), n.road_limit.left.to_bits(), n.road_limit.right.to_bits())
    }).collect();
    format!("Pth {},{},{},{},{}", p.version, p.revision, p.nodes.len(), p.finish_line_node, if nodes.is_empty() { "-".to_string() } else { nodes.join("|") })
}

fn smx_tok(s: &Smx) -> String {
    let objs: Vec<String> = s.objects.iter().map(|o| {
        let ps: Vec<String> = o.points.iter().map(|p| format!("{}:{}:{}:{}:{}:{}:{}", p.xyz.x, p.xyz.y, p.xyz.z, p.colour.a, p.colour.rgb.r, p.colour.rgb.g, p.colour.rgb.b)).collect();
        let ts: Vec<String> = o.triangles.iter().map(|t| format!("{}:{}:{}", t.a, t.b, t.c)).collect();
        format!("{}:{}:{}:{}:{}:{}/{}/{}", o.center.x, o.center.y, o.center.z, o.radius, o.points.len(), o.triangles.len(), ps.join("+"), ts.join("+"))
    }).collect();
    format!("Smx {},{},{},{},{},{},{},{},{},{},{},{},{},{}", s.game_version, s.game_revision, s.smx_version, s.dimensions, s.resolution, s.vertex_colours,
        crate::pkt::str_tok(&s.track), s.ground_colour.r, s.ground_colour.g, s.ground_colour.b, s.objects.len(),
        if objs.is_empty() { "-".to_string() } else { objs.join("|") }, s.checkpoint_object_index.len(),
        if s.checkpoint_object_index.is_empty() { "-".to_string() } else { s.checkpoint_object_index.iter().map(|c| c.to_string()).collect::<Vec<_>>().join(":") })
}

fn read_pth(b: &[u8]) -> Option<Result<(Pth, usize), ()>> {
    let b = b.to_vec();
    guard(move || { let mut c = Cursor::new(&b); Pth::read(&mut c).map(|p| (p, b.len() - c.position() as usize)).map_err(|_| ()) })
}
fn write_pth(p: &Pth) -> Option<Result<Vec<u8>, ()>> {
    guard(std::panic::AssertUnwindSafe(|| { let mut c = Cursor::new(Vec::new()); p.write(&mut c).map(|_| c.into_inner()).map_err(|_| ()) }))
}
fn read_smx(b: &[u8]) -> Option<Result<(Smx, usize), ()>> {
    let b = b.to_vec();
    guard(move || { let mut c = Cursor::new(&b); Smx::read(&mut c).map(|p| (p, b.len() - c.position() as usize)).map_err(|_| ()) })
}
fn write_smx(p: &Smx) -> Option<Result<Vec<u8>, ()>> {
    guard(std::panic::AssertUnwindSafe(|| { let mut c = Cursor::new(Vec::new()); p.write(&mut c).map(|_| c.into_inner()).map_err(|_| ()) }))
}

fn wr<T>(r: Option<Result<T, ()>>, f: impl Fn(&T) -> String) -> String {
    match r { None => "panic".into(), Some(Err(())) => "err".into(), Some(Ok(t)) => f(&t) }
}

pub fn pth_case(ctx: &mut Ctx, bytes: &[u8], class: &str, model_line: bool) {
    let op = format!("pth {}", hex(bytes));
    let len = bytes.len();
    if !probe_survives("pth", bytes) { return aborted(ctx, "pth", class, &op, model_line); }
    let (r, peak) = peak_during(|| read_pth(bytes));
    let line = match &r {
        None => "panic".to_string(),
        Some(Err(())) => "err decode".to_string(),
        Some(Ok((p, rem))) => format!("ok {} rem={} | re={}", pth_tok(p), rem, wr(write_pth(p), |b| hex(b))),
    };
    if model_line { ctx.case(&op, &line); } else { ctx.oracle_eval(&format!("pth-{}", class)); }
    file_oracle(ctx, "pth", class, &op, len, peak, r.as_ref().map(|r| r.as_ref().map(|(p, rem)| (pth_tok(p), *rem, write_pth(p))).map_err(|_| ())), bytes,
        &|b| read_pth(b).and_then(|r| r.ok()).map(|(p, _)| pth_tok(&p)));
}

pub fn smx_case(ctx: &mut Ctx, bytes: &[u8], class: &str, model_line: bool) {
    let op = format!("smx {}", hex(bytes));
    let len = bytes.len();
    if !probe_survives("smx", bytes) { return aborted(ctx, "smx", class, &op, model_line); }
    let (r, peak) = peak_during(|| read_smx(bytes));
    let line = match &r {
        None => "panic".to_string(),
        Some(Err(())) => "err decode".to_string(),
        Some(Ok((p, rem))) => format!("ok {} rem={} | re={}", smx_tok(p), rem, wr(write_smx(p), |b| hex(b))),
    };
    if model_line { ctx.case(&op, &line); } else { ctx.oracle_eval(&format!("smx-{}", class)); }
    file_oracle(ctx, "smx", class, &op, len, peak, r.as_ref().map(|r| r.as_ref().map(|(p, rem)| (smx_tok(p), *rem, write_smx(p))).map_err(|_| ())), bytes,
        &|b| read_smx(b).and_then(|r| r.ok()).map(|(p, _)| smx_tok(&p)));
}

fn aborted(ctx: &mut Ctx, fmt: &str, class: &str, op: &str, model_line: bool) {
    if model_line { ctx.case(op, "abort"); } else { ctx.oracle_eval(&format!("{}-{}", fmt, class)); }
    ctx.violation(&format!("c17/{}/allocation-abort/{}", fmt, class), "parsing this input killed the process: a single allocation request above 1 GiB (a buffer sized from a count field of the input)", &truncate(op, 300), "value or error", "process abort");
}

#[allow(clippy::too_many_arguments)]
fn file_oracle(ctx: &mut Ctx, fmt: &str, class: &str, op: &str, len: usize, peak: usize,
               r: Option<Result<(String, usize, Option<Result<Vec<u8>, ()>>), ()>>, bytes: &[u8], reparse: &dyn Fn(&[u8]) -> Option<String>) {
    let opt = truncate(op, 300);
    match r {
        None => ctx.violation(&format!("c17/{}/panic/{}", fmt, class), "the parser panicked", &opt, "value or error", "panic"),
        Some(res) => {
            // allocation justified by the input: a constant factor of the input length plus a small constant
            if peak > 64 * len + (1 << 16) {
                ctx.violation(&format!("c17/{}/allocation/{}", fmt, class), "the parser allocated far beyond what the input can justify", &opt, &format!("<= {}", 64 * len + (1 << 16)), &peak.to_string());
            }
            match res {
                Err(()) => {
                    if class == "valid" { ctx.violation(&format!("c17/{}/valid-rejected", fmt), "a well-formed generated file was rejected", &opt, "ok", "err"); }
                },
                Ok((tok, rem, w)) => {
                    if class == "truncated" {
                        ctx.violation(&format!("c17/{}/truncated-accepted", fmt), "a file cut short inside its declared content was accepted as a shorter file", &opt, "err", &truncate(&tok, 100));
                    }
                    match w {
                        Some(Ok(out)) => {
                            if reparse(&out).as_deref() != Some(tok.as_str()) {
                                ctx.violation(&format!("c17/{}/write-parse", fmt), "writing a parsed file and parsing it again does not give an equal structure", &opt, &truncate(&tok, 100), "different");
                            }
                            if class == "valid" && (rem != 0 || out != bytes) {
                                ctx.violation(&format!("c17/{}/canonical", fmt), "for a canonical file the written bytes differ from the bytes read", &opt, &truncate(&hex(bytes), 80), &truncate(&hex(&out), 80));
                            }
                        },
                        other => ctx.violation(&format!("c17/{}/write-fails", fmt), "a parsed file could not be written", &opt, "bytes", &format!("{:?}", other.map(|r| r.is_ok()))),
                    }
                },
            }
        },
    }
}

fn gen_pth(rng: &mut Rng, n: usize) -> Pth {
    let f = |rng: &mut Rng| match rng.below(6) { 0 => f32::NAN, 1 => f32::from_bits(0x7fc0_1234), 2 => f32::INFINITY, 3 => -0.0, _ => f32::from_bits(rng.next() as u32) };
    Pth { version: rng.byte(), revision: rng.byte(), finish_line_node: match rng.below(4) { 0 => -1, 1 => 300, 2 => i32::MAX, _ => rng.next() as i32 },
        nodes: (0..n).map(|_| Node { center: Point { x: rng.next() as i32, y: -(rng.below(100000) as i32), z: i32::MIN }, direction: Point { x: f(rng), y: f(rng), z: f(rng) },
            outer_limit: Limit { left: f(rng), right: f(rng) }, road_limit: Limit { left: f(rng), right: f(rng) } }).collect() }
}

fn gen_smx(rng: &mut Rng, no: usize, nc: usize) -> Smx {
    let mut s = Smx::default();
    s.game_version = rng.byte(); s.game_revision = rng.byte(); s.smx_version = rng.byte(); s.dimensions = 3; s.resolution = rng.below(2) as u8; s.vertex_colours = 1;
    s.track = ["Autocross", "", "Blackwood", "ABCDEFGHIJKLMNOPQRSTUVWXYZ012345", "Fern Bay"][rng.below(5) as usize].to_string();
    s.ground_colour = Rgb { r: rng.byte(), g: rng.byte(), b: rng.byte() };
    s.objects = (0..no).map(|_| {
        let np = rng.below(4) as usize; let nt = rng.below(4) as usize;
        Object { center: Point { x: rng.next() as i32, y: rng.next() as i32, z: -5 }, radius: rng.next() as i32,
            points: (0..np).map(|_| ObjectPoint { xyz: Point { x: rng.next() as i32, y: 1, z: i32::MIN }, colour: Argb { a: rng.byte(), rgb: Rgb { r: rng.byte(), g: rng.byte(), b: rng.byte() } } }).collect(),
            triangles: (0..nt).map(|_| Triangle { a: rng.next() as u16, b: rng.next() as u16, c: 0xffff }).collect() }
    }).collect();
    s.checkpoint_object_index = (0..nc).map(|_| rng.next() as i32).collect();
    s
}

pub fn run(ctx: &mut Ctx) {
    run_inner(ctx);
    probe_shutdown();
    ctx.count(&format!("inputs parsed first in the probe child process (single allocations above 1 GiB refused): {}", PROBED.load(Ordering::Relaxed)));
}

/// an SMX file written out by hand with one object whose point-count field holds `declared` and which is followed by
/// `backing` points (16 bytes each), no triangles, no checkpoints. Offsets: num_objects @60, the object @64 (centre,
/// radius), its point count @80, triangle count @84, points from @88.
fn big_smx(declared: i32, backing: usize) -> Vec<u8> {
    let mut b = b"LFSSMX".to_vec();
    b.extend_from_slice(&[7, 0, 0, 3, 1, 1]);
    b.extend_from_slice(&[0u8; 4]);
    let mut name = b"Blackwood".to_vec(); name.resize(32, 0); b.extend_from_slice(&name);
    b.extend_from_slice(&[10, 20, 30]);
    b.extend_from_slice(&[0u8; 9]);
    b.extend_from_slice(&1i32.to_le_bytes());
    for v in [1i32, 2, 3, 4] { b.extend_from_slice(&v.to_le_bytes()); }
    b.extend_from_slice(&declared.to_le_bytes());
    b.extend_from_slice(&0i32.to_le_bytes());
    for i in 0..backing { for v in [i as i32, -(i as i32), 7] { b.extend_from_slice(&v.to_le_bytes()); } b.extend_from_slice(&[(i % 251) as u8, 1, 2, 3]); }
    b.extend_from_slice(&0i32.to_le_bytes());
    b
}

/// the same file behind `k` bytes of something else (a container header, a reader that was seeked): parsing from there gives
/// the same structure, writing after `k` bytes already written gives the same bytes — nothing may depend on the absolute
/// position of the stream
fn offset_case(ctx: &mut Ctx, fmt: &str, bytes: &[u8], k: usize) {
    let op = format!("{}.at {} {}", fmt, k, hex(bytes));
    ctx.oracle_eval(&format!("{}-offset", fmt));
    let mut shifted = vec![0xA5u8; k];
    shifted.extend_from_slice(bytes);
    let (at0, atk, wrk): (Option<String>, Option<String>, Option<Vec<u8>>) = if fmt == "pth" {
        let a = read_pth(bytes).and_then(|r| r.ok()).map(|(p, _)| pth_tok(&p));
        let sh = shifted.clone();
        let b = guard(move || { let mut c = Cursor::new(&sh); c.set_position(k as u64); Pth::read(&mut c).ok().map(|p| pth_tok(&p)) }).flatten();
        let by = bytes.to_vec();
        let w = guard(move || { let p = Pth::read(&mut Cursor::new(&by)).ok()?; let mut c = Cursor::new(vec![0xA5u8; k]); c.set_position(k as u64); p.write(&mut c).ok()?; Some(c.into_inner()[k..].to_vec()) }).flatten();
        (a, b, w)
    } else {
        let a = read_smx(bytes).and_then(|r| r.ok()).map(|(p, _)| smx_tok(&p));
        let sh = shifted.clone();
        let b = guard(move || { let mut c = Cursor::new(&sh); c.set_position(k as u64); Smx::read(&mut c).ok().map(|p| smx_tok(&p)) }).flatten();
        let by = bytes.to_vec();
        let w = guard(move || { let p = Smx::read(&mut Cursor::new(&by)).ok()?; let mut c = Cursor::new(vec![0xA5u8; k]); c.set_position(k as u64); p.write(&mut c).ok()?; Some(c.into_inner()[k..].to_vec()) }).flatten();
        (a, b, w)
    };
    if at0.is_some() && atk != at0 {
        ctx.violation(&format!("c17/{}/position-dependent/read", fmt), "the same file parses differently (or not at all) when it does not start at position 0 of the reader", &truncate(&op, 300), "the same structure", if atk.is_some() { "a different structure" } else { "error" });
    }
    if at0.is_some() && wrk.as_deref() != Some(bytes) && read_pth(bytes).is_some() {
        // only for canonical inputs (the writer reproduces them at position 0)
        let canon = if fmt == "pth" { read_pth(bytes).and_then(|r| r.ok()).and_then(|(p, _)| write_pth(&p)).and_then(|r| r.ok()).as_deref() == Some(bytes) } else { read_smx(bytes).and_then(|r| r.ok()).and_then(|(p, _)| write_smx(&p)).and_then(|r| r.ok()).as_deref() == Some(bytes) };
        if canon { ctx.violation(&format!("c17/{}/position-dependent/write", fmt), "the same structure is written differently when the writer is not at position 0", &truncate(&op, 300), "the same bytes", "different"); }
    }
}

/// `from_file` on a handle positioned behind a 16-byte preamble: like parsing the image itself
fn file_case(ctx: &mut Ctx, fmt: &str, image: &[u8], truncated: bool) {
    let dir = ctx.out.join("files");
    let _ = std::fs::create_dir_all(&dir);
    let path = dir.join(format!("pre-{}.{}", image.len(), fmt));
    let mut content = vec![0x5Au8; 16];
    content.extend_from_slice(image);
    std::fs::write(&path, &content).unwrap();
    ctx.oracle_eval("from_file-at-offset");
    let want = if fmt == "smx" { read_smx(image).and_then(|r| r.ok()).map(|(p, _)| smx_tok(&p)) } else { read_pth(image).and_then(|r| r.ok()).map(|(p, _)| pth_tok(&p)) };
    let is_smx = fmt == "smx";
    let got = guard(std::panic::AssertUnwindSafe(|| {
        use std::io::{Seek, SeekFrom};
        let mut f = std::fs::File::open(&path).ok()?;
        let _ = f.seek(SeekFrom::Start(16)).ok()?;
        if is_smx { Smx::from_file(&mut f).ok().map(|p| smx_tok(&p)) } else { Pth::from_file(&mut f).ok().map(|p| pth_tok(&p)) }
    }));
    if got != Some(want.clone()) {
        let op = format!("{}.file {}", fmt, hex(image));
        let sig = if truncated && want.is_none() { format!("c17/{}/truncated-accepted", fmt) } else { format!("c17/{}/from_file", fmt) };
        ctx.violation(&sig, "from_file on a handle positioned behind a preamble does not behave like parsing the image (a file cut short was accepted, or a whole one was not)", &truncate(&op, 4000), if want.is_some() { "the structure" } else { "an error" }, &format!("{:?}", got.map(|g| g.map(|t| truncate(&t, 80)))));
    }
}

/// a reader that hands over at most `per` bytes per call (a pipe, a slow disk, a decompressor): same structure or same error
struct Dribble { inner: Cursor<Vec<u8>>, per: usize }
impl std::io::Read for Dribble { fn read(&mut self, buf: &mut [u8]) -> std::io::Result<usize> { let n = buf.len().min(self.per); self.inner.read(&mut buf[..n]) } }
impl std::io::Seek for Dribble { fn seek(&mut self, p: std::io::SeekFrom) -> std::io::Result<u64> { self.inner.seek(p) } }
fn dribble_case(ctx: &mut Ctx, fmt: &str, bytes: &[u8], per: usize) {
    let op = format!("{}.drib {} {}", fmt, per, hex(bytes));
    ctx.oracle_eval(&format!("{}-dribble", fmt));
    let b = bytes.to_vec();
    let (whole, piece): (Option<Option<String>>, Option<Option<String>>) = if fmt == "pth" {
        (Some(read_pth(bytes).and_then(|r| r.ok()).map(|(p, _)| pth_tok(&p))), guard(move || Pth::read(&mut Dribble { inner: Cursor::new(b), per }).ok().map(|p| pth_tok(&p))))
    } else {
        (Some(read_smx(bytes).and_then(|r| r.ok()).map(|(p, _)| smx_tok(&p))), guard(move || Smx::read(&mut Dribble { inner: Cursor::new(b), per }).ok().map(|p| smx_tok(&p))))
    };
    if whole != piece {
        ctx.violation(&format!("c17/{}/segmented-read", fmt), "the same bytes parse differently when the reader hands them over a few at a time", &truncate(&op, 300), if whole.clone().flatten().is_some() { "the structure" } else { "an error" }, if piece.flatten().is_some() { "a (different) structure" } else { "an error / panic" });
    }
}

/// a writer that accepts at most `per` bytes per call: the file written is the same file
fn wdribble_case(ctx: &mut Ctx, fmt: &str, bytes: &[u8], per: usize) {
    let op = format!("{}.wdrib {} {}", fmt, per, hex(bytes));
    ctx.oracle_eval(&format!("{}-dribbling-writer", fmt));
    let b = bytes.to_vec();
    let piece: Option<Option<Vec<u8>>> = if fmt == "pth" {
        guard(move || { let p = Pth::read(&mut Cursor::new(&b)).ok()?; let mut w = DribbleW::new(per); p.write(&mut w).ok()?; Some(w.inner.into_inner()) })
    } else {
        guard(move || { let p = Smx::read(&mut Cursor::new(&b)).ok()?; let mut w = DribbleW::new(per); p.write(&mut w).ok()?; Some(w.inner.into_inner()) })
    };
    let whole: Option<Vec<u8>> = if fmt == "pth" { read_pth(bytes).and_then(|r| r.ok()).and_then(|(p, _)| write_pth(&p)).and_then(|r| r.ok()) } else { read_smx(bytes).and_then(|r| r.ok()).and_then(|(p, _)| write_smx(&p)).and_then(|r| r.ok()) };
    if piece != Some(whole.clone()) {
        ctx.violation(&format!("c17/{}/segmented-write", fmt), "the file written through a writer that accepts a few bytes per call is not the file written into memory", &truncate(&op, 300), &whole.map(|w| format!("{} bytes", w.len())).unwrap_or("none".into()), &format!("{:?}", piece.map(|o| o.map(|w| w.len()))));
    }
}

/// counts around the 16-bit boundary, and a negative count with enough bytes behind it to satisfy any narrowed reading
fn big_case(ctx: &mut Ctx, declared: i32, backing: usize) {
    let b = big_smx(declared, backing);
    let op = format!("smx.big {} {}", declared, backing);
    ctx.oracle_eval("smx-count-boundary");
    if !probe_survives("smx", &b) { return aborted(ctx, "smx", "count-boundary", &op, false); }
    let (r, peak) = peak_during(|| read_smx(&b));
    if peak > 64 * b.len() + (1 << 16) { ctx.violation("c17/smx/allocation/count-boundary", "the parser allocated far beyond what the input can justify", &op, "<= 64 x length + 64 KiB", &peak.to_string()); }
    let valid = declared >= 0 && declared as usize == backing;
    match r {
        None => ctx.violation("c17/smx/panic/count-boundary", "the parser panicked", &op, "value or error", "panic"),
        Some(Err(())) => if valid { ctx.violation("c17/smx/valid-rejected", "a well-formed file was rejected", &op, "ok", "err"); },
        Some(Ok((p, rem))) => {
            if declared < 0 { ctx.violation("c17/smx/negative-count-accepted", "a file whose count field is negative was accepted", &op, "err", &format!("{} objects, {} points, {} bytes unread", p.objects.len(), p.objects.first().map(|o| o.points.len()).unwrap_or(0), rem)); return; }
            if !valid { ctx.violation("c17/smx/truncated-accepted", "a file cut short inside its declared content was accepted as a shorter file", &op, "err", "ok"); return; }
            let n = p.objects.first().map(|o| o.points.len()).unwrap_or(0);
            if p.objects.len() != 1 || n != backing || rem != 0 { ctx.violation("c17/smx/write-parse", "a well-formed file does not parse to the structure it holds", &op, &format!("1 object, {} points, 0 bytes unread", backing), &format!("{} objects, {} points, {} unread", p.objects.len(), n, rem)); return; }
            match write_smx(&p) { Some(Ok(out)) if out == b => {}, _ => ctx.violation("c17/smx/canonical", "for a canonical file the written bytes differ from the bytes read", &op, "identical bytes", "different"), }
        },
    }
}

/// the same for PTH: header (magic, version, revision, node count, finish line) and `backing` nodes of 40 bytes
fn big_pth_case(ctx: &mut Ctx, declared: i32, backing: usize) {
    let mut b = b"LFSPTH".to_vec();
    b.extend_from_slice(&[0, 0]);
    b.extend_from_slice(&declared.to_le_bytes());
    b.extend_from_slice(&3i32.to_le_bytes());
    for i in 0..backing { for k in 0..10u32 { b.extend_from_slice(&((i as u32).wrapping_mul(31).wrapping_add(k)).to_le_bytes()); } }
    let op = format!("pth.big {} {}", declared, backing);
    ctx.oracle_eval("pth-count-boundary");
    if !probe_survives("pth", &b) { return aborted(ctx, "pth", "count-boundary", &op, false); }
    let (r, peak) = peak_during(|| read_pth(&b));
    if peak > 64 * b.len() + (1 << 16) { ctx.violation("c17/pth/allocation/count-boundary", "the parser allocated far beyond what the input can justify", &op, "<= 64 x length + 64 KiB", &peak.to_string()); }
    let valid = declared >= 0 && declared as usize == backing;
    match r {
        None => ctx.violation("c17/pth/panic/count-boundary", "the parser panicked", &op, "value or error", "panic"),
        Some(Err(())) => if valid { ctx.violation("c17/pth/valid-rejected", "a well-formed file was rejected", &op, "ok", "err"); },
        Some(Ok((p, rem))) => {
            if declared < 0 { ctx.violation("c17/pth/negative-count-accepted", "a file whose count field is negative was accepted", &op, "err", &format!("{} nodes, {} bytes unread", p.nodes.len(), rem)); return; }
            if !valid && (declared as usize) > backing { ctx.violation("c17/pth/truncated-accepted", "a file cut short inside its declared content was accepted as a shorter file", &op, "err", "ok"); return; }
            if valid && (p.nodes.len() != backing || rem != 0) { ctx.violation("c17/pth/write-parse", "a well-formed file does not parse to the structure it holds", &op, &format!("{} nodes, 0 bytes unread", backing), &format!("{} nodes, {} unread", p.nodes.len(), rem)); return; }
            if valid { match write_pth(&p) { Some(Ok(out)) if out == b => {}, _ => ctx.violation("c17/pth/canonical", "for a canonical file the written bytes differ from the bytes read", &op, "identical bytes", "different"), } }
        },
    }
}

fn run_inner(ctx: &mut Ctx) {
    if let Some(lines) = ctx.replay.clone() {
        for l in lines {
            let w: Vec<&str> = l.split_whitespace().collect();
            match w.as_slice() {
                ["smx.big", d, n] => big_case(ctx, d.parse().unwrap_or(0), n.parse().unwrap_or(0)),
                ["smx.at", k, h] => offset_case(ctx, "smx", &unhex(h), k.parse().unwrap_or(0)),
                ["smx.file", h] => file_case(ctx, "smx", &unhex(h), true),
                ["pth.file", h] => file_case(ctx, "pth", &unhex(h), true),
                ["smx.drib", k, h] => dribble_case(ctx, "smx", &unhex(h), k.parse().unwrap_or(1)),
                ["pth.drib", k, h] => dribble_case(ctx, "pth", &unhex(h), k.parse().unwrap_or(1)),
                ["smx.name", t] => {
                    let name = crate::text::from_cps(t);
                    let mut x = gen_smx(&mut ctx.rng, 1, 0); x.track = name.clone();
                    if let Some(Ok(b)) = write_smx(&x) {
                        let mut want = crate::text::spec_encode(&name); want.truncate(32); want.resize(32, 0);
                        if b.len() < 48 || b[16..48] != want[..] { ctx.violation("c17/smx/track-name-encoding", "the track name field of the written file is not the name in LFS's text encoding, NUL-padded to 32 bytes", &l, &hex(&want), &hex(&b[16.min(b.len())..48.min(b.len())])); }
                    }
                },
                ["smx.wdrib", k, h] => wdribble_case(ctx, "smx", &unhex(h), k.parse().unwrap_or(1).max(1)),
                ["pth.wdrib", k, h] => wdribble_case(ctx, "pth", &unhex(h), k.parse().unwrap_or(1).max(1)),
                ["pth.at", k, h] => offset_case(ctx, "pth", &unhex(h), k.parse().unwrap_or(0)),
                ["pth.big", d, n] => big_pth_case(ctx, d.parse().unwrap_or(0), n.parse().unwrap_or(0)),
                ["pth", h] => pth_case(ctx, &unhex(h), "replay", true),
                ["smx", h] => smx_case(ctx, &unhex(h), "replay", true),
                _ => {},
            }
        }
        return;
    }
    let quick = ctx.quick();
    // generated files: round trip, canonical, every truncation point
    for n in 0..(if quick { 5 } else { 40 }) {
        for _ in 0..(if quick { 3 } else { 10 }) {
            let p = gen_pth(&mut ctx.rng, n);
            if let Some(Ok(b)) = write_pth(&p) {
                pth_case(ctx, &b, "valid", true);
                for cut in 0..b.len() { pth_case(ctx, &b[..cut], "truncated", cut % 7 == 0 || cut < 20); }
                let mut ext = b.clone(); ext.extend_from_slice(&[1, 2, 3]);
                pth_case(ctx, &ext, "extended", true);
                // single-byte mutations: counts, magic, payload
                for pos in 0..b.len().min(if quick { 40 } else { 400 }) {
                    let mut m = b.clone(); m[pos] = match ctx.rng.below(4) { 0 => 0xff, 1 => 0x80, 2 => m[pos].wrapping_add(1), _ => ctx.rng.byte() };
                    pth_case(ctx, &m, "mutated", pos < 20 || pos % 5 == 0);
                }
            }
        }
    }
    for no in 0..(if quick { 4 } else { 12 }) {
        for nc in [0usize, 1, 3] {
            let s = gen_smx(&mut ctx.rng, no, nc);
            if let Some(Ok(b)) = write_smx(&s) {
                smx_case(ctx, &b, "valid", true);
                for cut in 0..b.len() { smx_case(ctx, &b[..cut], "truncated", cut % 11 == 0 || cut < 12); }
                // single-byte mutations: pads and text padding (non-canonical but valid), counts, payload
                for pos in 0..b.len().min(if quick { 120 } else { 600 }) {
                    let mut m = b.clone(); m[pos] = match ctx.rng.below(4) { 0 => 0xff, 1 => 0x80, 2 => m[pos].wrapping_add(1), _ => ctx.rng.byte() };
                    smx_case(ctx, &m, "mutated", pos % 3 == 0);
                }
            }
        }
    }
    ctx.exhaustive_domains.push("every truncation point of every generated PTH (0..4/39 nodes) and SMX (0..3/11 objects x 0,1,3 checkpoints) file".into());
    // hostile counts
    for count in [-1i32, i32::MIN, i32::MAX, 0x7fff_fff0, 1 << 24, 100000, 255, 256] {
        let mut b = b"LFSPTH".to_vec(); b.extend_from_slice(&[0, 0]); b.extend_from_slice(&count.to_le_bytes()); b.extend_from_slice(&0i32.to_le_bytes());
        b.extend_from_slice(&[0u8; 80]);
        pth_case(ctx, &b, "hostile-count", true);
        let s = gen_smx(&mut Rng::new(5), 1, 1);
        if let Some(Ok(mut sb)) = write_smx(&s) {
            // num_objects lives at offset 6 + 6 + 4 + 32 + 3 + 9 = 60
            sb[60..64].copy_from_slice(&count.to_le_bytes());
            smx_case(ctx, &sb, "hostile-count", true);
            // the first object's point count at 64 + 16
            let mut sb2 = write_smx(&s).unwrap().unwrap();
            if sb2.len() > 84 { sb2[80..84].copy_from_slice(&count.to_le_bytes()); smx_case(ctx, &sb2, "hostile-count", true); }
        }
    }
    // the track name is a text field like any other: codepage markers, lone and trailing carets, a marker after one byte, a
    // double-byte character in front of a marker, markers only — whatever it holds, the file parses (or is refused) without aborting
    {
        let base = gen_smx(&mut ctx.rng, 2, 1);
        if let Some(Ok(b)) = write_smx(&base) {
            let fields: Vec<&[u8]> = vec![b"A^Jston", b"B^E\xEC\x9A", b"^Lx", b"x^", b"^", b"ab^8", b"\x93^J", b"^J\x93\xfa\x96\x7b", b"^^^^^^^^^^^^^^^^^^^^^^^^^^^^^^^^", b"a^", b"^8", b"\xe9^G\xe1^", b"As^Jton",
                b"ABCDEFGHIJKLMNOPQRSTUVWXYZ0123^E", b"ABCDEFGHIJKLMNOPQRSTUVWXYZ01234^"];
            for f in fields {
                let mut img = b.clone();
                for i in 0..32 { img[16 + i] = *f.get(i).unwrap_or(&0); }
                // oracle only: the model keeps the track name as its bytes, while the crate decodes and re-encodes it (a redundant
                // marker such as "A^Jston" is dropped on the way back out) — what is asked here is "no abort", not byte identity
                smx_case(ctx, &img, "track-text", false);
            }
        }
        for name in ["A\u{65e5}\u{672c}", "\u{11b}", "x\u{448}y\u{e9}", "Blackwood ^1GP", "50%^", "\u{b300}\u{d55c}\u{bbfc}\u{ad6d}", "\u{b300}\u{d55c}\u{bbfc}\u{ad6d}\u{c790}\u{b3d9}\u{cc28}\u{acbd}\u{c8fc}\u{c7a5}", "\u{7f8e}\u{4e3d}", "\u{3b1}\u{3b2}\u{3b3}", "\u{5e9}\u{5dc}"] {
            let mut t = gen_smx(&mut ctx.rng, 1, 0);
            t.track = name.to_string();
            if let Some(Ok(b)) = write_smx(&t) {
                smx_case(ctx, &b, "track-text", true);
                // the 32-byte name field of the written file is LFS's encoding of the name (specification table), cut to the field
                ctx.oracle_eval("track-name-encoding");
                let mut want = crate::text::spec_encode(name); want.truncate(32); want.resize(32, 0);
                if b.len() < 48 || b[16..48] != want[..] {
                    ctx.violation("c17/smx/track-name-encoding", "the track name field of the written file is not the name in LFS's text encoding, NUL-padded to 32 bytes", &format!("smx.name {}", crate::text::cps(name)), &hex(&want), &hex(&b[16.min(b.len())..48.min(b.len())]));
                }
            }
        }
    }
    // files that do not start at position 0 of their reader / writer
    for i in 0..(if quick { 4 } else { 40 }) {
        let s = gen_smx(&mut ctx.rng, 1 + i % 3, i % 2);
        if let Some(Ok(b)) = write_smx(&s) { for k in [1usize, 2, 3, 4, 5, 7] { offset_case(ctx, "smx", &b, k); } }
        let p = gen_pth(&mut ctx.rng, 1 + i % 4);
        if let Some(Ok(b)) = write_pth(&p) { for k in [1usize, 2, 3, 5] { offset_case(ctx, "pth", &b, k); } }
        // … and through a reader that gives a few bytes per call, whole and cut short
        if let Some(Ok(b)) = write_smx(&s) { for per in [1usize, 5, 31] { wdribble_case(ctx, "smx", &b, per); } }
        if let Some(Ok(b)) = write_pth(&p) { for per in [1usize, 5, 31] { wdribble_case(ctx, "pth", &b, per); } }
        if let Some(Ok(b)) = write_smx(&s) { for per in [1usize, 3, 7] { dribble_case(ctx, "smx", &b, per); dribble_case(ctx, "smx", &b[..b.len() - 1 - (i % 5)], per); } }
        if let Some(Ok(b)) = write_pth(&p) { for per in [1usize, 3, 7] { dribble_case(ctx, "pth", &b, per); dribble_case(ctx, "pth", &b[..b.len() - 1 - (i % 5)], per); } }
    }
    // element counts around the 16-bit boundary (a count narrowed on its way from the file to the reader shows here),
    // a declared count larger than what follows, and negative counts backed by plenty of bytes
    for (d, n) in [(65535i32, 65535usize), (65536, 65536), (65537, 65537), (65536, 65530), (131072, 65536), (-1, 65535), (-1, 65536), (-65536, 65536), (i32::MIN, 70000), (-65535, 4)] {
        big_case(ctx, d, n);
    }
    for (d, n) in [(65535i32, 65535usize), (65536, 65536), (65537, 65537), (65536, 65500), (-1, 65536), (-65536, 65536)] {
        big_pth_case(ctx, d, n);
    }
    // random bytes with and without the magic
    for i in 0..(if quick { 1500 } else { 100_000 }) {
        let n = ctx.rng.below(120) as usize;
        let mut b: Vec<u8> = (0..n).map(|_| ctx.rng.byte()).collect();
        if i % 2 == 0 && n >= 6 { b[..6].copy_from_slice(if i % 4 == 0 { b"LFSPTH" } else { b"LFSSMX" }); }
        if i % 8 == 0 && n >= 12 { b[8..12].copy_from_slice(&(ctx.rng.below(3) as u32).to_le_bytes()); }
        pth_case(ctx, &b, "random", i % 3 == 0);
        smx_case(ctx, &b, "random", i % 3 == 0);
    }
    // from_file / from_pathbuf on temporary files (and the shipped samples)
    let dir = ctx.out.join("files");
    let _ = std::fs::create_dir_all(&dir);
    for (i, n) in [0usize, 1, 7].iter().enumerate() {
        let p = gen_pth(&mut ctx.rng, *n);
        let b = write_pth(&p).unwrap().unwrap();
        let path = dir.join(format!("t{}.pth", i));
        std::fs::write(&path, &b).unwrap();
        ctx.oracle_eval("from_pathbuf");
        let r = guard(std::panic::AssertUnwindSafe(|| Pth::from_pathbuf(&path).map(|x| pth_tok(&x)).map_err(|_| ())));
        if r != Some(Ok(pth_tok(&p))) { ctx.violation("c17/pth/from_pathbuf", "from_pathbuf on a temporary file does not return the written structure", &format!("pth {}", hex(&b)), &pth_tok(&p), &format!("{:?}", r)); }
        std::fs::write(&path, &b[..b.len() - 1]).unwrap();
        let r = guard(std::panic::AssertUnwindSafe(|| Pth::from_pathbuf(&path).is_ok()));
        if r != Some(false) && *n > 0 { ctx.violation("c17/pth/from_pathbuf-truncated", "from_pathbuf accepted a truncated file", &format!("pth {}", hex(&b[..b.len() - 1])), "err", &format!("{:?}", r)); }
        let mut f = std::fs::File::open(&path).unwrap();
        let _ = guard(std::panic::AssertUnwindSafe(|| Pth::from_file(&mut f).is_ok()));
    }
    for (i, no) in [0usize, 2].iter().enumerate() {
        let s = gen_smx(&mut ctx.rng, *no, 2);
        let b = write_smx(&s).unwrap().unwrap();
        let path = dir.join(format!("t{}.smx", i));
        std::fs::write(&path, &b).unwrap();
        ctx.oracle_eval("from_pathbuf");
        let r = guard(std::panic::AssertUnwindSafe(|| Smx::from_pathbuf(&path).map(|x| smx_tok(&x)).map_err(|_| ())));
        if r != Some(Ok(smx_tok(&s))) { ctx.violation("c17/smx/from_pathbuf", "from_pathbuf on a temporary file does not return the written structure", &format!("smx {}", truncate(&hex(&b), 200)), &truncate(&smx_tok(&s), 100), &format!("{:?}", r.map(|x| x.map(|t| truncate(&t, 100))))); }
    }
    // from_file on a handle that is not at the start of its file (an image behind a preamble), whole and cut short by 1..8
    // bytes — an image whose tail is all zero bytes included (a buffer pre-filled with zeros must not stand in for it)
    for (i, fmt) in ["smx", "pth", "smx", "pth"].iter().enumerate() {
        let image: Vec<u8> = if *fmt == "smx" {
            let mut s = gen_smx(&mut ctx.rng, 1 + i, 1);
            if i >= 2 { s.checkpoint_object_index = vec![0]; }
            write_smx(&s).unwrap().unwrap()
        } else {
            let mut b = write_pth(&gen_pth(&mut ctx.rng, 2 + i)).unwrap().unwrap();
            if i >= 2 { let n = b.len(); for x in &mut b[n - 8..] { *x = 0; } }
            b
        };
        for cut in 0..=8usize { file_case(ctx, fmt, &image[..image.len() - cut], cut > 0); }
    }
    let missing = dir.join("does-not-exist.pth");
    if guard(std::panic::AssertUnwindSafe(|| Pth::from_pathbuf(&missing).is_err())) != Some(true) { ctx.violation("c17/pth/missing-file", "a missing file is not reported as an error", "missing", "err", "other"); }
    for (path, is_pth) in [("/repo/insim_pth/tests/AS1.pth", true), ("/repo/insim_smx/tests/Autocross_3DH.smx", false)] {
        if let Ok(b) = std::fs::read(path) {
            if is_pth { pth_case(ctx, &b, "valid", false); } else { smx_case(ctx, &b, "valid", false); }
            ctx.count(&format!("shipped sample {} ({} bytes)", path, b.len()));
        }
    }
}
