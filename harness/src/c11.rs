//! C11 — text fields occupy their exact wire width and terminate correctly.
use crate::common::*;
use crate::conn::mode_tok;
use crate::pkt::*;
use insim::insim::*;
use insim::relay::{Hos, HostInfo, Sel};
use insim::Packet;
use insim_core::binrw::Endian;
use insim_core::string::codepages::{to_lossy_bytes, to_lossy_string};
use insim_core::string::{binrw_write_codepage_string, strip_trailing_nul};
use std::io::Cursor;

/// every text field of every packet kind: (kind, field path, builder)
pub fn text_builders() -> Vec<(&'static str, &'static str, Box<dyn Fn(String) -> Packet>)> {
    let mut v: Vec<(&'static str, &'static str, Box<dyn Fn(String) -> Packet>)> = vec![];
    macro_rules! b { ($kind:expr, $path:expr, $f:expr) => { v.push(($kind, $path, Box::new($f))); }; }
    b!("Isi", "admin", |t| Isi { admin: t, ..Default::default() }.into());
    b!("Isi", "iname", |t| Isi { iname: t, ..Default::default() }.into());
    b!("Ver", "product", |t| Ver { product: t, ..Default::default() }.into());
    b!("Ism", "hname", |t| Ism { hname: t, ..Default::default() }.into());
    b!("Iii", "msg", |t| Iii { msg: t, ..Default::default() }.into());
    b!("Mst", "msg", |t| Mst { msg: t, ..Default::default() }.into());
    b!("Mtc", "text", |t| Mtc { text: t, ..Default::default() }.into());
    b!("Mso", "msg", |t| Mso { msg: t, ..Default::default() }.into());
    b!("Ncn", "uname", |t| Ncn { uname: t, ..Default::default() }.into());
    b!("Ncn", "pname", |t| Ncn { pname: t, ..Default::default() }.into());
    b!("Cpr", "pname", |t| Cpr { pname: t, ..Default::default() }.into());
    b!("Cpr", "plate", |t| Cpr { plate: t, ..Default::default() }.into());
    b!("Npl", "pname", |t| Npl { pname: t, ..Default::default() }.into());
    b!("Npl", "plate", |t| Npl { plate: t, ..Default::default() }.into());
    b!("Npl", "sname", |t| Npl { sname: t, ..Default::default() }.into());
    b!("Res", "uname", |t| Res { uname: t, ..Default::default() }.into());
    b!("Res", "pname", |t| Res { pname: t, ..Default::default() }.into());
    b!("Res", "plate", |t| Res { plate: t, ..Default::default() }.into());
    b!("Msx", "msg", |t| Msx { msg: t, ..Default::default() }.into());
    b!("Msl", "msg", |t| Msl { msg: t, ..Default::default() }.into());
    b!("Axi", "lname", |t| Axi { lname: t, ..Default::default() }.into());
    b!("Btn", "text", |t| Btn { text: t, ..Default::default() }.into());
    b!("Btt", "text", |t| Btt { text: t, ..Default::default() }.into());
    b!("Rip", "rname", |t| Rip { rname: t, ..Default::default() }.into());
    b!("Ssh", "name", |t| Ssh { name: t, ..Default::default() }.into());
    b!("Acr", "text", |t| Acr { text: t, ..Default::default() }.into());
    b!("RelaySel", "hname", |t| Sel { hname: t, ..Default::default() }.into());
    b!("RelaySel", "admin", |t| Sel { admin: t, ..Default::default() }.into());
    b!("RelaySel", "spec", |t| Sel { spec: t, ..Default::default() }.into());
    b!("RelayHos", "hinfo.hname", |t| Hos { hinfo: vec![HostInfo { hname: t, ..Default::default() }], ..Default::default() }.into());
    v
}

/// (offset of the field inside the frame, width or max, raw, align, is_tail) from the regenerated layout
pub fn locate(ls: &Layouts, kind: &str, path: &str) -> Option<(usize, usize, bool, u64, bool)> {
    // IS_MSO has a hand-written body (no declared fields): its text starts at offset 8, is 4-aligned, at most 128 bytes
    if kind == "Mso" && path == "msg" { return Some((8, 128, false, 4, true)); }
    let l = layout_of(ls, kind)?;
    let mut off = 2usize;
    for f in l["fields"].as_array()? {
        off += f["wb"].as_u64()? as usize;
        if f["path"] == path && f["ty"]["k"] == "str" {
            return Some((off, f["ty"]["wn"].as_u64()? as usize, f["ty"]["wraw"].as_bool()?, f["ty"]["align"].as_u64()?, false));
        }
        off += ty_size(&f["ty"]) + f["wa"].as_u64()? as usize;
    }
    let t = &l["tail"];
    if t["k"] == "streof" && t["path"] == path {
        return Some((off + t["wb"].as_u64().unwrap_or(0) as usize, t["wn"].as_u64()? as usize, t["wraw"].as_bool()?, t["align"].as_u64()?, true));
    }
    if t["k"] == "vec" {
        // first element of the vector
        let prefix = format!("{}.", t["path"].as_str()?);
        let sub = path.strip_prefix(&prefix)?;
        for f in t["elt"].as_array()? {
            off += f["wb"].as_u64()? as usize;
            if f["path"] == sub && f["ty"]["k"] == "str" {
                return Some((off, f["ty"]["wn"].as_u64()? as usize, f["ty"]["wraw"].as_bool()?, f["ty"]["align"].as_u64()?, false));
            }
            off += ty_size(&f["ty"]) + f["wa"].as_u64()? as usize;
        }
    }
    None
}

const MUST_TERMINATE: [&str; 4] = ["Mst", "Msx", "Msl", "Mtc"];

fn write_str(n: usize, raw: bool, align: u8, s: &str) -> Option<Vec<u8>> {
    let s = s.to_string();
    guard(move || {
        let mut c = Cursor::new(Vec::new());
        let r = match n {
            6 => binrw_write_codepage_string::<6, _>(&s, &mut c, Endian::Little, (raw, align)),
            8 => binrw_write_codepage_string::<8, _>(&s, &mut c, Endian::Little, (raw, align)),
            16 => binrw_write_codepage_string::<16, _>(&s, &mut c, Endian::Little, (raw, align)),
            24 => binrw_write_codepage_string::<24, _>(&s, &mut c, Endian::Little, (raw, align)),
            32 => binrw_write_codepage_string::<32, _>(&s, &mut c, Endian::Little, (raw, align)),
            64 => binrw_write_codepage_string::<64, _>(&s, &mut c, Endian::Little, (raw, align)),
            96 => binrw_write_codepage_string::<96, _>(&s, &mut c, Endian::Little, (raw, align)),
            128 => binrw_write_codepage_string::<128, _>(&s, &mut c, Endian::Little, (raw, align)),
            _ => binrw_write_codepage_string::<240, _>(&s, &mut c, Endian::Little, (raw, align)),
        };
        r.map(|_| c.into_inner()).unwrap_or_default()
    })
}

/// the writer helper itself, against the model
pub fn helper_case(ctx: &mut Ctx, n: usize, raw: bool, align: u8, s: &str) {
    let e: Vec<u8> = if raw { s.as_bytes().to_vec() } else { to_lossy_bytes(s).to_vec() };
    let op = format!("str.write {} {} {}", n, align, hex(&e));
    let r = write_str(n, raw, align, s);
    ctx.case(&op, &r.as_ref().map(|b| hex(b)).unwrap_or("panic".into()));
    if let Some(b) = &r {
        let rd = format!("str.read {}", hex(b));
        ctx.case(&rd, &hex(strip_trailing_nul(b)));
    }
}

/// the property's statement on one text field of one real packet
pub fn field_case(ctx: &mut Ctx, ls: &Layouts, compressed: bool, kind: &str, path: &str, build: &dyn Fn(String) -> Packet, text: &str) {
    ctx.oracle_eval(&format!("field-{}", kind));
    let (off, n, raw, align, is_tail) = match locate(ls, kind, path) { Some(x) => x, None => { ctx.violation(&format!("c11/locate/{}.{}", kind, path), "text field not found in the regenerated layout", kind, path, "missing"); return; } };
    let p = build(text.to_string());
    let input = format!("c11.field {} {}.{} {}", mode_tok(compressed), kind, path, crate::text::cps(text));
    let f = match real_encode(compressed, &p) { Some(Ok(f)) => f, _ => return };  // refusal / abort: C03
    let e: Vec<u8> = if raw { text.as_bytes().to_vec() } else { to_lossy_bytes(text).to_vec() };
    let got: &[u8] = if is_tail { &f[off.min(f.len())..] } else { &f[off.min(f.len())..(off + n).min(f.len())] };
    let mut want: Vec<u8> = e.clone();
    if is_tail || align > 1 {
        while want.len() % 4 != 0 { want.push(0); }
        want.truncate(n);
    } else {
        want.truncate(n);
        want.resize(n, 0);
    }
    if got != &want[..] {
        let cls = if is_tail { "variable" } else { "fixed" };
        ctx.violation(&format!("c11/width/{}/{}.{}", cls, kind, path), "the text field is not the encoded text truncated to its width and NUL-padded (fixed) / NUL-padded to a multiple of 4 within its maximum (variable)", &input, &hex(&want), &hex(got));
    }
    if is_tail && (got.len() % 4 != 0 || got.len() > n) {
        ctx.violation(&format!("c11/variable-size/{}.{}", kind, path), "a variable-width message field is not a multiple of 4 or exceeds its maximum", &input, &format!("<= {}", n), &got.len().to_string());
    }
    if MUST_TERMINATE.contains(&kind) && got.last().copied() != Some(0) {
        ctx.violation(&format!("c11/terminated/{}", kind), "a free-text packet sent to LFS does not end in a NUL byte", &input, "last byte 00", &hex(&got[got.len().saturating_sub(4)..]));
    }
    // decoding stops at the first NUL
    if let Dec::Pkt(p2, _) = real_decode(compressed, &f) {
        let v = serde_json::to_value(&p2).unwrap();
        let field = path.split('.').fold(Some(&v), |cur, part| cur.and_then(|c| if c.is_array() { c.get(0).and_then(|x| x.get(part)) } else { c.get(part) }));
        let decoded = field.and_then(|x| x.as_str()).map(|s| s.to_string());
        let upto: Vec<u8> = strip_trailing_nul(got).to_vec();
        let expect = if raw { String::from_utf8_lossy(&upto).to_string() } else { to_lossy_string(&upto).to_string() };
        if decoded.as_deref() != Some(expect.as_str()) {
            ctx.violation(&format!("c11/read/{}.{}", kind, path), "decoding the text field does not return the text up to the first NUL", &input, &crate::text::cps(&expect), &format!("{:?}", decoded.map(|d| crate::text::cps(&d))));
        }
        // … and at the end of its frame: the same frame with another packet behind it in the receive buffer
        let mut joint = f.clone();
        let follower = vec![if compressed { 1u8 } else { 4 }, 3, 9, 3];
        joint.extend_from_slice(&follower);
        let j2 = joint.clone();
        let r = guard(move || {
            #[allow(unused_mut)] let mut c = insim::net::Codec::new(crate::conn::mode_of(compressed));
            let mut buf = bytes::BytesMut::from(&j2[..]);
            let p = c.decode(&mut buf);
            (p.ok().flatten(), buf.to_vec())
        });
        if let Some((Some(p3), rest)) = r {
            let v = serde_json::to_value(&p3).unwrap();
            let field = path.split('.').fold(Some(&v), |cur, part| cur.and_then(|c| if c.is_array() { c.get(0).and_then(|x| x.get(part)) } else { c.get(part) }));
            let decoded = field.and_then(|x| x.as_str()).map(|s| s.to_string());
            if decoded.as_deref() != Some(expect.as_str()) || rest != follower {
                ctx.violation(&format!("c11/read-beyond-frame/{}.{}", kind, path), "with another packet behind it in the buffer, the text field is not the text of its own frame (or the following frame is not left intact)", &input, &format!("{} + rest {}", crate::text::cps(&expect), hex(&follower)), &format!("{:?} + rest {}", decoded.map(|d| crate::text::cps(&d)), hex(&rest)));
            }
        }
    }
}

/// the same packet serialised into a writer that accepts a few bytes per call: every text field still occupies its bytes
/// (a field handed to the sink with one `write` instead of `write_all` comes out short, and everything after it shifts)
pub fn short_writer_case(ctx: &mut Ctx, kind: &str, path: &str, build: &dyn Fn(String) -> Packet, text: &str, per: usize) {
    use insim_core::binrw::BinWrite;
    ctx.oracle_eval("short-writer");
    let input = format!("c11.sink {} {}.{} {}", per, kind, path, crate::text::cps(text));
    let p = build(text.to_string());
    let p2 = p.clone();
    let whole = guard(std::panic::AssertUnwindSafe(move || { let mut c = Cursor::new(Vec::new()); p.write(&mut c).map(|_| c.into_inner()).map_err(|_| ()) }));
    let piece = guard(std::panic::AssertUnwindSafe(move || { let mut w = DribbleW::new(per); p2.write(&mut w).map(|_| w.inner.into_inner()).map_err(|_| ()) }));
    // … and into a buffer that already holds something (a scratch buffer rewound and reused, a caller's array that was never
    // zeroed): the padding of a text field is *written*, not skipped
    let p3 = build(text.to_string());
    let dirty = guard(std::panic::AssertUnwindSafe(move || { let mut c = Cursor::new(vec![0xA5u8; 600]); p3.write(&mut c).map(|_| { let n = c.position() as usize; c.into_inner()[..n].to_vec() }).map_err(|_| ()) }));
    if whole != dirty {
        ctx.violation(&format!("c11/dirty-sink/{}.{}", kind, path), "written over a buffer that already held bytes, the packet's text field is not the text followed by NUL bytes (padding skipped instead of written)", &input,
            &format!("{:?}", whole.clone().map(|r| r.map(|b| hex(&b)))), &format!("{:?}", dirty.map(|r| r.map(|b| hex(&b)))));
    }
    if whole != piece {
        ctx.violation(&format!("c11/short-writer/{}.{}", kind, path), "written through a sink that accepts a few bytes per call, the packet's bytes are not those written into memory (a text field came out short)", &input,
            &format!("{:?}", whole.map(|r| r.map(|b| hex(&b)))), &format!("{:?}", piece.map(|r| r.map(|b| hex(&b)))));
    }
}

/// frames with a NUL in the middle of a text field: decoding must stop there
pub fn nul_case(ctx: &mut Ctx, ls: &Layouts, compressed: bool, kind: &str, path: &str, build: &dyn Fn(String) -> Packet) {
    let (off, n, raw, _align, is_tail) = match locate(ls, kind, path) { Some(x) => x, None => return };
    let p = build("abcdefghijklmnopqrstuvwxyz0123456789".chars().cycle().take(n.min(60)).collect());
    let mut f = match real_encode(compressed, &p) { Some(Ok(f)) => f, _ => return };
    let len = if is_tail { f.len() - off } else { n };
    if len < 3 { return; }
    for pos in [0usize, 1, len / 2, len - 2] {
        ctx.oracle_eval("nul-in-text");
        if off + pos >= f.len() { continue; }
        let saved = f[off + pos];
        f[off + pos] = 0;
        if let Dec::Pkt(p2, _) = real_decode(compressed, &f) {
            let v = serde_json::to_value(&p2).unwrap();
            let field = path.split('.').fold(Some(&v), |cur, part| cur.and_then(|c| if c.is_array() { c.get(0).and_then(|x| x.get(part)) } else { c.get(part) }));
            let decoded = field.and_then(|x| x.as_str()).unwrap_or("?").to_string();
            // the text up to the first NUL of the (mutated) field
            let end = if is_tail { f.len() } else { (off + n).min(f.len()) };
            let first_nul = f[off..end].iter().position(|b| *b == 0).unwrap_or(end - off);
            let upto = &f[off..off + first_nul];
            let expect = if raw { String::from_utf8_lossy(upto).to_string() } else { to_lossy_string(upto).to_string() };
            if decoded != expect {
                ctx.violation(&format!("c11/read-stops-at-nul/{}.{}", kind, path), "decoding a text field does not stop at the first NUL", &format!("pkt.dec {}", frame_text(compressed, &f)), &expect, &decoded);
            }
        }
        f[off + pos] = saved;
    }
}

pub fn run(ctx: &mut Ctx) {
    let ls = load_layouts();
    let builders = text_builders();
    if let Some(lines) = ctx.replay.clone() {
        for l in lines {
            let w: Vec<&str> = l.split_whitespace().collect();
            match w.as_slice() {
                ["str.write", n, a, h] => { let e = unhex(h); let s = String::from_utf8_lossy(&e).to_string(); helper_case(ctx, n.parse().unwrap_or(6), true, a.parse().unwrap_or(0), &s); },
                ["c11.sink", per, kp, t] => {
                    let (k, p) = kp.split_once('.').unwrap_or((kp, ""));
                    for (bk, bp, b) in &builders { if bk == &k && bp == &p { short_writer_case(ctx, k, p, b.as_ref(), &crate::text::from_cps(t), per.parse().unwrap_or(1).max(1)); } }
                },
                ["c11.field", m, kp, t] => {
                    let (k, p) = kp.split_once('.').unwrap_or((kp, ""));
                    for (bk, bp, b) in &builders { if bk == &k && bp == &p { field_case(ctx, &ls, *m == "c", k, p, b.as_ref(), &crate::text::from_cps(t)); } }
                },
                _ => {},
            }
        }
        return;
    }
    let quick = ctx.quick();
    // every text field the translator found must have a builder here (so none is silently untested)
    let mut found = 0;
    for l in ls.kinds.iter() {
        let kind = l["kind"].as_str().unwrap_or("");
        let mut paths: Vec<String> = l["fields"].as_array().unwrap().iter().filter(|f| f["ty"]["k"] == "str").map(|f| f["path"].as_str().unwrap().to_string()).collect();
        if l["tail"]["k"] == "streof" { paths.push(l["tail"]["path"].as_str().unwrap().to_string()); }
        if l["tail"]["k"] == "vec" { for f in l["tail"]["elt"].as_array().unwrap() { if f["ty"]["k"] == "str" { paths.push(format!("{}.{}", l["tail"]["path"].as_str().unwrap(), f["path"].as_str().unwrap())); } } }
        for p in paths {
            found += 1;
            if !builders.iter().any(|(k, bp, _)| *k == kind && *bp == p) {
                ctx.violation(&format!("c11/no-builder/{}.{}", kind, p), "a text field exists in the source for which the harness has no builder", kind, "builder", &p);
            }
        }
    }
    *ctx.distribution.entry("text fields in the regenerated layouts".into()).or_insert(0) = found;
    // the writer helper against the model: every width, alignments, lengths 0..2N, residues mod 4
    for n in [6usize, 8, 16, 24, 32, 64, 96, 128, 240] {
        for len in 0..=(2 * n) {
            if quick && n >= 64 && len % 3 != 0 && (len + 2) < n.saturating_sub(4) { continue; }
            let s: String = "abcdefghij".chars().cycle().take(len).collect();
            helper_case(ctx, n, false, 0, &s);
            if n >= 64 { helper_case(ctx, n, false, 4, &s); }
            if len % 4 == 1 {
                // multi-byte / multi-codepage text whose encoded length differs from its character count
                let t: String = "ěš".chars().cycle().take(len / 2).chain("日本".chars()).collect();
                helper_case(ctx, n, false, 0, &t);
                if n >= 64 { helper_case(ctx, n, false, 4, &t); }
                helper_case(ctx, n, true, 0, &t);
            }
        }
    }
    ctx.exhaustive_domains.push("writer helper: every width {6,8,16,24,32,64,96,128,240} x text lengths 0..2N x align {0,4} (thinned for the large widths in quick)".into());
    // every text-bearing kind through the real encoder/decoder
    for compressed in [true, false] {
        for (kind, path, b) in &builders {
            let n = locate(&ls, kind, path).map(|x| x.1).unwrap_or(16);
            for len in 0..=(2 * n) {
                if quick && len > 12 && len % 5 != 0 && !(len + 3 >= n && len <= n + 3) { continue; }
                let s: String = "abcdefghij".chars().cycle().take(len).collect();
                field_case(ctx, &ls, compressed, kind, path, b.as_ref(), &s);
                if len % 6 == 1 {
                    let t: String = "ěšж".chars().cycle().take(len).collect();
                    field_case(ctx, &ls, compressed, kind, path, b.as_ref(), &t);
                }
                // texts whose UTF-8 form is longer than their wire form (no codepage switch needed / one switch):
                // the width arithmetic must be done on the encoded bytes, not on the Rust string
                if len % 2 == 0 || len + 2 >= n / 2 && len <= n / 2 + 2 {
                    let t: String = "äÖüß".chars().cycle().take(len).collect();
                    field_case(ctx, &ls, compressed, kind, path, b.as_ref(), &t);
                }
                if len % 6 == 2 || len + 1 >= n / 3 && len <= n / 3 + 2 {
                    let t: String = "日本語".chars().cycle().take(len).collect();
                    field_case(ctx, &ls, compressed, kind, path, b.as_ref(), &t);
                }
            }
            nul_case(ctx, &ls, compressed, kind, path, b.as_ref());
            // texts that carry NUL characters themselves (a caller-terminated text, LFS's "\0caption\0text" button form):
            // the field is still the encoded text, padded — nothing is cut on the way out
            for t in ["abcd\0", "abc\0", "\0Your name\0Click to type", "first\0second", "a\0\0\0b", "\0", "ěš\0日本"] {
                field_case(ctx, &ls, compressed, kind, path, b.as_ref(), t);
            }
        }
    }
    for (kind, path, b) in &builders { for t in ["", "abc", "a text of twenty-one b", "\u{11b}\u{161}\u{436}"] { for per in [1usize, 5, 17] { short_writer_case(ctx, kind, path, b.as_ref(), t, per); } } }
    ctx.exhaustive_domains.push("every text field's packet serialised into a sink that accepts 1, 5, 17 bytes per call x 4 texts".into());
    for n in [8usize, 64, 128, 240] { for t in ["abcd\0", "abc\0", "\0ab\0cd", "first\0second", "\0"] { helper_case(ctx, n, false, 0, t); helper_case(ctx, n, false, 4, t); } }
    ctx.exhaustive_domains.push("every text field of every text-bearing kind x text lengths 0..2N (ASCII, and multi-codepage every 6th length) x both modes; NUL at 4 positions inside each field; seven texts that contain NUL characters".into());
}
