//! C13 — Vehicle <-> 4 wire bytes.
use crate::common::*;
use insim_core::binrw::{BinRead, BinWrite};
use insim_core::vehicle::Vehicle;
use std::io::Cursor;

/// independent transcription of the InSim v9 built-in car names (oracle side)
pub const SPEC_NAMES: [&str; 20] = [
    "UF1", "XFG", "XRG", "LX4", "LX6", "RB4", "FXO", "XRT", "RAC", "FZ5", "UFR", "XFR", "FXR", "XRR", "FZR", "MRT",
    "FBM", "FOX", "FO8", "BF1",
];

/// (a base frame, the offset of the car field) for every packet kind that has one
pub fn car_fields(ls: &crate::pkt::Layouts, compressed: bool) -> Vec<(Vec<u8>, usize)> {
    use crate::pkt::*;
    let mut out = vec![];
    for l in ls.kinds.iter() {
        let fields = l["fields"].as_array().cloned().unwrap_or_default();
        if !fields.iter().any(|f| f["ty"]["id"] == "Vehicle") { continue; }
        let base = gen_frame(&mut Rng::new(7), l, compressed, &GenOpts { wild: 0, text: 0, count: Some(1) });
        let mut off = 2usize;
        for f in &fields {
            off += f["rb"].as_u64().unwrap_or(0) as usize;
            if f["ty"]["id"] == "Vehicle" && off + 4 <= base.len() { out.push((base.clone(), off)); }
            off += ty_size(&f["ty"]) + f["ra"].as_u64().unwrap_or(0) as usize;
        }
    }
    out
}

pub fn read_veh(b: &[u8]) -> Option<Result<Vehicle, ()>> {
    let b = b.to_vec();
    guard(move || Vehicle::read_le(&mut Cursor::new(&b)).map_err(|_| ()))
}

pub fn write_veh(v: &Vehicle) -> Option<Result<Vec<u8>, ()>> {
    let v = v.clone();
    guard(move || {
        let mut c = Cursor::new(Vec::new());
        v.write_le(&mut c).map(|_| c.into_inner()).map_err(|_| ())
    })
}

pub fn veh_token(v: &Vehicle) -> String {
    match serde_json::to_value(v).unwrap() {
        serde_json::Value::String(s) if s == "Unknown" => "unknown".into(),
        serde_json::Value::String(s) => format!("builtin {}", s),
        serde_json::Value::Object(m) => format!("mod {}", m["Mod"]),
        other => format!("?{}", other),
    }
}

fn line(b: &[u8]) -> String {
    match read_veh(b) {
        None => "panic".into(),
        Some(Err(())) => "err decode".into(),
        Some(Ok(v)) => {
            let enc = match write_veh(&v) {
                None => "panic".into(),
                Some(Err(())) => "err".into(),
                Some(Ok(bs)) => hex(&bs),
            };
            let disp = if v.is_builtin() && v != Vehicle::Unknown { format!("{}", v) } else { "-".into() };
            format!("ok {}; enc={}; disp={}", veh_token(&v), enc, disp)
        },
    }
}

/// the property's observable statement on the real code for one 4-byte word; returns a signature on failure
fn oracle_word(b: [u8; 4]) -> Option<(&'static str, String, String)> {
    let shape = b[..3].iter().all(|c| c.is_ascii_alphanumeric()) && b[3] == 0;
    // fast path for the overwhelmingly common class (a mod id): the same four checks without building any text;
    // anything that does not come out exactly right falls through to the explaining path below
    if !shape && b != [0, 0, 0, 0] {
        let ok = std::panic::catch_unwind(|| {
            match Vehicle::read_le(&mut Cursor::new(&b[..])) {
                Ok(Vehicle::Mod(id)) if id == u32::from_le_bytes(b) => {
                    let mut out = [0u8; 4];
                    let mut c = Cursor::new(&mut out[..]);
                    let v = Vehicle::Mod(id);
                    v.write_le(&mut c).is_ok() && out == b && v.is_mod()
                },
                _ => false,
            }
        });
        if let Ok(true) = ok { return None; }
    }
    let r = match read_veh(&b) {
        None => return Some(("c13/decode/panic", "no panic".into(), "panic".into())),
        Some(r) => r,
    };
    // classification by the InSim v9 rule
    let expected: Result<String, ()> = if b == [0, 0, 0, 0] {
        Ok("unknown".into())
    } else if shape {
        let name = std::str::from_utf8(&b[..3]).unwrap();
        if SPEC_NAMES.contains(&name) {
            let mut it = name.chars();
            let first = it.next().unwrap();
            Ok(format!("builtin {}{}", first, it.as_str().to_ascii_lowercase()))
        } else {
            Err(())
        }
    } else {
        Ok(format!("mod {}", u32::from_le_bytes(b)))
    };
    let got = r.as_ref().map(veh_token).map_err(|_| ());
    if got != expected {
        let class = if b == [0, 0, 0, 0] { "zero" } else if shape { "builtin-shape" } else { "mod" };
        let sig: &'static str = match class {
            "zero" => "c13/rule/zero",
            "builtin-shape" => "c13/rule/builtin-shape",
            _ => "c13/rule/mod",
        };
        return Some((sig, format!("{:?}", expected), format!("{:?}", got)));
    }
    if let Ok(v) = r {
        match write_veh(&v) {
            Some(Ok(bs)) if bs == b => {},
            other => return Some(("c13/reencode", hex(&b), format!("{:?}", other.map(|r| r.map(|b| hex(&b)))))),
        }
        if shape && b != [0, 0, 0, 0] {
            let shown = format!("{}", v);
            if shown.as_bytes() != &b[..3] {
                return Some(("c13/display", String::from_utf8_lossy(&b[..3]).into(), shown));
            }
        }
        if v.is_mod() == (shape || b == [0, 0, 0, 0]) {
            return Some(("c13/confusion", "is_mod iff neither zero nor built-in shape".into(), format!("is_mod={}", v.is_mod())));
        }
    }
    None
}

/// the same rule where a car identifier actually travels: inside every packet kind that has such a field. Whatever the bare
/// codec says about the four bytes (a car, unknown, a mod, an error) is what the packet says; a packet never turns an
/// unrecognised built-in-style name into some car
pub fn in_packet_case(ctx: &mut Ctx, ls: &crate::pkt::Layouts, compressed: bool, frame: &[u8], off: usize) {
    use crate::pkt::*;
    let w = [frame[off], frame[off + 1], frame[off + 2], frame[off + 3]];
    let op = format!("pkt.rt {}", frame_text(compressed, frame));
    ctx.oracle_eval("car-in-packet");
    let bare = read_veh(&w);
    let kind = ls.kinds.iter().find(|l| l["type_no"].as_u64() == frame.get(1).map(|b| *b as u64)).and_then(|l| l["kind"].as_str()).unwrap_or("?").to_string();
    match (bare, real_decode(compressed, frame)) {
        (Some(Err(())), Dec::Pkt(p, _)) => ctx.violation(&format!("c13/in-packet/{}/error-swallowed", kind), "an identifier the rule rejects (an unrecognised built-in-style name) is accepted inside a packet", &op, "a decode error", &truncate(&serde_json::to_string(&p).unwrap_or_default(), 160)),
        (Some(Ok(v)), Dec::Pkt(p, _)) => {
            let want = serde_json::to_value(&v).unwrap();
            let got = serde_json::to_value(&p).unwrap();
            // the car field of the packet (any depth), compared with the bare decode
            fn find<'a>(x: &'a serde_json::Value, want: &serde_json::Value) -> bool {
                if x == want { return true; }
                match x { serde_json::Value::Object(m) => m.values().any(|y| find(y, want)), serde_json::Value::Array(a) => a.iter().any(|y| find(y, want)), _ => false }
            }
            if !find(&got, &want) { ctx.violation(&format!("c13/in-packet/{}/different-car", kind), "inside a packet the identifier decodes to something else than the rule gives", &op, &want.to_string(), &truncate(&got.to_string(), 160)); }
            match real_encode(compressed, &p) {
                Some(Ok(e)) if e.len() >= off + 4 && e[off..off + 4] == w => {},
                Some(Ok(e)) => ctx.violation(&format!("c13/in-packet/{}/reencode", kind), "the identifier does not re-encode to the identical 4 bytes inside its packet", &op, &hex(&w), &hex(&e[off.min(e.len())..(off + 4).min(e.len())])),
                _ => {},
            }
        },
        (Some(Ok(_)), Dec::ErrDecode(_)) => ctx.violation(&format!("c13/in-packet/{}/rejected", kind), "an identifier the rule accepts is rejected inside a packet", &op, "a packet", "decode error"),
        (_, Dec::Panic) | (None, _) => ctx.violation(&format!("c13/in-packet/{}/panic", kind), "decoding the identifier panicked", &op, "value or error", "panic"),
        _ => {},
    }
}

/// the same bytes from a reader that hands them over `per` at a time: same identifier, reader left right behind the field
/// (model line: Reader.decodeFrom 4 over the same pieces — theorem C13.segmented_read)
fn segmented_case(ctx: &mut Ctx, w: &[u8], per: usize) {
    let whole = read_veh(&w[..w.len().min(4)]).map(|r| r.map(|v| veh_token(&v)));
    let w2 = w.to_vec();
    let piecewise = guard(move || { let mut r = Dribble::new(&w2, per); let v = Vehicle::read_le(&mut r).map(|v| veh_token(&v)).map_err(|_| ()); (v, r.inner.position()) });
    ctx.case(&format!("veh.seg {} {}", hex(w), per), &match &piecewise { Some((Ok(t), pos)) => format!("ok {} at {}", t, pos), Some((Err(()), _)) => "err decode".to_string(), None => "panic".to_string() });
    match piecewise {
        Some((t, pos)) if Some(t.clone()) == whole && (t.is_err() || pos == 4) => {},
        other => ctx.violation("c13/segmented-read", "the same four bytes decode differently (or leave the reader elsewhere) when the reader hands them over in pieces", &format!("veh.seg {} {}", hex(w), per), &format!("{:?} at 4", whole), &format!("{:?}", other)),
    }
}

pub fn run(ctx: &mut Ctx) {
    if let Some(lines) = ctx.replay.clone() {
        let ls = crate::pkt::load_layouts();
        for l in lines {
            if let Some(rest) = l.strip_prefix("pkt.rt ") {
                // find the car field of that kind again
                let w: Vec<&str> = rest.split_whitespace().collect();
                if let [m, h] = w.as_slice() {
                    let f = unhex(h);
                    for (kind_frames, off) in car_fields(&ls, *m == "c") { if kind_frames.get(1) == f.get(1) { in_packet_case(ctx, &ls, *m == "c", &f, off); } }
                }
                continue;
            }
            if let Some(rest) = l.strip_prefix("veh.seg ") {
                let w: Vec<&str> = rest.split_whitespace().collect();
                if let [h, per] = w.as_slice() { segmented_case(ctx, &unhex(h), per.parse().unwrap_or(1).max(1)); }
                continue;
            }
            if let Some(h) = l.strip_prefix("veh ") {
                let b = unhex(h.trim());
                ctx.case(&l, &line(&b));
                if b.len() == 4 {
                    if let Some((sig, e, o)) = oracle_word([b[0], b[1], b[2], b[3]]) {
                        ctx.violation(sig, "vehicle word violates C13", &l, &e, &o);
                    }
                }
            }
        }
        return;
    }
    // inside packets: every kind with a car field x {every built-in name, unrecognised built-in-style names, unknown, mods}
    {
        let ls = crate::pkt::load_layouts();
        let mut n = 0u64;
        for compressed in [true, false] {
            for (base, off) in car_fields(&ls, compressed) {
                let mut ids: Vec<[u8; 4]> = SPEC_NAMES.iter().map(|n| [n.as_bytes()[0], n.as_bytes()[1], n.as_bytes()[2], 0]).collect();
                for u in ["ABC", "XFX", "F08", "UF2", "000", "zzz", "xfg", "BF2", "FO9", "A1B"] { ids.push([u.as_bytes()[0], u.as_bytes()[1], u.as_bytes()[2], 0]); }
                for v in [0u32, 1, 0x00AB_CDEF, 0x00FF_FFFF, 0x0100_0000, 0x8047_4658, 0x0147_4658, 0xFFFF_FFFF, 0x00F3_4241] { ids.push(v.to_le_bytes()); }
                for id in ids {
                    let mut f = base.clone();
                    f[off..off + 4].copy_from_slice(&id);
                    in_packet_case(ctx, &ls, compressed, &f, off);
                    n += 1;
                }
            }
        }
        *ctx.distribution.entry("car identifiers tried inside packets".into()).or_insert(0) = n;
        ctx.exhaustive_domains.push("every packet kind with a car field x {20 built-in names, 10 unrecognised built-in-style names, unknown, 8 mod ids} x both size modes".into());
    }
    // an identifier is four bytes: fewer is an error, and four bytes handed over by the reader in pieces are still those four
    {
        for short in [&b""[..], &b"X"[..], &b"XF"[..], &b"XFG"[..], &[0u8, 0, 0][..], &[0x56u8, 0x34, 0x12][..]] {
            ctx.oracle_eval("short-input");
            if let Some(Ok(v)) = read_veh(short) {
                ctx.violation("c13/short-input-accepted", "fewer than four bytes decode to a car identifier", &format!("veh {}", if short.is_empty() { "-".to_string() } else { hex(short) }), "an error", &veh_token(&v));
            }
        }
        for w in [&b"XFG\0"[..], b"FBM\0", &[0, 0, 0, 0], &[0x56, 0x34, 0x12, 0x00], &[0x56, 0x34, 0x12, 0x80], b"ABC\0", b"XFG\0XRT\0", b"UF1\0\x01", b"XF", b"XFG"] {
            for per in [1usize, 2, 3, 5] { segmented_case(ctx, w, per); }
        }
    }
    // class representatives: boundaries of the three alphanumeric ranges, NUL, high bytes, letters of real names
    let reps: Vec<u8> = vec![
        0, 1, b' ', b'/', b'0', b'4', b'9', b':', b'@', b'A', b'B', b'F', b'G', b'L', b'M', b'O', b'R', b'T', b'U', b'X', b'Z', b'[',
        b'`', b'a', b'f', b'x', b'z', b'{', 0x7f, 0x80, 0xff,
    ];
    let last: Vec<u8> = vec![0, 1, b'0', b'A', b'z', 0x80, 0xff];
    for &a in &reps {
        for &b in &reps {
            for &c in &reps {
                for &d in &last {
                    let w = [a, b, c, d];
                    ctx.case(&format!("veh {}", hex(&w)), &line(&w));
                    if let Some((sig, e, o)) = oracle_word(w) {
                        ctx.violation(sig, "vehicle word violates C13", &format!("veh {}", hex(&w)), &e, &o);
                    }
                }
            }
        }
    }
    ctx.exhaustive_domains.push(format!("{}^3 x {} class-representative bytes", reps.len(), last.len()));
    // every spec name, and every name at Hamming distance 1 over the alphanumerics
    for name in SPEC_NAMES {
        let nb = name.as_bytes();
        let w = [nb[0], nb[1], nb[2], 0];
        ctx.case(&format!("veh {}", hex(&w)), &line(&w));
        for pos in 0..3 {
            for ch in (b'0'..=b'9').chain(b'A'..=b'Z').chain(b'a'..=b'z') {
                let mut w2 = w;
                w2[pos] = ch;
                ctx.case(&format!("veh {}", hex(&w2)), &line(&w2));
                if let Some((sig, e, o)) = oracle_word(w2) {
                    ctx.violation(sig, "vehicle word violates C13", &format!("veh {}", hex(&w2)), &e, &o);
                }
            }
        }
    }
    // short / long inputs (reader must report an error on fewer than 4 bytes)
    for n in 0..4usize {
        let w = vec![b'X'; n];
        ctx.case(&format!("veh {}", hex(&w)), &line(&w));
    }
    // random words
    let n = if ctx.quick() { 20_000 } else { 300_000 };
    for _ in 0..n {
        let w = [ctx.rng.byte(), ctx.rng.byte(), ctx.rng.byte(), ctx.rng.byte()];
        ctx.case(&format!("veh {}", hex(&w)), &line(&w));
        if let Some((sig, e, o)) = oracle_word(w) {
            ctx.violation(sig, "vehicle word violates C13", &format!("veh {}", hex(&w)), &e, &o);
        }
    }
    if !ctx.quick() {
        // all 2^32 words through the real reader/writer (oracle only), 16 threads
        let threads = 16u64;
        let per = (1u64 << 32) / threads;
        let handles: Vec<_> = (0..threads)
            .map(|t| {
                std::thread::spawn(move || {
                    let mut bad: Vec<(u32, &'static str, String, String)> = vec![];
                    for w in (t * per)..((t + 1) * per) {
                        if let Some((sig, e, o)) = oracle_word((w as u32).to_le_bytes()) {
                            if bad.len() < 5 {
                                bad.push((w as u32, sig, e, o));
                            }
                        }
                    }
                    bad
                })
            })
            .collect();
        for h in handles {
            for (w, sig, e, o) in h.join().unwrap() {
                ctx.violation(sig, "vehicle word violates C13", &format!("veh {}", hex(&w.to_le_bytes())), &e, &o);
            }
        }
        ctx.oracle_eval_n("all-2^32-words", 1u64 << 32);
        ctx.exhaustive_domains.push("all 2^32 four-byte words (oracle: rule, re-encode, display, no confusion)".into());
    }
}
