//! C13 — Vehicle <-> 4 wire bytes.
use crate::common::*;
use insim_core::binrw::{BinRead, BinWrite};
use insim_core::vehicle::Vehicle;
use std::io::Cursor;

/// independent transcription of the InSim v9 built-in car names (oracle side)
pub const SPEC_NAMES: [&str; 20] = [
    "UF1", "XFG", "XRG", "LX4", "LX6", "RB4", "FXO", "XRT", "RAC", "FZ5", "UFR", "XFR", "FXR", "XRR", "FZR", "MRT",
    "FBM", "FOX", "FO8", "BF1",
];

pub fn read_veh(b: &[u8]) -> Option<Result<Vehicle, ()>> {
    let b = b.to_vec();
    guard(move || Vehicle::read_le(&mut Cursor::new(&b)).map_err(|_| ()))
}

pub fn write_veh(v: &Vehicle) -> Option<Result<Vec<u8>, ()>> {
    let v = v.clone();
    guard(move || {
        let mut c = Cursor::new(Vec::new());
        v.write_le(&mut c).map(|_| c.into_inner()).map_err(|_| ())
    })
}

pub fn veh_token(v: &Vehicle) -> String {
    match serde_json::to_value(v).unwrap() {
        serde_json::Value::String(s) if s == "Unknown" => "unknown".into(),
        serde_json::Value::String(s) => format!("builtin {}", s),
        serde_json::Value::Object(m) => format!("mod {}", m["Mod"]),
        other => format!("?{}", other),
    }
}

fn line(b: &[u8]) -> String {
    match read_veh(b) {
        None => "panic".into(),
        Some(Err(())) => "err decode".into(),
        Some(Ok(v)) => {
            let enc = match write_veh(&v) {
                None => "panic".into(),
                Some(Err(())) => "err".into(),
                Some(Ok(bs)) => hex(&bs),
            };
            let disp = if v.is_builtin() && v != Vehicle::Unknown { format!("{}", v) } else { "-".into() };
            format!("ok {}; enc={}; disp={}", veh_token(&v), enc, disp)
        },
    }
}

/// the property's observable statement on the real code for one 4-byte word; returns a signature on failure
fn oracle_word(b: [u8; 4]) -> Option<(&'static str, String, String)> {
    let shape = b[..3].iter().all(|c| c.is_ascii_alphanumeric()) && b[3] == 0;
    // fast path for the overwhelmingly common class (a mod id): the same four checks without building any text;
    // anything that does not come out exactly right falls through to the explaining path below
    if !shape && b != [0, 0, 0, 0] {
        let ok = std::panic::catch_unwind(|| {
            match Vehicle::read_le(&mut Cursor::new(&b[..])) {
                Ok(Vehicle::Mod(id)) if id == u32::from_le_bytes(b) => {
                    let mut out = [0u8; 4];
                    let mut c = Cursor::new(&mut out[..]);
                    let v = Vehicle::Mod(id);
                    v.write_le(&mut c).is_ok() && out == b && v.is_mod()
                },
                _ => false,
            }
        });
        if let Ok(true) = ok { return None; }
    }
    let r = match read_veh(&b) {
        None => return Some(("c13/decode/panic", "no panic".into(), "panic".into())),
        Some(r) => r,
    };
    // classification by the InSim v9 rule
    let expected: Result<String, ()> = if b == [0, 0, 0, 0] {
        Ok("unknown".into())
    } else if shape {
        let name = std::str::from_utf8(&b[..3]).unwrap();
        if SPEC_NAMES.contains(&name) {
            let mut it = name.chars();
            let first = it.next().unwrap();
            Ok(format!("builtin {}{}", first, it.as_str().to_ascii_lowercase()))
        } else {
            Err(())
        }
    } else {
        Ok(format!("mod {}", u32::from_le_bytes(b)))
    };
    let got = r.as_ref().map(veh_token).map_err(|_| ());
    if got != expected {
        let class = if b == [0, 0, 0, 0] { "zero" } else if shape { "builtin-shape" } else { "mod" };
        let sig: &'static str = match class {
            "zero" => "c13/rule/zero",
            "builtin-shape" => "c13/rule/builtin-shape",
            _ => "c13/rule/mod",
        };
        return Some((sig, format!("{:?}", expected), format!("{:?}", got)));
    }
    if let Ok(v) = r {
        match write_veh(&v) {
            Some(Ok(bs)) if bs == b => {},
            other => return Some(("c13/reencode", hex(&b), format!("{:?}", other.map(|r| r.map(|b| hex(&b)))))),
        }
        if shape && b != [0, 0, 0, 0] {
            let shown = format!("{}", v);
            if shown.as_bytes() != &b[..3] {
                return Some(("c13/display", String::from_utf8_lossy(&b[..3]).into(), shown));
            }
        }
        if v.is_mod() == (shape || b == [0, 0, 0, 0]) {
            return Some(("c13/confusion", "is_mod iff neither zero nor built-in shape".into(), format!("is_mod={}", v.is_mod())));
        }
    }
    None
}

pub fn run(ctx: &mut Ctx) {
    if let Some(lines) = ctx.replay.clone() {
        for l in lines {
            if let Some(h) = l.strip_prefix("veh ") {
                let b = unhex(h.trim());
                ctx.case(&l, &line(&b));
                if b.len() == 4 {
                    if let Some((sig, e, o)) = oracle_word([b[0], b[1], b[2], b[3]]) {
                        ctx.violation(sig, "vehicle word violates C13", &l, &e, &o);
                    }
                }
            }
        }
        return;
    }
    // class representatives: boundaries of the three alphanumeric ranges, NUL, high bytes, letters of real names
    let reps: Vec<u8> = vec![
        0, 1, b' ', b'/', b'0', b'4', b'9', b':', b'@', b'A', b'B', b'F', b'G', b'L', b'M', b'O', b'R', b'T', b'U', b'X', b'Z', b'[',
        b'`', b'a', b'f', b'x', b'z', b'{', 0x7f, 0x80, 0xff,
    ];
    let last: Vec<u8> = vec![0, 1, b'0', b'A', b'z', 0x80, 0xff];
    for &a in &reps {
        for &b in &reps {
            for &c in &reps {
                for &d in &last {
                    let w = [a, b, c, d];
                    ctx.case(&format!("veh {}", hex(&w)), &line(&w));
                    if let Some((sig, e, o)) = oracle_word(w) {
                        ctx.violation(sig, "vehicle word violates C13", &format!("veh {}", hex(&w)), &e, &o);
                    }
                }
            }
        }
    }
    ctx.exhaustive_domains.push(format!("{}^3 x {} class-representative bytes", reps.len(), last.len()));
    // every spec name, and every name at Hamming distance 1 over the alphanumerics
    for name in SPEC_NAMES {
        let nb = name.as_bytes();
        let w = [nb[0], nb[1], nb[2], 0];
        ctx.case(&format!("veh {}", hex(&w)), &line(&w));
        for pos in 0..3 {
            for ch in (b'0'..=b'9').chain(b'A'..=b'Z').chain(b'a'..=b'z') {
                let mut w2 = w;
                w2[pos] = ch;
                ctx.case(&format!("veh {}", hex(&w2)), &line(&w2));
                if let Some((sig, e, o)) = oracle_word(w2) {
                    ctx.violation(sig, "vehicle word violates C13", &format!("veh {}", hex(&w2)), &e, &o);
                }
            }
        }
    }
    // short / long inputs (reader must report an error on fewer than 4 bytes)
    for n in 0..4usize {
        let w = vec![b'X'; n];
        ctx.case(&format!("veh {}", hex(&w)), &line(&w));
    }
    // random words
    let n = if ctx.quick() { 20_000 } else { 300_000 };
    for _ in 0..n {
        let w = [ctx.rng.byte(), ctx.rng.byte(), ctx.rng.byte(), ctx.rng.byte()];
        ctx.case(&format!("veh {}", hex(&w)), &line(&w));
        if let Some((sig, e, o)) = oracle_word(w) {
            ctx.violation(sig, "vehicle word violates C13", &format!("veh {}", hex(&w)), &e, &o);
        }
    }
    if !ctx.quick() {
        // all 2^32 words through the real reader/writer (oracle only), 16 threads
        let threads = 16u64;
        let per = (1u64 << 32) / threads;
        let handles: Vec<_> = (0..threads)
            .map(|t| {
                std::thread::spawn(move || {
                    let mut bad: Vec<(u32, &'static str, String, String)> = vec![];
                    for w in (t * per)..((t + 1) * per) {
                        if let Some((sig, e, o)) = oracle_word((w as u32).to_le_bytes()) {
                            if bad.len() < 5 {
                                bad.push((w as u32, sig, e, o));
                            }
                        }
                    }
                    bad
                })
            })
            .collect();
        for h in handles {
            for (w, sig, e, o) in h.join().unwrap() {
                ctx.violation(sig, "vehicle word violates C13", &format!("veh {}", hex(&w.to_le_bytes())), &e, &o);
            }
        }
        ctx.oracle_eval_n("all-2^32-words", 1u64 << 32);
        ctx.exhaustive_domains.push("all 2^32 four-byte words (oracle: rule, re-encode, display, no confusion)".into());
    }
}
