//! Correspondence harness: drives the real insim crates in-process, writes one operation per line
//! for the Lean model driver (`ops.txt`), the real code's canonicalised result for the same line
//! (`impl.txt`), the implementation-side oracle's findings (`oracle.jsonl`) and the input
//! distribution (`stats.json`).
pub mod common;
pub mod text;
pub mod gen_codepages;
pub mod c08;
pub mod c10;
pub mod c11;
pub mod c12;
pub mod c13;
pub mod c14;
pub mod c15;
pub mod c16;
pub mod c17;
pub mod c18;
pub mod c19;
pub mod c20;
pub mod gen_tracks;
pub mod transport;
pub mod conn;
pub mod c06;
pub mod pkt;
pub mod c01;
pub mod c02;
pub mod c03;
pub mod c04;
