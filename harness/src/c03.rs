//! C03 — every successfully encoded frame is a single well-formed frame; oversized / unrepresentable packets are refused.
use crate::c01::rt_case;
use crate::common::*;
use crate::conn::{mode_of, mode_tok};
use crate::pkt::*;
use insim::insim::*;
use insim::relay::{Hos, HostInfo};
use insim::Packet;
use insim_core::vehicle::Vehicle;
use std::net::Ipv4Addr;

fn enc_len(compressed: bool, len: usize) -> String {
    let m = mode_of(compressed);
    match guard(move || m.encode_length(len)) {
        None => "panic".into(),
        Some(Ok(n)) => format!("ok {}", n),
        Some(Err(_)) => "err".into(),
    }
}

pub fn len_case(ctx: &mut Ctx, compressed: bool, len: usize) {
    let r = enc_len(compressed, len);
    let op = format!("enc.len {} {}", mode_tok(compressed), len);
    ctx.case(&op, &r);
    let max = if compressed { 1020 } else { 255 };
    let good = len >= 4 && len <= max && (len % 4 == 0 || !compressed);
    if let Some(n) = r.strip_prefix("ok ") {
        let n: usize = n.parse().unwrap_or(9999);
        let announces = if compressed { n * 4 } else { n };
        if announces != len || len > max || len < 4 {
            ctx.violation(&format!("c03/size-byte/{}", if len > max { "beyond-limit" } else { "wrong" }), "a length was turned into a size byte that does not announce it (wrapped or out of range) instead of being refused", &op, if good { "ok" } else { "refused" }, &r);
        }
        // (in uncompressed mode encode_length has no divisibility guard; that every *frame* is a multiple of 4 long
        //  is checked on real packets below and proved from the layouts' sizes)
    } else if good {
        ctx.violation("c03/size-byte/refused-valid", "a valid frame length was refused", &op, "ok", &r);
    }
}

/// typed packets that cannot be obtained by decoding: every element count 0..=257, texts of every length
pub fn builders(n: usize, text: &str) -> Vec<(String, Packet, Option<usize>)> {
    let mut v: Vec<(String, Packet, Option<usize>)> = vec![];
    v.push(("Nlp".into(), Nlp { info: vec![NodeLapInfo::default(); n], ..Default::default() }.into(), Some(n)));
    v.push(("Mci".into(), Mci { info: vec![CompCar::default(); n], ..Default::default() }.into(), Some(n)));
    v.push(("Axm".into(), Axm { info: vec![ObjectInfo::default(); n], ..Default::default() }.into(), Some(n)));
    v.push(("Plh".into(), Plh { hcaps: vec![PlayerHandicap::default(); n], ..Default::default() }.into(), Some(n)));
    v.push(("RelayHos".into(), Hos { hinfo: vec![HostInfo::default(); n], ..Default::default() }.into(), Some(n)));
    let mut mal = Mal::default();
    for i in 0..n { let _ = mal.insert(Vehicle::Mod(0x8000_0000 + i as u32)); }
    v.push(("Mal".into(), mal.into(), Some(n)));
    let mut ipb = Ipb::default();
    for i in 0..n { let _ = ipb.insert(Ipv4Addr::from(0x0a00_0000 + i as u32)); }
    v.push(("Ipb".into(), ipb.into(), Some(n)));
    let t = text.to_string();
    v.push(("Mst".into(), Mst { msg: t.clone(), ..Default::default() }.into(), None));
    v.push(("Msx".into(), Msx { msg: t.clone(), ..Default::default() }.into(), None));
    v.push(("Msl".into(), Msl { msg: t.clone(), ..Default::default() }.into(), None));
    v.push(("Mtc".into(), Mtc { text: t.clone(), ..Default::default() }.into(), None));
    v.push(("Iii".into(), Iii { msg: t.clone(), ..Default::default() }.into(), None));
    v.push(("Acr".into(), Acr { text: t.clone(), ..Default::default() }.into(), None));
    v.push(("Btn".into(), Btn { text: t.clone(), ..Default::default() }.into(), None));
    v.push(("Mso".into(), Mso { msg: t.clone(), ..Default::default() }.into(), None));
    v.push(("Mso+name".into(), Mso { msg: t.clone(), textstart: (t.chars().count().min(3)) as u8, ..Default::default() }.into(), None));
    v.push(("Ncn".into(), Ncn { uname: t.clone(), pname: t.clone(), ..Default::default() }.into(), None));
    v.push(("Isi".into(), Isi { admin: t.clone(), iname: t.clone(), ..Default::default() }.into(), None));
    // IS_VER: a version whose printed form grows with the text length (revision of that many digits, up to what a usize
    // holds), and a product text
    let digits = t.chars().count().min(19);
    let patch = if digits == 0 { None } else { Some((0..digits).fold(0usize, |a, i| a.wrapping_mul(10).wrapping_add(1 + i % 9))) };
    v.push(("Ver".into(), Ver { version: insim::core::game_version::GameVersion { major: 0.7, minor: 'D', patch }, product: t, ..Default::default() }.into(), None));
    v
}

/// typed packets for every variant of the sub-typed kinds whose codecs are written by hand (IS_CIM: mode and sub-mode,
/// IS_SMALL: sub-type): whatever the encoder emits for one of them must decode to a packet of the same kind
pub fn variant_builders() -> Vec<(String, Packet)> {
    use std::time::Duration;
    let mut v: Vec<(String, Packet)> = vec![];
    let cim = |m: CimMode| -> Packet { Cim { mode: m, ..Default::default() }.into() };
    for (i, sm) in [CimSubModeNormal::Normal, CimSubModeNormal::WheelTemps, CimSubModeNormal::WheelDamage, CimSubModeNormal::LiveSettings, CimSubModeNormal::PitInstructions].into_iter().enumerate() {
        v.push((format!("Cim+Normal.{}", i), cim(CimMode::Normal(sm))));
    }
    for (i, sm) in [CimSubModeGarage::Info, CimSubModeGarage::Colours, CimSubModeGarage::BrakeTC, CimSubModeGarage::Susp, CimSubModeGarage::Steer, CimSubModeGarage::Drive, CimSubModeGarage::Tyres, CimSubModeGarage::Aero, CimSubModeGarage::Pass].into_iter().enumerate() {
        v.push((format!("Cim+Garage.{}", i), cim(CimMode::Garage(sm))));
    }
    for (i, sm) in [CimSubModeShiftU::Plain, CimSubModeShiftU::Buttons, CimSubModeShiftU::Edit].into_iter().enumerate() {
        for seltype in [0u8, 1, 252, 255] { v.push((format!("Cim+ShiftU.{}.{}", i, seltype), cim(CimMode::ShiftU { submode: sm, seltype }))); }
    }
    v.push(("Cim+Options".into(), cim(CimMode::Options)));
    v.push(("Cim+HostOptions".into(), cim(CimMode::HostOptions)));
    v.push(("Cim+CarSelect".into(), cim(CimMode::CarSelect)));
    v.push(("Cim+TrackSelect".into(), cim(CimMode::TrackSelect)));
    let small = |t: SmallType| -> Packet { Small { subt: t, ..Default::default() }.into() };
    v.push(("Small+None".into(), small(SmallType::None)));
    for (i, d) in [0u64, 1, 10, 1000, 65535, 4_294_967_295].into_iter().enumerate() {
        let d = Duration::from_millis(d);
        v.push((format!("Small+Ssp.{}", i), small(SmallType::Ssp(d))));
        v.push((format!("Small+Ssg.{}", i), small(SmallType::Ssg(d))));
        v.push((format!("Small+Stp.{}", i), small(SmallType::Stp(d))));
        v.push((format!("Small+Rtp.{}", i), small(SmallType::Rtp(d))));
        v.push((format!("Small+Nli.{}", i), small(SmallType::Nli(d))));
    }
    for (i, a) in [VtnAction::None, VtnAction::End, VtnAction::Restart, VtnAction::Qualify].into_iter().enumerate() { v.push((format!("Small+Vta.{}", i), small(SmallType::Vta(a)))); }
    v.push(("Small+Tms.0".into(), small(SmallType::Tms(false))));
    v.push(("Small+Tms.1".into(), small(SmallType::Tms(true))));
    for (i, bits) in [0u32, 1, 1 << 19, 0xfffff, u32::MAX].into_iter().enumerate() {
        v.push((format!("Small+Alc.{}", i), small(SmallType::Alc(PlcAllowedCarsSet::from_bits_truncate(bits)))));
        v.push((format!("Small+Lcs.{}", i), small(SmallType::Lcs(LcsFlags::from_bits_retain(bits)))));
        v.push((format!("Small+Lcl.{}", i), small(SmallType::Lcl(LclFlags::from_bits_retain(bits)))));
    }
    v
}

/// one codec, a history: a packet the encoder refuses in the middle of serialising it, then packets it accepts — every
/// accepted one is exactly its own frame, whatever the refused one left behind
pub fn codec_history_case(ctx: &mut Ctx, compressed: bool, which: usize) {
    ctx.oracle_eval("codec-history");
    let op = format!("c03.history {} {}", mode_tok(compressed), which);
    let seq = crate::c06::refused_seq(which);
    let r = guard(std::panic::AssertUnwindSafe(move || {
        #[allow(unused_mut)] let mut c = insim::net::Codec::new(mode_of(compressed));
        seq.iter().map(|p| c.encode(p).ok().map(|b| b.to_vec())).collect::<Vec<_>>()
    }));
    let sb = crate::conn::size_byte(compressed, 4);
    let want: Vec<Option<Vec<u8>>> = vec![Some(vec![sb, 3, 1, 3]), None, Some(vec![sb, 3, 2, 3]), Some(vec![sb, 3, 3, 3])];
    match r {
        Some(got) if got == want => {},
        other => ctx.violation("c03/wellformed/after-refusal", "after a refused packet the same codec does not encode the next packets as exactly their own frames", &op,
            &format!("{:?}", want.iter().map(|o| o.as_ref().map(|b| hex(b))).collect::<Vec<_>>()), &format!("{:?}", other.map(|v| v.iter().map(|o| o.as_ref().map(|b| hex(b))).collect::<Vec<_>>()))),
    }
}

pub fn wellformed_case(ctx: &mut Ctx, ls: &Layouts, compressed: bool, label: &str, p: &Packet, elems: Option<usize>, detail: &str) {
    ctx.oracle_eval(&format!("wellformed-{}", label.split('+').next().unwrap_or(label)));
    let input = format!("c03.build {} {} {}", mode_tok(compressed), label, detail);
    let max = if compressed { 1020 } else { 255 };
    match real_encode(compressed, p) {
        None | Some(Err(())) => {
            // refused loudly: fine — unless the packet was perfectly representable
            let size_ok = match elems { Some(n) => n <= 255, None => true };
            let _ = size_ok;
        },
        Some(Ok(f)) => {
            let sig = |what: &str| format!("c03/wellformed/{}/{}", label.split('+').next().unwrap_or(label), what);
            if f.len() % 4 != 0 || f.len() < 4 || f.len() > max {
                ctx.violation(&sig("length"), "an encoded frame's length is not a multiple of 4 between 4 and the mode's limit", &input, "multiple of 4 within the limit", &format!("{} bytes: {}", f.len(), truncate(&hex(&f), 80)));
                return;
            }
            let announced = if compressed { f[0] as usize * 4 } else { f[0] as usize };
            if announced != f.len() {
                ctx.violation(&sig("size-byte"), "the size byte does not announce the frame's length", &input, &f.len().to_string(), &announced.to_string());
                return;
            }
            if let Some(n) = elems {
                if f[3] as usize != n {
                    ctx.violation(&sig("count-byte"), "the element-count byte does not equal the number of elements that follow", &input, &n.to_string(), &f[3].to_string());
                    return;
                }
            }
            match real_decode(compressed, &f) {
                Dec::Pkt(p2, 0) => {
                    let k1 = canon_packet(ls, p).split(' ').next().unwrap_or("").to_string();
                    let k2 = canon_packet(ls, &p2).split(' ').next().unwrap_or("").to_string();
                    if k1 != k2 { ctx.violation(&sig("kind"), "decoding the frame returns a packet of another kind", &input, &k1, &k2); }
                },
                Dec::Pkt(_, rem) => ctx.violation(&sig("not-consumed"), "decoding the frame does not consume it completely", &input, "rem=0", &format!("rem={}", rem)),
                _ => ctx.violation(&sig("undecodable"), "the encoder's frame does not decode", &input, "a packet", &truncate(&hex(&f), 80)),
            }
        },
    }
}

/// a packet that was itself obtained by decoding never makes the encoder abort
pub fn redecode_case(ctx: &mut Ctx, ls: &Layouts, compressed: bool, frame: &[u8], stable_text: bool) {
    if stable_text { rt_case(ctx, ls, compressed, frame, true); } else { ctx.oracle_eval("redecode"); }
    if let Dec::Pkt(p, _) = real_decode(compressed, frame) {
        let kind = canon_packet(ls, &p).split(' ').next().unwrap_or("?").to_string();
        match real_encode(compressed, &p) {
            None => ctx.violation(&format!("c03/redecode-abort/{}", kind), "a packet obtained by decoding made the encoder abort", &format!("c03.redecode {}", frame_text(compressed, frame)), "bytes or an error", "panic"),
            Some(Ok(f)) => {
                let max = if compressed { 1020 } else { 255 };
                if f.len() % 4 != 0 || f.len() < 4 || f.len() > max {
                    ctx.violation(&format!("c03/wellformed/{}/length", kind), "an encoded frame's length is not a multiple of 4 between 4 and the mode's limit", &format!("pkt.rt {}", frame_text(compressed, frame)), "multiple of 4 within the limit", &format!("{} bytes", f.len()));
                }
            },
            Some(Err(())) => {},
        }
    }
}

pub fn run(ctx: &mut Ctx) {
    let ls = load_layouts();
    if let Some(lines) = ctx.replay.clone() {
        for l in lines {
            let w: Vec<&str> = l.split_whitespace().collect();
            match w.as_slice() {
                ["enc.len", m, n] => len_case(ctx, *m == "c", n.parse().unwrap_or(0)),
                ["pkt.rt", m, h] => redecode_case(ctx, &ls, *m == "c", &unhex(h), true),
                // oracle only: inputs outside the model's value space (e.g. MSO names longer than 255 UTF-8 bytes)
                ["c03.redecode", m, h] => redecode_case(ctx, &ls, *m == "c", &unhex(h), false),
                ["c03.history", m, w] => codec_history_case(ctx, *m == "c", w.parse().unwrap_or(0)),
                ["c03.build", m, label, "variant"] => { for (lab, p) in variant_builders() { if lab == *label { wellformed_case(ctx, &ls, *m == "c", label, &p, None, "variant"); } } },
                ["c03.build", m, label, detail] => {
                    let (n, tl): (usize, usize) = { let mut it = detail.split(','); (it.next().and_then(|x| x.trim_start_matches("n=").parse().ok()).unwrap_or(0), it.next().and_then(|x| x.trim_start_matches("text=").parse().ok()).unwrap_or(0)) };
                    // a text given by its code points (`cps=`) is rebuilt exactly; otherwise `text=<len>` means that many 'a'
                    let text = detail.split(',').find_map(|x| x.strip_prefix("cps=")).map(|c| crate::text::from_cps(&c.replace(';', ","))).unwrap_or_else(|| "a".repeat(tl));
                    let base = label.split('+').next().unwrap_or(label);
                    for (lab, p, e) in builders(n, &text) { if lab == base { wellformed_case(ctx, &ls, *m == "c", label, &p, e, detail); } }
                },
                _ => {},
            }
        }
        return;
    }
    let quick = ctx.quick();
    for compressed in [true, false] {
        for len in 0..=(if quick { 1300 } else { 5000 }) { len_case(ctx, compressed, len); }
        for len in [2040usize, 2044, 4080, 4084, 4096, 65536, 65540, 1 << 20] { len_case(ctx, compressed, len); }
        ctx.exhaustive_domains.push(format!("every body length 0..={} through Mode::encode_length, mode {}", if quick { 1300 } else { 5000 }, mode_tok(compressed)));
        // element counts 0..=257 and texts of every length 0..2x the largest width
        // a refused packet in the history of the codec
        for which in 0..4 { codec_history_case(ctx, compressed, which); }
        // every variant of the hand-coded sub-typed kinds
        for (lab, p) in variant_builders() { wellformed_case(ctx, &ls, compressed, &lab, &p, None, "variant"); }
        for n in 0..=257usize {
            if quick && n > 45 && n % 9 != 0 && n < 250 { continue; }
            for (lab, p, e) in builders(n, "") { if e.is_some() { wellformed_case(ctx, &ls, compressed, &lab, &p, e, &format!("n={},text=0", n)); } }
        }
        for tl in 0..=(if quick { 270 } else { 500 }) {
            if quick && tl > 140 && tl % 7 != 0 { continue; }
            for (lab, p, e) in builders(0, &"a".repeat(tl)) { if e.is_none() { wellformed_case(ctx, &ls, compressed, &lab, &p, e, &format!("n=0,text={}", tl)); } }
            // multi-byte text whose encoded length differs from its character count
            if tl % 5 == 0 {
                let t: String = "ě".repeat(tl / 2) + &"a".repeat(tl % 3);
                for (lab, p, e) in builders(0, &t) { if e.is_none() { wellformed_case(ctx, &ls, compressed, &format!("{}+mb", lab), &p, e, &format!("n=0,text={}", tl)); } }
            }
        }
        // characters beyond the basic multilingual plane (an emoji typed by a user; the four-byte GB18030 sequences and the
        // HKSCS pairs that the ^S / ^H decoders turn into plane-1 / plane-2 characters): sent as '?', never an abort
        for t in ["\u{1f600}", "a\u{10000}b", "\u{27267}", "ok \u{1f3c1} go", "\u{10ffff}"] {
            for (lab, p, e) in builders(0, t) { if e.is_none() { wellformed_case(ctx, &ls, compressed, &format!("{}+astral", lab), &p, e, &format!("n=0,cps={}", crate::text::cps(t).replace(',', ";"))); } }
        }
        for body in [&b"^S\x90\x30\x81\x30"[..], b"^H\x87\x45", b"x^S\x90\x30\x81\x30y\0\0", b"^S\xfe\x39\xfe\x39"] {
            // IS_MSO (type 11), IS_III (12), IS_MTC (14): header + text, NUL-padded to a multiple of 4
            for (ty, hdr) in [(11u8, vec![0u8, 0, 0, 0, 0, 0]), (12, vec![0u8, 0, 0, 0, 0, 0]), (14, vec![0u8, 0, 0, 0, 0, 0])] {
                let mut f = vec![0u8, ty]; f.extend_from_slice(&hdr); f.extend_from_slice(body);
                while f.len() % 4 != 0 { f.push(0); }
                f[0] = crate::conn::size_byte(compressed, f.len());
                redecode_case(ctx, &ls, compressed, &f, false);
            }
        }
        // texts whose byte just before / at / after each field width is a caret (a colour code, an escape or a codepage
        // marker cut in half by the width): whatever the writer does about it, the frame stays well formed
        for w in [6usize, 8, 16, 24, 32, 64, 96, 128, 240] {
            for k in w.saturating_sub(3)..=(w + 2) {
                for tail in ["^1 and some more text", "^^", "^", "^Lx", "\u{11b} more"] {
                    let t: String = "a".repeat(k) + tail;
                    for (lab, p, e) in builders(0, &t) { if e.is_none() { wellformed_case(ctx, &ls, compressed, &format!("{}+caret", lab), &p, e, &format!("n=0,cps={}", crate::text::cps(&t).replace(',', ";"))); } }
                }
            }
        }
        ctx.exhaustive_domains.push(format!("element counts 0..=257 for the seven counted kinds; text lengths 0..={} for the eleven text-bearing builders, mode {}", if quick { 270 } else { 500 }, mode_tok(compressed)));
        // MSO frames whose name part decodes to more UTF-8 bytes than a u8 can count (textstart wraps)
        for name_len in (100usize..=240).step_by(if quick { 7 } else { 1 }) {
            for extra in [0usize, 1, 2] {
                let mut f = vec![0u8, 11, 0, 0, 1, 2, 1, (name_len + extra) as u8];
                f.extend(std::iter::repeat(0xE9u8).take(name_len));
                f.extend(std::iter::repeat(b'a').take(extra));
                f.extend_from_slice(b"hi");
                while f.len() % 4 != 0 { f.push(0); }
                if f.len() > (if compressed { 1020 } else { 252 }) { continue; }
                f[0] = crate::conn::size_byte(compressed, f.len());
                redecode_case(ctx, &ls, compressed, &f, false);
            }
        }
        // every row of the two name tables (track configurations, cars) in every kind that carries one
        for f in name_table_frames(&ls, compressed) { redecode_case(ctx, &ls, compressed, &f, true); }
        // packets obtained by decoding accepted frames (valid and wild) are re-encoded
        for l in ls.kinds.clone().iter() {
            for i in 0..(if quick { 25 } else { 800 }) {
                let o = GenOpts { wild: if i % 3 == 0 { 25 } else { 0 }, text: 0, count: if i % 5 == 0 { Some(i % 9) } else { None } };
                let f = gen_frame(&mut ctx.rng, l, compressed, &o);
                redecode_case(ctx, &ls, compressed, &f, o.wild == 0);
                // odd trailing garbage / padded frames as LFS sends them
                let mut g = f.clone();
                g.extend_from_slice(&[0, 0, 0, 0]);
                g[0] = crate::conn::size_byte(compressed, g.len());
                if g.len() <= (if compressed { 1020 } else { 252 }) { redecode_case(ctx, &ls, compressed, &g, false); }
            }
        }
    }
}
